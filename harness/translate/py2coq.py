"""py2coq — a fail-closed translator from a small, typed subset of Python to Gallina.

It regenerates, on every run, Coq definitions of *kernel* methods of /repo (pure
arithmetic / decision logic on scalar, optional, record, dict and list state) so
that the theorems of the hand-written models are re-checked against what the
code says NOW: for every translated method, `coq/Cxx/GenTie.v` proves that the
regenerated definition equals (or refines, through an abstraction function) the
hand-written model the property theorems are about.  A source edit changes the
regenerated term; the tie lemma then either still goes through (harmless
rewrite) or breaks (and the check searches for a failing input).

Fail-closed: every AST node outside the subset raises `Unsupported`, which the
caller reports as a broken obligation.  Nothing is guessed.

Subset (everything else is rejected):
  types   Z (int), I/D (Instant / Duration, integer ns, emitted as Z), F (float, emitted over the
          `numops` section variable O of C10), B, unit, opt T, struct <Class>, dict (Z -> Z, insertion
          ordered association list), list T, str ids declared as Z
  stmts   assignment to a local / self.field / self.dictfield[k]; augmented assignment; if/elif/else
          (conditions with and/or/not are desugared into nested ifs, which is exactly Python's
          short-circuit evaluation); return; raise (only before any mutation of self); expression
          statements that call self.<translated method>, list.append, list.pop(0);
          `for k, v in <dict>.items():` / `for k in <list or sorted keys>:` without break/return;
          `while L and L[0] < c: L.pop(0)` (recognised as drop-while); docstrings; pass
  exprs   names, int/float/bool/None constants, + - * // % on Z, + - * / on F, comparisons and
          comparison chains, tuple comparisons (lexicographic), max/min, not, `x is None`,
          `x is not None`, `e1 if c else e2`, attribute reads of fields, calls of translated
          methods / struct constructors / oracle callables (one extra parameter per call site),
          d.get(k, dflt), d[k], k in d, len(l), l[0], Instant/Duration idioms of core/temporal.py
"""
from __future__ import annotations

import ast
import os
import textwrap


def it_name(s):
    return s.iter.id


class Unsupported(Exception):
    pass


def _u(node, why):
    ln = getattr(node, "lineno", "?")
    try:
        src = ast.unparse(node)[:80]
    except Exception:  # noqa: BLE001
        src = type(node).__name__
    raise Unsupported(f"line {ln}: {why}: `{src}`")


# ---------------------------------------------------------------- types
def is_opt(t):
    return isinstance(t, tuple) and t[0] == "opt"


def parse_ty(s):
    s = s.strip()
    if s.startswith("opt "):
        return ("opt", parse_ty(s[4:]))
    if s.startswith("list "):
        return ("list", parse_ty(s[5:]))
    return s


ZLIKE = ("Z", "I", "D")


def coq_ty(t):
    if t in ZLIKE:
        return "Z"
    if t == "F":
        return "(num O)"
    if t == "B":
        return "bool"
    if t == "unit":
        return "unit"
    if t == "dict":
        return "(list (Z * Z))"
    if t == "cap":
        return "(option Z)"
    if isinstance(t, tuple) and t[0] == "opt":
        return f"(option {coq_ty(t[1])})"
    if isinstance(t, tuple) and t[0] == "list":
        return f"(list {coq_ty(t[1])})"
    if isinstance(t, tuple) and t[0] == "tuple":
        return "(" + " * ".join(coq_ty(x) for x in t[1]) + ")"
    return t  # struct name


class Cls:
    def __init__(self, spec, tree):
        self.name = spec["cls"]
        self.fields = {k: parse_ty(v) for k, v in spec["fields"].items()}
        self.methods = spec["methods"]            # name -> {params: {n: ty}, pure: bool, ret: ty?}
        self.oracles = {k: parse_ty(v) for k, v in spec.get("oracles", {}).items()}
        self.total_ordering = spec.get("total_ordering", False)
        self.consts = spec.get("consts", {})      # attribute name -> (coq text, type): configuration read-only fields
        self.heaps = set(spec.get("heaps", ()))   # list fields only touched through heapq (rendered as sorted lists)
        self.oracle_fns = set(spec.get("oracle_fns", ()))
        self.noop_methods = set(spec.get("noop_methods", ()))
        self.dataclass_order = spec.get("dataclass_order", False)
        self.node = None
        for n in ast.walk(tree):
            if isinstance(n, ast.ClassDef) and n.name == self.name:
                self.node = n
        if self.node is None:
            raise Unsupported(f"class {self.name} not found")
        self.defs = {n.name: n for n in self.node.body if isinstance(n, ast.FunctionDef)}

    def fld(self, f):
        return f"{self.name}_{f}"


class Translator:
    def __init__(self, classes: dict[str, Cls], float_consts=None):
        self.classes = classes
        self.sigs = {}      # (cls, method) -> (param list [(name, ty)], ret ty, pure, raises, oracle params)
        self.float_consts = float_consts or {}
        self.fresh = 0
        self.extra_defs = []
        self.static_isinstance = False

    def gensym(self, base):
        self.fresh += 1
        return f"{base}_{self.fresh}"

    def dataclass_lt(self, cls: Cls) -> str:
        """`@dataclass(order=True)`: the generated __lt__ compares, lexicographically and in declaration order, the
        fields that are not declared with field(compare=False).  Read from the class body, so that a change of the
        decorator, of the field order or of a compare flag changes the regenerated definition."""
        n = cls.node
        ok = False
        for d in n.decorator_list:
            if isinstance(d, ast.Call) and ast.unparse(d.func) in ("dataclass", "dataclasses.dataclass"):
                for kw in d.keywords:
                    if kw.arg == "order" and isinstance(kw.value, ast.Constant) and kw.value.value is True:
                        ok = True
                    elif kw.arg not in ("order", "frozen", "slots"):
                        raise Unsupported(f"{cls.name}: dataclass option {kw.arg}")
        if not ok:
            raise Unsupported(f"{cls.name}: not a dataclass(order=True)")
        if any(m in cls.defs for m in ("__lt__", "__le__", "__gt__", "__ge__", "__eq__")):
            raise Unsupported(f"{cls.name}: dataclass with hand-written comparison methods")
        names, cmpf = [], []
        for st in n.body:
            if isinstance(st, ast.AnnAssign) and isinstance(st.target, ast.Name):
                names.append(st.target.id)
                compare = True
                if st.value is not None:
                    v = st.value
                    if not (isinstance(v, ast.Call) and ast.unparse(v.func) in ("field", "dataclasses.field")):
                        raise Unsupported(f"{cls.name}.{st.target.id}: default value")
                    for kw in v.keywords:
                        if kw.arg == "compare" and isinstance(kw.value, ast.Constant):
                            compare = bool(kw.value.value)
                        else:
                            raise Unsupported(f"{cls.name}.{st.target.id}: field option {kw.arg}")
                if compare:
                    cmpf.append(st.target.id)
            elif isinstance(st, ast.Expr) and isinstance(st.value, ast.Constant):
                continue
            elif isinstance(st, ast.FunctionDef):
                continue
            else:
                raise Unsupported(f"{cls.name}: class body statement `{ast.unparse(st)[:60]}`")
        if names != list(cls.fields):
            raise Unsupported(f"{cls.name}: dataclass fields {names} differ from the declared fields {list(cls.fields)}")
        if not cmpf or any(cls.fields[f] not in ZLIKE for f in cmpf):
            raise Unsupported(f"{cls.name}: compared fields must be integers")
        txt = "false"
        for f in reversed(cmpf):
            a, b = f"({cls.fld(f)} self)", f"({cls.fld(f)} other)"
            txt = f"(({a} <? {b}) || (({a} =? {b}) && {txt}))"
        self.sigs[(cls.name, "__lt__")] = ([("other", cls.name)], "B", True, False, [])
        cls.methods = dict(cls.methods, __lt__=dict(params={"other": cls.name}, pure=True, synthetic=True))
        return (f"(** generated by @dataclass(order=True): lexicographic on ({', '.join(cmpf)}) *)\n"
                f"Definition {cls.name}___lt__ (self : {cls.name}) (other : {cls.name}) : bool :=\n  {txt}.\n")

    # ------------------------------------------------------------ methods
    def method(self, cls: Cls, name: str) -> str:
        spec = cls.methods[name] or {}
        # "meth#variant": the same Python method translated under another declared parameter type (a method that
        # dispatches on isinstance(other, ...) has one translation per argument class)
        fn = cls.defs.get(name.split("#")[0])
        if fn is None:
            raise Unsupported(f"{cls.name}.{name} not found")
        decos = [ast.unparse(d) for d in fn.decorator_list]
        if any(d not in ("property",) for d in decos):
            raise Unsupported(f"{cls.name}.{name}: decorator {decos}")
        a = fn.args
        if a.vararg or a.kwarg or a.kwonlyargs or a.posonlyargs:
            raise Unsupported(f"{cls.name}.{name}: unusual parameters")
        pnames = [x.arg for x in a.args]
        if not pnames or pnames[0] != "self":
            raise Unsupported(f"{cls.name}.{name}: not a method")
        ptys = {k: parse_ty(v) for k, v in spec.get("params", {}).items()}
        params = []
        for p in pnames[1:]:
            if p not in ptys:
                raise Unsupported(f"{cls.name}.{name}: parameter {p} has no declared type")
            params.append((p, ptys[p]))
        pure = bool(spec.get("pure"))
        m = MethodCtx(self, cls, name, params, pure, parse_ty(spec["ret"]) if "ret" in spec else None)
        body = list(fn.body)
        n_extra = len(self.extra_defs)
        text = m.block(body, m.initial_env(), "method")
        ret = m.ret_ty or "unit"
        oracle_params = m.oracle_params
        self.sigs[(cls.name, name)] = (params, ret, pure, m.raises, list(oracle_params))
        args = " ".join([f"(self : {cls.name})"] + [f"({p} : {coq_ty(t)})" for p, t in params]
                        + [f"({p} : {coq_ty(t)})" for p, t in oracle_params])
        rty = coq_ty(ret) if pure else f"({cls.name} * {coq_ty(ret)})"
        if m.raises:
            rty = f"(option {rty})"
        return "".join(self.extra_defs[n_extra:]) + f"Definition {cls.name}_{name.replace('#', '_')} {args} : {rty} :=\n{textwrap.indent(text, '  ')}.\n"


class Env:
    """Translation-time environment: local types, narrowings of optional access paths."""

    def __init__(self, locals_, narrow, mutated=False, known_in=()):
        self.locals = dict(locals_)       # python name -> type
        self.narrow = dict(narrow)        # access path -> (coq var, inner type)
        self.mutated = mutated            # self has been assigned (raise no longer allowed)
        self.known_in = set(known_in)     # (dict source text, key name) established by an enclosing `if k in d`

    def copy(self):
        return Env(self.locals, self.narrow, self.mutated, self.known_in)


class MethodCtx:
    def __init__(self, tr: Translator, cls: Cls, name, params, pure, ret_ty):
        self.tr, self.cls, self.name, self.params, self.pure = tr, cls, name, params, pure
        self.ret_ty = ret_ty
        self.raises = False
        self.oracle_params = []
        self._uses_raise = self._scan_raise()

    def _scan_raise(self):
        fn = self.cls.defs[self.name.split("#")[0]]
        # the l[0] inside `while l and l[0] < c` (drop-while idiom) is guarded by the truthiness test: not a raising read
        guarded = {id(x) for w in ast.walk(fn) if isinstance(w, ast.While) for x in ast.walk(w.test)}
        # (the pop(0) of the drop-while idiom is guarded by its own loop test; other while loops are rejected anyway)
        inwhile = {id(x) for w in ast.walk(fn) if isinstance(w, ast.While) for x in ast.walk(w)}
        return any(isinstance(n, ast.Raise) for n in ast.walk(fn)) or self._calls_raising(fn) \
            or any(self._list_pop(n) is not None and id(n) not in inwhile for n in ast.walk(fn)) \
            or any(isinstance(n, ast.Delete) or self._next_iter(n, None) for n in ast.walk(fn)) \
            or any(isinstance(n, ast.Call) and isinstance(n.func, ast.Name) and n.func.id in ("min", "max") and len(n.args) == 1
                   and isinstance(n.args[0], ast.Call) and isinstance(n.args[0].func, ast.Attribute) and n.args[0].func.attr == "values"
                   for n in ast.walk(fn)) \
            or any(self._struct_field_call(n) is not None and self.tr.sigs[(self._struct_field_call(n)[1].name, self._struct_field_call(n)[2])][3]
                   for n in ast.walk(fn)) \
            or any(self._is_dict_read(n, None) and id(n) not in guarded for n in ast.walk(fn)) \
            or any(isinstance(n, ast.AugAssign) and self._is_dict_read(self._as_load(n.target), None) for n in ast.walk(fn))

    def _is_dict_read(self, n, env):
        """d[k] / l[i] in load context where d (l) is a dict- (list-) typed field of self or parameter/local:
        a read that can raise KeyError / IndexError."""
        if not (isinstance(n, ast.Subscript) and isinstance(n.ctx, ast.Load)) or isinstance(n.slice, ast.Slice):
            return False
        v = n.value
        if env is not None and isinstance(n.slice, ast.Name) and (ast.unparse(v), n.slice.id) in env.known_in:
            return False
        t = None
        if isinstance(v, ast.Attribute) and isinstance(v.value, ast.Name) and v.value.id == "self":
            t = self.cls.fields.get(v.attr)
        elif isinstance(v, ast.Name):
            t = env.locals.get(v.id) if env is not None else dict(self.params).get(v.id)
        return t == "dict" or (isinstance(t, tuple) and t[0] == "list")

    def _list_pop(self, e):
        """self.<list field>.popleft() / .pop() / .pop(0) / heapq.heappop(self.<list field>) used for its VALUE
        -> (field, 'first' | 'last'); an empty list is an IndexError (the method result is None)."""
        if not isinstance(e, ast.Call) or e.keywords:
            return None

        def fld(x):
            if isinstance(x, ast.Attribute) and isinstance(x.value, ast.Name) and x.value.id == "self":
                ft = self.cls.fields.get(x.attr)
                if isinstance(ft, tuple) and ft[0] == "list":
                    return x.attr
            return None
        if isinstance(e.func, ast.Attribute) and ast.unparse(e.func) == "heapq.heappop" and len(e.args) == 1:
            f = fld(e.args[0])
            return (f, "first") if f and f in self.cls.heaps else None
        if isinstance(e.func, ast.Attribute):
            f = fld(e.func.value)
            if f is None or f in self.cls.heaps:
                return None
            if e.func.attr == "popleft" and not e.args:
                return (f, "first")
            if e.func.attr == "pop" and len(e.args) == 1 and isinstance(e.args[0], ast.Constant) and e.args[0].value == 0:
                return (f, "first")
            if e.func.attr == "pop" and not e.args:
                return (f, "last")
        return None

    def pop_bind(self, f, end, var, k):
        """bind `var` to the element removed from list field f, continue with text k (self already updated)."""
        self.raises = True
        fld = self.cls.fld(f)
        if end == "first":
            return (f"match {fld} self with\n| [] => None\n| {var} :: rest_ =>\n"
                    f"    let self := set_{fld} self rest_ in\n{textwrap.indent(k, '    ')}\nend")
        return (f"match py_pop_last ({fld} self) with\n| None => None\n| Some (rest_, {var}) =>\n"
                f"    let self := set_{fld} self rest_ in\n{textwrap.indent(k, '    ')}\nend")

    def hoist_dict_reads(self, nodes, env):
        """Replace every d[k] read inside `nodes` by a fresh local; returns (new nodes, env', [(var, d_txt, k_txt)]).
        A missing key is Python's KeyError: the method result is None (exception; object state not described)."""
        import copy
        binds = []
        env2 = env.copy()
        ctx = self

        class R(ast.NodeTransformer):
            def visit_Subscript(self, n):
                n = self.generic_visit(n)
                if ctx._is_dict_read(n, env2):
                    if isinstance(n.value, ast.Attribute) and n.value.attr in ctx.cls.heaps \
                            and not (isinstance(n.slice, ast.Constant) and n.slice.value == 0):
                        _u(n, "a heap field may only be read at position 0")
                    d, dt = ctx.expr(n.value, env2)
                    k, kt = ctx.expr(n.slice, env2)
                    if kt not in ZLIKE:
                        _u(n, "dict key / list index must be Z")
                    v = ctx.tr.gensym("dv")
                    env2.locals[v] = "Z" if dt == "dict" else dt[1]
                    binds.append((v, d, k, "dfind" if dt == "dict" else "py_index"))
                    return ast.copy_location(ast.Name(id=v, ctx=ast.Load()), n)
                return n
        out = [R().visit(copy.deepcopy(x)) for x in nodes]
        return out, env2, binds

    def wrap_binds(self, binds, txt):
        for v, d, k, fn in reversed(binds):
            txt = f"match {fn} {d} {k} with\n| None => None\n| Some {v} =>\n{textwrap.indent(txt, '    ')}\nend"
        return txt

    def _calls_raising(self, fn):
        for n in ast.walk(fn):
            if isinstance(n, ast.Call) and isinstance(n.func, ast.Attribute) and isinstance(n.func.value, ast.Name) \
                    and n.func.value.id == "self":
                s = self.tr.sigs.get((self.cls.name, n.func.attr))
                if s and s[3]:
                    return True
            if isinstance(n, ast.Call) and isinstance(n.func, ast.Attribute) and isinstance(n.func.value, ast.Attribute) \
                    and isinstance(n.func.value.value, ast.Name) and n.func.value.value.id == "self":
                ft = self.cls.fields.get(n.func.value.attr)
                s = self.tr.sigs.get((ft, n.func.attr)) if isinstance(ft, str) else None
                if s and s[3]:
                    return True
        return False

    def initial_env(self):
        return Env({p: t for p, t in self.params}, {})

    # ------------------------------------------------------------ results
    def wrap(self, txt):
        return f"Some {txt}" if self._uses_raise else txt

    def result(self, val_txt):
        self.raises = self._uses_raise
        if self.pure:
            return self.wrap(val_txt if not self._uses_raise else f"({val_txt})")
        return self.wrap(f"(self, {val_txt})")

    def set_ret(self, t, node):
        if t is None:
            return
        if self.ret_ty is None:
            self.ret_ty = t
        elif self.ret_ty != t:
            if is_opt(self.ret_ty) and (t == self.ret_ty[1] or t == "none"):
                return
            if self.ret_ty in ZLIKE and t in ZLIKE:
                return
            _u(node, f"return type {t} differs from {self.ret_ty}")

    # ------------------------------------------------------------ blocks
    def block(self, stmts, env: Env, mode) -> str:
        """mode: 'method' (falls off the end = return None) or 'loop' (ends with the loop state)."""
        if not stmts:
            if mode == "loop":
                return "self"
            if isinstance(mode, tuple) and mode[0] == "locloop":
                return "(" + ", ".join(list(mode[1]) + ["false"]) + ")"
            if isinstance(mode, tuple) and mode[0] == "gloop":
                return self.gloop_exit(mode, "false")
            self.set_ret("unit", None)
            return self.result("tt")
        s, rest = stmts[0], stmts[1:]
        if isinstance(s, ast.Expr) and isinstance(s.value, ast.Constant) and isinstance(s.value.value, str):
            return self.block(rest, env, mode)     # docstring
        if isinstance(s, ast.Pass):
            return self.block(rest, env, mode)
        if isinstance(s, ast.Break):
            if isinstance(mode, tuple) and mode[0] == "locloop":
                return "(" + ", ".join(list(mode[1]) + ["true"]) + ")"
            if isinstance(mode, tuple) and mode[0] == "gloop":
                return self.gloop_exit(mode, "true")
            _u(s, "break outside a local-state for loop")
        if isinstance(s, ast.Continue):
            if isinstance(mode, tuple) and mode[0] == "gloop":
                return self.gloop_exit(mode, "false")
            _u(s, "continue outside a state loop")
        if isinstance(s, ast.Assign) and len(s.targets) == 1 and isinstance(s.targets[0], ast.Name) \
                and isinstance(s.value, ast.Call) and isinstance(s.value.func, ast.Name) and s.value.func.id in ("min", "max") \
                and len(s.value.args) == 1 and not s.value.keywords and isinstance(s.value.args[0], ast.Call) \
                and isinstance(s.value.args[0].func, ast.Attribute) and s.value.args[0].func.attr == "values":
            # m = min(d.values()): ValueError on an empty dict
            d, dt = self.expr(s.value.args[0].func.value, env)
            if dt != "dict":
                _u(s, "min/max of the values of a non-dict")
            if not self._uses_raise:
                _u(s, "min(d.values()) in a method not scanned as raising")
            v = s.targets[0].id
            env2 = env.copy()
            env2.locals[v] = "Z"
            env2.narrow.pop(v, None)
            self.raises = True
            fn = "py_min_list" if s.value.func.id == "min" else "py_max_list"
            k = self.block(rest, env2, mode)
            return f"match {fn} (map snd {d}) with\n| None => None\n| Some {v} =>\n{textwrap.indent(k, '    ')}\nend"
        # x = self.<struct field>.<method>(...): a pure method that may raise, or a state-changing one returning a value
        if isinstance(s, ast.Assign) and len(s.targets) == 1 and isinstance(s.targets[0], ast.Name) \
                and self._struct_field_call(s.value) is not None:
            f, fc, meth = self._struct_field_call(s.value)
            params, ret, pure, raises, oracles = self.tr.sigs[(fc.name, meth)]
            if (pure and not raises) or oracles or s.value.keywords or len(s.value.args) != len(params):
                pass            # the ordinary expression path handles pure total calls
            else:
                args = [self.coerce(*self.expr(a, env, pt), pt, s) for a, (_, pt) in zip(s.value.args, params)]
                callee = f"({fc.name}_{meth} ({self.cls.fld(f)} self) {' '.join(args)})".replace(" )", ")")
                v = s.targets[0].id
                env2 = env.copy()
                env2.locals[v] = ret
                env2.narrow.pop(v, None)
                env2.known_in = {x for x in env2.known_in if x[1] != v}
                if raises and not self._uses_raise:
                    _u(s, "raising call in a method not scanned as raising")
                if pure:
                    k = self.block(rest, env2, mode)
                    self.raises = True
                    return f"match {callee} with\n| None => None\n| Some {v} =>\n{textwrap.indent(k, '    ')}\nend"
                if self.pure:
                    _u(s, "pure method calls a state-changing method of a field")
                env2.mutated = True
                env2.narrow = {p: w for p, w in env2.narrow.items() if not p.startswith("self.")}
                tmp = self.tr.gensym("fld")
                k = f"let self := set_{self.cls.fld(f)} self {tmp} in\n" + self.block(rest, env2, mode)
                if raises:
                    self.raises = True
                    return f"match {callee} with\n| None => None\n| Some ({tmp}, {v}) =>\n{textwrap.indent(k, '    ')}\nend"
                return f"let '({tmp}, {v}) := {callee} in\n{k}"
        if isinstance(s, ast.AugAssign):
            load = self._as_load(s.target)
            s = ast.copy_location(ast.Assign(targets=[s.target], value=ast.BinOp(left=load, op=s.op, right=s.value), lineno=s.lineno), s)
        if isinstance(s, (ast.Return, ast.Assign, ast.AnnAssign, ast.Expr)) and \
                any(self._is_dict_read(n, env) for n in ast.walk(s)):
            if isinstance(s, ast.Return):
                (v2,), env2, binds = self.hoist_dict_reads([s.value], env)
                s2 = ast.copy_location(ast.Return(value=v2), s)
            elif isinstance(s, ast.Expr):
                (v2,), env2, binds = self.hoist_dict_reads([s.value], env)
                s2 = ast.copy_location(ast.Expr(value=v2), s)
            else:
                tgt = s.targets[0] if isinstance(s, ast.Assign) else s.target
                # the target's own subscript (store context) is not a read; its key expression may contain reads
                (v2,), env2, binds = self.hoist_dict_reads([s.value], env)
                s2 = ast.copy_location(ast.Assign(targets=[tgt], value=v2, lineno=s.lineno), s)
            if mode != "method":
                _u(s, "d[k] read inside a loop body")
            return self.wrap_binds(binds, self.block([s2] + list(rest), env2, mode))
        if isinstance(s, (ast.Return, ast.Assign, ast.Expr)) and self._list_pop(getattr(s, "value", None)) is not None:
            # x = self.L.popleft() / return self.L.pop() / x = heapq.heappop(self.H): remove and bind the element
            if self.pure:
                _u(s, "pure method removes a list element")
            if mode != "method":
                _u(s, "list pop inside a loop")
            f, end = self._list_pop(s.value)
            ft = self.cls.fields[f]
            env2 = env.copy()
            env2.mutated = True
            env2.narrow = {p: v for p, v in env2.narrow.items() if not p.startswith("self.")}
            if isinstance(s, ast.Assign):
                if not (len(s.targets) == 1 and isinstance(s.targets[0], ast.Name)) or s.targets[0].id == "self":
                    _u(s, "popped element assigned to a non-local")
                v = s.targets[0].id
                env2.locals[v] = ft[1]
                env2.narrow.pop(v, None)
                return self.pop_bind(f, end, v, self.block(rest, env2, mode))
            v = self.tr.gensym("popped")
            env2.locals[v] = ft[1]
            if isinstance(s, ast.Expr):
                return self.pop_bind(f, end, v, self.block(rest, env2, mode))
            ret = ast.copy_location(ast.Return(value=ast.Name(id=v, ctx=ast.Load())), s)
            return self.pop_bind(f, end, v, self.block([ret], env2, mode))
        if isinstance(s, (ast.Return, ast.Assign)) and self._is_impure_self_call(getattr(s, "value", None)):
            # `return self.m(..)` / `x = self.m(..)` with a state-changing m: bind the new self and the result
            if isinstance(s, ast.Assign) and not (len(s.targets) == 1 and isinstance(s.targets[0], ast.Name)):
                _u(s, "result of a state-changing call assigned to a non-local")
            call, rt, _ = self.self_call(s.value, env)
            env2 = env.copy()
            env2.mutated = True
            env2.narrow = {p: v for p, v in env2.narrow.items() if not p.startswith("self.")}
            if isinstance(s, ast.Return):
                if mode != "method":
                    _u(s, "return inside a loop")
                v = self.tr.gensym("r")
                env2.locals[v] = rt
                ret = ast.copy_location(ast.Return(value=ast.Name(id=v, ctx=ast.Load())), s)
                return self.bind_call(call, v, s, [ret], env2, mode)
            v = s.targets[0].id
            env2.locals[v] = rt
            return self.bind_call(call, v, s, rest, env2, mode)
        if isinstance(s, ast.Return) and isinstance(mode, tuple) and mode[0] == "gloop" and len(mode) > 3 and mode[3]:
            # return inside a state loop: leave the loop with the value; the code after the loop returns it
            if self.ret_ty is None:
                _u(s, "return inside a loop needs a declared return type")
            if s.value is None or (isinstance(s.value, ast.Constant) and s.value.value is None):
                txt = "None" if is_opt(self.ret_ty) else "tt"
            else:
                txt, t = self.expr(s.value, env, want=self.ret_ty)
                txt = self.coerce(txt, t, self.ret_ty, s)
            return self.gloop_exit(mode, "true", f"(Some {txt})")
        if isinstance(s, ast.Return):
            if mode != "method":
                _u(s, "return inside a loop")
            if s.value is None or (isinstance(s.value, ast.Constant) and s.value.value is None and not is_opt(self.ret_ty)):
                self.set_ret("unit", s)
                return self.result("tt")
            txt, t = self.expr(s.value, env, want=self.ret_ty)
            if is_opt(self.ret_ty) and t == self.ret_ty[1]:
                txt = f"(Some {txt})"
                t = self.ret_ty
            self.set_ret(t, s)
            return self.result(txt)
        if isinstance(s, ast.Raise):
            if env.mutated:
                _u(s, "raise after self was modified")
            if mode != "method":
                _u(s, "raise inside a loop")
            self.raises = True
            return "None"
        if isinstance(s, ast.If):
            return self.if_stmt(s.test, s.body, s.orelse, rest, env, mode)
        if isinstance(s, ast.Assign) and len(s.targets) == 1 and isinstance(s.targets[0], ast.Name) and self._next_iter(s.value, env):
            # k = next(iter(d)): the first key in insertion order; StopIteration on an empty dict
            d = self._next_iter(s.value, env)
            if mode != "method":
                _u(s, "next(iter(d)) inside a loop")
            v = s.targets[0].id
            env2 = env.copy()
            env2.locals[v] = "Z"
            env2.narrow.pop(v, None)
            env2.known_in.add((ast.unparse(s.value.args[0].args[0]), v))
            self.raises = True
            k = self.block(rest, env2, mode)
            return f"match {d} with\n| [] => None\n| ({v}, _) :: _ =>\n{textwrap.indent(k, '    ')}\nend"
        if isinstance(s, ast.Assign):
            if len(s.targets) != 1:
                _u(s, "multiple assignment targets")
            return self.assign(s.targets[0], s.value, rest, env, mode, s)
        if isinstance(s, ast.AnnAssign):
            if s.value is None:
                return self.block(rest, env, mode)
            return self.assign(s.target, s.value, rest, env, mode, s)
        if isinstance(s, ast.AugAssign):
            load = self._as_load(s.target)
            return self.assign(s.target, ast.BinOp(left=load, op=s.op, right=s.value, lineno=s.lineno), rest, env, mode, s)
        if isinstance(s, ast.Expr):
            return self.expr_stmt(s.value, rest, env, mode)
        if isinstance(s, ast.Delete) and len(s.targets) == 1 and isinstance(s.targets[0], ast.Subscript):
            t = s.targets[0]
            if isinstance(t.value, ast.Attribute) and isinstance(t.value.value, ast.Name) and t.value.value.id == "self" \
                    and self.cls.fields.get(t.value.attr) == "dict" and not self.pure \
                    and (mode == "method" or (isinstance(mode, tuple) and mode[0] == "gloop")):
                f = t.value.attr
                k, kt = self.expr(t.slice, env)
                if kt in ZLIKE:
                    env2 = env.copy()
                    env2.mutated = True
                    self.raises = True
                    if not self._uses_raise:
                        _u(s, "del d[k] in a method not scanned as raising")
                    body = f"let self := set_{self.cls.fld(f)} self (ddel ({self.cls.fld(f)} self) {k}) in\n" + self.block(rest, env2, mode)
                    return f"if dmem ({self.cls.fld(f)} self) {k}\nthen\n{textwrap.indent(body, '  ')}\nelse\n  None"
            _u(s, "unsupported del")
        if isinstance(s, ast.For):
            return self.for_stmt(s, rest, env, mode)
        if isinstance(s, ast.While):
            return self.while_stmt(s, rest, env, mode)
        _u(s, "unsupported statement")

    def _struct_field_call(self, e):
        """self.<field of struct type>.<translated method>(...) -> (field, class, method name)"""
        if isinstance(e, ast.Call) and isinstance(e.func, ast.Attribute) and isinstance(e.func.value, ast.Attribute) \
                and isinstance(e.func.value.value, ast.Name) and e.func.value.value.id == "self":
            f = e.func.value.attr
            ft = self.cls.fields.get(f)
            fc = self.tr.classes.get(ft) if isinstance(ft, str) else None
            if fc is not None and (fc.name, e.func.attr) in self.tr.sigs:
                return f, fc, e.func.attr
        return None

    # -- general state loops: for x in range(...) / <dict>.values(), body may assign carried locals, change self,
    #    break, continue, contain further such loops; in a method that can raise the loop state is optional --------
    def gloop_exit(self, mode, brk, ret=None):
        _, carried, with_self = mode[:3]
        has_ret = len(mode) > 3 and mode[3]
        parts = (["self"] if with_self else []) + list(carried) + ([ret if ret is not None else "ret_"] if has_ret else []) + [brk]
        t = "(" + ", ".join(parts) + ")"
        return f"Some {t}" if self._uses_raise else t

    def gloop_iter(self, it, env):
        if isinstance(it, ast.Call) and isinstance(it.func, ast.Name) and it.func.id == "range" and not it.keywords:
            a = [self.expr(x, env) for x in it.args]
            if any(t not in ZLIKE for _, t in a):
                _u(it, "range bounds must be integers")
            if len(a) == 1:
                return f"(py_range 0 {a[0][0]})"
            if len(a) == 2:
                return f"(py_range {a[0][0]} {a[1][0]})"
            if len(a) == 3 and isinstance(it.args[2], ast.UnaryOp) and isinstance(it.args[2].op, ast.USub) \
                    and isinstance(it.args[2].operand, ast.Constant) and it.args[2].operand.value == 1:
                return f"(py_range_desc {a[0][0]} {a[1][0]})"
            _u(it, "range step")
        if isinstance(it, ast.Call) and isinstance(it.func, ast.Attribute) and it.func.attr == "values" and not it.args:
            d, dt = self.expr(it.func.value, env)
            if dt == "dict":
                return f"(map snd {d})"
        if isinstance(it, ast.Call) and isinstance(it.func, ast.Attribute) and it.func.attr == "items" and not it.args \
                and getattr(self, "_gloop_items", False):
            d, dt = self.expr(it.func.value, env)
            if dt == "dict":
                return d
        return None

    def general_for(self, s, lst, rest, env, mode, elt="Z", prelude0=""):
        pair = isinstance(s.target, ast.Tuple) and len(s.target.elts) == 2 and all(isinstance(x, ast.Name) for x in s.target.elts)
        if s.orelse or not (isinstance(s.target, ast.Name) or pair):
            _u(s, "for/else or an unsupported loop target")
        for n in ast.walk(s):
            if isinstance(n, (ast.Raise, ast.While)):
                _u(n, "raise/while inside a state loop")
        has_ret = any(isinstance(n, ast.Return) for n in ast.walk(s))
        if has_ret and isinstance(mode, tuple):
            _u(s, "return inside a nested loop")
        # the iterated container may be changed by the body only right before leaving the loop
        itsrc = ast.unparse(s.iter.func.value) if isinstance(s.iter, ast.Call) and isinstance(s.iter.func, ast.Attribute) else None
        if itsrc and itsrc.startswith("self."):
            def blocks(stmts):
                yield stmts
                for st in stmts:
                    for fld in ("body", "orelse"):
                        if hasattr(st, fld) and isinstance(getattr(st, fld), list) and getattr(st, fld):
                            yield from blocks(getattr(st, fld))
            for blk in blocks(list(s.body)):
                for i, st in enumerate(blk):
                    if isinstance(st, (ast.If, ast.For, ast.With, ast.Try)):
                        continue            # (their inner blocks are examined on their own)
                    touches = any(isinstance(n, (ast.Subscript, ast.Attribute)) and ast.unparse(n).startswith(itsrc) and
                                  isinstance(getattr(n, "ctx", None), (ast.Store, ast.Del)) for n in ast.walk(st)) or \
                        any(isinstance(n, ast.Call) and isinstance(n.func, ast.Attribute) and ast.unparse(n.func.value) == itsrc
                            and n.func.attr in ("pop", "clear", "append", "remove", "move_to_end", "popitem", "update", "insert")
                            for n in ast.walk(st))
                    if touches and not (i + 1 < len(blk) and isinstance(blk[i + 1], (ast.Return, ast.Break))):
                        _u(st, "the iterated container is modified without leaving the loop at once")
        assigned = []
        for n in ast.walk(s):
            if isinstance(n, (ast.Assign, ast.AugAssign, ast.AnnAssign)):
                for t in (n.targets if isinstance(n, ast.Assign) else [n.target]):
                    if isinstance(t, ast.Name) and t.id in env.locals and t.id not in assigned \
                            and not (isinstance(s.target, ast.Name) and t.id == s.target.id):
                        assigned.append(t.id)
        with_self = not self.pure
        benv = env.copy()
        if pair:
            x, xty = "kv_", "(Z * Z)"
            k1, k2 = s.target.elts[0].id, s.target.elts[1].id
            benv.locals[k1] = "Z"
            benv.locals[k2] = "Z"
            if itsrc:
                benv.known_in.add((itsrc, k1))
            prelude = f"let {k1} := fst kv_ in let {k2} := snd kv_ in\n"
        else:
            x, xty = s.target.id, coq_ty(elt)
            benv.locals[x] = elt
            prelude = prelude0
        benv.narrow = {p: w for p, w in benv.narrow.items() if not p.startswith("self.") and p.split(".")[0] not in assigned}
        body = prelude + self.block(list(s.body), benv, ("gloop", tuple(assigned), with_self, has_ret))
        rty = [f"(option {coq_ty(self.ret_ty)})"] if has_ret else []
        if has_ret and self.ret_ty is None:
            _u(s, "return inside a loop needs a declared return type")
        parts = (["self"] if with_self else []) + assigned + (["ret_"] if has_ret else []) + ["brk_"]
        pat = "'(" + ", ".join(parts) + ")"
        init = "(" + ", ".join((["self"] if with_self else []) + assigned + (["None"] if has_ret else []) + ["false"]) + ")"
        sty = " * ".join(([self.cls.name] if with_self else []) + [coq_ty(env.locals[v]) for v in assigned] + rty + ["bool"])
        env2 = env.copy()
        if with_self:
            env2.mutated = True
            env2.narrow = {p: w for p, w in env2.narrow.items() if not p.startswith("self.")}
        for v in assigned:
            env2.narrow.pop(v, None)
        k = self.block(rest, env2, mode)
        if has_ret:
            self.raises = self.raises or self._uses_raise
            k = (f"match ret_ with\n| Some rv_ =>\n    {self.result('rv_')}\n| None =>\n{textwrap.indent(k, '    ')}\nend")
        if self._uses_raise:
            self.raises = True
            return (f"match fold_left (fun (st_ : option ({sty})) ({x} : {xty}) => match st_ with None => None | Some {pat[1:]} => "
                    f"if brk_ then st_ else\n{textwrap.indent(body, '    ')} end) {lst} (Some {init}) with\n"
                    f"| None => None\n| Some {pat[1:]} =>\n{textwrap.indent(k, '    ')}\nend")
        return (f"let {pat} := fold_left (fun (st_ : {sty}) ({x} : {xty}) => let {pat} := st_ in if brk_ then st_ else\n"
                f"{textwrap.indent(body, '    ')}) {lst} {init} in\n{k}")

    def _next_iter(self, e, env):
        """next(iter(<dict>)) -> coq text of the dict, else None"""
        if isinstance(e, ast.Call) and isinstance(e.func, ast.Name) and e.func.id == "next" and len(e.args) == 1 and not e.keywords:
            a = e.args[0]
            if isinstance(a, ast.Call) and isinstance(a.func, ast.Name) and a.func.id == "iter" and len(a.args) == 1:
                if env is None:
                    return "?"
                d, dt = self.expr(a.args[0], env)
                if dt == "dict":
                    return d
        return None

    def _is_impure_self_call(self, e):
        if isinstance(e, ast.Call) and isinstance(e.func, ast.Attribute) and isinstance(e.func.value, ast.Name) \
                and e.func.value.id == "self":
            sig = self.tr.sigs.get((self.cls.name, e.func.attr))
            return sig is not None and not sig[2]
        return False

    def _as_load(self, t):
        import copy
        t2 = copy.deepcopy(t)
        for n in ast.walk(t2):
            if hasattr(n, "ctx"):
                n.ctx = ast.Load()
        return t2

    # -- if ---------------------------------------------------------------
    def if_stmt(self, test, body, orelse, rest, env, mode):
        # `if logger.isEnabledFor(...):` guarding nothing but logging calls: a no-op
        if isinstance(test, ast.Call) and ast.unparse(test.func) == "logger.isEnabledFor" and not orelse \
                and all(isinstance(b, ast.Expr) and isinstance(b.value, ast.Call) and ast.unparse(b.value.func).startswith("logger.")
                        for b in body):
            # (modelled configuration: that log level is disabled, the guarded calls do not run)
            return self.block(list(rest), env, mode)
        # a configuration flag declared constant (e.g. tracing disabled): the branch is chosen statically
        if isinstance(test, ast.Attribute) and isinstance(test.value, ast.Name) and test.value.id == "self" \
                and test.attr in self.cls.consts and self.cls.consts[test.attr][0] in ("true", "false"):
            chosen = body if self.cls.consts[test.attr][0] == "true" else orelse
            return self.block(list(chosen) + list(rest), env, mode)
        # desugar boolean structure into nested ifs (exact short-circuit semantics; enables narrowing)
        if isinstance(test, ast.BoolOp) and isinstance(test.op, ast.Or):
            first, others = test.values[0], test.values[1:]
            rem = others[0] if len(others) == 1 else ast.BoolOp(op=ast.Or(), values=others)
            inner = [ast.If(test=rem, body=body, orelse=orelse, lineno=getattr(test, "lineno", 0))]
            return self.if_stmt(first, body, inner, rest, env, mode)
        if isinstance(test, ast.BoolOp) and isinstance(test.op, ast.And):
            first, others = test.values[0], test.values[1:]
            rem = others[0] if len(others) == 1 else ast.BoolOp(op=ast.And(), values=others)
            inner = [ast.If(test=rem, body=body, orelse=orelse, lineno=getattr(test, "lineno", 0))]
            return self.if_stmt(first, inner, orelse, rest, env, mode)
        if isinstance(test, ast.UnaryOp) and isinstance(test.op, ast.Not):
            return self.if_stmt(test.operand, orelse, body, rest, env, mode)
        # isinstance guard on a parameter of declared struct type: statically true
        if isinstance(test, ast.Call) and isinstance(test.func, ast.Name) and test.func.id == "isinstance":
            a0, a1 = test.args
            if isinstance(a0, ast.Name) and isinstance(a1, ast.Name) and env.locals.get(a0.id) == a1.id:
                return self.block(list(body) + list(rest), env, mode)
            # decided by the declared type of the parameter (values of a declared class are instances of exactly
            # that class; a declared Z is an int): classes of the target, int, float
            if isinstance(a0, ast.Name) and a0.id in env.locals and self.tr.static_isinstance:
                t0 = env.locals[a0.id]
                names = [a1] if isinstance(a1, ast.Name) else list(a1.elts) if isinstance(a1, ast.Tuple) else None
                if names is not None and all(isinstance(n, ast.Name) for n in names) and (t0 in self.tr.classes or t0 in ("Z", "F")):
                    def holds(n):
                        if n.id in self.tr.classes:
                            return t0 == n.id
                        if n.id == "int":
                            return t0 == "Z"
                        if n.id == "float":
                            return t0 == "F"
                        _u(test, f"isinstance against {n.id}")
                    chosen = body if any(holds(n) for n in names) else orelse
                    return self.block(list(chosen) + list(rest), env, mode)
            _u(test, "isinstance on a value whose declared type differs")
        # None tests: match
        nt = self._none_test(test, env)
        if nt is not None:
            path, txt, inner_ty, is_none = nt
            if path in env.narrow:      # already known to be non-None on this path
                chosen = orelse if is_none else body
                return self.block(list(chosen) + list(rest), env, mode)
            v = self.tr.gensym(path.replace(".", "_").replace("self__", "").strip("_") or "v")
            env_some = env.copy()
            env_some.narrow[path] = (v, inner_ty)
            none_branch, some_branch = (body, orelse) if is_none else (orelse, body)
            a = self.block(list(none_branch) + list(rest), env.copy(), mode)
            b = self.block(list(some_branch) + list(rest), env_some, mode)
            return f"match {txt} with\n| None =>\n{textwrap.indent(a, '    ')}\n| Some {v} =>\n{textwrap.indent(b, '    ')}\nend"
        # `if k in d:` establishes that d[k] exists in the then-branch (until k is reassigned)
        env_then = env.copy()
        if isinstance(test, ast.Compare) and len(test.ops) == 1 and isinstance(test.ops[0], ast.In) \
                and isinstance(test.left, ast.Name):
            env_then.known_in.add((ast.unparse(test.comparators[0]), test.left.id))
        # truthiness of an optional path (`x if self._ts else None` style) is rejected; of a list: non-empty
        c, t = self.expr(test, env)
        if t != "B":
            if (isinstance(t, tuple) and t[0] == "list") or t == "dict":
                c = f"(negb (match {c} with [] => true | _ => false end))"
            else:
                _u(test, f"condition of type {t}")
        a = self.block(list(body) + list(rest), env_then, mode)
        b = self.block(list(orelse) + list(rest), env.copy(), mode)
        return f"if {c}\nthen\n{textwrap.indent(a, '  ')}\nelse\n{textwrap.indent(b, '  ')}"

    def _none_test(self, test, env):
        if isinstance(test, ast.Compare) and len(test.ops) == 1 and isinstance(test.ops[0], (ast.Is, ast.IsNot)) \
                and isinstance(test.comparators[0], ast.Constant) and test.comparators[0].value is None:
            path = self.path_of(test.left)
            if path is None:
                _u(test, "None test on a non-path expression")
            txt, t = self.raw_path(test.left, env)
            if path in env.narrow:
                return (path, txt, env.narrow[path][1], isinstance(test.ops[0], ast.Is))
            if not is_opt(t):
                _u(test, f"None test on non-optional type {t}")
            return (path, txt, t[1], isinstance(test.ops[0], ast.Is))
        return None

    def path_of(self, e):
        if isinstance(e, ast.Name):
            return e.id
        if isinstance(e, ast.Attribute) and isinstance(e.value, ast.Name):
            return f"{e.value.id}.{e.attr}"
        return None

    def raw_path(self, e, env):
        """Coq text and declared type of a path expression, ignoring narrowing."""
        if isinstance(e, ast.Name):
            if e.id not in env.locals:
                _u(e, "unknown name")
            return e.id, env.locals[e.id]
        if isinstance(e, ast.Attribute) and isinstance(e.value, ast.Name):
            base = e.value.id
            bt = self.cls.name if base == "self" else env.locals.get(base)
            c = self.tr.classes.get(bt)
            if c is None or e.attr not in c.fields:
                _u(e, "attribute of unknown struct/field")
            return f"({c.fld(e.attr)} {base})", c.fields[e.attr]
        _u(e, "not a path")

    # -- assignment -------------------------------------------------------
    def assign(self, target, value, rest, env, mode, node):
        env = env.copy()
        # q, r = divmod(a, b)   (integers; like `//` and `%`, division by zero is not modelled as raising)
        if isinstance(target, ast.Tuple) and len(target.elts) == 2 and all(isinstance(x, ast.Name) for x in target.elts) \
                and isinstance(value, ast.Call) and isinstance(value.func, ast.Name) and value.func.id == "divmod" \
                and len(value.args) == 2 and not value.keywords:
            a, at = self.expr(value.args[0], env)
            b, bt = self.expr(value.args[1], env)
            if at != "Z" or bt != "Z":
                _u(node, "divmod of non-integers")
            q, r = target.elts[0].id, target.elts[1].id
            if "self" in (q, r) or q == r:
                _u(node, "divmod targets")
            ta, tb = self.tr.gensym("dm"), self.tr.gensym("dm")
            for nm in (q, r):
                env.locals[nm] = "Z"
                env.narrow.pop(nm, None)
            return (f"let {ta} := {a} in\nlet {tb} := {b} in\nlet {q} := ({ta} / {tb}) in\nlet {r} := ({ta} mod {tb}) in\n"
                    + self.block(rest, env, mode))
        if isinstance(target, ast.Name):
            txt, t = self.expr(value, env)
            if t == "none":
                _u(node, "local assigned None without a declared type")
            name = target.id
            if name == "self":
                _u(node, "assignment to self")
            env.locals[name] = t
            env.known_in = {x for x in env.known_in if x[1] != name}
            env.narrow.pop(name, None)
            for p in [p for p in env.narrow if p.startswith(name + ".")]:
                env.narrow.pop(p)
            return f"let {name} := {txt} in\n" + self.block(rest, env, mode)
        if isinstance(target, ast.Attribute) and isinstance(target.value, ast.Name) and target.value.id == "self":
            if self.pure:
                _u(node, "pure method assigns a field")
            f = target.attr
            if f not in self.cls.fields:
                _u(node, f"assignment to undeclared field {f}")
            ft = self.cls.fields[f]
            txt, t = self.expr(value, env, want=ft)
            txt2 = self.coerce(txt, t, ft, node)
            env.mutated = True
            path = f"self.{f}"
            env.narrow.pop(path, None)
            pre = ""
            if is_opt(ft) and t != "none" and not is_opt(t):
                v = self.tr.gensym(f.strip("_"))
                pre = f"let {v} := {txt} in\n"
                txt2 = f"(Some {v})"
                env.narrow[path] = (v, ft[1])
            return pre + f"let self := set_{self.cls.fld(f)} self {txt2} in\n" + self.block(rest, env, mode)
        if isinstance(target, ast.Subscript) and isinstance(target.value, ast.Attribute) \
                and isinstance(target.value.value, ast.Name) and target.value.value.id == "self":
            if self.pure:
                _u(node, "pure method assigns a field")
            f = target.value.attr
            if self.cls.fields.get(f) != "dict":
                _u(node, "subscript assignment to a non-dict field")
            k, kt = self.expr(target.slice, env)
            v, vt = self.expr(value, env)
            if vt == "none":
                v, vt = "0", "Z"        # d[k] = None: a dict used as an ordered set (the value is never read)
            if kt not in ZLIKE or vt not in ZLIKE:
                _u(node, "dict key/value must be Z")
            env.mutated = True
            return (f"let self := set_{self.cls.fld(f)} self (dset ({self.cls.fld(f)} self) {k} {v}) in\n"
                    + self.block(rest, env, mode))
        _u(node, "unsupported assignment target")

    def coerce(self, txt, t, want, node):
        if t == want:
            return txt
        if is_opt(want):
            if t == "none":
                return "None"
            if t == want[1] or (t in ZLIKE and want[1] in ZLIKE):
                return f"(Some {txt})"
        if t in ZLIKE and want in ZLIKE:
            return txt
        _u(node, f"type {t} where {want} is expected")

    # -- expression statements -----------------------------------------
    def expr_stmt(self, e, rest, env, mode):
        if isinstance(e, ast.Call) and isinstance(e.func, ast.Attribute) and isinstance(e.func.value, ast.Name) \
                and e.func.value.id == "logger" and e.func.attr in ("debug", "info", "warning", "error"):
            # a logging call is a no-op for the state, provided its arguments neither call anything nor index anything
            for a in list(e.args) + [k.value for k in e.keywords]:
                for n in ast.walk(a):
                    if isinstance(n, (ast.Call, ast.Subscript, ast.Await, ast.Yield, ast.NamedExpr)):
                        _u(e, "logging call whose arguments are not plain reads")
            return self.block(rest, env, mode)
        if isinstance(e, ast.Call) and isinstance(e.func, ast.Attribute) and ast.unparse(e.func) == "heapq.heappush" \
                and len(e.args) == 2 and not e.keywords:
            h = e.args[0]
            if not (isinstance(h, ast.Attribute) and isinstance(h.value, ast.Name) and h.value.id == "self" and h.attr in self.cls.heaps):
                _u(e, "heappush on something that is not a declared heap field of self")
            f = h.attr
            ft = self.cls.fields[f]
            ec = self.tr.classes.get(ft[1])
            if ec is None or (ec.name, "__lt__") not in self.tr.sigs:
                _u(e, "heap elements need a translated __lt__")
            if self.pure:
                _u(e, "pure method pushes on a heap")
            x, xt = self.expr(e.args[1], env)
            self.coerce(x, xt, ft[1], e)
            env = env.copy()
            env.mutated = True
            return (f"let self := set_{self.cls.fld(f)} self (py_heappush {ec.name}___lt__ ({self.cls.fld(f)} self) {x}) in\n"
                    + self.block(rest, env, mode))
        if isinstance(e, ast.Call) and isinstance(e.func, ast.Attribute) and isinstance(e.func.value, ast.Name) \
                and e.func.value.id == "self" and e.func.attr in self.cls.noop_methods:
            # a method declared not to touch any translated field (its arguments must still be translatable reads)
            for a in e.args:
                self.expr(a, env)
            return self.block(rest, env, mode)
        if isinstance(e, ast.Call) and isinstance(e.func, ast.Attribute):
            recv = e.func.value
            # self.method(...)
            if isinstance(recv, ast.Name) and recv.id == "self":
                call, rt, pure = self.self_call(e, env)
                if pure:
                    return self.block(rest, env, mode)
                env = env.copy()
                env.mutated = True
                env.narrow = {p: v for p, v in env.narrow.items() if not p.startswith("self.")}
                return self.bind_call(call, "_", e, rest, env, mode)
            # self.listfield.append(x) / .pop(0)
            if isinstance(recv, ast.Attribute) and isinstance(recv.value, ast.Name) and recv.value.id == "self":
                f = recv.attr
                ft = self.cls.fields.get(f)
                fc = self.tr.classes.get(ft) if isinstance(ft, str) else None
                if fc is not None and (fc.name, e.func.attr) in self.tr.sigs:
                    # a state-changing method of a struct held in a field: the field is replaced by the callee's new state
                    params, ret, pure, raises, oracles = self.tr.sigs[(fc.name, e.func.attr)]
                    if pure:
                        return self.block(rest, env, mode)
                    if oracles or e.keywords or len(e.args) != len(params):
                        _u(e, "call on a struct field: arity/keywords/oracles")
                    args = [self.coerce(*self.expr(a, env, pt), pt, e) for a, (_, pt) in zip(e.args, params)]
                    env = env.copy()
                    env.mutated = True
                    env.narrow = {p: v for p, v in env.narrow.items() if not p.startswith("self.")}
                    callee = f"({fc.name}_{e.func.attr} ({self.cls.fld(f)} self) {' '.join(args)})".replace(" )", ")")
                    tmp = self.tr.gensym("fld")
                    k = f"let self := set_{self.cls.fld(f)} self {tmp} in\n" + self.block(rest, env, mode)
                    if raises:
                        self.raises = True
                        return f"match {callee} with\n| None => None\n| Some ({tmp}, _) =>\n{textwrap.indent(k, '    ')}\nend"
                    return f"let '({tmp}, _) := {callee} in\n{k}"
                if ft == "dict" and not self.pure:
                    env2 = env.copy()
                    env2.mutated = True
                    setf = f"let self := set_{self.cls.fld(f)} self"
                    cur = f"({self.cls.fld(f)} self)"
                    if e.func.attr == "clear" and not e.args and not e.keywords:
                        return f"{setf} [] in\n" + self.block(rest, env2, mode)
                    if e.func.attr == "pop" and len(e.args) == 2 and isinstance(e.args[1], ast.Constant) and e.args[1].value is None:
                        k, kt = self.expr(e.args[0], env)      # d.pop(k, None): remove if present, no error
                        if kt in ZLIKE:
                            return f"{setf} (ddel {cur} {k}) in\n" + self.block(rest, env2, mode)
                    if e.func.attr == "move_to_end" and len(e.args) == 1 and not e.keywords and isinstance(e.args[0], ast.Name) \
                            and (ast.unparse(recv), e.args[0].id) in env.known_in:
                        k, kt = self.expr(e.args[0], env)      # (KeyError impossible: guarded by `k in d`)
                        return f"{setf} (dmove_end {cur} {k}) in\n" + self.block(rest, env2, mode)
                    _u(e, "unsupported dict statement")
                if isinstance(ft, tuple) and ft[0] == "list" and f not in self.cls.heaps and not self.pure:
                    if e.func.attr == "clear" and not e.args and not e.keywords:
                        env2 = env.copy()
                        env2.mutated = True
                        return f"let self := set_{self.cls.fld(f)} self [] in\n" + self.block(rest, env2, mode)
                    if e.func.attr == "remove" and len(e.args) == 1 and isinstance(e.args[0], ast.Name) and ft[1] in ZLIKE \
                            and (ast.unparse(recv), e.args[0].id) in env.known_in:
                        env2 = env.copy()
                        env2.mutated = True
                        k, kt = self.expr(e.args[0], env)      # (ValueError impossible: guarded by `x in l`)
                        return (f"let self := set_{self.cls.fld(f)} self (py_remove1 ({self.cls.fld(f)} self) {k}) in\n"
                                + self.block(rest, env2, mode))
                if isinstance(ft, tuple) and ft[0] == "list" and f in self.cls.heaps:
                    _u(e, "a heap field is only touched through heapq.heappush / heappop")
                if isinstance(ft, tuple) and ft[0] == "list":
                    env = env.copy()
                    env.mutated = True
                    if self.pure:
                        _u(e, "pure method changes a list field")
                    if e.func.attr == "append" and len(e.args) == 1:
                        x, xt = self.expr(e.args[0], env)
                        self.coerce(x, xt, ft[1], e)
                        return (f"let self := set_{self.cls.fld(f)} self ({self.cls.fld(f)} self ++ [{x}]) in\n"
                                + self.block(rest, env, mode))
                    if e.func.attr == "pop" and len(e.args) == 1 and isinstance(e.args[0], ast.Constant) and e.args[0].value == 0:
                        return (f"let self := set_{self.cls.fld(f)} self (tl ({self.cls.fld(f)} self)) in\n"
                                + self.block(rest, env, mode))
        _u(e, "unsupported expression statement")

    def bind_call(self, call, var, node, rest, env, mode):
        txt, raises = call
        k = self.block(rest, env, mode)
        if raises:
            if env.mutated and False:
                _u(node, "call of a raising method after mutation")
            return f"match {txt} with\n| None => None\n| Some (self, {var}) =>\n{textwrap.indent(k, '    ')}\nend"
        return f"let '(self, {var}) := {txt} in\n{k}"

    def self_call(self, e, env):
        name = e.func.attr
        sig = self.tr.sigs.get((self.cls.name, name))
        if sig is None:
            _u(e, f"call of untranslated method {name} (translate callees first)")
        params, ret, pure, raises, oracles = sig
        if e.keywords or len(e.args) != len(params):
            _u(e, "call arity/keywords")
        args = []
        for a, (p, pt) in zip(e.args, params):
            x, xt = self.expr(a, env, want=pt)
            args.append(self.coerce(x, xt, pt, e))
        for (op, ot) in oracles:
            nm = self.tr.gensym(op)
            self.oracle_params.append((nm, ot))
            args.append(nm)
        txt = f"({self.cls.name}_{name} self {' '.join(args)})".replace(" )", ")")
        return (txt, raises), ret, pure

    # -- loops -------------------------------------------------------------
    def for_stmt(self, s, rest, env, mode):
        if s.orelse:
            _u(s, "for/else")
        it = s.iter
        if isinstance(it, ast.Name) and env.locals.get(it.id) == ("list", "Z") and isinstance(s.target, ast.Name):
            return self.local_for(s, rest, env, mode)
        self._gloop_items = any(isinstance(n, (ast.Return, ast.Break, ast.Continue)) for n in ast.walk(s))
        lst = self.gloop_iter(it, env)
        self._gloop_items = False
        if lst is not None:
            return self.general_for(s, lst, rest, env, mode)
        for n in ast.walk(s):
            if isinstance(n, (ast.Break, ast.Continue, ast.Return, ast.Raise)):
                _u(n, "break/continue/return/raise inside a for loop")
        if self.pure:
            _u(s, "loop in a pure method")
        benv = env.copy()
        if isinstance(it, ast.Call) and isinstance(it.func, ast.Attribute) and it.func.attr == "items" and not it.args:
            d, dt = self.expr(it.func.value, env)
            if dt != "dict":
                _u(it, "items() of a non-dict")
            if not (isinstance(s.target, ast.Tuple) and len(s.target.elts) == 2 and all(isinstance(x, ast.Name) for x in s.target.elts)):
                _u(s, "for target")
            if ast.unparse(it.func.value).startswith("self."):
                _u(s, "iteration over a field of self that the body may modify")
            k, v = s.target.elts[0].id, s.target.elts[1].id
            benv.locals[k] = "Z"
            benv.locals[v] = "Z"
            benv.narrow = {}
            body = self.block(list(s.body), benv, "loop")
            env = env.copy()
            env.mutated = True
            env.narrow = {p: w for p, w in env.narrow.items() if not p.startswith("self.")}
            return (f"let self := fold_left (fun self kv_ => let {k} := fst kv_ in let {v} := snd kv_ in\n"
                    f"{textwrap.indent(body, '    ')}) {d} self in\n" + self.block(rest, env, mode))
        _u(s, "unsupported for loop")

    def local_for(self, s, rest, env, mode):
        """for k in <list Z local>: body that only reads self/params and assigns locals; `break` allowed.
        The locals that exist before the loop and are assigned in it are the loop state (plus a `broken` flag)."""
        for n in ast.walk(s):
            if isinstance(n, (ast.Continue, ast.Return, ast.Raise, ast.While)) or (isinstance(n, ast.For) and n is not s):
                _u(n, "continue/return/raise/nested loop inside a local-state for loop")
            if isinstance(n, (ast.Assign, ast.AugAssign, ast.AnnAssign)):
                for t in (n.targets if isinstance(n, ast.Assign) else [n.target]):
                    if not isinstance(t, ast.Name):
                        _u(n, "a local-state for loop may assign local names only")
            if isinstance(n, ast.Expr) and not (isinstance(n.value, ast.Constant)):
                _u(n, "expression statement inside a local-state for loop")
        if any(self._is_dict_read(n, env) for n in ast.walk(s)):
            _u(s, "d[k] read inside a loop body")
        assigned = []
        for n in ast.walk(s):
            if isinstance(n, (ast.Assign, ast.AugAssign, ast.AnnAssign)):
                for t in (n.targets if isinstance(n, ast.Assign) else [n.target]):
                    if t.id in env.locals and t.id not in assigned:
                        assigned.append(t.id)
        if s.target.id in assigned or not assigned:
            _u(s, "local-state for loop without carried locals / assigning its own target")
        k = s.target.id
        benv = env.copy()
        benv.locals[k] = "Z"
        benv.narrow = {}
        body = self.block(list(s.body), benv, ("locloop", tuple(assigned)))
        pat = "'(" + ", ".join(assigned + ["brk_"]) + ")"
        init = "(" + ", ".join(assigned + ["false"]) + ")"
        env = env.copy()
        sty = " * ".join([coq_ty(env.locals[v]) for v in assigned] + ["bool"])
        return (f"let {pat} := fold_left (fun (st_ : {sty}) ({k} : Z) => let {pat} := st_ in if brk_ then st_ else\n"
                f"{textwrap.indent(body, '    ')}) {it_name(s)} {init} in\n" + self.block(rest, env, mode))

    def while_stmt(self, s, rest, env, mode):
        # while self.H: x = heapq.heappop(self.H); <body>   (H a declared heap that the body does not touch otherwise):
        # one iteration per element of the current heap, in heap order, each taking the head off
        t = s.test
        if isinstance(t, ast.Attribute) and isinstance(t.value, ast.Name) and t.value.id == "self" and t.attr in self.cls.heaps \
                and s.body and isinstance(s.body[0], ast.Assign) and len(s.body[0].targets) == 1 \
                and isinstance(s.body[0].targets[0], ast.Name) and self._list_pop(s.body[0].value) == (t.attr, "first") \
                and not s.orelse and not self.pure and mode == "method":
            f = t.attr
            src = f"self.{f}"
            for st in s.body[1:]:
                for n in ast.walk(st):
                    if isinstance(n, ast.Attribute) and ast.unparse(n) == src:
                        _u(n, "the heap being drained is used again inside the loop body")
            x = s.body[0].targets[0].id
            fake = ast.For(target=ast.Name(id=x, ctx=ast.Store()), iter=ast.Name(id="heap_", ctx=ast.Load()),
                           body=list(s.body[1:]) or [ast.Pass()], orelse=[], lineno=s.lineno)
            ast.copy_location(fake, s)
            fld = self.cls.fld(f)
            return self.general_for(fake, f"({fld} self)", rest, env, mode, elt=self.cls.fields[f][1],
                                    prelude0=f"let self := set_{fld} self (tl ({fld} self)) in\n")
        # while self.L and self.L[0] < cutoff: self.L.pop(0)      ==> drop-while
        try:
            t = s.test
            assert isinstance(t, ast.BoolOp) and isinstance(t.op, ast.And) and len(t.values) == 2
            l0, cmp_ = t.values
            lsrc = ast.unparse(l0)
            assert lsrc.startswith("self.") and isinstance(cmp_, ast.Compare) and len(cmp_.ops) == 1
            assert ast.unparse(cmp_.left) == f"{lsrc}[0]" and isinstance(cmp_.ops[0], ast.Lt)
            assert len(s.body) == 1 and ast.unparse(s.body[0]) == f"{lsrc}.pop(0)" and not s.orelse
            f = lsrc[5:]
            ft = self.cls.fields.get(f)
            assert isinstance(ft, tuple) and ft[0] == "list" and ft[1] in ZLIKE
        except AssertionError:
            _u(s, "unsupported while loop (only the drop-while idiom is translated)")
        c, ct = self.expr(cmp_.comparators[0], env)
        if ct not in ZLIKE or "self" in [n.id for n in ast.walk(cmp_.comparators[0]) if isinstance(n, ast.Name)]:
            _u(s, "drop-while bound must be a Z expression not reading self")
        env = env.copy()
        env.mutated = True
        return (f"let self := set_{self.cls.fld(f)} self (py_dropwhile (fun x_ => x_ <? {c}) ({self.cls.fld(f)} self)) in\n"
                + self.block(rest, env, mode))

    # ------------------------------------------------------------ expressions
    def expr(self, e, env: Env, want=None):
        """-> (coq text, type)."""
        if isinstance(e, ast.Constant):
            v = e.value
            if v is None:
                return "None", "none"
            if isinstance(v, bool):
                return ("true" if v else "false"), "B"
            if isinstance(v, int):
                if want == "F":
                    return self.float_lit(float(v), e), "F"
                return (f"({v})" if v < 0 else str(v)), "Z"
            if isinstance(v, float):
                return self.float_lit(v, e), "F"
            _u(e, "constant")
        if isinstance(e, ast.Name):
            if e.id in env.narrow:
                v, t = env.narrow[e.id]
                return v, t
            if e.id in env.locals:
                return e.id, env.locals[e.id]
            if e.id == "self":
                return "self", self.cls.name        # the object itself passed as an argument
            _u(e, "unknown name")
        if isinstance(e, ast.Attribute):
            return self.attribute(e, env)
        if isinstance(e, ast.BinOp):
            return self.binop(e, env, want)
        if isinstance(e, ast.UnaryOp):
            if isinstance(e.op, ast.Not):
                x, t = self.expr(e.operand, env)
                if t != "B":
                    _u(e, "not on non-bool")
                return f"(negb {x})", "B"
            if isinstance(e.op, ast.USub):
                x, t = self.expr(e.operand, env)
                if t in ZLIKE:
                    return f"(- {x})", t
            _u(e, "unary operator")
        if isinstance(e, ast.BoolOp):
            parts = [self.expr(v, env) for v in e.values]
            if any(t != "B" for _, t in parts):
                _u(e, "boolean operator on non-bool operands")
            op = " && " if isinstance(e.op, ast.And) else " || "
            return "(" + op.join(x for x, _ in parts) + ")", "B"
        if isinstance(e, ast.Compare):
            return self.compare(e, env)
        if isinstance(e, ast.IfExp):
            c, ct = self.expr(e.test, env)
            if ct != "B":
                _u(e, "conditional expression on a non-bool test")
            a, at = self.expr(e.body, env, want)
            b, bt = self.expr(e.orelse, env, want)
            if at != bt:
                if want is not None:
                    a, b, at = self.coerce(a, at, want, e), self.coerce(b, bt, want, e), want
                else:
                    _u(e, "branches of different types")
            return f"(if {c} then {a} else {b})", at
        if isinstance(e, ast.Call):
            return self.call(e, env, want)
        if isinstance(e, ast.Subscript) and isinstance(e.slice, ast.Slice):
            x, t = self.expr(e.value, env)
            if not (isinstance(t, tuple) and t[0] == "list") or e.slice.step is not None:
                _u(e, "slice of a non-list / with a step")
            def bound(b):
                if b is None:
                    return "None"
                bx, bt = self.expr(b, env)
                if bt not in ZLIKE:
                    _u(e, "slice bound must be Z")
                return f"(Some {bx})"
            return f"(py_slice {x} {bound(e.slice.lower)} {bound(e.slice.upper)})", t
        if isinstance(e, ast.Subscript):
            x, t = self.expr(e.value, env)
            if t == "dict":
                k, kt = self.expr(e.slice, env)
                if isinstance(e.slice, ast.Name) and (ast.unparse(e.value), e.slice.id) in env.known_in and kt in ZLIKE:
                    return f"(dget {x} {k} 0)", "Z"      # key known present: the value stored under it
                _u(e, "d[k] read outside a statement position / membership guard")
            if isinstance(t, tuple) and t[0] == "list" and isinstance(e.slice, ast.Constant) and e.slice.value == 0:
                if t[1] not in ZLIKE:
                    _u(e, "l[0] on a non-Z list")
                return f"(py_hd {x})", t[1]
            _u(e, "subscript")
        if isinstance(e, ast.List):
            if not e.elts:
                if isinstance(want, tuple) and want[0] == "list":
                    return "[]", want
                _u(e, "empty list display without a known element type")
            parts = [self.expr(x, env) for x in e.elts]
            ts = {str(t) for _, t in parts}
            if len(ts) != 1:
                _u(e, "list display with mixed element types")
            return "[" + "; ".join(x for x, _ in parts) + "]", ("list", parts[0][1])
        if isinstance(e, ast.Tuple):
            parts = [self.expr(x, env) for x in e.elts]
            return "(" + ", ".join(x for x, _ in parts) + ")", ("tuple", [t for _, t in parts])
        if isinstance(e, ast.ListComp):
            # [x for x in L if cond]  (one generator, the element itself, at most one condition)  ==> filter
            if len(e.generators) != 1 or e.generators[0].is_async or len(e.generators[0].ifs) > 1:
                _u(e, "list comprehension shape")
            g = e.generators[0]
            if not (isinstance(g.target, ast.Name) and isinstance(e.elt, ast.Name) and e.elt.id == g.target.id) or g.target.id == "self":
                _u(e, "list comprehension must select the elements themselves")
            l, lt = self.expr(g.iter, env)
            if not (isinstance(lt, tuple) and lt[0] == "list"):
                _u(e, "comprehension over a non-list")
            if not g.ifs:
                return l, lt
            if any(self._is_dict_read(n, env) for n in ast.walk(g.ifs[0])):
                _u(e, "raising read inside a comprehension condition")
            benv = env.copy()
            benv.locals[g.target.id] = lt[1]
            benv.narrow.pop(g.target.id, None)
            c, ct = self.expr(g.ifs[0], benv)
            if ct != "B":
                _u(e, "comprehension condition must be boolean")
            return f"(filter (fun {g.target.id} => {c}) {l})", lt
        _u(e, "unsupported expression")

    def float_lit(self, v, node):
        if v == 0.0:
            return "(n0 O)"
        if v == 1.0:
            return "(n1 O)"
        if v in self.tr.float_consts:
            return self.tr.float_consts[v]
        _u(node, "float literal outside {0.0, 1.0} and the declared constants")

    def attribute(self, e, env):
        # narrowed path
        p = self.path_of(e)
        if p is not None and p in env.narrow:
            return env.narrow[p]
        src = ast.unparse(e)
        if src == "Duration.ZERO":
            return "0", "D"
        if isinstance(e.value, ast.Name) and e.value.id == "self" and e.attr in self.cls.consts:
            txt, t = self.cls.consts[e.attr]
            return txt, parse_ty(t)
        if isinstance(e.value, ast.Name) and e.value.id in env.narrow:
            # a field of an optional local known to be non-None on this path
            v, t = env.narrow[e.value.id]
            c = self.tr.classes.get(t)
            if c is not None and e.attr in c.fields:
                return f"({c.fld(e.attr)} {v})", c.fields[e.attr]
        if isinstance(e.value, ast.Name) and e.value.id == "self" and e.attr not in self.cls.fields \
                and (self.cls.name, e.attr) in self.tr.sigs and e.attr in self.cls.defs \
                and "property" in [ast.unparse(d) for d in self.cls.defs[e.attr].decorator_list]:
            # a property of self (translated as a pure method without parameters)
            params, ret, pure, raises, oracles = self.tr.sigs[(self.cls.name, e.attr)]
            if pure and not raises and not oracles and not params:
                return f"({self.cls.name}_{e.attr} self)", ret
            _u(e, "property of self that is not a pure total method")
        if p is not None and not (isinstance(e.value, ast.Name) and env.locals.get(e.value.id) in ("I", "D")):
            txt, t = self.raw_path(e, env)
            return txt, t
        # attribute of a general expression
        x, t = self.expr(e.value, env)
        if t in ("I", "D") and e.attr == "nanoseconds":
            return x, "Z"
        c = self.tr.classes.get(t)
        if c is not None and e.attr in c.fields:
            return f"({c.fld(e.attr)} {x})", c.fields[e.attr]
        if c is not None and (c.name, e.attr) in self.tr.sigs and "property" in [
                ast.unparse(d) for d in c.defs[e.attr].decorator_list]:
            params, ret, pure, raises, oracles = self.tr.sigs[(c.name, e.attr)]
            if pure and not raises and not oracles and not params:
                return f"({c.name}_{e.attr} {x})", ret
        _u(e, f"attribute {e.attr} of a value of type {t}")

    def set_union(self, e, env):
        def dict_of(x):
            if isinstance(x, ast.Call) and isinstance(x.func, ast.Name) and x.func.id == "set" and len(x.args) == 1 and not x.keywords:
                d, dt = self.expr(x.args[0], env)
                if dt == "dict":
                    for n in ast.walk(x.args[0]):
                        if isinstance(n, ast.Name) and n.id != "self" and n.id not in dict(self.params):
                            _u(x, "set() of a dict reached through a local")
                    return d
            return None
        a, b = dict_of(e.left), dict_of(e.right)
        if a is None or b is None:
            return None
        nm = self.tr.gensym("setiter")
        self.oracle_params.append((nm, ("list", "Z")))
        args = " ".join([f"(self : {self.cls.name})"] + [f"({p} : {coq_ty(t)})" for p, t in self.params])
        self.tr.extra_defs.append(
            f"(** elements of the set `{ast.unparse(e)}` that `{nm}` (its iteration order, arbitrary in Python) ranges over *)\n"
            f"Definition {self.cls.name}_{self.name}_{nm.rsplit('_', 1)[0]}_elems {args} : list Z :=\n  map fst {a} ++ map fst {b}.\n")
        return nm, ("list", "Z")

    def binop(self, e, env, want=None):
        if isinstance(e.op, ast.BitOr):
            r = self.set_union(e, env)
            if r is not None:
                return r
        a, at = self.expr(e.left, env, want if want == "F" else None)
        b, bt = self.expr(e.right, env, want if want == "F" else None)
        op = e.op
        if at == "F" or bt == "F":
            # Instant/Duration +/- float: the float is converted with int(x * 1e9) (core/temporal.py)
            if at in ("I", "D") and bt == "F" and isinstance(op, (ast.Add, ast.Sub)):
                return f"({a} {'+' if isinstance(op, ast.Add) else '-'} nanos O {b})", at
            if at in ZLIKE or bt in ZLIKE:
                # int constant mixed with float: re-translate the constant as a float literal
                if isinstance(e.left, ast.Constant) and at == "Z":
                    a, at = self.float_lit(float(e.left.value), e), "F"
                elif isinstance(e.right, ast.Constant) and bt == "Z":
                    b, bt = self.float_lit(float(e.right.value), e), "F"
                else:
                    _u(e, "mixed int/float arithmetic")
            f = {ast.Add: "nadd", ast.Sub: "nsub", ast.Mult: "nmul", ast.Div: "ndiv"}.get(type(op))
            if f is None:
                _u(e, "float operator")
            return f"({f} O {a} {b})", "F"
        if at in ZLIKE and bt in ZLIKE:
            sym = {ast.Add: "+", ast.Sub: "-", ast.Mult: "*", ast.FloorDiv: "/", ast.Mod: "mod"}.get(type(op))
            if sym is None:
                _u(e, "integer operator")
            if isinstance(op, ast.Sub):
                rt = "D" if (at == "I" and bt == "I") else (at if at != "Z" else bt)
            elif isinstance(op, ast.Add):
                rt = "I" if "I" in (at, bt) else ("D" if "D" in (at, bt) else "Z")
            else:
                rt = "Z" if (at == "Z" and bt == "Z") else _u(e, "multiplicative operator on Instant/Duration")
            return f"({a} {sym} {b})", rt
        _u(e, f"operator on types {at}, {bt}")

    def cmp1(self, op, a, at, b, bt, node):
        if isinstance(at, tuple) and at[0] == "tuple" and isinstance(bt, tuple) and bt[0] == "tuple":
            _u(node, "tuple comparison must be written on tuple displays")
        if at == "F" or bt == "F":
            if at != "F" or bt != "F":
                _u(node, "comparison between float and non-float")
            m = {ast.Lt: f"nlt O {a} {b}", ast.LtE: f"nle O {a} {b}", ast.Gt: f"nlt O {b} {a}", ast.GtE: f"nle O {b} {a}"}.get(type(op))
            if m is None:
                _u(node, "float equality is not translated")
            return f"({m})"
        if "cap" in (at, bt) and (at in ZLIKE or bt in ZLIKE):
            # an integer compared with a capacity (float("inf") = None, or an integer)
            if at == "cap":
                a, b = b, a
                op = {ast.Lt: ast.Gt, ast.Gt: ast.Lt, ast.LtE: ast.GtE, ast.GtE: ast.LtE}.get(type(op), type(op))()
            if isinstance(op, ast.GtE):
                return f"(py_cap_le {b} {a})"
            if isinstance(op, ast.Lt):
                return f"(negb (py_cap_le {b} {a}))"
            _u(node, "comparison of an integer with a capacity other than >= / <")
        if at in ZLIKE and bt in ZLIKE:
            m = {ast.Lt: "<?", ast.LtE: "<=?", ast.Gt: ">?", ast.GtE: ">=?", ast.Eq: "=?"}.get(type(op))
            if m:
                return f"({a} {m} {b})"
            if isinstance(op, ast.NotEq):
                return f"(negb ({a} =? {b}))"
            _u(node, "comparison operator")
        if at == "B" and bt == "B" and isinstance(op, ast.Eq):
            return f"(Bool.eqb {a} {b})"
        c = self.tr.classes.get(at)
        if c is not None and at == bt:
            lt = ("__lt__" in c.methods)
            eq = ("__eq__" in c.methods)
            L = lambda x, y: f"({c.name}___lt__ {x} {y})"   # noqa: E731
            Q = lambda x, y: f"({c.name}___eq__ {x} {y})"   # noqa: E731
            if isinstance(op, ast.Lt) and lt:
                return L(a, b)
            if isinstance(op, ast.Eq) and eq:
                return Q(a, b)
            if isinstance(op, ast.NotEq) and eq:
                return f"(negb {Q(a, b)})"
            if c.total_ordering and lt and eq:
                # functools.total_ordering, root __lt__: gt = not lt and ne; le = lt or eq; ge = not lt
                if isinstance(op, ast.Gt):
                    return f"(negb {L(a, b)} && negb {Q(a, b)})"
                if isinstance(op, ast.LtE):
                    return f"({L(a, b)} || {Q(a, b)})"
                if isinstance(op, ast.GtE):
                    return f"(negb {L(a, b)})"
        _u(node, f"comparison on types {at}, {bt}")

    def compare(self, e, env):
        # tuple displays: lexicographic
        if len(e.ops) == 1 and isinstance(e.left, ast.Tuple) and isinstance(e.comparators[0], ast.Tuple):
            l, r = e.left.elts, e.comparators[0].elts
            if len(l) != len(r) or not l:
                _u(e, "tuple comparison of different lengths")
            ls = [self.expr(x, env) for x in l]
            rs = [self.expr(x, env) for x in r]
            for (x, xt), (y, yt) in zip(ls, rs):
                if xt not in ZLIKE or yt not in ZLIKE:
                    _u(e, "tuple comparison on non-integer components")
            op = e.ops[0]
            if isinstance(op, ast.Eq):
                return "(" + " && ".join(f"({x} =? {y})" for (x, _), (y, _) in zip(ls, rs)) + ")", "B"
            if isinstance(op, (ast.Lt, ast.LtE, ast.Gt, ast.GtE)):
                if isinstance(op, (ast.Gt, ast.GtE)):
                    ls, rs = rs, ls
                strict = isinstance(op, (ast.Lt, ast.Gt))
                txt = "false" if strict else "true"
                for (x, _), (y, _) in reversed(list(zip(ls, rs))):
                    txt = f"(({x} <? {y}) || (({x} =? {y}) && {txt}))"
                return txt, "B"
            _u(e, "tuple comparison operator")
        if any(isinstance(o, (ast.Is, ast.IsNot, ast.In, ast.NotIn)) for o in e.ops):
            if len(e.ops) == 1 and isinstance(e.ops[0], (ast.In, ast.NotIn)):
                k, kt = self.expr(e.left, env)
                d, dt = self.expr(e.comparators[0], env)
                if dt == "dict" and kt in ZLIKE:
                    txt = f"(dmem {d} {k})"
                    return (txt if isinstance(e.ops[0], ast.In) else f"(negb {txt})"), "B"
                if dt == ("list", "Z") and kt in ZLIKE:
                    txt = f"(py_in {d} {k})"
                    return (txt if isinstance(e.ops[0], ast.In) else f"(negb {txt})"), "B"
            _u(e, "is/in outside an if-condition None test")
        vals = [self.expr(e.left, env)] + [self.expr(c, env) for c in e.comparators]
        # int constant compared with a float: re-read the constant as a float literal
        nodes = [e.left] + list(e.comparators)
        if any(t == "F" for _, t in vals):
            vals = [((self.float_lit(float(n.value), n), "F") if (t == "Z" and isinstance(n, ast.Constant)) else (x, t))
                    for (x, t), n in zip(vals, nodes)]
        parts = []
        for i, op in enumerate(e.ops):
            (a, at), (b, bt) = vals[i], vals[i + 1]
            parts.append(self.cmp1(op, a, at, b, bt, e))
        return ("(" + " && ".join(parts) + ")" if len(parts) > 1 else parts[0]), "B"

    def call(self, e, env, want=None):
        f = e.func
        if isinstance(f, ast.Name):
            if f.id in ("max", "min") and len(e.args) >= 2 and not e.keywords:
                vals = [self.expr(a, env, want) for a in e.args]
                ts = {t for _, t in vals}
                if ts <= set(ZLIKE):
                    fn = "Z.max" if f.id == "max" else "Z.min"
                    txt = vals[0][0]
                    for x, _ in vals[1:]:
                        txt = f"({fn} {txt} {x})"
                    t0 = vals[0][1]
                    return txt, t0
                if ts == {"F"}:
                    fn = "nmax O" if f.id == "max" else "nmin O"
                    txt = vals[0][0]
                    for x, _ in vals[1:]:
                        txt = f"({fn} {txt} {x})"
                    return txt, "F"
                _u(e, "max/min on mixed types")
            if f.id == "len" and len(e.args) == 1:
                x, t = self.expr(e.args[0], env)
                if isinstance(t, tuple) and t[0] == "list" or t == "dict":
                    return f"(Z.of_nat (length {x}))", "Z"
                _u(e, "len of a non-list")
            if f.id == "sorted" and len(e.args) == 1 and len(e.keywords) == 1 and e.keywords[0].arg == "key" \
                    and isinstance(e.keywords[0].value, ast.Lambda):
                # sorted(L, key=lambda x: <integer expression of x>): stable sort on an integer key
                lam = e.keywords[0].value
                if len(lam.args.args) != 1 or lam.args.vararg or lam.args.kwarg or lam.args.defaults:
                    _u(e, "sort key lambda")
                x = lam.args.args[0].arg
                l, lt = self.expr(e.args[0], env)
                if not (isinstance(lt, tuple) and lt[0] == "list") or x == "self":
                    _u(e, "sorted() of a non-list")
                benv = env.copy()
                benv.locals[x] = lt[1]
                benv.narrow.pop(x, None)
                k, kt = self.expr(lam.body, benv)
                if kt not in ZLIKE:
                    _u(e, "sort key must be an integer")
                return f"(py_sorted_by (fun {x} => {k}) {l})", lt
            if f.id == "bool" and len(e.args) == 1:
                x, t = self.expr(e.args[0], env)
                if isinstance(t, tuple) and t[0] == "list":
                    return f"(negb (match {x} with [] => true | _ => false end))", "B"
                if t == "B":
                    return x, "B"
                _u(e, "bool() of a value that is neither a list nor a bool")
            if f.id == "float" and len(e.args) == 1 and isinstance(e.args[0], ast.Constant) and e.args[0].value in ("inf", "Infinity"):
                # float("inf"): no such value in an abstract arithmetic; an extra parameter stands for it (the tie lemmas
                # show the branch that uses it is not taken under the constructor's guarantees, whatever its value)
                nm = self.tr.gensym("float_inf")
                self.oracle_params.append((nm, "F"))
                return nm, "F"
            if f.id == "float" and len(e.args) == 1:
                x, t = self.expr(e.args[0], env, "F")
                if t == "F":
                    return x, "F"
                _u(e, "float() of a non-float")
            if f.id == "Instant" and len(e.args) == 1 and "Instant" not in self.tr.classes:
                x, t = self.expr(e.args[0], env)
                if t in ZLIKE:
                    return x, "I"
            if f.id == "Duration" and len(e.args) == 1 and "Duration" not in self.tr.classes:
                x, t = self.expr(e.args[0], env)
                if t in ZLIKE:
                    return x, "D"
            if f.id == "int" and len(e.args) == 1:
                x, t = self.expr(e.args[0], env)
                if t == "Z":
                    return x, "Z"
                _u(e, "int() of a non-integer")
            if f.id == "sum" and len(e.args) == 1 and ast.unparse(e.args[0]).endswith(".values()"):
                d, dt = self.expr(e.args[0].func.value, env)
                if dt == "dict":
                    return f"(dsum {d})", "Z"
            if f.id == "dict" and len(e.args) == 1:
                d, dt = self.expr(e.args[0], env)
                if dt == "dict":
                    return d, "dict"
            if f.id == "list" and len(e.args) == 1:
                d, dt = self.expr(e.args[0], env)
                if isinstance(dt, tuple) and dt[0] == "list":
                    return d, dt
            c = self.tr.classes.get(f.id)
            if c is not None:      # struct constructor
                names = list(c.fields)
                given = {}
                for i, a in enumerate(e.args):
                    given[names[i]] = a
                for kw in e.keywords:
                    given[kw.arg] = kw.value
                if set(given) != set(names):
                    _u(e, "constructor arguments do not cover the declared fields")
                parts = []
                for n in names:
                    x, t = self.expr(given[n], env, want=c.fields[n])
                    parts.append(self.coerce(x, t, c.fields[n], e))
                return f"(mk{c.name} {' '.join(parts)})", c.name
            _u(e, "call of an unknown function")
        if isinstance(f, ast.Attribute):
            src = ast.unparse(f)
            if src == "Duration.from_seconds" and len(e.args) == 1:
                x, t = self.expr(e.args[0], env, "F")
                if t == "F":
                    return f"(nanos O {x})", "D"
                _u(e, "Duration.from_seconds of a non-float")
            if isinstance(f.value, ast.Name) and f.value.id == "self":
                if f.attr in self.cls.oracles and (not e.args or f.attr in self.cls.oracle_fns):
                    # (an oracle listed under oracle_fns takes arguments: its result is an arbitrary value per call site)
                    for a in e.args:
                        self.expr(a, env)
                    nm = self.tr.gensym(f.attr.strip("_"))
                    self.oracle_params.append((nm, self.cls.oracles[f.attr]))
                    return nm, self.cls.oracles[f.attr]
                sig = self.tr.sigs.get((self.cls.name, f.attr))
                if sig is not None and sig[2] and not sig[3]:
                    (txt, _), rt, _ = self.self_call(e, env)
                    return txt, rt
                _u(e, "call of a state-changing method inside an expression")
            x, t = self.expr(f.value, env)
            if f.attr == "to_seconds" and t in ("I", "D") and not e.args:
                return f"(secs O {x})", "F"
            if f.attr == "get" and t == "dict" and len(e.args) == 1 and not e.keywords:
                k, kt = self.expr(e.args[0], env)       # d.get(k): None when absent
                if kt in ZLIKE:
                    return f"(dfind {x} {k})", ("opt", "Z")
            if f.attr == "get" and t == "dict" and len(e.args) == 2:
                k, kt = self.expr(e.args[0], env)
                d, dt = self.expr(e.args[1], env)
                if kt in ZLIKE and dt in ZLIKE:
                    return f"(dget {x} {k} {d})", "Z"
            c = self.tr.classes.get(t)
            if c is not None and (c.name, f.attr) in self.tr.sigs:
                params, ret, pure, raises, oracles = self.tr.sigs[(c.name, f.attr)]
                if pure and not raises and len(e.args) == len(params):
                    args = [self.coerce(*self.expr(a, env, pt), pt, e) for a, (_, pt) in zip(e.args, params)]
                    for (op, ot) in oracles:          # one fresh oracle parameter per call site
                        nm = self.tr.gensym(op)
                        self.oracle_params.append((nm, ot))
                        args.append(nm)
                    return f"({c.name}_{f.attr} {x} {' '.join(args)})", ret
            _u(e, f"method call on a value of type {t}")
        _u(e, "call")


# ---------------------------------------------------------------- emission
PRELUDE = '''(** GENERATED by harness/translate/py2coq.py from {repo_files} — DO NOT EDIT.
    Regenerated from $HS_REPO on every check run; tie lemmas live in {tie}. *)
'''


def emit_records(classes: list[Cls]) -> str:
    out = []
    for c in classes:
        flds = "; ".join(f"{c.fld(f)} : {coq_ty(t)}" for f, t in c.fields.items())
        out.append(f"Record {c.name} := mk{c.name} {{ {flds} }}.")
        for f in c.fields:
            rebuilt = " ".join((f"v_" if g == f else f"({c.fld(g)} self)") for g in c.fields)
            out.append(f"Definition set_{c.fld(f)} (self : {c.name}) (v_ : {coq_ty(c.fields[f])}) : {c.name} := mk{c.name} {rebuilt}.")
    return "\n".join(out) + "\n"


def translate_target(repo: str, target: dict) -> str:
    """-> Coq source text of one generated file.  Raises Unsupported."""
    trees = {}
    classes = {}
    order = []
    for spec in target["classes"]:
        fp = os.path.join(repo, spec["file"])
        if fp not in trees:
            trees[fp] = ast.parse(open(fp).read(), filename=fp)
        c = Cls(spec, trees[fp])
        classes[c.name] = c
        order.append(c)
    fc = {float(k): v for k, v in target.get("float_consts", {}).items()}
    tr = Translator(classes, fc)
    tr.static_isinstance = bool(target.get("static_isinstance"))
    body = []
    for c in order:
        if c.dataclass_order:
            body.append(tr.dataclass_lt(c))
        for m in list(c.methods):
            if (c.methods[m] or {}).get("synthetic"):
                continue
            body.append(tr.method(c, m))
    files = sorted({s["file"] for s in target["classes"]})
    txt = PRELUDE.format(repo_files=", ".join(files), tie=target.get("tie", "")) + target["header"] + "\nLocal Open Scope Z_scope.\n"
    if target.get("numeric"):
        txt += "Section Gen.\nVariable O : numops.\n"
    txt += emit_records(order) + "\n" + "\n".join(body)
    if target.get("numeric"):
        txt += "End Gen.\n"
    return txt
