"""What py2coq regenerates: per generated file, the classes/methods of /repo it translates and the
declared types of their fields and parameters (the only hand-written input of the translation).
String ids (node ids) are integers in the models, so they are declared Z here."""

HLCTS = dict(file="happysimulator/core/logical_clocks.py", cls="HLCTimestamp", total_ordering=True,
             fields={"physical_ns": "Z", "logical": "Z", "node_id": "Z"},
             methods={"__lt__": dict(params={"other": "HLCTimestamp"}, pure=True),
                      "__eq__": dict(params={"other": "HLCTimestamp"}, pure=True)})

POLICY = "happysimulator/components/rate_limiter/policy.py"

QP = "happysimulator/components/queue_policy.py"
_QMETHODS = {"capacity": dict(pure=True), "push": dict(params={"item": "Z"}), "pop": dict(ret="opt Z"),
             "peek": dict(pure=True, ret="opt Z"), "is_empty": dict(pure=True), "__len__": dict(pure=True)}

TARGETS = {
    "ClocksGen": dict(
        out="Gen/ClocksGen.v", tie="C18/GenTie.v",
        header="From HS Require Import Base.Prelude Base.PyLib.",
        classes=[
            dict(file="happysimulator/core/logical_clocks.py", cls="LamportClock",
                 fields={"_time": "Z"},
                 methods={"tick": {}, "send": {}, "receive": dict(params={"remote_ts": "Z"})}),
            dict(file="happysimulator/core/logical_clocks.py", cls="VectorClock",
                 fields={"_node_id": "Z", "_vector": "dict"},
                 methods={"tick": {}, "send": {}, "receive": dict(params={"remote": "dict"}),
                          "snapshot": dict(pure=True),
                          "happened_before": dict(params={"other": "VectorClock"}, pure=True),
                          "is_concurrent": dict(params={"other": "VectorClock"}, pure=True)}),
            HLCTS,
            dict(file="happysimulator/core/logical_clocks.py", cls="HybridLogicalClock",
                 fields={"_node_id": "Z", "_last": "HLCTimestamp"},
                 oracles={"_get_physical_ns": "Z"},
                 methods={"now": {}, "send": {}, "receive": dict(params={"remote": "HLCTimestamp"})}),
            dict(file="happysimulator/components/crdt/g_counter.py", cls="GCounter",
                 fields={"_node_id": "Z", "_counts": "dict"},
                 methods={"value": dict(pure=True), "increment": dict(params={"n": "Z"}),
                          "node_value": dict(params={"node_id": "Z"}, pure=True),
                          "merge": dict(params={"other": "GCounter"})}),
            dict(file="happysimulator/components/crdt/pn_counter.py", cls="PNCounter",
                 fields={"_node_id": "Z", "_p": "GCounter", "_n": "GCounter"},
                 methods={"value": dict(pure=True), "increments": dict(pure=True), "decrements": dict(pure=True),
                          "increment": dict(params={"n": "Z"}), "decrement": dict(params={"n": "Z"}),
                          "merge": dict(params={"other": "PNCounter"})}),
            dict(file="happysimulator/components/crdt/lww_register.py", cls="LWWRegister",
                 fields={"_node_id": "Z", "_value": "Z", "_timestamp": "opt HLCTimestamp"},
                 methods={"set": dict(params={"value": "Z", "timestamp": "HLCTimestamp"}),
                          "merge": dict(params={"other": "LWWRegister"})}),
        ],
    ),
    "PolicyGen": dict(
        out="Gen/PolicyGen.v", tie="C10/GenTie.v", numeric="numops",
        header="From HS Require Import Base.Prelude Base.PyLib C10.Model.",
        classes=[
            dict(file=POLICY, cls="TokenBucketPolicy",
                 fields={"_capacity": "F", "_refill_rate": "F", "_tokens": "F", "_last_refill_time": "opt I"},
                 methods={"_refill": dict(params={"now": "I"}), "try_acquire": dict(params={"now": "I"}),
                          "time_until_available": dict(params={"now": "I"})}),
            dict(file=POLICY, cls="LeakyBucketPolicy",
                 fields={"_leak_rate": "F", "_leak_interval": "F", "_last_leak_time": "opt I"},
                 methods={"try_acquire": dict(params={"now": "I"}), "time_until_available": dict(params={"now": "I"}, pure=True)}),
            dict(file=POLICY, cls="SlidingWindowPolicy",
                 fields={"_window_size": "F", "_max_requests": "Z", "_request_log": "list I"},
                 methods={"_prune": dict(params={"now": "I"}), "try_acquire": dict(params={"now": "I"}),
                          "time_until_available": dict(params={"now": "I"})}),
            dict(file=POLICY, cls="AdaptivePolicy",
                 fields={"_current_rate": "F", "_window_size": "F", "_tokens": "F", "_last_refill_time": "opt I"},
                 methods={"_refill": dict(params={"now": "I"}), "try_acquire": dict(params={"now": "I"}),
                          "time_until_available": dict(params={"now": "I"})}),
            dict(file=POLICY, cls="FixedWindowPolicy",
                 fields={"_requests_per_window": "Z", "_window_size": "F", "_current_window_start": "opt I", "_current_window_count": "Z"},
                 methods={"_get_window_start": dict(params={"now": "I"}, pure=True), "_maybe_reset": dict(params={"now": "I"}),
                          "try_acquire": dict(params={"now": "I"}), "time_until_available": dict(params={"now": "I"})}),
        ],
    ),
    "EventGen": dict(
        out="Gen/EventGen.v", tie="C01/GenTie.v",
        header="From HS Require Import Base.Prelude Base.PyLib.",
        classes=[
            dict(file="happysimulator/core/event.py", cls="Event",
                 fields={"time": "I", "_sort_index": "Z", "daemon": "B"},
                 methods={"__lt__": dict(params={"other": "Event"}, pure=True)}),
            # EventHeap with tracing off (the recorder branch is pruned: _tracing_enabled is declared false; C04's
            # check compares traced and untraced runs); push() (list-or-event dispatch) and __init__ are not translated
            dict(file="happysimulator/core/event_heap.py", cls="EventHeap",
                 fields={"_primary_event_count": "Z", "_current_time": "I", "_heap": "list Event", "_max_sort_index": "Z"},
                 heaps=["_heap"], consts={"_tracing_enabled": ("false", "B")},
                 methods={"set_current_time": dict(params={"time": "I"}), "_push_single": dict(params={"event": "Event"}),
                          "pop": dict(ret="Event"), "peek": dict(pure=True, ret="Event"), "has_events": dict(pure=True),
                          "has_primary_events": dict(pure=True), "size": dict(pure=True)}),
        ],
    ),
    "RaftLogGen": dict(
        out="Gen/RaftLogGen.v", tie="C11/GenTie.v",
        header="From HS Require Import Base.Prelude Base.PyLib.",
        classes=[
            dict(file="happysimulator/components/consensus/log.py", cls="LogEntry",
                 fields={"index": "Z", "term": "Z", "command": "Z"}, methods={}),
            dict(file="happysimulator/components/consensus/log.py", cls="Log",
                 fields={"_entries": "list LogEntry", "commit_index": "Z"},
                 methods={"append": dict(params={"term": "Z", "command": "Z"}),
                          "get": dict(params={"index": "Z"}, pure=True, ret="opt LogEntry"),
                          "truncate_from": dict(params={"index": "Z"}),
                          "entries_after": dict(params={"index": "Z"}, pure=True, ret="list LogEntry"),
                          "last_index": dict(pure=True), "last_term": dict(pure=True),
                          "advance_commit": dict(params={"new_commit_index": "Z"}, ret="list LogEntry")}),
            # the majority every Raft safety proof rests on (peers = the other nodes, as ids)
            # _try_advance_commit: the leader's commit rule.  _apply_committed (state machine, futures, counters) touches none
            # of the declared fields and is declared a no-op here; it is hand-modelled (apply_committed) and tied by correspondence
            dict(file="happysimulator/components/consensus/raft.py", cls="RaftNode",
                 fields={"_peers": "list Z", "_log": "Log", "_match_index": "dict", "_current_term": "Z"},
                 noop_methods=["_apply_committed"],
                 methods={"quorum_size": dict(pure=True), "_try_advance_commit": dict(ret="list Z")}),
        ],
    ),
    # queue items are their integer ids (the policies never look inside an item, except PriorityQueue through
    # _get_priority, whose result is an arbitrary integer per call); a capacity is float("inf") or an integer
    "QueuePolicyGen": dict(
        out="Gen/QueuePolicyGen.v", tie="C08/GenTie.v",
        header="From HS Require Import Base.Prelude Base.PyLib.",
        classes=[
            dict(file=QP, cls="FIFOQueue", fields={"_capacity": "cap", "_queue": "list Z"}, methods=dict(_QMETHODS)),
            dict(file=QP, cls="LIFOQueue", fields={"_capacity": "cap", "_queue": "list Z"}, methods=dict(_QMETHODS)),
            dict(file=QP, cls="_PriorityEntry", dataclass_order=True,
                 fields={"priority": "Z", "insert_order": "Z", "item": "Z"}, methods={}),
            dict(file=QP, cls="PriorityQueue",
                 fields={"_capacity": "cap", "_heap": "list _PriorityEntry", "_insert_counter": "Z"},
                 heaps=["_heap"], oracles={"_get_priority": "Z"}, oracle_fns=["_get_priority"],
                 methods=dict(_QMETHODS)),
        ],
    ),
    "PaxosGen": dict(
        out="Gen/PaxosGen.v", tie="C12/GenTie.v",
        header="From HS Require Import Base.Prelude Base.PyLib.",
        classes=[
            dict(file="happysimulator/components/consensus/paxos.py", cls="Ballot", dataclass_order=True,
                 fields={"number": "Z", "node_id": "Z"}, methods={}),
            dict(file="happysimulator/components/consensus/paxos.py", cls="PaxosNode", fields={"_peers": "list Z"},
                 methods={"quorum_size": dict(pure=True)}),
        ],
    ),
    # the WAL never looks at a value or a timestamp: both are opaque integers here
    "WalGen": dict(
        out="Gen/WalGen.v", tie="C15/GenTie.v",
        header="From HS Require Import Base.Prelude Base.PyLib.",
        classes=[
            dict(file="happysimulator/components/storage/wal.py", cls="SyncEveryWrite", fields={},
                 methods={"should_sync": dict(params={"writes_since_sync": "Z", "time_since_sync_s": "Z"}, pure=True)}),
            dict(file="happysimulator/components/storage/wal.py", cls="SyncOnBatch", fields={"batch_size": "Z"},
                 methods={"should_sync": dict(params={"writes_since_sync": "Z", "time_since_sync_s": "Z"}, pure=True)}),
            dict(file="happysimulator/components/storage/wal.py", cls="WALEntry",
                 fields={"sequence_number": "Z", "key": "Z", "value": "Z", "timestamp_s": "Z"}, methods={}),
            dict(file="happysimulator/components/storage/wal.py", cls="WriteAheadLog",
                 fields={"_entries": "list WALEntry", "_synced_up_to_sequence": "Z", "_writes_since_sync": "Z",
                         "_entries_recovered": "Z"},
                 methods={"synced_up_to": dict(pure=True), "size": dict(pure=True),
                          "recover": dict(ret="list WALEntry"), "truncate": dict(params={"up_to_sequence": "Z"}),
                          "crash": {}}),
        ],
    ),
    "ConcurrencyGen": dict(
        out="Gen/ConcurrencyGen.v", tie="C08/ConcTie.v",
        header="From HS Require Import Base.Prelude Base.PyLib.",
        classes=[
            dict(file="happysimulator/components/server/concurrency.py", cls="FixedConcurrency", fields={"_max_concurrent": "Z", "_active": "Z"},
                 methods={"acquire": dict(params={"weight": "Z"}), "release": dict(params={"weight": "Z"}),
                          "has_capacity": dict(params={"weight": "Z"}, pure=True), "available": dict(pure=True),
                          "active": dict(pure=True), "limit": dict(pure=True)}),
            dict(file="happysimulator/components/server/concurrency.py", cls="DynamicConcurrency",
                 fields={"_current_limit": "Z", "_min_limit": "Z", "_max_limit": "opt Z", "_active": "Z"},
                 methods={"set_limit": dict(params={"new_limit": "Z"}), "scale_up": dict(params={"amount": "Z"}),
                          "scale_down": dict(params={"amount": "Z"}),
                          "acquire": dict(params={"weight": "Z"}), "release": dict(params={"weight": "Z"}),
                          "has_capacity": dict(params={"weight": "Z"}, pure=True), "available": dict(pure=True),
                          "active": dict(pure=True), "limit": dict(pure=True)}),
            dict(file="happysimulator/components/server/concurrency.py", cls="WeightedConcurrency", fields={"_total_capacity": "Z", "_used_capacity": "Z"},
                 methods={"acquire": dict(params={"weight": "Z"}), "release": dict(params={"weight": "Z"}),
                          "has_capacity": dict(params={"weight": "Z"}, pure=True), "available": dict(pure=True),
                          "active": dict(pure=True), "limit": dict(pure=True)}),
        ],
    ),
    # core/temporal.py itself (finite instants; the float-seconds branches are not translated): what the idiom table
    # "Instant/Duration are integer nanoseconds" of the other targets rests on; and core/clock.py
    "TemporalGen": dict(
        out="Gen/TemporalGen.v", tie="C01/TimeTie.v", static_isinstance=True,
        header="From HS Require Import Base.Prelude Base.PyLib.",
        classes=[
            dict(file="happysimulator/core/temporal.py", cls="Duration", fields={"nanoseconds": "Z"},
                 methods={"__add__#dur": dict(params={"other": "Duration"}, pure=True), "__add__#int": dict(params={"other": "Z"}, pure=True),
                          "__sub__#dur": dict(params={"other": "Duration"}, pure=True), "__sub__#int": dict(params={"other": "Z"}, pure=True),
                          "__eq__": dict(params={"other": "Duration"}, pure=True), "__lt__": dict(params={"other": "Duration"}, pure=True),
                          "__le__": dict(params={"other": "Duration"}, pure=True), "__gt__": dict(params={"other": "Duration"}, pure=True),
                          "__ge__": dict(params={"other": "Duration"}, pure=True)}),
            dict(file="happysimulator/core/temporal.py", cls="Instant", fields={"nanoseconds": "Z"},
                 methods={"__add__#dur": dict(params={"other": "Duration"}, pure=True), "__add__#int": dict(params={"other": "Z"}, pure=True),
                          "__sub__#inst": dict(params={"other": "Instant"}, pure=True), "__sub__#dur": dict(params={"other": "Duration"}, pure=True),
                          "__sub__#int": dict(params={"other": "Z"}, pure=True),
                          "__eq__": dict(params={"other": "Instant"}, pure=True), "__lt__": dict(params={"other": "Instant"}, pure=True),
                          "__le__": dict(params={"other": "Instant"}, pure=True), "__gt__": dict(params={"other": "Instant"}, pure=True),
                          "__ge__": dict(params={"other": "Instant"}, pure=True)}),
            dict(file="happysimulator/core/clock.py", cls="Clock", fields={"_current_time": "Instant"},
                 methods={"now": dict(pure=True), "update": dict(params={"time": "Instant"})}),
        ],
    ),
    # the three breakpoint predicates that read only the context (MetricBreakpoint uses getattr: hand-modelled)
    "BreakpointGen": dict(
        out="Gen/BreakpointGen.v", tie="C04/GenTie.v",
        header="From HS Require Import Base.Prelude Base.PyLib.",
        classes=[
            dict(file="happysimulator/core/event.py", cls="Event", fields={"event_type": "Z"}, methods={}),
            dict(file="happysimulator/core/control/state.py", cls="BreakpointContext",
                 fields={"current_time": "I", "events_processed": "Z", "last_event": "Event"}, methods={}),
            dict(file="happysimulator/core/control/breakpoints.py", cls="TimeBreakpoint", fields={"time": "I", "one_shot": "B"},
                 methods={"should_break": dict(params={"context": "BreakpointContext"}, pure=True)}),
            dict(file="happysimulator/core/control/breakpoints.py", cls="EventCountBreakpoint", fields={"count": "Z", "one_shot": "B"},
                 methods={"should_break": dict(params={"context": "BreakpointContext"}, pure=True)}),
            dict(file="happysimulator/core/control/breakpoints.py", cls="EventTypeBreakpoint", fields={"event_type": "Z", "one_shot": "B"},
                 methods={"should_break": dict(params={"context": "BreakpointContext"}, pure=True)}),
        ],
    ),
    # cache keys are integers; an OrderedDict used as an ordered set stores 0 for None
    "EvictionGen": dict(
        out="Gen/EvictionGen.v", tie="C16/GenTie.v",
        header="From HS Require Import Base.Prelude Base.PyLib.",
        classes=[
            dict(file="happysimulator/components/datastore/eviction_policies.py", cls="LRUEviction", fields={"_order": "dict"}, methods={"on_access": dict(params={"key": "Z"}), "on_insert": dict(params={"key": "Z"}), "on_remove": dict(params={"key": "Z"}), "evict": dict(ret="opt Z"), "clear": {}}),
            dict(file="happysimulator/components/datastore/eviction_policies.py", cls="FIFOEviction", fields={"_order": "list Z"}, methods={"on_access": dict(params={"key": "Z"}), "on_insert": dict(params={"key": "Z"}), "on_remove": dict(params={"key": "Z"}), "evict": dict(ret="opt Z"), "clear": {}}),
            dict(file="happysimulator/components/datastore/eviction_policies.py", cls="LFUEviction", fields={"_counts": "dict", "_min_count": "Z"}, methods={"on_access": dict(params={"key": "Z"}), "on_insert": dict(params={"key": "Z"}), "on_remove": dict(params={"key": "Z"}), "evict": dict(ret="opt Z"), "clear": {}}),
        ],
    ),
    # Memtable, synchronous API (the generator methods put/get are hand-modelled); keys and stored values are integers
    # (a stored value is never None: LSMTree writes a tombstone object for deletes)
    "MemtableGen": dict(
        out="Gen/MemtableGen.v", tie="C14/MemTie.v",
        header="From HS Require Import Base.Prelude Base.PyLib.",
        classes=[
            dict(file="happysimulator/components/storage/memtable.py", cls="Memtable",
                 fields={"_size_threshold": "Z", "_data": "dict", "_total_writes": "Z", "_total_bytes_written": "Z",
                         "_total_reads": "Z", "_total_hits": "Z", "_total_misses": "Z"},
                 methods={"is_full": dict(pure=True), "size": dict(pure=True),
                          "put_sync": dict(params={"key": "Z", "value": "Z"}),
                          "get_sync": dict(params={"key": "Z"}, ret="opt Z"),
                          "contains": dict(params={"key": "Z"}, pure=True)}),
        ],
    ),
    # DeadlineQueue: push / pop (drain expired entries) / is_empty / __len__; items are ids, _get_deadline(item) an arbitrary
    # instant per call, _now() the clock reading (None when no clock function was given)
    "DeadlineGen": dict(
        out="Gen/DeadlineGen.v", tie="C08/DeadlineTie.v",
        header="From HS Require Import Base.Prelude Base.PyLib.",
        classes=[
            dict(file="happysimulator/components/queue_policies/deadline_queue.py", cls="_DeadlineEntry", dataclass_order=True,
                 fields={"deadline_ns": "Z", "insert_order": "Z", "item": "Z", "deadline": "I"}, methods={}),
            dict(file="happysimulator/components/queue_policies/deadline_queue.py", cls="DeadlineQueue",
                 fields={"_capacity": "cap", "_heap": "list _DeadlineEntry", "_insert_counter": "Z", "_enqueued": "Z",
                         "_dequeued": "Z", "_expired": "Z", "_capacity_rejected": "Z"},
                 heaps=["_heap"], oracles={"_get_deadline": "I", "_now": "opt I"}, oracle_fns=["_get_deadline"],
                 methods={"push": dict(params={"item": "Z"}), "pop": dict(ret="opt Z"),
                          "is_empty": dict(pure=True), "__len__": dict(pure=True)}),
        ],
    ),
}
