"""What py2coq regenerates: per generated file, the classes/methods of /repo it translates and the
declared types of their fields and parameters (the only hand-written input of the translation).
String ids (node ids) are integers in the models, so they are declared Z here."""

HLCTS = dict(file="happysimulator/core/logical_clocks.py", cls="HLCTimestamp", total_ordering=True,
             fields={"physical_ns": "Z", "logical": "Z", "node_id": "Z"},
             methods={"__lt__": dict(params={"other": "HLCTimestamp"}, pure=True),
                      "__eq__": dict(params={"other": "HLCTimestamp"}, pure=True)})

TARGETS = {
    "ClocksGen": dict(
        out="Gen/ClocksGen.v", tie="C18/GenTie.v",
        header="From HS Require Import Base.Prelude Base.PyLib.",
        classes=[
            dict(file="happysimulator/core/logical_clocks.py", cls="LamportClock",
                 fields={"_time": "Z"},
                 methods={"tick": {}, "send": {}, "receive": dict(params={"remote_ts": "Z"})}),
            dict(file="happysimulator/core/logical_clocks.py", cls="VectorClock",
                 fields={"_node_id": "Z", "_vector": "dict"},
                 methods={"tick": {}, "send": {}, "receive": dict(params={"remote": "dict"}),
                          "snapshot": dict(pure=True)}),
            HLCTS,
            dict(file="happysimulator/core/logical_clocks.py", cls="HybridLogicalClock",
                 fields={"_node_id": "Z", "_last": "HLCTimestamp"},
                 oracles={"_get_physical_ns": "Z"},
                 methods={"now": {}, "send": {}, "receive": dict(params={"remote": "HLCTimestamp"})}),
            dict(file="happysimulator/components/crdt/g_counter.py", cls="GCounter",
                 fields={"_node_id": "Z", "_counts": "dict"},
                 methods={"value": dict(pure=True), "increment": dict(params={"n": "Z"}),
                          "node_value": dict(params={"node_id": "Z"}, pure=True),
                          "merge": dict(params={"other": "GCounter"})}),
            dict(file="happysimulator/components/crdt/lww_register.py", cls="LWWRegister",
                 fields={"_node_id": "Z", "_value": "Z", "_timestamp": "opt HLCTimestamp"},
                 methods={"set": dict(params={"value": "Z", "timestamp": "HLCTimestamp"}),
                          "merge": dict(params={"other": "LWWRegister"})}),
        ],
    ),
}
