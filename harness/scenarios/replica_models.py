"""Picklable model builders for the ParallelRunner check of C03 (the same model and seed must give the
same run in a worker process as in this process)."""
from __future__ import annotations


def build_router_sim():
    from happysimulator import Instant, Simulation, Sink, Source
    from happysimulator.components.random_router import RandomRouter
    sinks = [Sink("sink_a"), Sink("sink_b"), Sink("sink_c")]
    router = RandomRouter("router", targets=sinks)
    source = Source.poisson(rate=150.0, target=router, event_type="Request", name="src")
    return Simulation(end_time=Instant.from_seconds(4.0), sources=[source], entities=[router, *sinks])


def fingerprint(summary):
    return [summary.total_events_processed, sorted((name, es.events_handled) for name, es in summary.entities.items())]


def main():
    import json
    import random
    import numpy as np
    from happysimulator.parallel.runner import ParallelRunner, RunConfig
    out = []
    for base in (0, 5):
        ref = []
        for i in range(3):
            random.seed(base + i)
            np.random.seed(base + i)
            ref.append(fingerprint(build_router_sim().run()))
        random.seed(987654321)          # the parent's own RNG state must not matter
        random.random()
        np.random.seed(1234567)
        got = [fingerprint(r.summary) for r in ParallelRunner(max_workers=2).run_replicas(build_router_sim, 3, base_seed=base)]
        sweep = [fingerprint(r.summary) for r in ParallelRunner(max_workers=2).run_sweep(
            [RunConfig(name=f"s{i}", build_fn=build_router_sim, seed=base + i) for i in range(3)])]
        out.append(dict(base_seed=base, in_process=ref, replicas=got, sweep=sweep))
    print(json.dumps(out))


if __name__ == "__main__":
    main()
