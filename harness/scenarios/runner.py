"""Run one library scenario under the C03/C07 monitors.

A scenario builder is a function  build(seed: int, variant: int) -> (sim, stats_fn)
that assembles a real `Simulation` from library components (seeded through
`seed`; `variant` selects a constructor configuration) and returns it un-run
together with a function producing a JSON-able dict of component statistics.

`run(name, seed, variant)` runs it with
* a push monitor: every event pushed onto the heap is compared with the clock at
  the moment of the push (an event stamped earlier than the clock is "into the
  past": the engine will discard it),
* a frozen-clock watchdog: number of pops at one simulated instant,
* a logging handler counting "Time travel detected" warnings,
and returns the canonical delivery digest (time ns, event type, target name) and
the statistics.  No source hooks: the heap's push/pop are wrapped on the instance.
"""
from __future__ import annotations

import hashlib
import importlib
import json
import logging
import random


class _TT(logging.Handler):
    def __init__(self):
        super().__init__()
        self.n = 0
        self.samples = []

    def emit(self, record):
        msg = record.getMessage()
        if "Time travel" in msg:
            self.n += 1
            if len(self.samples) < 3:
                self.samples.append(msg[:200])


def builders():
    mod = importlib.import_module("scenarios.library")
    return mod.SCENARIOS


def canon(v):
    if isinstance(v, float):
        return float.hex(v)
    if isinstance(v, dict):
        return {str(k): canon(x) for k, x in sorted(v.items(), key=lambda kv: str(kv[0]))}
    if isinstance(v, (list, tuple)):
        return [canon(x) for x in v]
    if isinstance(v, (set, frozenset)):
        return sorted(canon(x) for x in v)
    if isinstance(v, (int, str, bool)) or v is None:
        return v
    return str(type(v).__name__)


def run(name: str, seed: int, variant: int = 0, max_same_instant: int = 20000, max_events: int = 400000, wall_s: float = 60.0):
    from hsverif.util import Timeout, time_limit
    random.seed(seed)
    sim, stats_fn = builders()[name](seed, variant)
    heap = sim._event_heap
    clock = sim._clock
    orig_push, orig_pop = heap._push_single, heap.pop
    past, deliveries = [], hashlib.sha256()
    st = {"t": None, "same": 0, "total": 0, "max_same": 0, "frozen": None, "first": []}

    def push_single(ev):
        if ev.time < clock.now:
            if len(past) < 5:
                tgt = getattr(ev.target, "name", type(ev.target).__name__)
                past.append([clock.now.nanoseconds, ev.time.nanoseconds, ev.event_type, tgt])
            st["past_n"] = st.get("past_n", 0) + 1
        return orig_push(ev)

    def pop():
        ev = orig_pop()
        st["total"] += 1
        if ev.time == st["t"]:
            st["same"] += 1
            st["max_same"] = max(st["max_same"], st["same"])
            if st["same"] > max_same_instant:
                st["frozen"] = [ev.time.nanoseconds, ev.event_type, getattr(ev.target, "name", type(ev.target).__name__)]
                raise RuntimeError("frozen-clock watchdog")
        else:
            st["t"], st["same"] = ev.time, 0
        if st["total"] > max_events:
            raise RuntimeError("event budget exhausted")
        if not ev._cancelled and not ev.time < clock.now:
            tgt = getattr(ev.target, "name", type(ev.target).__name__)
            rec = f"{ev.time.nanoseconds}|{ev.event_type}|{tgt}\n"
            deliveries.update(rec.encode())
            if len(st["first"]) < 6:
                st["first"].append(rec.strip())
        return ev

    heap._push_single = push_single
    heap.pop = pop
    tt = _TT()
    lg = logging.getLogger("happysimulator.core.simulation")
    lg.addHandler(tt)
    old = lg.level
    lg.setLevel(logging.WARNING)
    verdict = "ok"
    try:
        with time_limit(wall_s):
            sim.run()
    except Timeout:
        verdict = "wall-timeout"
    except RuntimeError as e:
        if "frozen-clock" in str(e):
            verdict = "frozen-clock"
        elif "budget" in str(e):
            verdict = "event-budget"
        else:
            verdict = "raised:" + str(e)[:120]
    except Exception as e:  # noqa: BLE001
        verdict = f"raised:{type(e).__name__}:{str(e)[:120]}"
    finally:
        lg.removeHandler(tt)
        lg.setLevel(old)
    try:
        stats = canon(stats_fn()) if verdict == "ok" else None
    except Exception as e:  # noqa: BLE001
        stats = {"stats_error": f"{type(e).__name__}: {e}"[:200]}
    return dict(name=name, seed=seed, variant=variant, verdict=verdict, events=st["total"],
                max_same_instant=st["max_same"], frozen=st["frozen"], past_pushes=st.get("past_n", 0), past_samples=past,
                time_travel_warnings=tt.n, tt_samples=tt.samples,
                digest=deliveries.hexdigest(), first=st["first"],
                stats_digest=hashlib.sha256(json.dumps(stats, sort_keys=True).encode()).hexdigest(), stats=stats)


if __name__ == "__main__":
    import sys
    # usage: python -m scenarios.runner <name> <seed> <variant> [prior_activity]
    name, seed, variant = sys.argv[1], int(sys.argv[2]), int(sys.argv[3])
    prior = int(sys.argv[4]) if len(sys.argv) > 4 else 0
    names = sorted(builders())
    if prior < 0:                       # the same model, built and run once before in this interpreter
        run(name, seed, variant)
    for k in range(max(prior, 0)):      # unrelated simulations run earlier in this interpreter
        other = names[(k * 7 + 3) % len(names)]
        if other != name:
            run(other, seed + 1000 + k, 0, wall_s=20.0)
    print(json.dumps(run(name, seed, variant)))
