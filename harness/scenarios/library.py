"""Corpus of small deterministic scenario builders over the happysimulator component library.

Every builder has the signature  build(seed: int, variant: int) -> (sim, stats_fn):
it constructs fresh components and an un-run `Simulation` with a finite end time and
returns it together with a function producing a JSON-able dict of public statistics.
`variant` selects a constructor configuration of the same family (variant % k).

All randomness is seeded from `seed`; nothing here depends on wall-clock time, uuid,
os.urandom or hash() ordering.
"""
from __future__ import annotations

import dataclasses
import enum
import random
from collections import deque
from typing import Callable

from happysimulator import (
    ConstantArrivalTimeProvider,
    ConstantLatency,
    ConstantRateProfile,
    Counter,
    Duration,
    Entity,
    Event,
    ExponentialLatency,
    FIFOQueue,
    Instant,
    LIFOQueue,
    LinearRampProfile,
    PoissonArrivalTimeProvider,
    PriorityQueue,
    Queue,
    QueueDriver,
    QueuedResource,
    SimFuture,
    Simulation,
    Sink,
    Source,
    SpikeProfile,
    all_of,
    any_of,
)
from happysimulator.load.event_provider import EventProvider

SCENARIOS: dict[str, Callable[[int, int], tuple]] = {}


def scenario(fn):
    SCENARIOS[fn.__name__] = fn
    return fn


# ---------------------------------------------------------------------------
# statistics helpers
# ---------------------------------------------------------------------------

def _clean(v, depth=0):
    """Convert a public value into something JSON-able and deterministic."""
    if v is None or isinstance(v, (bool, int, str, float)):
        return v
    if depth > 6:
        return type(v).__name__
    if isinstance(v, Instant):
        return "inf" if v == Instant.Infinity else v.nanoseconds
    if isinstance(v, Duration):
        return v.nanoseconds
    if isinstance(v, enum.Enum):
        return v.name
    if isinstance(v, Entity):
        return "entity:" + str(v.name)
    if dataclasses.is_dataclass(v) and not isinstance(v, type):
        return {f.name: _clean(getattr(v, f.name), depth + 1) for f in dataclasses.fields(v)
                if not f.name.startswith("_")}
    if isinstance(v, dict):
        items = sorted(((str(_clean(k, depth + 1)), _clean(x, depth + 1)) for k, x in v.items()),
                       key=lambda kv: kv[0])
        return dict(items[:300])
    if isinstance(v, (list, tuple, deque)):
        return [_clean(x, depth + 1) for x in list(v)[:300]]
    if isinstance(v, (set, frozenset)):
        return sorted(str(_clean(x, depth + 1)) for x in v)[:300]
    if isinstance(v, bytes):
        return v.hex()
    return type(v).__name__


_SKIP_PROPS = {"now", "local_now", "clock", "wall_clock_seconds"}


def pub(obj, *extra):
    """Public state of a component: `.stats`, simple public properties and attributes.

    Only values of simple types (numbers, strings, enums, instants, small containers,
    dataclasses) are kept; everything else is dropped.  `extra` names additional
    attributes/zero-argument methods to include.
    """
    out = {}
    cls = type(obj)
    names = []
    for n in dir(cls):
        if n.startswith("_") or n in _SKIP_PROPS:
            continue
        if isinstance(getattr(cls, n, None), property):
            names.append(n)
    for n in getattr(obj, "__dict__", {}):
        if not n.startswith("_") and n not in _SKIP_PROPS:
            names.append(n)
    for n in sorted(set(names)):
        try:
            val = getattr(obj, n)
        except Exception as e:  # noqa: BLE001
            out[n] = "raised:" + type(e).__name__
            continue
        if callable(val) and not dataclasses.is_dataclass(val):
            continue
        c = _clean(val)
        if isinstance(c, str) and c == type(val).__name__ and not isinstance(val, str):
            continue  # opaque object
        out[n] = c
    for n in extra:
        try:
            val = getattr(obj, n)
            if callable(val):
                val = val()
            out[n] = _clean(val)
        except Exception as e:  # noqa: BLE001
            out[n] = "raised:" + type(e).__name__
    return out


def sink_stats(s: Sink):
    return {"received": s.events_received, "latency": s.latency_stats(),
            "last_completion_ns": s.completion_times[-1].nanoseconds if s.completion_times else None}


def counter_stats(c: Counter):
    return {"total": c.total, "by_type": dict(c.by_type)}


def _seed(seed: int) -> None:
    """Seed every global RNG the library draws from (random, numpy)."""
    random.seed(seed)
    try:
        import numpy as np
        np.random.seed(seed % (2 ** 32))
    except ImportError:  # pragma: no cover
        pass


def T(s: float) -> Instant:
    return Instant.from_seconds(s)


# ---------------------------------------------------------------------------
# small reusable model entities
# ---------------------------------------------------------------------------

class FnProvider(EventProvider):
    """EventProvider calling fn(time, n) -> list[Event]; stops after `stop_after` seconds."""

    def __init__(self, fn, stop_after: float | None = None):
        self._fn = fn
        self._stop = None if stop_after is None else Instant.from_seconds(stop_after)
        self.generated = 0

    def get_events(self, time: Instant):
        if self._stop is not None and time > self._stop:
            return []
        self.generated += 1
        evs = self._fn(time, self.generated)
        if evs is None:
            return []
        if isinstance(evs, Event):
            evs = [evs]
        for e in evs:
            e.time = time
        return evs


def make_source(name, fn, rate, *, poisson=False, stop_after=None, profile=None):
    prof = profile if profile is not None else ConstantRateProfile(rate=rate)
    cls = PoissonArrivalTimeProvider if poisson else ConstantArrivalTimeProvider
    return Source(name=name, event_provider=FnProvider(fn, stop_after),
                  arrival_time_provider=cls(prof, start_time=Instant.Epoch))


def req_source(name, target, rate, *, poisson=False, stop_after=None, event_type="Request", ctx=None,
               profile=None):
    """Source of plain request events with a deterministic context."""

    def fn(time, n):
        c = {"created_at": time, "request_id": n}
        if ctx is not None:
            c.update(ctx(time, n))
        return [Event(time=time, event_type=event_type, target=target, context=c)]

    return make_source(name, fn, rate, poisson=poisson, stop_after=stop_after, profile=profile)


class DelayServer(Entity):
    """Unbounded-concurrency server: holds each event for `delay` seconds, then forwards."""

    def __init__(self, name, delay=0.01, downstream=None, jitter=0.0, rng=None):
        super().__init__(name)
        self.delay, self.downstream, self.jitter = delay, downstream, jitter
        self.rng = rng
        self.started = 0
        self.completed = 0
        self.in_flight = 0
        self.peak = 0

    def handle_event(self, event):
        self.started += 1
        self.in_flight += 1
        self.peak = max(self.peak, self.in_flight)
        d = self.delay
        if self.jitter and self.rng is not None:
            d += self.rng.random() * self.jitter
        yield d
        self.in_flight -= 1
        self.completed += 1
        if self.downstream is not None:
            return [self.forward(event, self.downstream)]
        return None


class LoadedBackend(Entity):
    """Directly-invoked backend whose service time grows with the number of requests in flight."""

    def __init__(self, name, base=0.01, per_inflight=0.01, downstream=None):
        super().__init__(name)
        self.base, self.per_inflight, self.downstream = base, per_inflight, downstream
        self.in_flight = 0
        self.peak = 0
        self.started = 0
        self.completed = 0

    def handle_event(self, event):
        self.started += 1
        self.in_flight += 1
        self.peak = max(self.peak, self.in_flight)
        yield self.base + self.per_inflight * self.in_flight
        self.in_flight -= 1
        self.completed += 1
        if self.downstream is not None:
            return [self.forward(event, self.downstream)]
        return None


class ReplyServer(Entity):
    """Serves requests after `delay` and resolves context['reply_future'] if present."""

    def __init__(self, name, delay=0.01, fail_every=0):
        super().__init__(name)
        self.delay = delay
        self.fail_every = fail_every
        self.handled = 0

    def handle_event(self, event):
        self.handled += 1
        n = self.handled
        yield self.delay
        fut = event.context.get("reply_future")
        if fut is not None and not fut.is_resolved:
            failed = bool(self.fail_every) and n % self.fail_every == 0
            fut.resolve({"ok": not failed, "n": n})
        return None


class Script(Entity):
    """Runs one generator function per 'Start' event: fn(self, event) -> generator."""

    def __init__(self, name, fn, catch=True):
        super().__init__(name)
        self.fn = fn
        self.catch = catch  # False: exceptions raised inside the process propagate out of sim.run()
        self.runs = 0
        self.done = 0
        self.errors: list[str] = []
        self.log: list = []

    def handle_event(self, event):
        self.runs += 1
        try:
            result = yield from self.fn(self, event)
        except Exception as e:  # noqa: BLE001 - recorded, part of the observation
            if not self.catch:
                raise
            self.errors.append(type(e).__name__ + ":" + str(e)[:60])
            result = None
        self.done += 1
        return result


def start(entity, at=0.0, event_type="Start", **ctx):
    return Event(time=T(at), event_type=event_type, target=entity, context=dict(ctx) if ctx else None)


def script_stats(s: Script):
    return {"runs": s.runs, "done": s.done, "errors": list(s.errors), "log": _clean(s.log)}


# ---------------------------------------------------------------------------
# core: sources, sinks, profiles
# ---------------------------------------------------------------------------

@scenario
def core_source_constant(seed, variant):
    _seed(seed)
    v = variant % 3
    sink = Sink("sink")
    counter = Counter("counter")
    server = DelayServer("server", delay=[0.005, 0.05, 0.2][v], downstream=sink)
    src = Source.constant(rate=[20, 50, 100][v], target=server, event_type="Request", name="src",
                          stop_after=[8.0, 4.0, 2.0][v])
    src2 = Source.constant(rate=[5, 7, 11][v], target=counter, event_type="Tick", name="ticks")
    sim = Simulation(sources=[src, src2], entities=[server, sink, counter], duration=[10.0, 5.0, 3.0][v])

    def stats():
        return {"sink": sink_stats(sink), "counter": counter_stats(counter),
                "server": pub(server), "generated": [src.generated_count, src2.generated_count]}

    return sim, stats


@scenario
def core_source_poisson(seed, variant):
    _seed(seed)
    v = variant % 3
    sink = Sink("sink")
    server = DelayServer("server", delay=[0.01, 0.03, 0.1][v], downstream=sink)
    srcs = [Source.poisson(rate=[30, 15, 60][v], target=server, event_type=f"Req{i}", name=f"src{i}",
                           stop_after=[5.0, 8.0, 3.0][v]) for i in range(1 + v)]
    sim = Simulation(sources=srcs, entities=[server, sink], end_time=T([6.0, 9.0, 4.0][v]))

    def stats():
        return {"sink": sink_stats(sink), "server": pub(server), "generated": [s.generated_count for s in srcs]}

    return sim, stats


@scenario
def core_source_profiles(seed, variant):
    _seed(seed)
    v = variant % 5
    sink = Sink("sink")
    server = DelayServer("server", delay=0.02, downstream=sink)
    # (profiles with several discontinuities make the library's numerical integration slow; variant 4 is a
    #  steep ramp for which ArrivalTimeProvider.next_arrival_time can take minutes of wall time for some seeds)
    profile = [
        # variants 0-2: the ramp's kink (t = duration_s) lies beyond the end of the run
        LinearRampProfile(duration_s=20.0, start_rate=5.0, end_rate=255.0),
        LinearRampProfile(duration_s=20.0, start_rate=10.0, end_rate=170.0),
        LinearRampProfile(duration_s=20.0, start_rate=60.0, end_rate=5.0),
        SpikeProfile(baseline_rate=8.0, spike_rate=90.0, warmup_s=2.0, spike_duration_s=100.0),
        LinearRampProfile(duration_s=4.0, start_rate=10.0, end_rate=500.0),
    ][v]
    src = Source.with_profile(profile=profile, target=server, poisson=(v in (0, 3, 4)), name="src",
                              stop_after=(7.0 if v != 4 else 2.0))
    sim = Simulation(sources=[src], entities=[server, sink], duration=8.0)

    def stats():
        return {"sink": sink_stats(sink), "server": pub(server), "generated": src.generated_count}

    return sim, stats


@scenario
def core_generators_futures(seed, variant):
    """Generators yielding delays, side effects, futures, any_of / all_of."""
    _seed(seed)
    v = variant % 3
    backends = [ReplyServer(f"backend{i}", delay=[0.01, 0.05, 0.12][(i + v) % 3], fail_every=[0, 5, 3][v])
                for i in range(3)]
    sink = Sink("sink")
    timeout_s = [0.2, 0.06, 0.03][v]

    def body(self, event):
        n = event.context.get("request_id", 0)
        futs = [SimFuture() for _ in backends]
        evs = [Event(time=self.now, event_type="Call", target=b, context={"reply_future": f})
               for b, f in zip(backends, futs)]
        yield 0.001, evs
        if n % 2 == 0:
            timer = SimFuture()
            yield 0.0, [Event.once(time=self.now + timeout_s, event_type="Timer",
                                   fn=lambda e, t=timer: t.resolve("timeout") if not t.is_resolved else None)]
            idx, val = yield any_of(any_of(*futs), timer)
            self.log.append([n, "any", idx])
        else:
            vals = yield all_of(*futs)
            self.log.append([n, "all", len(vals)])
        return [Event(time=self.now, event_type="Done", target=sink, context={"created_at": event.context["created_at"]})]

    orchestrator = Script("orchestrator", body)
    src = req_source("src", orchestrator, [10, 25, 40][v], poisson=(v == 1), stop_after=4.0)
    sim = Simulation(sources=[src], entities=[orchestrator, sink, *backends], duration=5.0)

    def stats():
        return {"sink": sink_stats(sink), "orch": script_stats(orchestrator),
                "backends": [b.handled for b in backends]}

    return sim, stats


# ---------------------------------------------------------------------------
# queues, queue drivers, queue policies
# ---------------------------------------------------------------------------

class LimitedWorker(Entity):
    """Worker with a concurrency limit, used behind an explicit Queue + QueueDriver."""

    def __init__(self, name, service, concurrency=1, downstream=None):
        super().__init__(name)
        self.service, self.concurrency, self.downstream = service, concurrency, downstream
        self.in_flight = 0
        self.processed = 0
        self.order: list = []

    def has_capacity(self):
        return self.in_flight < self.concurrency

    def handle_event(self, event):
        self.in_flight += 1
        yield self.service.get_latency(self.now).to_seconds()
        self.in_flight -= 1
        self.processed += 1
        if len(self.order) < 200:
            self.order.append(event.context.get("request_id"))
        if self.downstream is not None:
            return [self.forward(event, self.downstream)]
        return []


@scenario
def queue_driver_basic_policies(seed, variant):
    """Explicit Queue + QueueDriver + worker; FIFO bounded / LIFO / priority, overloaded."""
    _seed(seed)
    v = variant % 4
    sink = Sink("sink")
    policy = [FIFOQueue(capacity=10), LIFOQueue(capacity=25),
              PriorityQueue(key=lambda e: e.context.get("prio", 0)),
              FIFOQueue()][v]
    worker = LimitedWorker("worker", [ConstantLatency(0.05), ExponentialLatency(0.04), ConstantLatency(0.03),
                                      ExponentialLatency(0.02)][v],
                           concurrency=[1, 2, 1, 3][v], downstream=sink)
    driver = QueueDriver(name="driver", queue=None, target=worker)
    queue = Queue(name="queue", egress=driver, policy=policy)
    driver.queue = queue
    src_a = req_source("src_a", queue, [30, 60, 25, 100][v], poisson=True, stop_after=4.0,
                       ctx=lambda t, n: {"prio": n % 3})
    src_b = req_source("src_b", queue, [10, 20, 25, 80][v], poisson=False, stop_after=4.0,
                       ctx=lambda t, n: {"prio": 5})
    sim = Simulation(sources=[src_a, src_b], entities=[queue, driver, worker, sink], duration=6.0)

    def stats():
        return {"sink": sink_stats(sink), "queue": {"accepted": queue.stats_accepted, "dropped": queue.stats_dropped,
                                                    "depth": queue.depth},
                "worker": {"processed": worker.processed, "in_flight": worker.in_flight, "order": worker.order}}

    return sim, stats


@scenario
def queue_policies_aqm(seed, variant):
    """Server fronted by CoDel / RED / AdaptiveLIFO under a load spike."""
    from happysimulator.components.queue_policies import AdaptiveLIFO, CoDelQueue, REDQueue
    from happysimulator.components.server import Server

    _seed(seed)
    v = variant % 3
    sink = Sink("sink")
    holder = {}
    clock = lambda: holder["server"].now  # noqa: E731
    policy = [CoDelQueue(target_delay=0.02, interval=0.2, capacity=200, clock_func=clock),
              REDQueue(min_threshold=5, max_threshold=20, max_probability=0.3, weight=0.2),
              AdaptiveLIFO(congestion_threshold=8, capacity=40)][v]
    server = Server("server", concurrency=[1, 2, 1][v],
                    service_time=[ConstantLatency(0.02), ExponentialLatency(0.03), ConstantLatency(0.025)][v],
                    queue_policy=policy, downstream=sink)
    holder["server"] = server
    src = req_source("src", server, [70, 90, 60][v], poisson=True, stop_after=5.0)
    burst = req_source("burst", server, [40, 30, 50][v], poisson=False, stop_after=2.0)
    sim = Simulation(sources=[src, burst], entities=[server, sink], duration=7.0)

    def stats():
        return {"sink": sink_stats(sink), "server": pub(server), "policy": pub(policy),
                "accepted": server.stats_accepted, "dropped": server.stats_dropped}

    return sim, stats


@scenario
def queue_policies_fair_deadline(seed, variant):
    """FairQueue / WeightedFairQueue / DeadlineQueue with several tenants of unequal rate."""
    from happysimulator.components.queue_policies import DeadlineQueue, FairQueue, WeightedFairQueue
    from happysimulator.components.server import Server

    _seed(seed)
    v = variant % 3
    sink = Sink("sink")
    holder = {}
    weights = {"gold": 4, "silver": 2, "bronze": 1}
    policy = [
        FairQueue(get_flow_id=lambda e: e.context["tenant"], max_flows=8, per_flow_capacity=20),
        WeightedFairQueue(get_flow_id=lambda e: e.context["tenant"], get_weight=lambda f: weights[f],
                          capacity=60, per_flow_capacity=30),
        DeadlineQueue(get_deadline=lambda e: e.context["deadline"], capacity=100,
                      clock_func=lambda: holder["server"].now),
    ][v]
    server = Server("server", concurrency=[1, 2, 1][v], service_time=ConstantLatency([0.02, 0.03, 0.015][v]),
                    queue_policy=policy, downstream=sink)
    holder["server"] = server
    per_tenant = Counter("per_tenant")
    srcs = []
    for i, (tenant, rate) in enumerate([("gold", 20), ("silver", 40), ("bronze", 80)]):
        srcs.append(req_source(f"src_{tenant}", server, rate, poisson=(i != 1), stop_after=4.0,
                               ctx=lambda t, n, tenant=tenant, i=i: {"tenant": tenant,
                                                                     "deadline": t + (0.05 + 0.1 * i)}))
    sim = Simulation(sources=srcs, entities=[server, sink, per_tenant], duration=6.0)

    def stats():
        return {"sink": sink_stats(sink), "server": pub(server), "policy": pub(policy),
                "accepted": server.stats_accepted, "dropped": server.stats_dropped}

    return sim, stats


@scenario
def queue_queued_resource_custom(seed, variant):
    """QueuedResource subclass with has_capacity and a two-stage pipeline (one feeding the next)."""
    _seed(seed)
    v = variant % 3

    class Stage(QueuedResource):
        def __init__(self, name, service_s, concurrency, downstream, policy=None):
            super().__init__(name, policy=policy)
            self.service_s, self.concurrency, self.downstream = service_s, concurrency, downstream
            self.in_flight = 0
            self.processed = 0

        def has_capacity(self):
            return self.in_flight < self.concurrency

        def handle_queued_event(self, event):
            self.in_flight += 1
            try:
                yield self.service_s
            finally:
                self.in_flight -= 1
            self.processed += 1
            return [self.forward(event, self.downstream)]

    sink = Sink("sink")
    stage2 = Stage("stage2", [0.03, 0.02, 0.05][v], [1, 2, 4][v], sink,
                   policy=[FIFOQueue(capacity=15), LIFOQueue(), FIFOQueue()][v])
    stage1 = Stage("stage1", [0.01, 0.03, 0.02][v], [2, 1, 3][v], stage2)
    src = req_source("src", stage1, [50, 40, 90][v], poisson=(v != 0), stop_after=4.0)
    sim = Simulation(sources=[src], entities=[stage1, stage2, sink], duration=6.0)

    def stats():
        return {"sink": sink_stats(sink),
                "stages": [{"processed": s.processed, "depth": s.depth, "accepted": s.stats_accepted,
                            "dropped": s.stats_dropped, "in_flight": s.in_flight} for s in (stage1, stage2)]}

    return sim, stats


# ---------------------------------------------------------------------------
# servers, thread pool, concurrency models
# ---------------------------------------------------------------------------

@scenario
def server_concurrency_models(seed, variant):
    """Server with Fixed / Dynamic (rescaled mid-run) / Weighted concurrency."""
    from happysimulator.components.server import DynamicConcurrency, FixedConcurrency, Server, WeightedConcurrency

    _seed(seed)
    v = variant % 3
    sink = Sink("sink")
    model = [FixedConcurrency(2), DynamicConcurrency(initial=1, min_limit=1, max_limit=6), WeightedConcurrency(6)][v]
    server = Server("server", concurrency=model,
                    service_time=[ExponentialLatency(0.04), ConstantLatency(0.05), ExponentialLatency(0.03)][v],
                    queue_capacity=[20, None, 50][v], downstream=sink)
    src = req_source("src", server, [60, 50, 80][v], poisson=True, stop_after=5.0,
                     ctx=lambda t, n: {"metadata": {"weight": 1 + (n % 3)}})
    sim = Simulation(sources=[src], entities=[server, sink], duration=7.0)
    if v == 1:
        for k, lim in enumerate([2, 4, 6, 3, 1]):
            sim.schedule(Event.once(time=T(0.8 * (k + 1)), event_type="Rescale",
                                    fn=lambda e, lim=lim: model.set_limit(lim)))

    def stats():
        return {"sink": sink_stats(sink), "server": pub(server), "model": pub(model),
                "accepted": server.stats_accepted, "dropped": server.stats_dropped,
                "p99_service": server.get_service_time_percentile(0.99)}

    return sim, stats


@scenario
def server_thread_pool(seed, variant):
    from happysimulator.components.server import ThreadPool

    _seed(seed)
    v = variant % 3
    pool = ThreadPool("pool", num_workers=[2, 4, 1][v], queue_capacity=[None, 30, 10][v],
                      default_processing_time=[0.02, 0.05, 0.04][v],
                      queue_policy=None if v != 1 else LIFOQueue(capacity=30))
    src = req_source("src", pool, [80, 120, 40][v], poisson=(v != 2), stop_after=4.0,
                     ctx=lambda t, n: {"metadata": {"processing_time": 0.01 * (1 + n % 5)} if n % 2 else {}})
    sim = Simulation(sources=[src], entities=[pool], duration=6.0)

    def stats():
        return {"pool": pub(pool), "accepted": pool.stats_accepted, "dropped": pool.stats_dropped,
                "p50": pool.get_processing_time_percentile(0.5)}

    return sim, stats


@scenario
def server_async_server(seed, variant):
    from happysimulator.components.server import AsyncServer

    _seed(seed)
    v = variant % 3
    done = Counter("done")

    def io_handler(event):
        yield [0.02, 0.05, 0.01][v]
        return [Event(time=server.now, event_type="IoDone", target=done)]

    server = AsyncServer("async", max_connections=[50, 8, 200][v],
                         cpu_work_distribution=[ConstantLatency(0.005), ExponentialLatency(0.01),
                                                ConstantLatency(0.002)][v],
                         io_handler=io_handler if v != 2 else None)
    src = req_source("src", server, [100, 150, 300][v], poisson=True, stop_after=3.0)
    sim = Simulation(sources=[src], entities=[server, done], duration=5.0)

    def stats():
        return {"server": pub(server), "done": counter_stats(done)}

    return sim, stats


# ---------------------------------------------------------------------------
# clients
# ---------------------------------------------------------------------------

def client_source(name, client, rate, *, poisson=False, stop_after=None):
    def fn(time, n):
        ev = client.send_request(payload=f"q{n}")
        ev.time = time
        return [ev]

    return make_source(name, fn, rate, poisson=poisson, stop_after=stop_after)


@scenario
def client_timeout_retry(seed, variant):
    """Several Clients with timeouts and retry policies against one overloaded Server."""
    from happysimulator.components.client import Client, DecorrelatedJitter, ExponentialBackoff, FixedRetry, NoRetry
    from happysimulator.components.server import Server

    _seed(seed)
    v = variant % 4
    # (a queued Server completes the client's request at enqueue time; the directly invoked
    #  LoadedBackend makes response times, hence timeouts and retries, load dependent)
    if v == 0:
        server = Server("server", concurrency=1, service_time=ConstantLatency(0.03), queue_capacity=30)
    else:
        server = LoadedBackend("server", base=[0, 0.02, 0.03, 0.01][v], per_inflight=[0, 0.01, 0.012, 0.016][v])
    outcomes = {"ok": 0, "fail": 0}

    def ok(req, resp):
        outcomes["ok"] += 1

    def fail(req, reason):
        outcomes["fail"] += 1

    policies = [
        [NoRetry(), FixedRetry(max_attempts=3, delay=0.05)],
        [ExponentialBackoff(max_attempts=4, initial_delay=0.02, max_delay=0.5, multiplier=2.0, jitter=0.01),
         FixedRetry(max_attempts=2, delay=0.1)],
        [DecorrelatedJitter(max_attempts=4, base_delay=0.01, max_delay=0.3), NoRetry(),
         ExponentialBackoff(max_attempts=3, initial_delay=0.05, max_delay=0.2)],
        [FixedRetry(max_attempts=5, delay=0.0), FixedRetry(max_attempts=5, delay=0.01)],
    ][v]
    clients = [Client(f"client{i}", target=server, timeout=[0.1, 0.08, 0.15, 0.05][v], retry_policy=p,
                      on_success=ok, on_failure=fail) for i, p in enumerate(policies)]
    srcs = [client_source(f"src{i}", c, [25, 30, 15, 20][v], poisson=(i % 2 == 0), stop_after=4.0)
            for i, c in enumerate(clients)]
    sim = Simulation(sources=srcs, entities=[server, *clients], duration=7.0)

    def stats():
        return {"server": pub(server), "clients": [pub(c) for c in clients], "outcomes": dict(outcomes)}

    return sim, stats


@scenario
def client_connection_pool(seed, variant):
    """PooledClients sharing a small ConnectionPool (contention, wait timeouts, idle timeouts)."""
    from happysimulator.components.client import ConnectionPool, ExponentialBackoff, FixedRetry, PooledClient

    _seed(seed)
    v = variant % 3
    db = DelayServer("db", delay=[0.02, 0.05, 0.03][v])
    pool = ConnectionPool("pool", target=db, min_connections=[0, 2, 1][v], max_connections=[3, 2, 5][v],
                          connection_timeout=[0.5, 0.05, 0.2][v], idle_timeout=[0.3, 5.0, 0.1][v],
                          connection_latency=[ConstantLatency(0.01), ExponentialLatency(0.02), ConstantLatency(0.0)][v])
    clients = [PooledClient(f"pclient{i}", connection_pool=pool, timeout=[None, 0.2, 0.1][v],
                            retry_policy=[None, FixedRetry(max_attempts=2, delay=0.02),
                                          ExponentialBackoff(max_attempts=3, initial_delay=0.01, max_delay=0.1)][v])
               for i in range([2, 3, 2][v])]
    srcs = [client_source(f"src{i}", c, [40, 30, 60][v], poisson=(i == 0), stop_after=3.0)
            for i, c in enumerate(clients)]
    sim = Simulation(sources=srcs, entities=[db, pool, *clients], duration=5.0)
    if v != 0:
        sim.schedule(pool.warmup())

    def stats():
        return {"db": pub(db), "pool": pub(pool), "clients": [pub(c) for c in clients]}

    return sim, stats


@scenario
def client_pool_starved(seed, variant):
    """PooledClients whose wait for a connection outlasts their own request timeout (round-9 seed C07-16: a
    timeout stamped from an instant captured before the pool wait lands in the past)."""
    from happysimulator.components.client import ConnectionPool, PooledClient

    _seed(seed)
    v = variant % 3
    db = DelayServer("db", delay=[0.5, 0.3, 0.45][v])
    pool = ConnectionPool("pool", target=db, min_connections=0, max_connections=1,
                          connection_timeout=[0.7, 0.9, 0.6][v], idle_timeout=5.0,
                          connection_latency=ConstantLatency([0.01, 0.0, 0.005][v]))
    clients = [PooledClient(f"pclient{i}", connection_pool=pool, timeout=[0.2, 0.1, 0.25][v]) for i in range(2)]
    srcs = [client_source(f"src{i}", c, [4, 6, 5][v], poisson=False, stop_after=2.0) for i, c in enumerate(clients)]
    sim = Simulation(sources=srcs, entities=[db, pool, *clients], duration=5.0)

    def stats():
        return {"db": pub(db), "pool": pub(pool), "clients": [pub(c) for c in clients]}

    return sim, stats


# ---------------------------------------------------------------------------
# load balancers
# ---------------------------------------------------------------------------

class Backend(Entity):
    """Backend with `active_requests`, load-dependent latency and an outage window.

    During the outage window requests take `outage_delay` seconds and are flagged as failed in
    the shared mutable context entry ``result``.
    """

    def __init__(self, name, base=0.01, per_inflight=0.0, outage=None, outage_delay=1.0, downstream=None):
        super().__init__(name)
        self.base, self.per_inflight = base, per_inflight
        self.outage, self.outage_delay, self.downstream = outage, outage_delay, downstream
        self.active_requests = 0
        self.peak = 0
        self.started = 0
        self.completed = 0
        self.failed = 0
        self.by_type: dict[str, int] = {}

    def in_outage(self):
        if self.outage is None:
            return False
        t = self.now.to_seconds()
        return self.outage[0] <= t < self.outage[1]

    def handle_event(self, event):
        self.started += 1
        self.by_type[event.event_type] = self.by_type.get(event.event_type, 0) + 1
        self.active_requests += 1
        self.peak = max(self.peak, self.active_requests)
        bad = self.in_outage()
        yield (self.outage_delay if bad else self.base + self.per_inflight * self.active_requests)
        self.active_requests -= 1
        self.completed += 1
        res = event.context.get("result")
        if bad:
            self.failed += 1
            if isinstance(res, dict):
                res["failed"] = True
        if self.downstream is not None:
            return [self.forward(event, self.downstream)]
        return None


def result_ctx(t, n):
    return {"result": {}, "metadata": {"client_id": f"c{n % 7}", "key": f"k{n % 23}"}}


@scenario
def lb_strategies_stateless(seed, variant):
    """RoundRobin / WeightedRoundRobin / Random / IPHash / ConsistentHash over unequal backends."""
    from happysimulator.components.load_balancer import (ConsistentHash, IPHash, LoadBalancer, Random, RoundRobin,
                                                         WeightedRoundRobin)

    _seed(seed)
    v = variant % 5
    backends = [Backend(f"backend{i}", base=0.01 * (i + 1), per_inflight=0.002 * i) for i in range(4)]
    strategy = [RoundRobin(), WeightedRoundRobin(), Random(), IPHash(),
                ConsistentHash(virtual_nodes=20, get_key=lambda e: e.context["metadata"]["key"])][v]
    lb = LoadBalancer("lb", backends=backends, strategy=strategy)
    if v == 1:
        for i, b in enumerate(backends):
            strategy.set_weight(b, 4 - i)
    src = req_source("src", lb, [80, 120, 60, 100, 90][v], poisson=True, stop_after=4.0, ctx=result_ctx)
    sim = Simulation(sources=[src], entities=[lb, *backends], duration=6.0)
    # a backend leaves and re-joins mid-run
    sim.schedule(Event.once(time=T(1.5), event_type="Remove", fn=lambda e: lb.remove_backend(backends[1])))
    sim.schedule(Event.once(time=T(2.5), event_type="Add", fn=lambda e: lb.add_backend(backends[1], weight=2)))

    def stats():
        return {"lb": pub(lb), "backends": [pub(b) for b in backends]}

    return sim, stats


@scenario
def lb_strategies_load_aware(seed, variant):
    """LeastConnections / WeightedLeastConnections / LeastResponseTime / PowerOfTwoChoices + HealthChecker."""
    from happysimulator.components.load_balancer import (HealthChecker, LeastConnections, LeastResponseTime,
                                                         LoadBalancer, PowerOfTwoChoices, WeightedLeastConnections)

    _seed(seed)
    v = variant % 4
    backends = [Backend(f"backend{i}", base=0.01 + 0.01 * i, per_inflight=0.004,
                        outage=(1.0, 2.5) if i == 0 else None, outage_delay=0.6) for i in range(3)]
    strategy = [LeastConnections(), WeightedLeastConnections(), LeastResponseTime(alpha=0.5), PowerOfTwoChoices()][v]
    lb = LoadBalancer("lb", backends=backends, strategy=strategy)
    if v == 1:
        for i, b in enumerate(backends):
            strategy.set_weight(b, 1 + 2 * i)
    hc = HealthChecker("health", load_balancer=lb, interval=[0.25, 0.4, 0.2, 0.3][v], timeout=[0.1, 0.2, 0.15, 0.05][v],
                       healthy_threshold=2, unhealthy_threshold=[2, 1, 3, 2][v])
    srcs = [req_source(f"src{i}", lb, [50, 70, 40, 90][v], poisson=(i == 0), stop_after=4.0, ctx=result_ctx)
            for i in range(2)]
    sim = Simulation(sources=srcs, entities=[lb, hc, *backends], duration=5.0)
    sim.schedule(hc.start())

    def stats():
        return {"lb": pub(lb), "health": pub(hc), "backends": [pub(b) for b in backends],
                "states": {b.name: _clean(hc.get_backend_state(b)) for b in backends}}

    return sim, stats


# ---------------------------------------------------------------------------
# resilience wrappers
# ---------------------------------------------------------------------------

@scenario
def resilience_circuit_breaker(seed, variant):
    from happysimulator.components.resilience import CircuitBreaker

    _seed(seed)
    v = variant % 3
    backend = Backend("backend", base=0.02, per_inflight=0.003, outage=[(1.0, 2.0), (0.5, 3.0), (1.0, 1.3)][v],
                      outage_delay=[0.05, 0.2, 0.01][v])
    transitions: list = []
    cb = CircuitBreaker("breaker", target=backend, failure_threshold=[3, 5, 2][v], success_threshold=[2, 1, 3][v],
                        timeout=[0.5, 0.3, 1.0][v], half_open_max_requests=[1, 3, 2][v],
                        failure_predicate=lambda e: bool(e.context.get("result", {}).get("failed")),
                        on_state_change=lambda a, b: transitions.append([cb.now.nanoseconds, a.name, b.name]))
    srcs = [req_source(f"src{i}", cb, [40, 60, 25][v], poisson=(i == 1), stop_after=4.5, ctx=result_ctx)
            for i in range(2)]
    sim = Simulation(sources=srcs, entities=[cb, backend], duration=5.0)

    def stats():
        return {"breaker": pub(cb), "backend": pub(backend), "transitions": transitions}

    return sim, stats


@scenario
def resilience_bulkhead_timeout(seed, variant):
    """Bulkhead (with wait queue) and TimeoutWrapper in front of a slow backend, alone and chained."""
    from happysimulator.components.resilience import Bulkhead, TimeoutWrapper

    _seed(seed)
    v = variant % 4
    backend = Backend("backend", base=[0.03, 0.05, 0.02, 0.03][v], per_inflight=[0.01, 0.004, 0.0, 0.01][v],
                      outage=(1.5, 2.0), outage_delay=0.4)
    timeouts = Counter("timeouts")
    tw = TimeoutWrapper("timeout", target=backend, timeout=[0.1, 0.15, 0.05, 0.1][v],
                        on_timeout=lambda e: Event(time=tw.now, event_type="TimedOut", target=timeouts))
    bh = Bulkhead("bulkhead", target=(tw if v == 3 else backend), max_concurrent=[2, 4, 1, 3][v],
                  max_wait_queue=[5, 0, 20, 10][v], max_wait_time=[0.2, None, 0.05, None][v])
    entry = tw if v == 1 else bh
    srcs = [req_source(f"src{i}", entry, [30, 50, 40, 30][v], poisson=(i == 0), stop_after=4.0, ctx=result_ctx)
            for i in range(2)]
    sim = Simulation(sources=srcs, entities=[bh, tw, backend, timeouts], duration=5.0)

    def stats():
        return {"bulkhead": pub(bh), "timeout": pub(tw), "backend": pub(backend), "timeouts": counter_stats(timeouts)}

    return sim, stats


@scenario
def resilience_fallback_hedge(seed, variant):
    """Hedge and Fallback (entity or callable fallback) in front of a primary with an outage."""
    from happysimulator.components.resilience import Fallback, Hedge

    _seed(seed)
    v = variant % 4
    primary = Backend("primary", base=0.02, per_inflight=0.004, outage=[(1.0, 2.0), (0.5, 1.0), (2.0, 3.5), (1.0, 1.5)][v],
                      outage_delay=[0.5, 0.3, 0.08, 0.2][v])
    secondary = Backend("secondary", base=0.04)
    degraded = Counter("degraded")
    fb_target = [secondary, (lambda e: Event(time=fb.now, event_type="Degraded", target=degraded)), secondary,
                 secondary][v]
    fb = Fallback("fallback", primary=primary, fallback=fb_target,
                  failure_predicate=lambda e: bool(e.context.get("result", {}).get("failed")),
                  timeout=[0.1, 0.2, None, 0.1][v])
    hedge = Hedge("hedge", target=(fb if v == 3 else primary), hedge_delay=[0.05, 0.03, 0.06, 0.05][v],
                  max_hedges=[1, 2, 1, 1][v])
    entry = [hedge, fb, fb, hedge][v]
    srcs = [req_source(f"src{i}", entry, [30, 45, 60, 30][v], poisson=(i == 0), stop_after=4.0, ctx=result_ctx)
            for i in range(2)]
    sim = Simulation(sources=srcs, entities=[hedge, fb, primary, secondary, degraded], duration=5.5)

    def stats():
        return {"hedge": pub(hedge), "fallback": pub(fb), "primary": pub(primary), "secondary": pub(secondary),
                "degraded": counter_stats(degraded)}

    return sim, stats


# ---------------------------------------------------------------------------
# rate limiters
# ---------------------------------------------------------------------------

@scenario
def ratelimit_policies(seed, variant):
    """RateLimitedEntity with token bucket / leaky bucket / sliding window / fixed window under bursts."""
    from happysimulator.components.rate_limiter import (FixedWindowPolicy, LeakyBucketPolicy, RateLimitedEntity,
                                                        SlidingWindowPolicy, TokenBucketPolicy)

    _seed(seed)
    v = variant % 4
    sink = Sink("sink")
    server = DelayServer("server", delay=0.01, downstream=sink)
    policy = [TokenBucketPolicy(capacity=10.0, refill_rate=20.0, initial_tokens=3.0),
              LeakyBucketPolicy(leak_rate=25.0),
              SlidingWindowPolicy(window_size_seconds=0.5, max_requests=10),
              FixedWindowPolicy(requests_per_window=8, window_size=0.25)][v]
    limiter = RateLimitedEntity("limiter", downstream=server, policy=policy, queue_capacity=[50, 20, 30, 1000][v])
    steady = req_source("steady", limiter, [30, 40, 25, 50][v], poisson=True, stop_after=5.0)
    burst = req_source("burst", limiter, 200, poisson=False, stop_after=1.5,
                       profile=None)
    sim = Simulation(sources=[steady, burst], entities=[limiter, server, sink], duration=8.0)

    def stats():
        return {"limiter": {"stats": _clean(limiter.stats), "queue_depth": limiter.queue_depth,
                            "first_forwarded_ns": [t.nanoseconds for t in limiter.forwarded_times[:20]],
                            "dropped": len(limiter.dropped_times)},
                "policy": pub(policy), "sink": sink_stats(sink)}

    return sim, stats


@scenario
def ratelimit_adaptive_null(seed, variant):
    """AdaptivePolicy driven by backend success/failure feedback; NullRateLimiter as the control."""
    from happysimulator.components.rate_limiter import (AdaptivePolicy, NullRateLimiter, RateAdjustmentReason,
                                                        RateLimitedEntity)

    _seed(seed)
    v = variant % 3
    sink = Sink("sink")
    policy = AdaptivePolicy(initial_rate=[40.0, 100.0, 10.0][v], min_rate=2.0, max_rate=[200.0, 150.0, 80.0][v],
                            increase_step=[2.0, None, 5.0][v], decrease_factor=[0.5, 0.7, 0.3][v],
                            window_size=[1.0, 0.5, 0.2][v])

    class Feedback(Entity):
        def __init__(self):
            super().__init__("feedback")
            self.in_flight = 0

        def handle_event(self, event):
            self.in_flight += 1
            overloaded = self.in_flight > [3, 6, 2][v]
            yield 0.02 * self.in_flight
            self.in_flight -= 1
            if overloaded:
                policy.record_failure(self.now, RateAdjustmentReason.TIMEOUT if self.in_flight % 2 else
                                      RateAdjustmentReason.FAILURE)
                return None
            policy.record_success(self.now)
            return [self.forward(event, sink)]

    backend = Feedback()
    limiter = RateLimitedEntity("limiter", downstream=backend, policy=policy, queue_capacity=100)
    null = NullRateLimiter("null_limiter", downstream=backend)
    src = req_source("src", limiter, [80, 120, 60][v], poisson=True, stop_after=5.0)
    src2 = req_source("src_null", null, [5, 10, 20][v], poisson=False, stop_after=5.0)
    sim = Simulation(sources=[src, src2], entities=[limiter, null, backend, sink], duration=7.0)

    def stats():
        return {"limiter": _clean(limiter.stats), "null": pub(null), "policy": pub(policy),
                "history": [[s.time.nanoseconds, s.rate, s.reason.name] for s in policy.rate_history[:60]],
                "sink": sink_stats(sink)}

    return sim, stats


@scenario
def ratelimit_distributed(seed, variant):
    """Several DistributedRateLimiter instances sharing a KVStore with non-zero latency."""
    from happysimulator.components.datastore import KVStore
    from happysimulator.components.rate_limiter import DistributedRateLimiter

    _seed(seed)
    v = variant % 3
    sink = Sink("sink")
    store = KVStore("store", read_latency=[0.001, 0.01, 0.0][v], write_latency=[0.002, 0.02, 0.001][v])
    limiters = [DistributedRateLimiter(f"limiter{i}", downstream=sink, backing_store=store,
                                       global_limit=[20, 50, 10][v], window_size=[1.0, 0.5, 0.25][v],
                                       local_threshold=[0.8, 0.5, 1.0][v]) for i in range([2, 3, 4][v])]
    srcs = [req_source(f"src{i}", lim, [30, 40, 25][v], poisson=(i % 2 == 0), stop_after=4.0)
            for i, lim in enumerate(limiters)]
    sim = Simulation(sources=srcs, entities=[store, sink, *limiters], duration=5.0)

    def stats():
        return {"limiters": [pub(lim) for lim in limiters], "store": pub(store), "keys": sorted(store.keys()),
                "sink": sink_stats(sink)}

    return sim, stats


@scenario
def ratelimit_inductor(seed, variant):
    """Inductor smoothing a bursty/spiky arrival stream into a slow server."""
    from happysimulator import Inductor

    _seed(seed)
    v = variant % 3
    sink = Sink("sink")
    server = DelayServer("server", delay=0.01, downstream=sink)
    inductor = Inductor("inductor", downstream=server, time_constant=[0.5, 2.0, 0.1][v],
                        queue_capacity=[10000, 50, 500][v])
    base = req_source("base", inductor, [20, 10, 50][v], poisson=True, stop_after=6.0)

    def burst_fn(time, n):
        # 10-event bursts every tick
        return [Event(time=time, event_type="Burst", target=inductor, context={"created_at": time, "request_id": n * 100 + k})
                for k in range([10, 25, 5][v])]

    bursts = make_source("bursts", burst_fn, [1.0, 0.5, 4.0][v], stop_after=5.0)
    sim = Simulation(sources=[base, bursts], entities=[inductor, server, sink], duration=8.0)

    def stats():
        return {"inductor": pub(inductor), "sink": sink_stats(sink), "server": pub(server)}

    return sim, stats


# ---------------------------------------------------------------------------
# network
# ---------------------------------------------------------------------------

class PingNode(Entity):
    """Node that pings peers through a Network on every Tick and answers pings with pongs."""

    def __init__(self, name, network, payload_size=0):
        super().__init__(name)
        self.network = network
        self.peers: list[Entity] = []
        self.payload_size = payload_size
        self.sent = 0
        self.pings = 0
        self.pongs = 0
        self.rtts: list[float] = []
        self._next = 0

    def handle_event(self, event):
        et = event.event_type
        md = event.context.get("metadata", {})
        if et == "Tick":
            peer = self.peers[self._next % len(self.peers)]
            self._next += 1
            self.sent += 1
            return [self.network.send(self, peer, "Ping", payload={"sent_at_ns": self.now.nanoseconds,
                                                                   "payload_size": self.payload_size})]
        if et == "Ping":
            self.pings += 1
            src = md.get("source")
            peer = next(p for p in self.peers if p.name == src)
            return [self.network.send(self, peer, "Pong", payload={"sent_at_ns": md.get("sent_at_ns"),
                                                                   "payload_size": 64})]
        if et == "Pong":
            self.pongs += 1
            self.rtts.append((self.now.nanoseconds - md.get("sent_at_ns", 0)) / 1e9)
        return None


@scenario
def network_topology_partitions(seed, variant):
    """Nodes pinging each other over a Network with mixed link conditions, partitions and heals."""
    from happysimulator import (Network, cross_region_network, datacenter_network, internet_network, local_network,
                                lossy_network, mobile_3g_network, satellite_network, slow_network)

    _seed(seed)
    v = variant % 3
    net = Network(name="net", default_link=None if v == 0 else internet_network("default_link"))
    nodes = [PingNode(f"node{i}", net, payload_size=[200, 1500, 20000][v]) for i in range(4)]
    for n in nodes:
        n.peers = [p for p in nodes if p is not n]
    mk = [
        [datacenter_network, local_network, lambda name: lossy_network(0.1, name=name), cross_region_network,
         datacenter_network, datacenter_network],
        [cross_region_network, lambda name: lossy_network(0.3, name=name, base_latency=0.03), internet_network,
         mobile_3g_network, datacenter_network, local_network],
        [lambda name: slow_network(0.2, name=name, bandwidth_bps=500_000), satellite_network, datacenter_network,
         lambda name: lossy_network(0.05, name=name), internet_network, cross_region_network],
    ][v]
    k = 0
    for i in range(4):
        for j in range(i + 1, 4):
            if v == 1 and (i, j) == (2, 3):
                k += 1
                continue  # falls back to the default link
            net.add_bidirectional_link(nodes[i], nodes[j], mk[k](f"link_{i}_{j}"))
            k += 1
    srcs = [Source.constant(rate=[10, 20, 5][v] + i, target=n, event_type="Tick", name=f"tick{i}", stop_after=5.0)
            for i, n in enumerate(nodes)]
    sim = Simulation(sources=srcs, entities=[net, *nodes], duration=8.0)
    handles = {}
    sim.schedule(Event.once(time=T(1.0), event_type="Partition",
                            fn=lambda e: handles.__setitem__("p1", net.partition(nodes[:2], nodes[2:]))))
    sim.schedule(Event.once(time=T(2.0), event_type="AsymPartition",
                            fn=lambda e: handles.__setitem__("p2", net.partition([nodes[0]], [nodes[1]], asymmetric=True))))
    sim.schedule(Event.once(time=T(2.5), event_type="Heal1", fn=lambda e: handles["p1"].heal()))
    sim.schedule(Event.once(time=T(3.5), event_type="HealAll", fn=lambda e: net.heal_partition()))

    def stats():
        return {"net": {"routed": net.events_routed, "no_route": net.events_dropped_no_route,
                        "partition_drops": net.events_dropped_partition},
                "traffic": [_clean(t) for t in net.traffic_matrix()],
                "nodes": [{"sent": n.sent, "pings": n.pings, "pongs": n.pongs,
                           "rtt_sum": sum(n.rtts), "rtt_max": max(n.rtts) if n.rtts else 0.0} for n in nodes]}

    return sim, stats


@scenario
def network_links_direct(seed, variant):
    """Sources pushing sized packets straight through NetworkLinks (latency, jitter, bandwidth, loss)."""
    from happysimulator import NetworkLink, mobile_4g_network, satellite_network

    _seed(seed)
    v = variant % 3
    sink = Sink("sink")
    links = [
        NetworkLink(name="link_a", latency=ConstantLatency([0.01, 0.05, 0.002][v]), bandwidth_bps=[1e6, 2e5, None][v],
                    packet_loss_rate=[0.0, 0.1, 0.5][v], jitter=[None, ExponentialLatency(0.01), ConstantLatency(0.001)][v],
                    egress=sink),
        [mobile_4g_network("link_b"), satellite_network("link_b"), mobile_4g_network("link_b")][v],
    ]
    links[1].egress = sink
    # second hop: link_c feeds link_a
    link_c = NetworkLink(name="link_c", latency=ExponentialLatency(0.02), egress=links[0])
    srcs = []
    for i, target in enumerate([links[0], links[1], link_c]):
        srcs.append(req_source(f"src{i}", target, [80, 40, 120][v], poisson=(i != 0), stop_after=3.0,
                               ctx=lambda t, n, i=i: {"metadata": {"payload_size": 100 * (1 + (n + i) % 15)}}))
    sim = Simulation(sources=srcs, entities=[sink, link_c, *links], duration=6.0)

    def stats():
        return {"sink": sink_stats(sink), "links": [_clean(l.link_stats) for l in [*links, link_c]],
                "util": [l.current_utilization for l in links]}

    return sim, stats


@scenario
def network_links_signed_jitter(seed, variant):
    """NetworkLinks whose jitter distribution has negative samples larger than the base latency (a zero-mean
    jitter, or a shifted constant): base + jitter can fall below zero for a packet."""
    from happysimulator import NetworkLink
    from happysimulator.distributions.latency_distribution import LatencyDistribution

    _seed(seed)
    v = variant % 3

    class SymmetricJitter(LatencyDistribution):
        def __init__(self, spread, rng_seed):
            super().__init__(0.0)
            self._spread = spread
            self._rng = random.Random(rng_seed)

        def get_latency(self, current_time):
            return Duration.from_seconds(self._rng.uniform(-self._spread, self._spread))

    sink = Sink("sink")
    jitter = [SymmetricJitter(0.005, seed), ConstantLatency(0.010) - 0.015, SymmetricJitter(0.02, seed + 1)][v]
    link = NetworkLink(name="link", latency=ConstantLatency([0.002, 0.002, 0.01][v]), jitter=jitter, egress=sink)
    hop = NetworkLink(name="hop", latency=ConstantLatency(0.001), egress=link)
    srcs = [req_source("src0", link, [60, 30, 90][v], poisson=False, stop_after=2.0),
            req_source("src1", hop, [25, 50, 40][v], poisson=True, stop_after=2.0)]
    sim = Simulation(sources=srcs, entities=[sink, link, hop], duration=4.0)

    def stats():
        return {"sink": sink_stats(sink), "links": [_clean(l.link_stats) for l in (link, hop)]}

    return sim, stats


# ---------------------------------------------------------------------------
# messaging
# ---------------------------------------------------------------------------

@scenario
def messaging_queue_ack_dlq(seed, variant):
    """MessageQueue with competing consumers: ack / reject / silent failure, redelivery and DLQ."""
    from happysimulator.components.messaging import DeadLetterQueue, MessageQueue

    _seed(seed)
    v = variant % 3
    rng = random.Random(seed * 7 + v)
    dlq = DeadLetterQueue("dlq", capacity=[None, 5, 50][v], retention_period=[None, 2.0, None][v])
    mq = MessageQueue("mq", delivery_latency=[0.001, 0.02, 0.005][v], redelivery_delay=[0.2, 0.5, 0.1][v],
                      max_redeliveries=[3, 2, 1][v], capacity=[None, 40, None][v], dead_letter_queue=dlq)
    publish_errors = Counter("publish_errors")

    class Producer(Entity):
        def __init__(self, name):
            super().__init__(name)
            self.published = 0

        def handle_event(self, event):
            try:
                yield from mq.publish(event)
            except RuntimeError:
                return [Event(time=self.now, event_type="QueueFull", target=publish_errors)]
            self.published += 1
            return [Event(time=self.now, event_type="poll", target=mq)]

    class Consumer(Entity):
        def __init__(self, name, work):
            super().__init__(name)
            self.work = work
            self.acked = self.rejected = self.ignored = 0
            self.delivery_counts: dict[int, int] = {}

        def handle_event(self, event):
            mid = event.context["message_id"]
            dc = event.context["delivery_count"]
            self.delivery_counts[dc] = self.delivery_counts.get(dc, 0) + 1
            yield self.work
            r = rng.random()
            out = [Event(time=self.now, event_type="poll", target=mq)]
            if r < [0.7, 0.5, 0.6][v]:
                mq.acknowledge(mid)
                self.acked += 1
            elif r < [0.9, 0.8, 0.7][v]:
                mq.reject(mid, requeue=(rng.random() < 0.8))
                self.rejected += 1
            else:
                self.ignored += 1  # consumer died silently: the broker times the delivery out
                redelivery = mq.schedule_redelivery(mid)
                if redelivery is not None:
                    out.append(redelivery)
            return out

    producers = [Producer(f"producer{i}") for i in range(2)]
    consumers = [Consumer(f"consumer{i}", [0.02, 0.05, 0.01][v] * (i + 1)) for i in range([2, 3, 1][v])]
    for c in consumers:
        mq.subscribe(c)
    srcs = [req_source(f"src{i}", p, [20, 30, 40][v], poisson=(i == 0), stop_after=4.0) for i, p in enumerate(producers)]
    sim = Simulation(sources=srcs, entities=[mq, dlq, publish_errors, *producers, *consumers], duration=7.0)
    if v == 2:
        sim.schedule(Event.once(time=T(3.0), event_type="Reprocess", fn=lambda e: dlq.reprocess_all(mq)))
        sim.schedule(Event.once(time=T(2.0), event_type="Unsubscribe", fn=lambda e: None))

    def stats():
        return {"mq": {"stats": _clean(mq.stats), "pending": mq.pending_count, "in_flight": mq.in_flight_count,
                       "consumers": mq.consumer_count},
                "dlq": {"stats": _clean(dlq.stats), "count": dlq.message_count,
                        "delivery_counts": sorted(m.delivery_count for m in dlq.messages)},
                "producers": [p.published for p in producers],
                "consumers": [{"acked": c.acked, "rejected": c.rejected, "ignored": c.ignored,
                               "delivery_counts": c.delivery_counts} for c in consumers],
                "publish_errors": counter_stats(publish_errors)}

    return sim, stats


@scenario
def messaging_topic_pubsub(seed, variant):
    """Topic fan-out with subscribers joining/leaving and history replay."""
    from happysimulator.components.messaging import Topic

    _seed(seed)
    v = variant % 3
    topic = Topic("topic", delivery_latency=[0.001, 0.01, 0.0][v], max_subscribers=[None, 4, 3][v])
    if v != 0:
        topic.set_retain_messages(True, max_history=[0, 10, 100][v])
    subs = [Counter(f"sub{i}") for i in range(4)]
    slow = DelayServer("slow_sub", delay=0.05)
    for s in subs[:2]:
        topic.subscribe(s)
    topic.subscribe(slow)

    class Publisher(Entity):
        def __init__(self, name, sync):
            super().__init__(name)
            self.sync = sync
            self.published = 0

        def handle_event(self, event):
            self.published += 1
            if self.sync:
                return topic.publish_sync(event)
            return [Event(time=self.now, event_type="publish", target=topic, context={"payload": event})]

    pubs = [Publisher("pub_async", False), Publisher("pub_sync", True)]
    srcs = [req_source(f"src{i}", p, [30, 50, 80][v], poisson=(i == 0), stop_after=4.0) for i, p in enumerate(pubs)]
    sim = Simulation(sources=srcs, entities=[topic, slow, *subs, *pubs], duration=5.0)
    errors: list[str] = []

    def late_join(e):
        try:
            return topic.subscribe(subs[2], replay_history=True)
        except RuntimeError as exc:
            errors.append(str(exc))
            return None

    def join4(e):
        try:
            return topic.subscribe(subs[3], replay_history=False)
        except RuntimeError as exc:
            errors.append(str(exc))
            return None

    sim.schedule(Event.once(time=T(1.0), event_type="LateJoin", fn=late_join))
    sim.schedule(Event.once(time=T(1.5), event_type="Leave", fn=lambda e: topic.unsubscribe(subs[0])))
    sim.schedule(Event.once(time=T(2.0), event_type="Join4", fn=join4))

    def rejoin(e):
        try:
            return topic.subscribe(subs[0])
        except RuntimeError as exc:
            errors.append(str(exc))
            return None

    sim.schedule(Event.once(time=T(3.0), event_type="Rejoin", fn=rejoin))

    def stats():
        return {"topic": {"stats": _clean(topic.stats), "subscribers": [s.name for s in topic.subscribers]},
                "subs": [counter_stats(s) for s in subs], "slow": pub(slow), "pubs": [p.published for p in pubs],
                "errors": errors}

    return sim, stats


# ---------------------------------------------------------------------------
# streaming
# ---------------------------------------------------------------------------

@scenario
def streaming_eventlog_consumer_group(seed, variant):
    """Producers appending to a partitioned EventLog; a ConsumerGroup with members joining and leaving."""
    from happysimulator import (ConsumerGroup, EventLog, RangeAssignment, RoundRobinAssignment, SizeRetention,
                                StickyAssignment, TimeRetention)

    _seed(seed)
    v = variant % 3
    log = EventLog("log", num_partitions=[4, 3, 6][v],
                   retention_policy=[None, SizeRetention(max_records=30), TimeRetention(max_age_s=1.0)][v],
                   append_latency=[0.001, 0.01, 0.002][v], read_latency=[0.0005, 0.005, 0.001][v],
                   retention_check_interval=[60.0, 0.5, 0.3][v])
    group = ConsumerGroup("group", event_log=log,
                          assignment_strategy=[RangeAssignment(), RoundRobinAssignment(), StickyAssignment()][v],
                          rebalance_delay=[0.1, 0.3, 0.05][v], poll_latency=[0.001, 0.01, 0.002][v])

    def produce(self, event):
        n = event.context["request_id"]
        rec = yield from log.append(f"key-{n % 11}", {"n": n, "who": self.name})
        self.log.append(rec.partition)
        return None

    producers = [Script(f"producer{i}", produce) for i in range(2)]

    def consume(self, event):
        start_at, leave_at = event.context["start_at"], event.context["leave_at"]
        yield start_at
        assigned = yield from group.join(self.name, self)
        self.log.append(["joined", list(assigned)])
        consumed = 0
        while self.now.to_seconds() < leave_at:
            records = yield from group.poll(self.name, max_records=[10, 5, 50][v])
            if records:
                offsets = {}
                for r in records:
                    offsets[r.partition] = max(offsets.get(r.partition, 0), r.offset + 1)
                consumed += len(records)
                yield [0.002, 0.01, 0.001][v] * len(records)
                yield from group.commit(self.name, offsets)
            else:
                yield [0.05, 0.1, 0.02][v]
        yield from group.leave(self.name)
        self.log.append(["left", consumed])
        return None

    consumers = [Script(f"consumer{i}", consume) for i in range(3)]
    srcs = [req_source(f"src{i}", p, [40, 25, 45][v], poisson=(i == 0), stop_after=4.0) for i, p in enumerate(producers)]
    sim = Simulation(sources=srcs, entities=[log, group, *producers, *consumers], duration=6.0)
    for i, c in enumerate(consumers):
        sim.schedule(start(c, 0.0, start_at=[0.0, 0.5, 1.5][i], leave_at=[5.0, 3.0, 4.0][i]))

    def stats():
        return {"log": {"stats": _clean(log.stats), "hw": log.high_watermarks(), "total": log.total_records},
                "group": {"stats": _clean(group.stats), "assignments": group.assignments,
                          "generation": group.generation, "lag": group.total_lag()},
                "consumers": [script_stats(c) for c in consumers],
                "producers": [{"runs": p.runs, "done": p.done, "parts": sorted(p.log)[:50]} for p in producers]}

    return sim, stats


@scenario
def streaming_stream_processor(seed, variant):
    """StreamProcessor with tumbling / sliding / session windows and out-of-order (late) events."""
    from happysimulator import LateEventPolicy, SessionWindow, SlidingWindow, StreamProcessor, TumblingWindow

    _seed(seed)
    v = variant % 3
    rng = random.Random(seed + 17 * v)
    results: list = []

    class Collector(Entity):
        def handle_event(self, event):
            c = event.context
            results.append([self.now.nanoseconds, event.event_type, c.get("key"), _clean(c.get("result", c.get("value"))),
                            c.get("window_start"), c.get("window_end")])

    out = Collector("window_out")
    late = Counter("late_out")
    proc = StreamProcessor("processor",
                           window_type=[TumblingWindow(0.5), SlidingWindow(1.0, 0.25), SessionWindow(0.3)][v],
                           aggregate_fn=[sum, len, (lambda xs: max(xs) if xs else None)][v], downstream=out,
                           allowed_lateness_s=[0.0, 0.2, 0.1][v],
                           late_event_policy=[LateEventPolicy.DROP, LateEventPolicy.UPDATE, LateEventPolicy.SIDE_OUTPUT][v],
                           side_output=late, watermark_interval_s=[0.25, 0.1, 0.5][v])

    def fn(time, n):
        # event time lags processing time by a random delay; some events are very late
        lag = rng.random() * [0.3, 0.6, 0.2][v] + (1.5 if n % 17 == 0 else 0.0)
        et = max(0.0, time.to_seconds() - lag)
        return [Event(time=time, event_type="Process", target=proc,
                      context={"key": f"k{n % 3}", "value": n % 10, "event_time_s": et})]

    src = make_source("src", fn, [40, 80, 20][v], poisson=True, stop_after=5.0)
    sim = Simulation(sources=[src], entities=[proc, out, late], duration=8.0)

    def stats():
        return {"processor": pub(proc), "late": counter_stats(late), "n_results": len(results), "results": results[:100]}

    return sim, stats


# ---------------------------------------------------------------------------
# microservice patterns
# ---------------------------------------------------------------------------

@scenario
def microservice_outbox_relay(seed, variant):
    """Services writing to an OutboxRelay inside their handlers; relay polls in batches."""
    from happysimulator import OutboxRelay

    _seed(seed)
    v = variant % 3
    sink = Sink("broker")
    consumer = DelayServer("consumer", delay=[0.005, 0.02, 0.001][v], downstream=sink)
    outbox = OutboxRelay("outbox", downstream=consumer, poll_interval=[0.1, 0.5, 0.05][v], batch_size=[100, 5, 20][v],
                         relay_latency=[0.001, 0.01, 0.0][v])

    class Service(Entity):
        def __init__(self, name):
            super().__init__(name)
            self.ids: list[int] = []

        def handle_event(self, event):
            yield [0.002, 0.01, 0.001][v]  # business transaction
            self.ids.append(outbox.write({"order": event.context["request_id"], "svc": self.name}))
            return [Event(time=self.now, event_type="Wake", target=outbox)]

    services = [Service(f"service{i}") for i in range(2)]
    srcs = [req_source(f"src{i}", s, [25, 30, 50][v], poisson=(i == 0), stop_after=4.0) for i, s in enumerate(services)]
    sim = Simulation(sources=srcs, entities=[outbox, consumer, sink, *services], duration=7.0)
    if v == 1:
        sim.schedule(outbox.prime_poll())

    def stats():
        return {"outbox": pub(outbox), "sink": sink_stats(sink), "consumer": pub(consumer),
                "ids": [len(s.ids) for s in services], "last_ids": [s.ids[-3:] for s in services]}

    return sim, stats


@scenario
def microservice_idempotency_store(seed, variant):
    """Retrying clients sending duplicate keys through an IdempotencyStore (TTL expiry, eviction)."""
    from happysimulator import IdempotencyStore

    _seed(seed)
    v = variant % 3
    rng = random.Random(seed * 3 + v)
    backend = Backend("backend", base=[0.02, 0.1, 0.005][v], per_inflight=0.002)
    store = IdempotencyStore("idem", target=backend,
                             key_extractor=lambda e: e.context.get("metadata", {}).get("idem_key"),
                             ttl=[1.0, 0.5, 10.0][v], max_entries=[1000, 10, 50][v],
                             cleanup_interval=[0.5, 0.2, 5.0][v])

    def fn(time, n):
        # each logical request is sent 1-3 times (client retries), some without a key
        key = None if n % 13 == 0 else f"op-{n // 3 if v != 2 else rng.randrange(30)}"
        return [Event(time=time, event_type="Charge", target=store,
                      context={"created_at": time, "metadata": {"idem_key": key, "n": n}})]

    srcs = [make_source(f"src{i}", fn, [60, 40, 150][v], poisson=(i == 0), stop_after=4.0) for i in range(2)]
    sim = Simulation(sources=srcs, entities=[store, backend], duration=6.0)

    def stats():
        return {"store": pub(store), "backend": pub(backend)}

    return sim, stats


@scenario
def microservice_saga(seed, variant):
    """Saga orchestrator over three services with step timeouts and compensations, concurrent instances."""
    from happysimulator import Saga, SagaStep

    _seed(seed)
    v = variant % 3
    services = [Backend(f"svc_{n}", base=b, per_inflight=p, outage=o, outage_delay=0.5)
                for n, b, p, o in [("order", 0.01, 0.002, None),
                                   ("payment", [0.03, 0.05, 0.02][v], [0.01, 0.02, 0.0][v], [(1.0, 1.5), None, (2.0, 3.0)][v]),
                                   ("shipping", 0.02, 0.005, [None, (2.0, 2.5), (0.5, 0.8)][v])]]
    steps = [SagaStep(name=s.name, action_target=s, action_event_type=f"do_{s.name}", compensation_target=s,
                      compensation_event_type=f"undo_{s.name}", timeout=[0.1, 0.15, None][v] if i else 0.2)
             for i, s in enumerate(services)]
    finished: list = []
    saga = Saga("saga", steps=steps,
                on_complete=lambda sid, state, results: finished.append([sid, state.name, [r.success for r in results]]))
    srcs = [req_source(f"src{i}", saga, [15, 25, 40][v], poisson=(i == 0), stop_after=4.0,
                       ctx=lambda t, n: {"payload": {"order": n}}) for i in range(2)]
    sim = Simulation(sources=srcs, entities=[saga, *services], duration=6.0)

    def stats():
        return {"saga": pub(saga), "services": [pub(s) for s in services], "finished": finished[:120],
                "n_finished": len(finished)}

    return sim, stats


@scenario
def microservice_sidecar_gateway(seed, variant):
    """APIGateway (auth, per-route rate limits, timeouts) routing to services behind Sidecars."""
    from happysimulator import APIGateway, RouteConfig, Sidecar, TokenBucketPolicy
    from happysimulator.components.rate_limiter import FixedWindowPolicy, LeakyBucketPolicy

    _seed(seed)
    v = variant % 3
    svc_a = [Backend(f"users{i}", base=0.01 + 0.01 * i, per_inflight=0.003, outage=(1.0, 2.0) if i == 0 else None,
                     outage_delay=[0.3, 0.6, 0.15][v]) for i in range(2)]
    svc_b = Backend("orders", base=[0.03, 0.05, 0.02][v], per_inflight=0.01)
    sidecars = [Sidecar(f"sidecar_{b.name}", target=b,
                        rate_limit_policy=[None, TokenBucketPolicy(capacity=5, refill_rate=40.0),
                                           LeakyBucketPolicy(leak_rate=50.0)][v],
                        rate_limit_queue_capacity=[1000, 10, 50][v], circuit_failure_threshold=[3, 5, 2][v],
                        circuit_success_threshold=2, circuit_timeout=[0.5, 1.0, 0.3][v],
                        request_timeout=[0.1, 0.2, 0.08][v], max_retries=[2, 0, 3][v], retry_base_delay=[0.02, 0.1, 0.01][v])
                for b in [*svc_a, svc_b]]
    gw = APIGateway("gateway", routes={
        "/users": RouteConfig(name="users", backends=sidecars[:2], auth_required=True, timeout=[0.3, None, 0.2][v],
                              rate_limit_policy=[None, FixedWindowPolicy(requests_per_window=20, window_size=0.5), None][v]),
        "/orders": RouteConfig(name="orders", backends=[sidecars[2]], auth_required=(v == 1),
                               rate_limit_policy=TokenBucketPolicy(capacity=10, refill_rate=[30.0, 15.0, 60.0][v]),
                               timeout=[0.25, 0.005, 0.25][v]),     # variant 1: the route timeout is shorter than the auth check
        "/empty": RouteConfig(name="empty", backends=[], auth_required=False),
    }, auth_latency=[0.001, 0.01, 0.0][v], auth_failure_rate=[0.05, 0.2, 0.0][v])

    def ctx(t, n):
        return {"result": {}, "metadata": {"route": ["/users", "/orders", "/users", "/orders", "/missing", "/empty"][n % 6]}}

    srcs = [req_source(f"src{i}", gw, [50, 40, 90][v], poisson=(i == 0), stop_after=4.0, ctx=ctx) for i in range(2)]
    sim = Simulation(sources=srcs, entities=[gw, svc_b, *svc_a, *sidecars], duration=6.0)

    def stats():
        return {"gateway": pub(gw), "sidecars": [pub(s) for s in sidecars],
                "services": [pub(s) for s in [*svc_a, svc_b]]}

    return sim, stats


# ---------------------------------------------------------------------------
# storage engines
# ---------------------------------------------------------------------------

def _kv_workload(rng, n_keys, write_frac):
    """Return fn(n) -> (op, key, value) drawing from rng."""

    def op(n):
        key = f"key{rng.randrange(n_keys):04d}"
        r = rng.random()
        if r < write_frac:
            return "put", key, n
        if r < write_frac + 0.05:
            return "delete", key, None
        if r < write_frac + 0.08:
            return "scan", key, None
        return "get", key, None

    return op


@scenario
def storage_lsm_wal(seed, variant):
    """Concurrent clients on an LSMTree with a WAL (three sync policies), compaction triggers and a crash."""
    from happysimulator import (FIFOCompaction, LeveledCompaction, LSMTree, SizeTieredCompaction, SyncEveryWrite,
                                SyncOnBatch, SyncPeriodic, WriteAheadLog)

    _seed(seed)
    v = variant % 3
    rng = random.Random(seed * 11 + v)
    wal = WriteAheadLog("wal", sync_policy=[SyncEveryWrite(), SyncOnBatch(batch_size=8), SyncPeriodic(interval_s=0.2)][v],
                        write_latency=[0.0001, 0.001, 0.0002][v], sync_latency=[0.001, 0.005, 0.002][v])
    lsm = LSMTree("lsm", memtable_size=[20, 10, 50][v],
                  compaction_strategy=[SizeTieredCompaction(min_sstables=3),
                                       LeveledCompaction(level_0_max=2, size_ratio=4, base_size_keys=20),
                                       FIFOCompaction(max_total_sstables=5)][v],
                  wal=wal, sstable_read_latency=[0.001, 0.004, 0.0005][v], sstable_write_latency=[0.002, 0.01, 0.001][v],
                  max_levels=[7, 4, 3][v])
    op = _kv_workload(rng, [60, 30, 200][v], [0.6, 0.4, 0.8][v])
    model: dict = {}

    def body(self, event):
        kind, key, val = op(event.context["request_id"])
        if kind == "put":
            yield from lsm.put(key, val)
            model[key] = val
        elif kind == "delete":
            yield from lsm.delete(key)
            model.pop(key, None)
        elif kind == "scan":
            rows = yield from lsm.scan(key, key[:-1] + "9")
            self.log.append(["scan", len(rows)])
        else:
            got = yield from lsm.get(key)
            if len(self.log) < 150:
                self.log.append([key, got, model.get(key)])
        return None

    clients = [Script(f"client{i}", body) for i in range(3)]
    srcs = [req_source(f"src{i}", c, [60, 30, 90][v], poisson=(i != 2), stop_after=4.0) for i, c in enumerate(clients)]
    compaction = Source.constant(rate=[5, 2, 10][v], target=lsm, event_type="CompactionTrigger", name="compaction_timer",
                                 stop_after=5.0)
    crash_report: dict = {}

    def crash(e):
        crash_report["crash"] = lsm.crash()
        crash_report["recover"] = lsm.recover_from_crash()

    sim = Simulation(sources=[*srcs, compaction], entities=[lsm, wal, *clients], duration=6.0)
    sim.schedule(Event.once(time=T([2.5, 1.5, 3.0][v]), event_type="PowerLoss", fn=crash))

    def stats():
        final = {k: lsm.get_sync(k) for k in sorted(model)[:60]}
        return {"lsm": _clean(lsm.stats), "levels": lsm.level_summary, "wal": {"stats": _clean(wal.stats), "size": wal.size,
                                                                                 "synced_up_to": wal.synced_up_to},
                "crash": crash_report, "final": final, "model": {k: model[k] for k in sorted(model)[:60]},
                "clients": [script_stats(c) for c in clients]}

    return sim, stats


@scenario
def storage_btree(seed, variant):
    _seed(seed)
    from happysimulator import BTree

    v = variant % 3
    rng = random.Random(seed * 13 + v)
    tree = BTree("btree", order=[4, 16, 3][v], page_read_latency=[0.001, 0.005, 0.0002][v],
                 page_write_latency=[0.002, 0.01, 0.0005][v])
    op = _kv_workload(rng, [100, 40, 300][v], [0.5, 0.3, 0.7][v])
    model: dict = {}

    def body(self, event):
        kind, key, val = op(event.context["request_id"])
        if kind == "put":
            yield from tree.put(key, val)
            model[key] = val
        elif kind == "delete":
            ok = yield from tree.delete(key)
            model.pop(key, None)
            self.log.append(["del", key, ok]) if len(self.log) < 100 else None
        elif kind == "scan":
            rows = yield from tree.scan(key, key[:-1] + "9")
            self.log.append(["scan", [k for k, _ in rows]]) if len(self.log) < 100 else None
        else:
            got = yield from tree.get(key)
            self.log.append([key, got]) if len(self.log) < 100 else None
        return None

    clients = [Script(f"client{i}", body) for i in range(3)]
    srcs = [req_source(f"src{i}", c, [50, 20, 60][v], poisson=(i != 1), stop_after=3.0) for i, c in enumerate(clients)]
    sim = Simulation(sources=srcs, entities=[tree, *clients], duration=5.0)

    def stats():
        return {"btree": {"stats": _clean(tree.stats), "depth": tree.depth, "size": tree.size},
                "final": {k: tree.get_sync(k) for k in sorted(model)[:80]},
                "model_size": len(model), "clients": [script_stats(c) for c in clients]}

    return sim, stats


@scenario
def storage_transactions(seed, variant):
    """Concurrent read-modify-write transactions on hot keys under the three isolation levels."""
    from happysimulator import BTree, IsolationLevel, LSMTree, TransactionManager

    _seed(seed)
    v = variant % 3
    rng = random.Random(seed * 17 + v)
    store = [LSMTree("store", memtable_size=50, sstable_read_latency=0.001),
             BTree("store", order=8, page_read_latency=0.002, page_write_latency=0.004),
             LSMTree("store", memtable_size=10, sstable_read_latency=0.0005)][v]
    tm = TransactionManager("txm", store=store,
                            isolation=[IsolationLevel.SNAPSHOT_ISOLATION, IsolationLevel.SERIALIZABLE,
                                       IsolationLevel.READ_COMMITTED][v], deadlock_detection=(v != 2))
    for k in range(5):
        store.put_sync(f"acct{k}", 100)
    outcome = {"commit": 0, "abort": 0, "user_abort": 0}

    def body(self, event):
        a, b = rng.sample(range(5), 2)
        amount = rng.randrange(1, 10)
        think = rng.random() * [0.02, 0.05, 0.005][v]
        tx = yield from tm.begin(IsolationLevel.SERIALIZABLE if (v == 0 and event.context["request_id"] % 5 == 0) else None)
        va = yield from tx.read(f"acct{a}")
        vb = yield from tx.read(f"acct{b}")
        yield think
        if (va or 0) < amount:
            tx.abort()
            outcome["user_abort"] += 1
            return None
        yield from tx.write(f"acct{a}", (va or 0) - amount)
        yield from tx.write(f"acct{b}", (vb or 0) + amount)
        ok = yield from tx.commit()
        outcome["commit" if ok else "abort"] += 1
        return None

    clients = [Script(f"client{i}", body) for i in range(4)]
    srcs = [req_source(f"src{i}", c, [20, 10, 40][v], poisson=(i % 2 == 0), stop_after=4.0) for i, c in enumerate(clients)]
    sim = Simulation(sources=srcs, entities=[store, tm, *clients], duration=6.0)

    def stats():
        bal = {f"acct{k}": store.get_sync(f"acct{k}") for k in range(5)}
        return {"txm": {"stats": _clean(tm.stats), "active": tm.active_transactions}, "outcome": outcome,
                "balances": bal, "total": sum(x or 0 for x in bal.values()),
                "clients": [{"runs": c.runs, "done": c.done, "errors": c.errors[:5]} for c in clients]}

    return sim, stats


# ---------------------------------------------------------------------------
# datastore
# ---------------------------------------------------------------------------

def _store_client_body(store, keys, rng, write_frac, model, *, delete_frac=0.05, log_limit=80):
    """Generator body for a Script: one get / put / delete on `store` per request."""

    def body(self, event):
        n = event.context["request_id"]
        key = keys.sample()
        r = rng.random()
        if r < write_frac:
            yield from store.put(key, n)
            model[key] = n
        elif r < write_frac + delete_frac and hasattr(store, "delete"):
            yield from store.delete(key)
            model.pop(key, None)
        else:
            got = yield from store.get(key)
            if len(self.log) < log_limit:
                self.log.append([key, got])
        return None

    return body


@scenario
def datastore_kv_database(seed, variant):
    """KVStore with capacity (eviction) and a Database with few connections and transactions."""
    from happysimulator import UniformDistribution, ZipfDistribution
    from happysimulator.components.datastore import Database, KVStore

    _seed(seed)
    v = variant % 3
    rng = random.Random(seed * 19 + v)
    kv = KVStore("kv", read_latency=[0.001, 0.01, 0.0005][v], write_latency=[0.005, 0.02, 0.001][v],
                 delete_latency=[None, 0.001, 0.01][v], capacity=[None, 10, 40][v])
    db = Database("db", max_connections=[3, 1, 5][v],
                  query_latency=[0.005, (lambda q: 0.03 if q.startswith("SELECT") else 0.01), 0.002][v],
                  connection_latency=[0.01, 0.002, 0.001][v], commit_latency=[0.01, 0.02, 0.001][v],
                  rollback_latency=0.005)
    db.create_table("orders")
    keys = [ZipfDistribution([f"k{i:03d}" for i in range(50)], s=1.1, seed=seed),
            UniformDistribution([f"k{i:03d}" for i in range(30)], seed=seed),
            ZipfDistribution([f"k{i:03d}" for i in range(200)], s=0.7, seed=seed)][v]
    model: dict = {}
    kv_clients = [Script(f"kv_client{i}", _store_client_body(kv, keys, rng, [0.5, 0.3, 0.7][v], model)) for i in range(2)]

    def db_body(self, event):
        n = event.context["request_id"]
        if n % 3 == 0:
            tx = yield from db.begin_transaction()
            yield from tx.execute("SELECT * FROM orders")
            yield from tx.execute(f"INSERT INTO orders VALUES ({n})")
            if n % 9 == 0:
                yield from tx.rollback()
            else:
                yield from tx.commit()
        else:
            res = yield from db.execute("SELECT 1" if n % 2 else f"UPDATE orders SET x={n}")
            if len(self.log) < 30:
                self.log.append(res)
        return None

    db_clients = [Script(f"db_client{i}", db_body) for i in range(3)]
    srcs = [req_source(f"src_kv{i}", c, [60, 30, 100][v], poisson=(i == 0), stop_after=3.0) for i, c in enumerate(kv_clients)]
    srcs += [req_source(f"src_db{i}", c, [25, 8, 40][v], poisson=(i != 0), stop_after=3.0) for i, c in enumerate(db_clients)]
    sim = Simulation(sources=srcs, entities=[kv, db, *kv_clients, *db_clients], duration=6.0)

    def stats():
        return {"kv": {"stats": _clean(kv.stats), "size": kv.size, "keys": sorted(kv.keys())[:60]},
                "db": pub(db), "tables": db.get_table_names(),
                "clients": [script_stats(c) for c in [*kv_clients, *db_clients]]}

    return sim, stats


@scenario
def datastore_cached_store_eviction(seed, variant):
    """CachedStore over a KVStore: nine eviction policies x write-through / write-back, plus a CacheWarmer."""
    from happysimulator import ZipfDistribution
    from happysimulator.components.datastore import (CachedStore, CacheWarmer, ClockEviction, FIFOEviction, KVStore,
                                                     LFUEviction, LRUEviction, RandomEviction, SampledLRUEviction,
                                                     SLRUEviction, TTLEviction, TwoQueueEviction, WriteAround, WriteBack,
                                                     WriteThrough)

    _seed(seed)
    v = variant % 9
    rng = random.Random(seed * 23 + v)
    backing = KVStore("backing", read_latency=[0.005, 0.02, 0.002][v % 3], write_latency=[0.01, 0.03, 0.004][v % 3])
    for i in range(100):
        backing.put_sync(f"k{i:03d}", -i)
    holder = {}
    policy = [LRUEviction(), LFUEviction(), TTLEviction(ttl=0.3, clock_func=lambda: holder["c"].now.to_seconds()),
              FIFOEviction(), RandomEviction(seed=seed), SLRUEviction(protected_ratio=0.7),
              SampledLRUEviction(sample_size=3, seed=seed), ClockEviction(), TwoQueueEviction(kin_ratio=0.3)][v]
    write_through = (v % 2 == 0)
    cache = CachedStore("cache", backing_store=backing, cache_capacity=[10, 5, 20][v % 3], eviction_policy=policy,
                        cache_read_latency=[0.0001, 0.001, 0.0][v % 3], write_through=write_through)
    holder["c"] = cache
    keys = ZipfDistribution([f"k{i:03d}" for i in range(100)], s=[1.0, 1.4, 0.6][v % 3], seed=seed + 1)
    warmer = CacheWarmer("warmer", cache=cache, keys_to_warm=[f"k{i:03d}" for i in range(8)],
                         warmup_rate=[100.0, 20.0, 400.0][v % 3], warmup_latency=0.001)
    model: dict = {}
    clients = [Script(f"client{i}", _store_client_body(cache, keys, rng, [0.2, 0.4, 0.1][v % 3], model)) for i in range(3)]
    # standalone write-policy objects driven alongside (bookkeeping API only)
    wp = [WriteThrough(), WriteBack(flush_interval=0.5, max_dirty=5), WriteAround()][v % 3]
    wp_log = {"flushes": 0, "flushed_keys": 0}

    def flusher(self, event):
        k = keys.sample()
        wp.on_write(k, 1)
        if wp.should_flush():
            ks = wp.get_keys_to_flush()
            wp_log["flushes"] += 1
            wp_log["flushed_keys"] += len(ks)
            wp.on_flush(ks)
        if not write_through and event.context["request_id"] % 5 == 0:
            n = yield from cache.flush()
            self.log.append(n)
        if event.context["request_id"] % 17 == 0:
            cache.invalidate(k)
        return None
        yield  # pragma: no cover

    flush_script = Script("flusher", flusher)
    srcs = [req_source(f"src{i}", c, [60, 40, 120][v % 3], poisson=(i != 1), stop_after=3.0) for i, c in enumerate(clients)]
    srcs.append(req_source("flush_timer", flush_script, 10, stop_after=3.5))
    sim = Simulation(sources=srcs, entities=[backing, cache, warmer, flush_script, *clients], duration=5.0)
    sim.schedule(warmer.start_warming())

    def stats():
        return {"cache": {"stats": _clean(cache.stats), "size": cache.cache_size, "hit_rate": cache.hit_rate,
                          "cached": sorted(cache.get_cached_keys()), "dirty": sorted(cache.get_dirty_keys())},
                "backing": {"stats": _clean(backing.stats), "size": backing.size},
                "warmer": pub(warmer), "write_policy": {"type": type(wp).__name__, **wp_log},
                "flusher": script_stats(flush_script),
                "clients": [{"runs": c.runs, "done": c.done, "errors": c.errors[:3], "log": c.log[:20]} for c in clients]}

    return sim, stats


@scenario
def datastore_multi_tier_cache(seed, variant):
    from happysimulator import ZipfDistribution
    from happysimulator.components.datastore import (CachedStore, KVStore, LFUEviction, LRUEviction, MultiTierCache,
                                                     PromotionPolicy)

    _seed(seed)
    v = variant % 3
    rng = random.Random(seed * 29 + v)
    backing = KVStore("backing", read_latency=[0.01, 0.03, 0.005][v], write_latency=[0.02, 0.05, 0.01][v])
    for i in range(150):
        backing.put_sync(f"k{i:03d}", i)
    l1 = CachedStore("l1", backing_store=backing, cache_capacity=[5, 3, 10][v], eviction_policy=LRUEviction(),
                     cache_read_latency=0.0001)
    l2 = CachedStore("l2", backing_store=backing, cache_capacity=[30, 10, 60][v], eviction_policy=LFUEviction(),
                     cache_read_latency=0.001)
    mtc = MultiTierCache("mtc", tiers=[l1, l2], backing_store=backing,
                         promotion_policy=[PromotionPolicy.ALWAYS, PromotionPolicy.ON_SECOND_ACCESS, "never"][v])
    keys = ZipfDistribution([f"k{i:03d}" for i in range(150)], s=[1.0, 1.3, 0.8][v], seed=seed + 2)
    model: dict = {}
    clients = [Script(f"client{i}", _store_client_body(mtc, keys, rng, [0.1, 0.3, 0.05][v], model)) for i in range(3)]
    srcs = [req_source(f"src{i}", c, [60, 30, 100][v], poisson=(i == 0), stop_after=3.0) for i, c in enumerate(clients)]
    sim = Simulation(sources=srcs, entities=[backing, l1, l2, mtc, *clients], duration=5.0)
    sim.schedule(Event.once(time=T(2.0), event_type="InvalidateAll", fn=lambda e: mtc.invalidate_all()))

    def stats():
        return {"mtc": {"stats": _clean(mtc.stats), "hit_rate": mtc.hit_rate, "tiers": mtc.get_tier_stats()},
                "l1": sorted(l1.get_cached_keys()), "l2": sorted(l2.get_cached_keys()),
                "backing": _clean(backing.stats),
                "clients": [{"runs": c.runs, "done": c.done, "errors": c.errors[:3]} for c in clients]}

    return sim, stats


@scenario
def datastore_soft_ttl_cache(seed, variant):
    """SoftTTLCache: fresh hits, stale hits with background refresh, hard expiry, concurrent readers."""
    from happysimulator import ZipfDistribution
    from happysimulator.components.datastore import KVStore, SoftTTLCache

    _seed(seed)
    v = variant % 3
    rng = random.Random(seed * 31 + v)
    backing = KVStore("backing", read_latency=[0.02, 0.1, 0.005][v], write_latency=0.01)
    for i in range(40):
        backing.put_sync(f"k{i:03d}", i)
    cache = SoftTTLCache("softttl", backing_store=backing, soft_ttl=[0.2, 0.5, 0.05][v],
                         hard_ttl=[1.0, 0.6, Duration.from_seconds(0.5)][v], cache_capacity=[None, 10, 25][v],
                         cache_read_latency=[0.0001, 0.001, 0.0][v])
    keys = ZipfDistribution([f"k{i:03d}" for i in range(40)], s=1.2, seed=seed + 3)
    model: dict = {}
    clients = [Script(f"client{i}", _store_client_body(cache, keys, rng, [0.05, 0.1, 0.2][v], model, delete_frac=0.0))
               for i in range(3)]
    srcs = [req_source(f"src{i}", c, [50, 30, 100][v], poisson=(i != 2), stop_after=4.0) for i, c in enumerate(clients)]
    sim = Simulation(sources=srcs, entities=[backing, cache, *clients], duration=6.0)
    sim.schedule(Event.once(time=T(2.0), event_type="Invalidate", fn=lambda e: cache.invalidate("k000")))

    def stats():
        return {"cache": {"stats": _clean(cache.stats), "size": cache.cache_size, "cached": sorted(cache.get_cached_keys())},
                "backing": _clean(backing.stats),
                "clients": [{"runs": c.runs, "done": c.done, "errors": c.errors[:3], "log": c.log[:15]} for c in clients]}

    return sim, stats


@scenario
def datastore_replicated_store(seed, variant):
    from happysimulator import UniformDistribution
    from happysimulator.components.datastore import ConsistencyLevel, KVStore, ReplicatedStore

    _seed(seed)
    v = variant % 3
    rng = random.Random(seed * 37 + v)
    replicas = [KVStore(f"replica{i}", read_latency=0.002 * (i + 1) * [1, 5, 0.5][v], write_latency=0.004 * (i + 1) * [1, 5, 0.5][v])
                for i in range([3, 5, 3][v])]
    store = ReplicatedStore("replicated", replicas=replicas,
                            read_consistency=[ConsistencyLevel.QUORUM, ConsistencyLevel.ONE, ConsistencyLevel.ALL][v],
                            write_consistency=[ConsistencyLevel.QUORUM, ConsistencyLevel.ALL, ConsistencyLevel.ONE][v],
                            read_timeout=[1.0, 0.05, 0.5][v], write_timeout=[2.0, 0.1, 0.5][v])
    keys = UniformDistribution([f"k{i:02d}" for i in range(25)], seed=seed + 4)
    model: dict = {}
    clients = [Script(f"client{i}", _store_client_body(store, keys, rng, [0.5, 0.3, 0.6][v], model)) for i in range(3)]
    srcs = [req_source(f"src{i}", c, [30, 15, 60][v], poisson=(i == 0), stop_after=3.0) for i, c in enumerate(clients)]
    sim = Simulation(sources=srcs, entities=[store, *replicas, *clients], duration=5.0)

    def stats():
        return {"store": {"stats": _clean(store.stats), "quorum": store.quorum_size, "replica_status": store.get_replica_status()},
                "replicas": [{"size": r.size, "stats": _clean(r.stats)} for r in replicas],
                "divergent": sorted(k for k in model if len({r.get_sync(k) for r in replicas}) > 1),
                "clients": [{"runs": c.runs, "done": c.done, "errors": c.errors[:3]} for c in clients]}

    return sim, stats


@scenario
def datastore_sharded_store(seed, variant):
    from happysimulator import ZipfDistribution
    from happysimulator.components.datastore import ConsistentHashSharding, HashSharding, KVStore, RangeSharding, ShardedStore

    _seed(seed)
    v = variant % 3
    rng = random.Random(seed * 41 + v)
    shards = [KVStore(f"shard{i}", read_latency=0.002 + 0.001 * i, write_latency=0.005 + 0.002 * i,
                      capacity=[None, 8, None][v]) for i in range([4, 3, 5][v])]
    strategy = [HashSharding(), RangeSharding(boundaries=["k030", "k060"]),
                ConsistentHashSharding(virtual_nodes=20, seed=seed)][v]
    store = ShardedStore("sharded", shards=shards, sharding_strategy=strategy)
    population = [f"k{i:03d}" for i in range(90)]
    keys = ZipfDistribution(population, s=[0.5, 1.0, 0.9][v], seed=seed + 5)
    model: dict = {}
    clients = [Script(f"client{i}", _store_client_body(store, keys, rng, [0.5, 0.6, 0.4][v], model)) for i in range(2)]

    def gather(self, event):
        want = [keys.sample() for _ in range([5, 10, 3][v])]
        got = yield from store.scatter_gather(want)
        if len(self.log) < 30:
            self.log.append(sorted(k for k, val in got.items() if val is not None))
        return None

    gatherer = Script("gatherer", gather)
    srcs = [req_source(f"src{i}", c, [60, 40, 100][v], poisson=(i == 0), stop_after=3.0) for i, c in enumerate(clients)]
    srcs.append(req_source("src_gather", gatherer, [5, 10, 20][v], stop_after=3.0))
    sim = Simulation(sources=srcs, entities=[store, gatherer, *shards, *clients], duration=5.0)

    def stats():
        return {"store": {"stats": _clean(store.stats), "sizes": store.get_shard_sizes(), "keys": sorted(store.get_all_keys())[:100]},
                "placement": {k: store.get_shard_for_key(k) for k in population[:30]},
                "gatherer": script_stats(gatherer),
                "clients": [{"runs": c.runs, "done": c.done, "errors": c.errors[:3]} for c in clients]}

    return sim, stats


# ---------------------------------------------------------------------------
# replication
# ---------------------------------------------------------------------------

def _rw_body(write_target, read_targets, rng, n_keys, write_frac, *, timeout=None):
    """Script body: send Write/Read with a reply_future to replication nodes and wait for the reply."""

    def body(self, event):
        n = event.context["request_id"]
        key = f"key{rng.randrange(n_keys):02d}"
        fut = SimFuture()
        started = self.now
        if rng.random() < write_frac:
            tgt, et, md = write_target, "Write", {"key": key, "value": f"{self.name}:{n}", "reply_future": fut}
        else:
            tgt = read_targets[rng.randrange(len(read_targets))]
            et, md = "Read", {"key": key, "reply_future": fut}
        yield 0.0, [Event(time=self.now, event_type=et, target=tgt, context={"metadata": md})]
        if timeout is None:
            reply = yield fut
        else:
            timer = SimFuture()
            yield 0.0, [Event.once(time=self.now + timeout, event_type="ClientTimeout",
                                   fn=lambda e: timer.resolve("timeout") if not timer.is_resolved else None)]
            idx, reply = yield any_of(fut, timer)
            if idx == 1:
                reply = {"status": "timeout"}
        if len(self.log) < 60:
            self.log.append([et, key, _clean(reply), (self.now - started).nanoseconds])
        return None

    return body


def _store_dump(store, n_keys):
    return {f"key{i:02d}": store.get_sync(f"key{i:02d}") for i in range(n_keys)}


@scenario
def replication_primary_backup(seed, variant):
    """PrimaryNode + BackupNodes over a Network in ASYNC / SEMI_SYNC / SYNC mode, with a partition."""
    from happysimulator import Network, cross_region_network, datacenter_network, lossy_network
    from happysimulator.components.datastore import KVStore
    from happysimulator.components.replication import BackupNode, PrimaryNode, ReplicationMode

    _seed(seed)
    v = variant % 3
    rng = random.Random(seed * 43 + v)
    net = Network(name="net")
    pstore = KVStore("primary_store", read_latency=0.001, write_latency=[0.001, 0.005, 0.002][v])
    bstores = [KVStore(f"backup_store{i}", read_latency=0.001, write_latency=0.002 * (i + 1)) for i in range(2)]
    primary = PrimaryNode("primary", store=pstore, backups=[], network=net,
                          mode=[ReplicationMode.ASYNC, ReplicationMode.SEMI_SYNC, ReplicationMode.SYNC][v])
    backups = [BackupNode(f"backup{i}", store=bstores[i], network=net, primary=primary, serve_reads=(i == 0 or v == 2))
               for i in range(2)]
    primary._backups = backups  # same wiring as the library's own example
    primary._backup_lag = {b.name: 0 for b in backups}
    links = [[datacenter_network, cross_region_network], [datacenter_network, lambda n: lossy_network(0.05, name=n)],
             [cross_region_network, datacenter_network]][v]
    for b, mk in zip(backups, links):
        net.add_bidirectional_link(primary, b, mk(f"link_{b.name}"))
    n_keys = 12
    clients = [Script(f"client{i}", _rw_body(primary, [primary, *backups], rng, n_keys, [0.6, 0.5, 0.4][v],
                                             timeout=[None, 0.5, 0.3][v])) for i in range(3)]
    srcs = [req_source(f"src{i}", c, [30, 20, 15][v], poisson=(i == 0), stop_after=4.0) for i, c in enumerate(clients)]
    sim = Simulation(sources=srcs, entities=[net, primary, pstore, *backups, *bstores, *clients], duration=7.0)
    handle = {}
    sim.schedule(Event.once(time=T(1.5), event_type="Partition",
                            fn=lambda e: handle.__setitem__("p", net.partition([primary], [backups[1]]))))
    sim.schedule(Event.once(time=T(2.5), event_type="Heal", fn=lambda e: handle["p"].heal()))

    def stats():
        return {"primary": pub(primary), "backups": [pub(b) for b in backups],
                "stores": {"primary": _store_dump(pstore, n_keys), "backups": [_store_dump(s, n_keys) for s in bstores]},
                "net": {"routed": net.events_routed, "partition_drops": net.events_dropped_partition},
                "clients": [script_stats(c) for c in clients]}

    return sim, stats


@scenario
def replication_chain(seed, variant):
    """Chain replication (plain and CRAQ) with reads at tail / any node and concurrent writers."""
    from happysimulator import Network, cross_region_network, datacenter_network, local_network
    from happysimulator.components.datastore import KVStore
    from happysimulator.components.replication import build_chain

    _seed(seed)
    v = variant % 3
    rng = random.Random(seed * 47 + v)
    net = Network(name="net")
    names = [["head", "tail"], ["head", "mid", "tail"], ["head", "mid1", "mid2", "tail"]][v]
    nodes = build_chain(names, net, store_factory=lambda n: KVStore(n, read_latency=0.001, write_latency=[0.001, 0.004, 0.002][v]),
                        craq_enabled=(v != 0))
    mk = [local_network, datacenter_network, cross_region_network][v]
    for i in range(len(nodes) - 1):
        net.add_bidirectional_link(nodes[i], nodes[i + 1], mk(f"link_{i}_{i + 1}"))
    if len(nodes) > 2:
        net.add_bidirectional_link(nodes[0], nodes[-1], datacenter_network("link_head_tail"))
        # CRAQ version queries go from any node to the tail
        for i in range(1, len(nodes) - 1):
            net.add_bidirectional_link(nodes[i], nodes[-1], datacenter_network(f"link_{i}_tail")) if i + 1 != len(nodes) - 1 else None
    n_keys = 8
    read_targets = [nodes[-1]] if v == 0 else list(nodes)
    clients = [Script(f"client{i}", _rw_body(nodes[0] if i < 2 else nodes[-1], read_targets, rng, n_keys,
                                             [0.5, 0.4, 0.6][v], timeout=0.5)) for i in range(3)]
    srcs = [req_source(f"src{i}", c, [40, 25, 15][v], poisson=(i == 0), stop_after=4.0) for i, c in enumerate(clients)]
    sim = Simulation(sources=srcs, entities=[net, *nodes, *[n.store for n in nodes], *clients], duration=7.0)

    def stats():
        return {"nodes": [{"name": n.name, "role": n.role.name, "stats": _clean(n.stats), "dirty": sorted(n.dirty_keys),
                           "store": _store_dump(n.store, n_keys)} for n in nodes],
                "net": {"routed": net.events_routed, "no_route": net.events_dropped_no_route},
                "clients": [script_stats(c) for c in clients]}

    return sim, stats


@scenario
def replication_multi_leader(seed, variant):
    """Multi-leader replication with concurrent conflicting writes, a partition and anti-entropy repair."""
    from happysimulator import Network, cross_region_network, datacenter_network, lossy_network
    from happysimulator.components.datastore import KVStore
    from happysimulator.components.replication import CustomResolver, LastWriterWins, LeaderNode, VectorClockMerge

    _seed(seed)
    v = variant % 3
    rng = random.Random(seed * 53 + v)
    net = Network(name="net")
    resolver = [LastWriterWins(), VectorClockMerge(),
                CustomResolver(lambda key, versions: max(versions, key=lambda x: (str(x.value), x.timestamp)))][v]
    leaders = [LeaderNode(f"leader{i}", store=KVStore(f"leader_store{i}", read_latency=0.001, write_latency=0.002),
                          network=net, conflict_resolver=resolver, anti_entropy_interval=[0.5, 0.0, 0.25][v])
               for i in range([2, 3, 3][v])]
    for l in leaders:
        l.add_peers([p for p in leaders if p is not l])
    mk = [cross_region_network, datacenter_network, lambda n: lossy_network(0.2, name=n, base_latency=0.02)][v]
    for i in range(len(leaders)):
        for j in range(i + 1, len(leaders)):
            net.add_bidirectional_link(leaders[i], leaders[j], mk(f"link_{i}_{j}"))
    n_keys = 6
    clients = [Script(f"client{i}", _rw_body(leaders[i % len(leaders)], [leaders[i % len(leaders)]], rng, n_keys,
                                             [0.7, 0.5, 0.8][v])) for i in range(len(leaders) + 1)]
    srcs = [req_source(f"src{i}", c, [20, 30, 15][v], poisson=(i % 2 == 0), stop_after=3.0) for i, c in enumerate(clients)]
    sim = Simulation(sources=srcs, entities=[net, *leaders, *[l.store for l in leaders], *clients], duration=8.0)
    for l in leaders:
        ev = l.get_anti_entropy_event()
        if ev is not None:
            sim.schedule(ev)
    handle = {}
    sim.schedule(Event.once(time=T(1.0), event_type="Partition",
                            fn=lambda e: handle.__setitem__("p", net.partition([leaders[0]], leaders[1:]))))
    sim.schedule(Event.once(time=T(2.0), event_type="Heal", fn=lambda e: handle["p"].heal()))

    def stats():
        dumps = [_store_dump(l.store, n_keys) for l in leaders]
        return {"leaders": [{"stats": _clean(l.stats), "root": l.merkle_tree.root_hash,
                             "versions": {k: [vv.value, vv.writer_id, vv.timestamp] for k, vv in sorted(l.versions.items())}}
                            for l in leaders],
                "stores": dumps, "converged": all(d == dumps[0] for d in dumps),
                "net": {"routed": net.events_routed, "partition_drops": net.events_dropped_partition},
                "clients": [{"runs": c.runs, "done": c.done, "errors": c.errors[:3]} for c in clients]}

    return sim, stats


# ---------------------------------------------------------------------------
# consensus
# ---------------------------------------------------------------------------

def _mesh(net, nodes, mk):
    for i in range(len(nodes)):
        for j in range(i + 1, len(nodes)):
            net.add_bidirectional_link(nodes[i], nodes[j], mk(f"link_{nodes[i].name}_{nodes[j].name}"))


def _log_dump(log):
    return [[e.index, e.term, _clean(e.command)] for e in log.entries_from(1)][:80]


def _submit_script(name, nodes, results, *, leader_of):
    """Script entity: each request submits a KV command at the current leader (if any) and awaits commit."""

    def body(self, event):
        n = event.context["request_id"]
        leader = leader_of(nodes)
        if leader is None:
            self.log.append([n, "no_leader"]) if len(self.log) < 60 else None
            return None
        cmd = {"op": "set", "key": f"k{n % 5}", "value": f"{self.name}:{n}"} if n % 4 else \
            {"op": "cas", "key": f"k{n % 5}", "expected": None, "value": f"{self.name}:cas{n}"}
        fut = leader.submit(cmd)
        kick = []
        if hasattr(leader, "_replicate_slot"):
            # Multi-/Flexible-Paxos only replicate a freshly assigned slot when asked to; the library's own
            # examples trigger it exactly like this right after submit().
            kick = leader._replicate_slot(leader.log.last_index)
        timer = SimFuture()
        yield 0.0, kick + [Event.once(time=self.now + 1.5, event_type="SubmitTimeout",
                               fn=lambda e: timer.resolve("timeout") if not timer.is_resolved else None)]
        idx, val = yield any_of(fut, timer)
        results.append([n, leader.name, "timeout" if idx == 1 else _clean(val)])
        return None

    return Script(name, body)


@scenario
def consensus_raft_cluster(seed, variant):
    """Raft cluster electing a leader, committing client commands, surviving a leader partition."""
    from happysimulator import Network, RaftNode, cross_region_network, datacenter_network, lossy_network

    _seed(seed)
    v = variant % 3
    net = Network(name="net")
    nodes = [RaftNode(f"raft{i}", network=net, election_timeout_min=[0.3, 0.15, 0.5][v],
                      election_timeout_max=[0.6, 0.3, 1.0][v], heartbeat_interval=[0.1, 0.05, 0.2][v])
             for i in range([3, 5, 3][v])]
    for n in nodes:
        n.set_peers(nodes)
    _mesh(net, nodes, [datacenter_network, lambda name: lossy_network(0.1, name=name, base_latency=0.005),
                       cross_region_network][v])
    results: list = []
    leader_of = lambda ns: next((n for n in ns if n.is_leader), None)  # noqa: E731
    clients = [_submit_script(f"client{i}", nodes, results, leader_of=leader_of) for i in range(2)]
    srcs = [req_source(f"src{i}", c, [10, 15, 5][v], poisson=(i == 0), stop_after=6.0) for i, c in enumerate(clients)]
    sim = Simulation(sources=srcs, entities=[net, *nodes, *clients], duration=8.0)
    for n in nodes:
        sim.schedule(n.start())
    handle = {}

    def isolate_leader(e):
        l = leader_of(nodes)
        if l is not None:
            handle["p"] = net.partition([l], [n for n in nodes if n is not l])
            handle["who"] = l.name

    sim.schedule(Event.once(time=T(2.5), event_type="IsolateLeader", fn=isolate_leader))
    sim.schedule(Event.once(time=T(4.5), event_type="Heal", fn=lambda e: handle["p"].heal() if "p" in handle else None))

    def stats():
        return {"nodes": [{"name": n.name, "state": n.state.name, "term": n.current_term, "leader": n.current_leader,
                           "stats": _clean(n.stats), "log": _log_dump(n.log), "commit": n.log.commit_index,
                           "sm": _clean(n._state_machine.data)} for n in nodes],
                "isolated": handle.get("who"), "results": results[:100], "n_results": len(results),
                "net": {"routed": net.events_routed, "partition_drops": net.events_dropped_partition}}

    return sim, stats


@scenario
def consensus_paxos_single_decree(seed, variant):
    """Single-decree Paxos with several competing proposers (duelling ballots) over a lossy/slow mesh."""
    from happysimulator import Network, PaxosNode, cross_region_network, datacenter_network, lossy_network

    _seed(seed)
    v = variant % 3
    net = Network(name="net")
    nodes = [PaxosNode(f"paxos{i}", network=net, retry_delay=[0.2, 0.05, 0.5][v]) for i in range([3, 5, 5][v])]
    for n in nodes:
        n.set_peers(nodes)
    _mesh(net, nodes, [datacenter_network, lambda name: lossy_network(0.15, name=name, base_latency=0.01),
                       cross_region_network][v])
    decided: list = []
    sim = Simulation(entities=[net, *nodes], duration=8.0)
    proposers = [(0, 0.0), (1, [0.0005, 0.0, 0.01][v]), (2, [0.3, 0.02, 0.05][v])]
    if v == 2:
        proposers += [(3, 1.0), (4, 1.0)]

    def propose(i):
        def fn(e):
            node = nodes[i]
            fut = node.propose(f"value-from-{node.name}")
            fut._add_settle_callback(lambda f: decided.append([node.name, node.now.nanoseconds, _clean(f.value)]))
            return node.start_phase1()
        return fn

    for i, at in proposers:
        sim.schedule(Event.once(time=T(at), event_type=f"Propose{i}", fn=propose(i)))
    # background traffic so the run is not trivially short: a late proposer after the decision
    sim.schedule(Event.once(time=T(5.0), event_type="LatePropose", fn=propose(len(nodes) - 1)))
    handle = {}
    if v == 1:
        sim.schedule(Event.once(time=T(0.01), event_type="Partition",
                                fn=lambda e: handle.__setitem__("p", net.partition(nodes[:2], nodes[2:]))))
        sim.schedule(Event.once(time=T(1.0), event_type="Heal", fn=lambda e: handle["p"].heal()))

    def stats():
        return {"nodes": [{"name": n.name, "decided": n.is_decided, "value": _clean(n.decided_value),
                           "stats": _clean(n.stats)} for n in nodes],
                "decided": decided, "distinct": sorted({str(n.decided_value) for n in nodes if n.is_decided}),
                "net": {"routed": net.events_routed, "partition_drops": net.events_dropped_partition}}

    return sim, stats


@scenario
def consensus_multi_paxos(seed, variant):
    """Multi-Paxos and Flexible Paxos logs with client commands and a second node trying to take over."""
    from happysimulator import (FlexiblePaxosNode, MultiPaxosNode, Network, cross_region_network, datacenter_network,
                                lossy_network)

    _seed(seed)
    v = variant % 4
    net = Network(name="net")
    n_nodes = [3, 5, 5, 4][v]
    if v in (0, 1):
        nodes = [MultiPaxosNode(f"mp{i}", network=net, leader_lease_timeout=[1.0, 0.5][v], heartbeat_interval=[0.2, 0.1][v])
                 for i in range(n_nodes)]
        for n in nodes:
            n.set_peers(nodes)
    else:
        q1, q2 = [(4, 2), (2, 3)][v - 2]
        nodes = [FlexiblePaxosNode(f"fp{i}", network=net, peers=None, phase1_quorum=None, phase2_quorum=None,
                                   heartbeat_interval=[0.2, 0.5][v - 2]) for i in range(n_nodes)]
        for n in nodes:
            n._phase1_quorum, n._phase2_quorum = q1, q2  # quorums are validated against peers in set_peers
            n.set_peers(nodes)
    _mesh(net, nodes, [datacenter_network, lambda name: lossy_network(0.05, name=name, base_latency=0.005),
                       datacenter_network, cross_region_network][v])
    results: list = []
    leader_of = lambda ns: next((n for n in ns if n.is_leader), None)  # noqa: E731
    clients = [_submit_script(f"client{i}", nodes, results, leader_of=leader_of) for i in range(2)]
    srcs = [req_source(f"src{i}", c, [10, 20, 15, 5][v], poisson=(i == 0), stop_after=5.0) for i, c in enumerate(clients)]
    sim = Simulation(sources=srcs, entities=[net, *nodes, *clients], duration=7.0)
    sim.schedule(Event.once(time=T(0.0), event_type="Start0", fn=lambda e: nodes[0].start()))
    sim.schedule(Event.once(time=T([2.0, 1.0, 2.5, 3.0][v]), event_type="Start1", fn=lambda e: nodes[1].start()))
    handle = {}
    if v in (1, 3):
        sim.schedule(Event.once(time=T(3.0), event_type="Partition",
                                fn=lambda e: handle.__setitem__("p", net.partition([nodes[0]], nodes[1:]))))
        sim.schedule(Event.once(time=T(4.0), event_type="Heal", fn=lambda e: handle["p"].heal()))

    def stats():
        return {"nodes": [{"name": n.name, "is_leader": n.is_leader, "leader": n.leader, "stats": _clean(n.stats),
                           "log": _log_dump(n.log), "commit": n.log.commit_index,
                           "sm": _clean(n._state_machine.data)} for n in nodes],
                "results": results[:100], "n_results": len(results),
                "net": {"routed": net.events_routed, "partition_drops": net.events_dropped_partition}}

    return sim, stats


@scenario
def consensus_leader_election(seed, variant):
    """LeaderElection with Bully / Ring / Randomized strategies; the leader is isolated mid-run."""
    from happysimulator import (BullyStrategy, LeaderElection, Network, RandomizedStrategy, RingStrategy,
                                datacenter_network, lossy_network)

    _seed(seed)
    v = variant % 3
    net = Network(name="net")
    nodes = [LeaderElection(f"node{i}", network=net,
                            strategy=[BullyStrategy(), RingStrategy(), RandomizedStrategy(ballot_range=1000)][v],
                            election_timeout=[0.5, 0.8, 0.3][v] + 0.05 * i, heartbeat_interval=[0.1, 0.2, 0.1][v])
             for i in range([4, 5, 3][v])]
    for n in nodes:
        for m in nodes:
            n.add_member(m)
    _mesh(net, nodes, [datacenter_network, datacenter_network, lambda name: lossy_network(0.05, name=name)][v])
    sim = Simulation(entities=[net, *nodes], duration=8.0)
    for n in nodes:
        sim.schedule(n.start())
    handle = {}
    history: list = []

    def isolate(e):
        leaders = [n for n in nodes if n.is_leader]
        if leaders:
            handle["p"] = net.partition([leaders[0]], [n for n in nodes if n is not leaders[0]])
            handle["who"] = leaders[0].name

    def snapshot(e):
        history.append([e.time.nanoseconds, [n.current_leader for n in nodes], [n.current_term for n in nodes]])

    sim.schedule(Event.once(time=T(3.0), event_type="Isolate", fn=isolate))
    sim.schedule(Event.once(time=T(6.0), event_type="Heal", fn=lambda e: handle["p"].heal() if "p" in handle else None))
    for k in range(1, 16):
        sim.schedule(Event.once(time=T(0.5 * k), event_type="Snapshot", fn=snapshot))

    def stats():
        return {"nodes": [{"name": n.name, "leader": n.current_leader, "term": n.current_term, "is_leader": n.is_leader,
                           "stats": _clean(n.stats)} for n in nodes],
                "isolated": handle.get("who"), "history": history,
                "net": {"routed": net.events_routed, "partition_drops": net.events_dropped_partition}}

    return sim, stats


@scenario
def consensus_distributed_lock(seed, variant):
    """Clients contending for DistributedLock leases (fencing tokens, expiry of slow holders, waiter limits)."""
    from happysimulator import DistributedLock

    _seed(seed)
    v = variant % 3
    rng = random.Random(seed * 59 + v)
    lock = DistributedLock("lockmgr", lease_duration=[0.3, 0.1, 1.0][v], max_waiters=[0, 2, 5][v])
    fenced_writes: list = []
    last_token = {"db": 0, "cache": 0}
    stale = {"n": 0}

    def expiry():
        ev = getattr(lock, "_pending_expiry", None)  # the lock hands its lease-expiry event to the caller
        if ev is not None:
            lock._pending_expiry = None
            return [ev]
        return []

    def body(self, event):
        name = "db" if rng.random() < 0.7 else "cache"
        fut = lock.acquire(name, self.name)
        yield 0.0, expiry()
        grant = yield fut
        if grant is None:
            self.log.append("rejected") if len(self.log) < 50 else None
            return None
        hold = [0.05, 0.02, 0.2][v] * (1 + 9 * (rng.random() < 0.15))  # some holders stall past the lease
        yield hold
        if grant.fencing_token < last_token[name]:
            stale["n"] += 1
        else:
            last_token[name] = grant.fencing_token
            fenced_writes.append([name, grant.fencing_token, self.name])
        ok = lock.release(name, grant.fencing_token)
        yield 0.0, expiry()
        self.log.append([name, grant.fencing_token, ok]) if len(self.log) < 50 else None
        return None

    clients = [Script(f"client{i}", body) for i in range(4)]
    srcs = [req_source(f"src{i}", c, [4, 8, 1.5][v], poisson=(i % 2 == 0), stop_after=6.0) for i, c in enumerate(clients)]
    sim = Simulation(sources=srcs, entities=[lock, *clients], duration=9.0)

    def stats():
        return {"lock": {"stats": _clean(lock.stats), "active": lock.active_locks, "waiters": lock.total_waiters,
                         "holders": {n: lock.get_holder(n) for n in ("db", "cache")},
                         "tokens": {n: lock.get_fencing_token(n) for n in ("db", "cache")}},
                "writes": fenced_writes[:100], "stale_rejected": stale["n"],
                "clients": [script_stats(c) for c in clients]}

    return sim, stats


@scenario
def consensus_membership_swim(seed, variant):
    """SWIM MembershipProtocol with phi-accrual detection; nodes are partitioned away and crash."""
    from happysimulator import MembershipProtocol, Network, PhiAccrualDetector, datacenter_network, lossy_network

    _seed(seed)
    v = variant % 3
    net = Network(name="net")
    nodes = [MembershipProtocol(f"member{i}", network=net, probe_interval=[0.2, 0.1, 0.3][v],
                                suspicion_timeout=[1.0, 0.5, 1.5][v], indirect_probe_count=[2, 3, 1][v],
                                phi_threshold=[8.0, 4.0, 12.0][v]) for i in range([5, 6, 4][v])]
    for n in nodes:
        for m in nodes:
            n.add_member(m)
    _mesh(net, nodes, [datacenter_network, lambda name: lossy_network(0.1, name=name, base_latency=0.005),
                       datacenter_network][v])
    # a free-standing detector fed from a jittery heartbeat stream
    det = PhiAccrualDetector(threshold=[8.0, 3.0, 5.0][v], max_sample_size=50, min_std=0.05, initial_interval=0.1)
    phis: list = []
    hb_rng = random.Random(seed + 5)

    def heartbeat(time, n):
        t = time.to_seconds()
        if not (2.0 < t < 3.0):  # heartbeats stop for a second
            if hb_rng.random() > 0.1:
                det.heartbeat(t)
        phis.append([round(t, 3), det.phi(t), det.is_available(t)])
        return None

    hb = make_source("heartbeats", heartbeat, 10, stop_after=6.0)
    sim = Simulation(sources=[hb], entities=[net, *nodes], duration=8.0)
    for n in nodes:
        sim.schedule(n.start())
    handle = {}
    sim.schedule(Event.once(time=T(2.0), event_type="Partition",
                            fn=lambda e: handle.__setitem__("p", net.partition(nodes[:-1], nodes[-1:]))))
    sim.schedule(Event.once(time=T([5.0, 4.0, 7.5][v]), event_type="Heal", fn=lambda e: handle["p"].heal()))
    history: list = []

    def snapshot(e):
        history.append([e.time.nanoseconds, sorted(nodes[0].alive_members), sorted(nodes[0].suspected_members),
                        sorted(nodes[0].dead_members)])

    for k in range(1, 16):
        sim.schedule(Event.once(time=T(0.5 * k), event_type="Snapshot", fn=snapshot))

    def stats():
        return {"nodes": [{"name": n.name, "alive": sorted(n.alive_members), "suspected": sorted(n.suspected_members),
                           "dead": sorted(n.dead_members), "stats": _clean(n.stats)} for n in nodes],
                "history": history, "detector": _clean(det.stats), "phis": phis[::3],
                "net": {"routed": net.events_routed, "partition_drops": net.events_dropped_partition}}

    return sim, stats


# ---------------------------------------------------------------------------
# CRDT store with gossip
# ---------------------------------------------------------------------------

@scenario
def crdt_store_gossip(seed, variant):
    """CRDTStores (GCounter / PNCounter / ORSet / LWWRegister) gossiping over a partitioned network."""
    from happysimulator import (CRDTStore, GCounter, HybridLogicalClock, LWWRegister, Network, ORSet, PNCounter,
                                cross_region_network, datacenter_network, lossy_network)

    _seed(seed)
    v = variant % 4
    rng = random.Random(seed * 61 + v)
    net = Network(name="net")
    factory = [lambda nid: GCounter(nid), lambda nid: PNCounter(nid), lambda nid: ORSet(nid),
               lambda nid: LWWRegister(nid)][v]
    stores = [CRDTStore(f"crdt{i}", network=net, crdt_factory=factory, gossip_interval=[0.2, 0.5, 0.1, 0.3][v])
              for i in range([3, 4, 3, 3][v])]
    for s in stores:
        s.add_peers([p for p in stores if p is not s])
    _mesh(net, stores, [datacenter_network, cross_region_network,
                        lambda name: lossy_network(0.2, name=name, base_latency=0.01), datacenter_network][v])
    hlcs = {s.name: HybridLogicalClock(s.name, wall_time=(lambda s=s: s.now)) for s in stores}

    def fn(time, n):
        s = stores[rng.randrange(len(stores))]
        key = f"key{rng.randrange(4)}"
        if v == 0:
            op, val = "increment", rng.randrange(1, 4)
        elif v == 1:
            op, val = ("increment", rng.randrange(1, 4)) if rng.random() < 0.6 else ("decrement", 1)
        elif v == 2:
            op, val = ("add", f"e{rng.randrange(6)}") if rng.random() < 0.7 else ("remove", f"e{rng.randrange(6)}")
        else:
            # LWWRegister.set needs a timestamp: apply directly, the Write event then only counts as a read-back
            reg = s.get_or_create(key)
            reg.set(f"{s.name}:{n}", hlcs[s.name].now())
            return [Event(time=time, event_type="Read", target=s, context={"metadata": {"key": key}})]
        return [Event(time=time, event_type="Write", target=s,
                      context={"metadata": {"key": key, "value": val, "operation": op}})]

    src = make_source("writes", fn, [40, 20, 60, 30][v], poisson=True, stop_after=4.0)
    sim = Simulation(sources=[src], entities=[net, *stores], duration=8.0)
    for s in stores:
        ev = s.get_gossip_event()
        if ev is not None:
            sim.schedule(ev)
    handle = {}
    sim.schedule(Event.once(time=T(1.0), event_type="Partition",
                            fn=lambda e: handle.__setitem__("p", net.partition(stores[:1], stores[1:]))))
    sim.schedule(Event.once(time=T(3.0), event_type="Heal", fn=lambda e: handle["p"].heal()))

    def stats():
        values = [{k: _clean(c.value) for k, c in sorted(s.crdts.items())} for s in stores]
        return {"stores": [{"stats": _clean(s.stats), "lag": s.convergence_lag} for s in stores], "values": values,
                "converged": all(x == values[0] for x in values),
                "net": {"routed": net.events_routed, "partition_drops": net.events_dropped_partition}}

    return sim, stats


# ---------------------------------------------------------------------------
# sync primitives
# ---------------------------------------------------------------------------

@scenario
def sync_mutex_semaphore(seed, variant):
    """Workers contending for a Mutex-protected counter and a Semaphore-limited pool (hold times > 0)."""
    from happysimulator.components.sync import Mutex, Semaphore

    _seed(seed)
    v = variant % 3
    rng = random.Random(seed * 67 + v)
    mutex = Mutex("mutex")
    sem = Semaphore("semaphore", initial_count=[2, 3, 1][v])
    shared = {"counter": 0, "in_cs": 0, "max_in_cs": 0, "in_pool": 0, "max_in_pool": 0, "try_fail": 0}

    def body(self, event):
        n = event.context["request_id"]
        if n % 7 == 0:  # non-blocking attempt
            if mutex.try_acquire(owner=self.name):
                yield [0.001, 0.01, 0.002][v]
                shared["counter"] += 1
                return mutex.release()
            shared["try_fail"] += 1
            return None
        need = 1 + (n % 2 if v == 1 else 0)
        yield from sem.acquire(need)
        shared["in_pool"] += need
        shared["max_in_pool"] = max(shared["max_in_pool"], shared["in_pool"])
        yield [0.01, 0.03, 0.005][v] * (1 + rng.random())
        yield from mutex.acquire(owner=self.name)
        shared["in_cs"] += 1
        shared["max_in_cs"] = max(shared["max_in_cs"], shared["in_cs"])
        tmp = shared["counter"]
        yield [0.005, 0.02, 0.001][v]  # hold the lock
        shared["counter"] = tmp + 1
        shared["in_cs"] -= 1
        out = mutex.release()
        shared["in_pool"] -= need
        out = out + sem.release(need)
        return out

    workers = [Script(f"worker{i}", body) for i in range(4)]
    srcs = [req_source(f"src{i}", w, [20, 8, 40][v], poisson=(i % 2 == 0), stop_after=4.0) for i, w in enumerate(workers)]
    sim = Simulation(sources=srcs, entities=[mutex, sem, *workers], duration=7.0)

    def stats():
        return {"mutex": pub(mutex), "semaphore": pub(sem), "shared": shared,
                "workers": [{"runs": w.runs, "done": w.done, "errors": w.errors[:3]} for w in workers]}

    return sim, stats


@scenario
def sync_rwlock(seed, variant):
    from happysimulator.components.sync import RWLock

    _seed(seed)
    v = variant % 3
    rng = random.Random(seed * 71 + v)
    lock = RWLock("rwlock", max_readers=[None, 2, 4][v])
    shared = {"readers": 0, "max_readers": 0, "writers": 0, "max_writers": 0, "violations": 0, "version": 0,
              "try_read_fail": 0, "try_write_fail": 0}

    def body(self, event):
        n = event.context["request_id"]
        is_write = rng.random() < [0.2, 0.5, 0.05][v]
        if n % 11 == 0:
            ok = lock.try_acquire_write() if is_write else lock.try_acquire_read()
            if not ok:
                shared["try_write_fail" if is_write else "try_read_fail"] += 1
                return None
        elif is_write:
            yield from lock.acquire_write()
        else:
            yield from lock.acquire_read()
        if is_write:
            shared["writers"] += 1
            shared["max_writers"] = max(shared["max_writers"], shared["writers"])
            if shared["readers"] or shared["writers"] > 1:
                shared["violations"] += 1
            yield [0.02, 0.01, 0.05][v]
            shared["version"] += 1
            shared["writers"] -= 1
            return lock.release_write()
        shared["readers"] += 1
        shared["max_readers"] = max(shared["max_readers"], shared["readers"])
        if shared["writers"]:
            shared["violations"] += 1
        yield [0.01, 0.02, 0.005][v] * (1 + rng.random())
        shared["readers"] -= 1
        return lock.release_read()

    workers = [Script(f"worker{i}", body) for i in range(5)]
    srcs = [req_source(f"src{i}", w, [15, 10, 40][v], poisson=(i % 2 == 0), stop_after=4.0) for i, w in enumerate(workers)]
    sim = Simulation(sources=srcs, entities=[lock, *workers], duration=7.0)

    def stats():
        return {"rwlock": pub(lock), "shared": shared,
                "workers": [{"runs": w.runs, "done": w.done, "errors": w.errors[:3]} for w in workers]}

    return sim, stats


@scenario
def sync_barrier_condition(seed, variant):
    """Phased workers meeting at a Barrier; a bounded buffer built from Mutex + two Conditions."""
    from happysimulator.components.sync import Barrier, Condition, Mutex

    _seed(seed)
    v = variant % 3
    rng = random.Random(seed * 73 + v)
    parties = [3, 4, 2][v]
    barrier = Barrier("barrier", parties=parties)
    mutex = Mutex("buffer_mutex")
    not_empty = Condition("not_empty", mutex)
    not_full = Condition("not_full", mutex)
    cap = [2, 5, 1][v]
    buf: deque = deque()
    shared = {"produced": 0, "consumed": 0, "max_depth": 0, "timeouts": 0}

    def phased(self, event):
        for phase in range([6, 4, 10][v]):
            yield [0.05, 0.1, 0.02][v] * (1 + rng.random())  # compute
            idx = yield from barrier.wait()
            self.log.append([phase, idx, self.now.nanoseconds])
        return None

    phase_workers = [Script(f"phase_worker{i}", phased) for i in range(parties)]

    def producer(self, event):
        yield from mutex.acquire(owner=self.name)
        while len(buf) >= cap:
            yield from not_full.wait()
        yield [0.002, 0.01, 0.001][v]
        buf.append(event.context["request_id"])
        shared["produced"] += 1
        shared["max_depth"] = max(shared["max_depth"], len(buf))
        not_empty.notify()
        return mutex.release()

    def consumer(self, event):
        yield from mutex.acquire(owner=self.name)
        ok = yield from not_empty.wait_for(lambda: len(buf) > 0, timeout=[0.5, 0.2, 1.0][v])
        if not ok:
            shared["timeouts"] += 1
            return mutex.release()
        item = buf.popleft()
        yield [0.004, 0.02, 0.002][v]
        shared["consumed"] += 1
        self.log.append(item) if len(self.log) < 50 else None
        if v == 1:
            not_full.notify_all()
        else:
            not_full.notify()
        return mutex.release()

    producers = [Script(f"producer{i}", producer) for i in range(2)]
    consumers = [Script(f"consumer{i}", consumer) for i in range(2)]
    srcs = [req_source(f"src_p{i}", p, [20, 10, 40][v], poisson=(i == 0), stop_after=4.0) for i, p in enumerate(producers)]
    srcs += [req_source(f"src_c{i}", c, [18, 12, 50][v], poisson=(i == 1), stop_after=4.5) for i, c in enumerate(consumers)]
    sim = Simulation(sources=srcs, entities=[barrier, mutex, not_empty, not_full, *phase_workers, *producers, *consumers],
                     duration=8.0)
    for i, w in enumerate(phase_workers):
        sim.schedule(start(w, 0.01 * i))

    def stats():
        return {"barrier": pub(barrier), "mutex": pub(mutex), "not_empty": pub(not_empty), "not_full": pub(not_full),
                "shared": shared, "buffer": list(buf), "phases": [script_stats(w) for w in phase_workers],
                "producers": [{"runs": w.runs, "done": w.done, "errors": w.errors[:3]} for w in producers],
                "consumers": [{"runs": w.runs, "done": w.done, "errors": w.errors[:3]} for w in consumers]}

    return sim, stats


# ---------------------------------------------------------------------------
# Resource / PreemptibleResource
# ---------------------------------------------------------------------------

@scenario
def resource_contended_capacity(seed, variant):
    """Jobs acquiring different amounts of a shared Resource (FIFO waiters), plus try_acquire fast paths."""
    from happysimulator import Resource

    _seed(seed)
    v = variant % 3
    rng = random.Random(seed * 79 + v)
    cpu = Resource("cpu", capacity=[4, 8, 2][v])
    mem = Resource("memory", capacity=[16.0, 10.5, 4.0][v])
    shared = {"try_fail": 0, "done": 0}

    def body(self, event):
        n = event.context["request_id"]
        cores = 1 + n % [3, 4, 2][v]
        if n % 9 == 0:
            g = cpu.try_acquire(cores)
            if g is None:
                shared["try_fail"] += 1
                return None
        else:
            g = yield cpu.acquire(cores)
        m = yield mem.acquire([2.0, 1.5, 1.0][v] * (1 + n % 3))
        yield [0.02, 0.05, 0.01][v] * (1 + rng.random())
        m.release()
        yield 0.001
        g.release()
        g.release()  # idempotent
        shared["done"] += 1
        return None

    workers = [Script(f"job_runner{i}", body) for i in range(4)]
    srcs = [req_source(f"src{i}", w, [25, 15, 50][v], poisson=(i % 2 == 0), stop_after=4.0) for i, w in enumerate(workers)]
    sim = Simulation(sources=srcs, entities=[cpu, mem, *workers], duration=8.0)

    def stats():
        return {"cpu": pub(cpu), "memory": pub(mem), "shared": shared,
                "workers": [{"runs": w.runs, "done": w.done, "errors": w.errors[:3]} for w in workers]}

    return sim, stats


@scenario
def resource_preemptible(seed, variant):
    """Low-priority batch jobs preempted by high-priority arrivals on a PreemptibleResource."""
    from happysimulator import PreemptibleResource

    _seed(seed)
    v = variant % 3
    res = PreemptibleResource("machines", capacity=[2, 4, 1][v])
    shared = {"preempted": 0, "finished": {"0": 0, "1": 0, "2": 0}, "restarts": 0}

    def body(self, event):
        n = event.context["request_id"]
        prio = [0, 1, 2, 2, 2][n % 5] if v != 2 else n % 3
        flag = {"hit": False}
        grant = yield res.acquire(amount=1 + (n % 2 if v == 1 else 0), priority=float(prio), preempt=(v != 2 or prio == 0),
                                  on_preempt=lambda: flag.__setitem__("hit", True))
        work = [0.05, 0.1, 0.02][v] * (1 + 2 * (prio == 2))
        steps = 5
        for _ in range(steps):
            yield work / steps
            if flag["hit"] or grant.preempted:
                shared["preempted"] += 1
                if not grant.released:
                    grant.release()
                return None
        grant.release()
        shared["finished"][str(prio)] += 1
        return None

    workers = [Script(f"operator{i}", body) for i in range(3)]
    srcs = [req_source(f"src{i}", w, [15, 10, 30][v], poisson=(i != 1), stop_after=4.0) for i, w in enumerate(workers)]
    sim = Simulation(sources=srcs, entities=[res, *workers], duration=8.0)

    def stats():
        return {"resource": pub(res), "shared": shared,
                "workers": [{"runs": w.runs, "done": w.done, "errors": w.errors[:3]} for w in workers]}

    return sim, stats


# ---------------------------------------------------------------------------
# deployment
# ---------------------------------------------------------------------------

def _server_factory(service_s, concurrency=2, exponential=False, bad_after=None):
    """Factory of Servers for deployers/scalers; instances created after `bad_after` calls are slow."""
    from happysimulator.components.server import Server

    made: list = []

    def make(name):
        slow = bad_after is not None and len(made) >= bad_after
        st = service_s * (8 if slow else 1)
        srv = Server(name=name, concurrency=concurrency,
                     service_time=ExponentialLatency(st) if exponential else ConstantLatency(st), queue_capacity=50)
        made.append(srv)
        return srv

    make.made = made
    return make


@scenario
def deployment_autoscaler(seed, variant):
    """AutoScaler (target utilisation / step / queue depth) following a load ramp on a LoadBalancer."""
    from happysimulator import AutoScaler, QueueDepthScaling, StepScaling, TargetUtilization
    from happysimulator.components.load_balancer import LeastConnections, LoadBalancer, RoundRobin

    _seed(seed)
    v = variant % 3
    factory = _server_factory([0.05, 0.08, 0.03][v], concurrency=[2, 1, 4][v], exponential=(v == 1))
    first = factory("server_initial")
    lb = LoadBalancer("lb", backends=[first], strategy=[RoundRobin(), LeastConnections(), RoundRobin()][v])
    scaler = AutoScaler("scaler", load_balancer=lb, server_factory=factory,
                        policy=[TargetUtilization(target=0.5), StepScaling(steps=[(0.9, 2), (0.6, 1), (0.2, -1)]),
                                QueueDepthScaling(scale_out_threshold=5, scale_in_threshold=1)][v],
                        min_instances=1, max_instances=[5, 4, 6][v], evaluation_interval=[0.5, 1.0, 0.25][v],
                        scale_out_cooldown=[1.0, 0.5, 0.5][v], scale_in_cooldown=[2.0, 1.0, 0.75][v])
    # (constant-rate surge instead of a LinearRampProfile: the library's numerical arrival-time search can take
    #  minutes of wall time when a Poisson draw straddles the ramp's kink)
    src = req_source("src", lb, [60, 35, 80][v], poisson=(v != 2), stop_after=5.0)
    tail = req_source("tail", lb, [5, 3, 10][v], stop_after=11.0)
    sim = Simulation(sources=[src, tail], entities=[lb, first, scaler], duration=12.0)
    sim.schedule(scaler.start())

    def stats():
        return {"scaler": pub(scaler), "lb": _clean(lb.stats),
                "history": [_clean(h) for h in scaler.scaling_history[:40]],
                "servers": [{"name": s.name, "stats": _clean(s.stats), "dropped": s.stats_dropped} for s in factory.made]}

    return sim, stats


@scenario
def deployment_rolling(seed, variant):
    """RollingDeployer replacing backends under traffic; in one variant the new version is unhealthy/slow."""
    from happysimulator import RollingDeployer
    from happysimulator.components.load_balancer import LoadBalancer, RoundRobin

    _seed(seed)
    v = variant % 3
    factory = _server_factory([0.02, 0.04, 0.01][v], concurrency=2, bad_after=[None, 4, None][v])
    servers = [factory(f"server_v1_{i}") for i in range([3, 4, 2][v])]
    lb = LoadBalancer("lb", backends=servers, strategy=RoundRobin())
    deployer = RollingDeployer("deployer", load_balancer=lb, server_factory=factory, batch_size=[1, 2, 1][v],
                               health_check_interval=[0.5, 0.25, 1.0][v], healthy_threshold=[2, 1, 3][v],
                               max_failures=[1, 2, 1][v])
    src = req_source("src", lb, [40, 60, 25][v], poisson=True, stop_after=8.0)
    sim = Simulation(sources=[src], entities=[lb, deployer, *servers], duration=12.0)
    sim.schedule(Event.once(time=T(1.0), event_type="Deploy", fn=lambda e: deployer.deploy()))
    if v == 2:  # a new instance crashes during the rollout
        def crash_newest(e):
            if len(factory.made) > 2:
                factory.made[-1]._crashed = True
        sim.schedule(Event.once(time=T(2.2), event_type="CrashNew", fn=crash_newest))

    def stats():
        return {"deployer": pub(deployer), "state": _clean(deployer.state), "lb": _clean(lb.stats),
                "backends": [b.name for b in lb.all_backends],
                "servers": [{"name": s.name, "stats": _clean(s.stats)} for s in factory.made]}

    return sim, stats


@scenario
def deployment_canary(seed, variant):
    """CanaryDeployer shifting weighted traffic through stages with error-rate / latency evaluators."""
    from happysimulator import CanaryDeployer, CanaryStage, ErrorRateEvaluator, LatencyEvaluator
    from happysimulator.components.load_balancer import LoadBalancer, WeightedRoundRobin

    _seed(seed)
    v = variant % 3
    factory = _server_factory([0.02, 0.03, 0.02][v], concurrency=[2, 2, 1][v], bad_after=[None, 3, 2][v])
    servers = [factory(f"baseline{i}") for i in range([2, 3, 2][v])]
    lb = LoadBalancer("lb", backends=servers, strategy=WeightedRoundRobin())
    deployer = CanaryDeployer("canary_deployer", load_balancer=lb, server_factory=factory,
                              stages=[CanaryStage(0.05, [1.0, 0.5, 1.0][v]), CanaryStage(0.25, [1.0, 1.0, 0.5][v]),
                                      CanaryStage(1.0, 1.0)],
                              metric_evaluator=[ErrorRateEvaluator(max_error_rate=0.1),
                                                LatencyEvaluator(max_latency=0.1, threshold_multiplier=2.0),
                                                ErrorRateEvaluator(max_error_rate=0.01, threshold_multiplier=1.5)][v],
                              evaluation_interval=[0.5, 0.25, 0.5][v])
    src = req_source("src", lb, [50, 40, 80][v], poisson=True, stop_after=7.0)
    sim = Simulation(sources=[src], entities=[lb, deployer, *servers], duration=10.0)
    sim.schedule(Event.once(time=T(0.5), event_type="Deploy", fn=lambda e: deployer.deploy()))

    def stats():
        return {"deployer": pub(deployer), "state": _clean(deployer.state), "lb": _clean(lb.stats),
                "backends": [b.name for b in lb.all_backends],
                "servers": [{"name": s.name, "stats": _clean(s.stats), "dropped": s.stats_dropped} for s in factory.made]}

    return sim, stats


@scenario
def deployment_canary_offgrid(seed, variant):
    """A healthy canary whose stage evaluation periods do not fall on the evaluation grid and do not convert to whole
    nanoseconds exactly (4.1 s, 2.01 s, 8.2 s) — round-9 seed C07-17: a re-evaluation capped at the truncated stage end
    re-schedules itself at a frozen clock."""
    from happysimulator import CanaryDeployer, CanaryStage, ErrorRateEvaluator
    from happysimulator.components.load_balancer import LoadBalancer, WeightedRoundRobin

    _seed(seed)
    v = variant % 3
    factory = _server_factory(0.02, concurrency=2, bad_after=None)
    servers = [factory(f"baseline{i}") for i in range(2)]
    lb = LoadBalancer("lb", backends=servers, strategy=WeightedRoundRobin())
    deployer = CanaryDeployer("canary_deployer", load_balancer=lb, server_factory=factory,
                              stages=[CanaryStage(0.1, [4.1, 2.01, 1.3][v]), CanaryStage(0.5, [2.01, 4.1, 8.2][v]), CanaryStage(1.0, 1.0)],
                              metric_evaluator=ErrorRateEvaluator(max_error_rate=0.5),
                              evaluation_interval=[0.5, 0.25, 0.5][v])
    src = req_source("src", lb, [40, 50, 30][v], poisson=False, stop_after=12.0)
    sim = Simulation(sources=[src], entities=[lb, deployer, *servers], duration=14.0)
    sim.schedule(Event.once(time=T(0.5), event_type="Deploy", fn=lambda e: deployer.deploy()))

    def stats():
        return {"deployer": pub(deployer), "state": _clean(deployer.state), "lb": _clean(lb.stats),
                "backends": [b.name for b in lb.all_backends]}

    return sim, stats


# ---------------------------------------------------------------------------
# infrastructure
# ---------------------------------------------------------------------------

@scenario
def infra_disk_page_cache(seed, variant):
    """Concurrent readers/writers on a DiskIO (HDD / SSD / NVMe) behind a small PageCache."""
    from happysimulator import HDD, SSD, DiskIO, NVMe, PageCache, ZipfDistribution

    _seed(seed)
    v = variant % 3
    rng = random.Random(seed * 89 + v)
    disk = DiskIO("disk", profile=[HDD(seek_time_s=0.004, rotational_latency_s=0.002), SSD(queue_depth_factor=0.3),
                                   NVMe(native_queue_depth=4, overflow_penalty=0.2)][v])
    cache = PageCache("page_cache", capacity_pages=[20, 50, 8][v], readahead_pages=[0, 4, 2][v],
                      disk_read_latency_s=[0.005, 0.0002, 0.00005][v], disk_write_latency_s=[0.008, 0.0005, 0.0001][v])
    pages = ZipfDistribution(list(range(200)), s=[1.0, 0.8, 1.3][v], seed=seed + 7)

    def body(self, event):
        n = event.context["request_id"]
        page = pages.sample()
        if rng.random() < [0.3, 0.5, 0.2][v]:
            yield from cache.write_page(page)
            yield from disk.write(size_bytes=4096 * (1 + n % 4))
        else:
            yield from cache.read_page(page)
            if n % 3 == 0:
                yield from disk.read(size_bytes=[65536, 4096, 1 << 20][v])
        if n % 50 == 0:
            flushed = yield from cache.flush()
            self.log.append(flushed)
        return None

    workers = [Script(f"io_worker{i}", body) for i in range(4)]
    srcs = [req_source(f"src{i}", w, [30, 80, 100][v], poisson=(i % 2 == 0), stop_after=3.0) for i, w in enumerate(workers)]
    sim = Simulation(sources=srcs, entities=[disk, cache, *workers], duration=5.0)

    def stats():
        return {"disk": {"stats": _clean(disk.stats), "queue_depth": disk.queue_depth},
                "cache": {"stats": _clean(cache.stats), "pages": cache.pages_cached, "dirty": cache.dirty_pages},
                "workers": [script_stats(w) for w in workers]}

    return sim, stats


@scenario
def infra_cpu_gc(seed, variant):
    """Tasks time-sliced by a CPUScheduler while a GarbageCollector injects periodic and inline pauses."""
    from happysimulator import (ConcurrentGC, CPUScheduler, FairShare, GarbageCollector, GenerationalGC,
                                PriorityPreemptive, StopTheWorld)

    _seed(seed)
    v = variant % 3
    rng = random.Random(seed * 97 + v)
    cpu = CPUScheduler("cpu", policy=[FairShare(quantum_s=0.005), PriorityPreemptive(quantum_s=0.01),
                                      FairShare(quantum_s=0.02)][v], context_switch_s=[0.00001, 0.0005, 0.0001][v])
    gc = GarbageCollector("gc", strategy=[StopTheWorld(base_pause_s=0.02, interval_s=0.5, pressure_multiplier=2.0),
                                          ConcurrentGC(pause_s=0.002, interval_s=0.2),
                                          GenerationalGC(minor_pause_s=0.001, major_pause_s=0.02, minor_interval_s=0.1,
                                                         major_threshold=0.6)][v],
                          heap_pressure=[0.5, None, 0.8][v])
    done: list = []

    def body(self, event):
        n = event.context["request_id"]
        started = self.now
        yield from cpu.execute(f"{self.name}-task{n}", cpu_time_s=[0.01, 0.03, 0.005][v] * (1 + rng.randrange(3)),
                               priority=n % 3)
        if n % 10 == 0:
            pause = yield from gc.pause()  # allocation-triggered collection
            self.log.append(pause)
        done.append((self.now - started).nanoseconds) if len(done) < 200 else None
        return None

    workers = [Script(f"app_thread{i}", body) for i in range(3)]
    srcs = [req_source(f"src{i}", w, [6, 3, 10][v], poisson=(i != 2), stop_after=3.0) for i, w in enumerate(workers)]
    sim = Simulation(sources=srcs, entities=[cpu, gc, *workers], duration=5.0)
    sim.schedule(Event.once(time=T(0.0), event_type="PrimeGC", fn=lambda e: gc.prime()))

    def stats():
        return {"cpu": {"stats": _clean(cpu.stats), "ready": cpu.ready_queue_depth},
                "gc": {"stats": _clean(gc.stats), "collections": gc.collection_count},
                "latencies_ns": done[:100], "workers": [script_stats(w) for w in workers]}

    return sim, stats


@scenario
def infra_dns_tcp(seed, variant):
    """DNSResolver cache (TTL expiry, eviction, NXDOMAIN) feeding TCPConnections with loss and congestion control."""
    from happysimulator import AIMD, BBR, Cubic, DNSRecord, DNSResolver, TCPConnection, ZipfDistribution

    _seed(seed)
    v = variant % 3
    hosts = [f"svc{i}.example.com" for i in range(12)]
    dns = DNSResolver("dns", cache_capacity=[100, 4, 8][v], root_latency_s=[0.02, 0.05, 0.005][v],
                      tld_latency_s=0.015, auth_latency_s=0.01,
                      records={h: DNSRecord(h, f"10.0.0.{i}", ttl_s=[0.5, 5.0, 0.1][v]) for i, h in enumerate(hosts[:10])})
    conns = [TCPConnection(f"tcp{i}", congestion_control=[AIMD(), Cubic(), BBR()][(i + v) % 3],
                           base_rtt_s=[0.02, 0.1, 0.005][v], loss_rate=[0.01, 0.05, 0.0][v], mss_bytes=1460,
                           initial_cwnd=[10.0, 2.0, 20.0][v], retransmit_timeout_s=[0.2, 0.5, 0.1][v]) for i in range(2)]
    names = ZipfDistribution(hosts, s=1.0, seed=seed + 9)

    def body(self, event):
        n = event.context["request_id"]
        host = names.sample()
        ip = yield from dns.resolve(host)
        if ip is None:
            self.log.append(["nxdomain", host]) if len(self.log) < 40 else None
            return None
        conn = conns[n % len(conns)]
        yield from conn.send(size_bytes=[20_000, 100_000, 3_000][v] * (1 + n % 3))
        return None

    clients = [Script(f"client{i}", body) for i in range(3)]
    srcs = [req_source(f"src{i}", c, [8, 2, 40][v], poisson=(i == 0), stop_after=4.0) for i, c in enumerate(clients)]
    sim = Simulation(sources=srcs, entities=[dns, *conns, *clients], duration=8.0)
    sim.schedule(Event.once(time=T(2.0), event_type="AddRecord",
                            fn=lambda e: dns.add_record(DNSRecord(hosts[10], "10.0.1.1", ttl_s=1.0))))

    def stats():
        return {"dns": {"stats": _clean(dns.stats), "cache_size": dns.cache_size},
                "tcp": [{"stats": _clean(c.stats), "cwnd": c.cwnd, "rtt": c.rtt_s,
                         "throughput": c.throughput_segments_per_s} for c in conns],
                "clients": [script_stats(c) for c in clients]}

    return sim, stats


# ---------------------------------------------------------------------------
# industrial
# ---------------------------------------------------------------------------

@scenario
def industrial_service_operations(seed, variant):
    """Appointments + walk-ins through a gate, routed to a shifted server (balking) and a reneging counter."""
    from happysimulator.components.industrial import (AppointmentScheduler, BalkingQueue, ConditionalRouter, GateController,
                                                      RenegingQueuedResource, Shift, ShiftedServer, ShiftSchedule)

    _seed(seed)
    v = variant % 3
    done = Sink("served")
    left = Counter("left")

    class Counter2(RenegingQueuedResource):
        def __init__(self, name, service_s):
            super().__init__(name, reneged_target=left, default_patience_s=[0.3, 0.1, 1.0][v],
                             policy=[FIFOQueue(), LIFOQueue(), FIFOQueue(capacity=5)][v])
            self.service_s = service_s
            self.busy = False

        def has_capacity(self):
            return not self.busy

        def _handle_served_event(self, event):
            self.busy = True
            yield self.service_s
            self.busy = False
            return [self.forward(event, done)]

    teller = ShiftedServer("teller",
                           schedule=ShiftSchedule([Shift(0.0, 2.0, [1, 2, 1][v]), Shift(2.0, 3.0, 0), Shift(3.0, 6.0, [3, 1, 2][v])],
                                                  default_capacity=1),
                           service_time=[0.05, 0.08, 0.03][v], downstream=done,
                           policy=BalkingQueue(FIFOQueue(), balk_threshold=[5, 3, 10][v], balk_probability=[1.0, 0.5, 0.8][v]))
    express = Counter2("express_counter", [0.04, 0.06, 0.02][v])
    router = ConditionalRouter.by_context_field("router", "kind", {"appointment": teller, "express": express},
                                                default=teller)
    gate = GateController("gate", downstream=router, schedule=[(0.5, 2.5), (3.0, 5.5)], initially_open=(v != 1),
                          queue_capacity=[0, 10, 3][v])

    class Tag(Entity):
        """Stamps appointment arrivals with a kind before the router."""

        def handle_event(self, event):
            event.context["kind"] = "appointment"
            return [self.forward(event, gate)]

    tag = Tag("appointment_desk")
    appts = AppointmentScheduler("appointments", target=tag, appointments=[0.2 * k for k in range(1, 28)],
                                 no_show_rate=[0.1, 0.3, 0.0][v])
    walkins = req_source("walkins", gate, [25, 40, 15][v], poisson=True, stop_after=5.5,
                         ctx=lambda t, n: {"kind": "express" if n % 2 else "walkin",
                                           "patience_s": 0.05 + 0.05 * (n % 7)})
    sim = Simulation(sources=[walkins], entities=[done, left, teller, express, router, gate, tag, appts], duration=7.0)
    for e in appts.start_events():
        sim.schedule(e)
    for e in gate.start_events():
        sim.schedule(e)

    def stats():
        return {"served": sink_stats(done), "left": counter_stats(left), "teller": pub(teller), "express": pub(express),
                "express_reneging": _clean(express.reneging_stats), "router": pub(router), "gate": pub(gate),
                "appointments": _clean(appts.stats), "balked": teller.stats_dropped}

    return sim, stats


@scenario
def industrial_manufacturing_line(seed, variant):
    """Conveyor -> machine with breakdowns -> inspection -> batch oven -> pooled packing; rework via split/merge."""
    from happysimulator.components.industrial import (BatchProcessor, BreakdownScheduler, ConveyorBelt, InspectionStation,
                                                      PooledCycleResource, SplitMerge)

    _seed(seed)
    v = variant % 3
    shipped = Sink("shipped")
    scrap = Counter("scrap")
    packing = PooledCycleResource("packing", pool_size=[2, 1, 4][v], cycle_time=[0.1, 0.3, 0.05][v], downstream=shipped,
                                  queue_capacity=[10, 3, 0][v])
    oven = BatchProcessor("oven", downstream=packing, batch_size=[5, 8, 3][v], process_time=[0.2, 0.5, 0.1][v],
                          timeout_s=[0.5, 0.0, 0.25][v])
    testers = [ReplyServer(f"tester{i}", delay=0.02 * (i + 1)) for i in range(3)]
    rework = SplitMerge("rework", targets=testers, downstream=oven)
    inspection = InspectionStation("inspection", pass_target=oven, fail_target=(rework if v != 1 else scrap),
                                   inspection_time=[0.02, 0.05, 0.01][v], pass_rate=[0.9, 0.7, 0.95][v])

    class Machine(QueuedResource):
        def __init__(self):
            super().__init__("machine", policy=FIFOQueue(capacity=[50, 10, 100][v]))
            self._broken = False
            self.busy = False
            self.made = 0
            self.stalls = 0

        def has_capacity(self):
            return not self.busy

        def handle_queued_event(self, event):
            self.busy = True
            while self._broken:
                self.stalls += 1
                yield 0.05
            yield [0.03, 0.06, 0.015][v]
            self.busy = False
            self.made += 1
            return [self.forward(event, inspection)]

    machine = Machine()
    breakdown = BreakdownScheduler("breakdowns", target=machine, mean_time_to_failure=[1.0, 0.5, 3.0][v],
                                   mean_repair_time=[0.2, 0.4, 0.1][v])
    belt = ConveyorBelt("belt", downstream=machine, transit_time=[0.2, 0.5, 0.1][v], capacity=[0, 5, 20][v])
    src = req_source("raw_material", belt, [20, 12, 45][v], poisson=(v != 0), stop_after=5.0)
    sim = Simulation(sources=[src], entities=[shipped, scrap, packing, oven, rework, inspection, machine, breakdown, belt,
                                              *testers], duration=8.0)
    sim.schedule(breakdown.start_event())

    def stats():
        return {"shipped": sink_stats(shipped), "scrap": counter_stats(scrap), "packing": pub(packing), "oven": pub(oven),
                "rework": _clean(rework.stats), "inspection": pub(inspection),
                "machine": {"made": machine.made, "stalls": machine.stalls, "depth": machine.depth,
                            "dropped": machine.stats_dropped},
                "breakdowns": pub(breakdown), "belt": pub(belt)}

    return sim, stats


@scenario
def industrial_inventory(seed, variant):
    """(s, Q) InventoryBuffer and PerishableInventory under bursty demand with lead times and spoilage."""
    from happysimulator.components.industrial import InventoryBuffer, PerishableInventory

    _seed(seed)
    v = variant % 3
    fulfilled = Sink("fulfilled")
    stockouts = Counter("stockouts")
    waste = Counter("waste")
    inv = InventoryBuffer("inventory", initial_stock=[30, 10, 100][v], reorder_point=[10, 5, 40][v],
                          order_quantity=[25, 10, 60][v], lead_time=[0.5, 1.5, 0.2][v], downstream=fulfilled,
                          stockout_target=stockouts)
    fresh = PerishableInventory("fresh", initial_stock=[20, 40, 10][v], shelf_life_s=[1.0, 0.5, 2.0][v],
                                spoilage_check_interval_s=[0.25, 0.1, 0.5][v], reorder_point=[8, 10, 4][v],
                                order_quantity=[20, 30, 10][v], lead_time=[0.3, 0.8, 0.1][v], downstream=fulfilled,
                                waste_target=waste)
    demand = req_source("demand", inv, [30, 15, 80][v], poisson=True, stop_after=6.0,
                        ctx=lambda t, n: {"quantity": 1 + n % [3, 5, 2][v]})
    demand2 = req_source("fresh_demand", fresh, [15, 25, 8][v], poisson=(v != 1), stop_after=6.0,
                         ctx=lambda t, n: {"quantity": 1 + n % 2})
    sim = Simulation(sources=[demand, demand2], entities=[inv, fresh, fulfilled, stockouts, waste], duration=8.0)
    sim.schedule(fresh.start_event())

    def stats():
        return {"inventory": {"stats": _clean(inv.stats), "stock": inv.stock, "fill_rate": inv.stats.fill_rate},
                "fresh": {"stats": _clean(fresh.stats), "stock": fresh.stock}, "fulfilled": sink_stats(fulfilled),
                "stockouts": counter_stats(stockouts), "waste": counter_stats(waste)}

    return sim, stats


# ---------------------------------------------------------------------------
# scheduling
# ---------------------------------------------------------------------------

@scenario
def scheduling_job_dag(seed, variant):
    """JobScheduler running a DAG of periodic jobs (dependencies, priorities, overlapping runs, enable/disable)."""
    from happysimulator import JobDefinition, JobScheduler

    _seed(seed)
    v = variant % 3
    workers = {n: DelayServer(f"worker_{n}", delay=d) for n, d in
               [("extract", [0.3, 0.8, 0.1][v]), ("transform", [0.2, 0.5, 0.05][v]), ("load", [0.1, 0.3, 0.02][v]),
                ("report", [0.05, 1.5, 0.2][v]), ("cleanup", 0.01)]}
    sched = JobScheduler("scheduler", tick_interval=[0.25, 0.5, 0.1][v])
    sched.add_job(JobDefinition("extract", workers["extract"], "RunExtract", interval=[1.0, 1.0, 0.3][v], priority=5))
    sched.add_job(JobDefinition("transform", workers["transform"], "RunTransform", interval=[1.0, 1.5, 0.3][v],
                                depends_on=["extract"], priority=3))
    sched.add_job(JobDefinition("load", workers["load"], "RunLoad", interval=[1.0, 2.0, 0.3][v],
                                depends_on=["transform"], context={"table": "facts"}))
    sched.add_job(JobDefinition("report", workers["report"], "RunReport", interval=[2.0, 1.0, 0.5][v],
                                depends_on=["load", "extract"], priority=1))
    sched.add_job(JobDefinition("cleanup", workers["cleanup"], "RunCleanup", interval=[0.5, 0.7, 0.2][v], priority=9,
                                enabled=(v != 1)))
    sim = Simulation(entities=[sched, *workers.values()], duration=[10.0, 12.0, 6.0][v])
    sim.schedule(Event.once(time=T(0.0), event_type="StartScheduler", fn=lambda e: sched.start()))
    sim.schedule(Event.once(time=T(3.0), event_type="Toggle",
                            fn=lambda e: sched.enable_job("cleanup") if v == 1 else sched.disable_job("cleanup")))
    sim.schedule(Event.once(time=T(5.0), event_type="Remove", fn=lambda e: sched.remove_job("report")))

    def stats():
        return {"scheduler": pub(sched), "jobs": {n: _clean(sched.get_job_state(n)) for n in sched.job_names},
                "workers": {n: pub(w) for n, w in workers.items()}}

    return sim, stats


@scenario
def scheduling_work_stealing(seed, variant):
    """WorkStealingPool with skewed task sizes; RandomRouter spraying tasks over two pools."""
    from happysimulator import RandomRouter, WorkStealingPool

    _seed(seed)
    v = variant % 3
    done = Sink("done")
    pools = [WorkStealingPool(f"pool{i}", num_workers=[4, 2, 8][v], downstream=done,
                              default_processing_time=[0.05, 0.1, 0.02][v]) for i in range(2)]
    router = RandomRouter("router", targets=pools)

    def ctx(t, n):
        big = n % [10, 4, 25][v] == 0
        return {"metadata": {"processing_time": ([0.5, 0.4, 0.3][v] if big else [0.02, 0.05, 0.01][v])} if n % 3 else {}}

    srcs = [req_source("tasks", router, [80, 30, 120][v], poisson=True, stop_after=4.0, ctx=ctx),
            req_source("direct", pools[0], [10, 10, 30][v], stop_after=4.0, ctx=ctx)]
    sim = Simulation(sources=srcs, entities=[done, router, *pools], duration=8.0)

    def stats():
        return {"done": sink_stats(done), "router": {"routed": router.stats_routed, "counts": dict(router.target_counts)},
                "pools": [{"stats": _clean(p.stats), "workers": [_clean(w) for w in p.worker_stats]} for p in pools]}

    return sim, stats


# ---------------------------------------------------------------------------
# behavior / agents
# ---------------------------------------------------------------------------

@scenario
def behavior_population_market(seed, variant):
    """A small Population reacting to broadcast / targeted stimuli, price changes and social influence rounds."""
    from happysimulator import (BehaviorEnvironment, BoundedConfidenceModel, BoundedRationalityModel, Choice, DeGrootModel,
                                Population, Rule, RuleBasedModel, UtilityModel, VoterModel, broadcast_stimulus,
                                influence_propagation, policy_announcement, price_change, targeted_stimulus)

    _seed(seed)
    v = variant % 3
    purchases = Counter("purchases")

    def utility(choice, ctx):
        return {"buy": 0.6, "wait": 0.4, "complain": 0.1}.get(choice.action, 0.0)

    model = [UtilityModel(utility_fn=utility, temperature=0.5),
             RuleBasedModel(rules=[Rule(condition=lambda ctx: True, action="buy", priority=1)], default_action="wait"),
             BoundedRationalityModel(utility_fn=utility, aspiration=0.5)][v]
    pop = Population.uniform(size=[12, 20, 8][v], decision_model=model,
                             graph_type=["small_world", "complete", "random"][v], seed=seed)
    for a in pop.agents:
        a.action_delay = [0.05, 0.0, 0.2][v]
        a.on_action("buy", lambda ag, choice, event: [Event(time=ag.now, event_type="Purchase", target=purchases)])
        a.on_action("wait", lambda ag, choice, event: None)
    env = BehaviorEnvironment(name="market", agents=pop.agents, social_graph=pop.social_graph,
                              influence_model=[DeGrootModel(self_weight=0.3), BoundedConfidenceModel(epsilon=0.4),
                                               VoterModel()][v], seed=seed)
    sim = Simulation(entities=[env, purchases, *pop.agents], duration=12.0)
    for k in range(1, 11):
        sim.schedule(broadcast_stimulus(float(k), env, "Promo", choices=["buy", "wait", Choice(action="complain")]))
        sim.schedule(influence_propagation(k + 0.5, env, topic="sentiment"))
    sim.schedule(price_change(3.2, env, "widget", 100.0, 80.0))
    sim.schedule(policy_announcement(5.2, env, "tax", "new tax", valence=-0.5))
    sim.schedule(targeted_stimulus(6.2, env, [a.name for a in pop.agents[:3]], "VIP", choices=["buy", "wait"]))

    def stats():
        return {"purchases": counter_stats(purchases), "env": _clean(env.stats), "population": _clean(pop.stats),
                "agents": [_clean(a.stats) for a in pop.agents[:8]]}

    return sim, stats


# ---------------------------------------------------------------------------
# sketching collectors
# ---------------------------------------------------------------------------

@scenario
def sketching_collectors(seed, variant):
    """Requests fanned out to QuantileEstimator, TopKCollector and SketchCollectors (CMS, HLL, Bloom, reservoir)."""
    from happysimulator import (BloomFilter, CountMinSketch, HyperLogLog, QuantileEstimator, ReservoirSampler,
                                SketchCollector, TDigest, TopKCollector, ZipfDistribution)

    _seed(seed)
    v = variant % 3
    rng = random.Random(seed * 101 + v)
    n_keys = [50, 200, 30][v]
    # variants 0/1 use integer customer ids; variant 2 uses string ids (CountMinSketch hashes items with the
    # builtin hash(), so its estimates for string items depend on PYTHONHASHSEED)
    population = list(range(n_keys)) if v != 2 else [f"customer-{i}" for i in range(n_keys)]
    customers = ZipfDistribution(population, s=[1.0, 1.3, 0.7][v], seed=seed + 11)
    quant = QuantileEstimator("quantiles", value_extractor=lambda e: e.context.get("latency"),
                              compression=[100.0, 20.0, 200.0][v], seed=seed)
    topk = TopKCollector("topk", k=[5, 10, 3][v], value_extractor=lambda e: e.context["customer"], seed=seed)
    cms = SketchCollector("cms", sketch=CountMinSketch(width=[64, 256, 32][v], depth=4, seed=seed),
                          value_extractor=lambda e: e.context["customer"], weight_extractor=lambda e: e.context["weight"])
    hll = SketchCollector("hll", sketch=HyperLogLog(precision=[8, 12, 6][v], seed=seed),
                          value_extractor=lambda e: e.context["customer"])
    bloom = SketchCollector("bloom", sketch=BloomFilter(size_bits=[512, 4096, 128][v], num_hashes=[3, None, 2][v], seed=seed),
                            value_extractor=lambda e: e.context["customer"])
    sample = SketchCollector("reservoir", sketch=ReservoirSampler(size=[10, 25, 5][v], seed=seed),
                             value_extractor=lambda e: e.context["request_id"])
    digest = SketchCollector("tdigest", sketch=TDigest(compression=50.0, seed=seed),
                             value_extractor=lambda e: e.context["latency"])
    collectors = [quant, topk, cms, hll, bloom, sample, digest]
    exact: dict = {}

    class FanOut(Entity):
        def handle_event(self, event):
            yield event.context["latency"]  # the request takes its latency to complete
            return [self.forward(event, c) for c in collectors]

    fan = FanOut("fanout")

    def ctx(t, n):
        c = customers.sample()
        exact[c] = exact.get(c, 0) + 1
        return {"customer": c, "latency": rng.expovariate(1 / [0.05, 0.2, 0.01][v]), "weight": 1 + n % 3}

    src = req_source("src", fan, [80, 40, 110][v], poisson=True, stop_after=4.0, ctx=ctx)
    sim = Simulation(sources=[src], entities=[fan, *collectors], duration=7.0)

    def stats():
        top_exact = sorted(exact.items(), key=lambda kv: (-kv[1], str(kv[0])))[:5]
        return {"quantiles": {"n": quant.sample_count, "p50": quant.percentile(50), "p99": quant.percentile(99),
                              "min": quant.min, "max": quant.max, "cdf": quant.cdf(0.05), "summary": _clean(quant.summary())},
                "topk": {"top": [_clean(f) for f in topk.top()], "total": topk.total_count, "tracked": topk.tracked_count,
                         "max_error": topk.max_error(), "exact_top": [[str(k), c] for k, c in top_exact]},
                "cms": {"estimates": {str(k): cms.sketch.estimate(k) for k, _ in top_exact}, "items": cms.sketch.item_count},
                "hll": {"cardinality": hll.sketch.cardinality(), "exact": len(exact)},
                "bloom": {"fpr": bloom.sketch.false_positive_rate, "fill": bloom.sketch.fill_ratio,
                          "contains_all": all(bloom.sketch.contains(k) for k in exact)},
                "reservoir": sorted(sample.sketch.sample()),
                "tdigest": {"p50": digest.sketch.quantile(0.5), "p999": digest.sketch.quantile(0.999)},
                "processed": [c.events_processed for c in collectors]}

    return sim, stats


# ---------------------------------------------------------------------------
# fault injection
# ---------------------------------------------------------------------------

# a module-level constant handed to every build of the model (as user code would write it)
_RANDOM_PARTITION_NODES = ["frontend", "worker0", "worker1", "worker2"]


@scenario
def faults_schedule_pipeline(seed, variant):
    """FaultSchedule (crash, pause, partition, latency, loss, random partitions) on a small pipeline."""
    from happysimulator import FaultSchedule, Network, Resource, datacenter_network
    from happysimulator.components.server import Server
    from happysimulator.faults import (CrashNode, InjectLatency, InjectPacketLoss, NetworkPartition, PauseNode,
                                       RandomPartition)

    _seed(seed)
    v = variant % 3
    net = Network(name="net")
    sink = Sink("sink")
    db_pool = Resource("db_pool", capacity=[4, 2, 8][v])

    class Worker(Entity):
        """Receives requests over the network, takes a db connection, answers the frontend."""

        def __init__(self, name):
            super().__init__(name)
            self.handled = 0

        def handle_event(self, event):
            grant = yield db_pool.acquire(1)
            yield [0.02, 0.05, 0.01][v]
            grant.release()
            self.handled += 1
            return [net.send(self, frontend, "Reply", payload={"created_ns": event.context["metadata"]["created_ns"]})]

    class Frontend(Entity):
        def __init__(self, name, workers):
            super().__init__(name)
            self.workers = workers
            self.sent = 0
            self.replies = 0
            self.rtts: list[float] = []

        def handle_event(self, event):
            if event.event_type == "Reply":
                self.replies += 1
                self.rtts.append((self.now.nanoseconds - event.context["metadata"]["created_ns"]) / 1e9)
                return [Event(time=self.now, event_type="Done", target=sink)]
            self.sent += 1
            w = self.workers[self.sent % len(self.workers)]
            return [net.send(self, w, "Work", payload={"created_ns": self.now.nanoseconds})]

    workers = [Worker(f"worker{i}") for i in range(3)]
    frontend = Frontend("frontend", workers)
    for w in workers:
        net.add_bidirectional_link(frontend, w, datacenter_network(f"link_{w.name}"))
    queue_server = Server("batch_server", concurrency=1, service_time=ConstantLatency(0.03), downstream=sink)
    faults = FaultSchedule("faults")
    faults.add(CrashNode("worker0", at=1.0, restart_at=[2.0, None, 1.5][v]))
    faults.add(PauseNode("worker1", start=2.5, end=3.0))
    faults.add(NetworkPartition(["frontend"], ["worker2"], start=1.5, end=2.2, asymmetric=(v == 1)))
    faults.add(InjectLatency("frontend", "worker1", extra_ms=[50.0, 200.0, 5.0][v], start=0.5, end=1.5))
    faults.add(InjectPacketLoss("frontend", "worker2", loss_rate=[0.3, 0.8, 0.1][v], start=3.0, end=4.0))
    faults.add(PauseNode("batch_server", start=2.0, end=2.6))
    if v != 1:
        faults.add(RandomPartition(_RANDOM_PARTITION_NODES, mtbf=1.0, mttr=0.3, seed=seed))
    cancelled = faults.add(CrashNode("frontend", at=4.0))
    cancelled.cancel()
    srcs = [req_source("src", frontend, [60, 30, 120][v], poisson=True, stop_after=5.0),
            req_source("batch", queue_server, 20, stop_after=5.0)]
    sim = Simulation(sources=srcs, entities=[net, sink, db_pool, frontend, queue_server, *workers], duration=7.0,
                     fault_schedule=faults)

    def stats():
        return {"faults": _clean(faults.stats), "frontend": {"sent": frontend.sent, "replies": frontend.replies,
                                                             "rtt_max": max(frontend.rtts) if frontend.rtts else 0.0,
                                                             "rtt_sum": sum(frontend.rtts)},
                "workers": [w.handled for w in workers], "db_pool": pub(db_pool), "sink": sink_stats(sink),
                "batch_server": _clean(queue_server.stats), "batch_depth": queue_server.depth,
                "net": {"routed": net.events_routed, "partition_drops": net.events_dropped_partition},
                "traffic": [_clean(t) for t in net.traffic_matrix()]}

    return sim, stats


@scenario
def faults_reduce_capacity(seed, variant):
    """ReduceCapacity fault on a contended Resource whose grants are held across the fault window."""
    from happysimulator import FaultSchedule, Resource
    from happysimulator.faults import ReduceCapacity

    _seed(seed)
    v = variant % 3
    rng = random.Random(seed * 103 + v)
    pool = Resource("pool", capacity=[4, 10, 2][v])
    faults = FaultSchedule("faults")
    faults.add(ReduceCapacity("pool", factor=[0.5, 0.2, 0.5][v], start=1.5, end=[2.5, 3.0, 1.6][v]))
    if v == 1:
        faults.add(ReduceCapacity("pool", factor=0.5, start=2.0, end=4.0))  # overlapping reductions
    shared = {"done": 0}

    def body(self, event):
        n = event.context["request_id"]
        grant = yield pool.acquire(1 + n % [2, 2, 1][v])
        yield [0.1, 0.3, 0.05][v] * (0.5 + rng.random())
        grant.release()
        shared["done"] += 1
        return None

    # variants 0/1 let an exception raised by Grant.release() propagate out of sim.run(); variant 2 records it
    # in the worker's `errors` and keeps running, to observe the resource after the fault window
    workers = [Script(f"worker{i}", body, catch=(v == 2)) for i in range(3)]
    srcs = [req_source(f"src{i}", w, [10, 6, 15][v], poisson=(i == 0), stop_after=4.0) for i, w in enumerate(workers)]
    sim = Simulation(sources=srcs, entities=[pool, *workers], duration=6.0, fault_schedule=faults)

    def stats():
        return {"pool": pub(pool), "faults": _clean(faults.stats), "shared": shared,
                "workers": [{"runs": w.runs, "done": w.done, "errors": w.errors[:5]} for w in workers]}

    return sim, stats


# ---------------------------------------------------------------------------
# probes / instrumentation / control / clocks
# ---------------------------------------------------------------------------

@scenario
def instrumentation_probes_trackers(seed, variant):
    """Probes sampling a server's depth/utilisation, LatencyTracker + ThroughputTracker downstream."""
    from happysimulator import LatencyTracker, Probe, ThroughputTracker
    from happysimulator.components.server import Server

    _seed(seed)
    v = variant % 3
    latency = LatencyTracker("latency_tracker")
    throughput = ThroughputTracker("throughput_tracker")

    class Tee(Entity):
        def handle_event(self, event):
            return [self.forward(event, latency), self.forward(event, throughput)]

    tee = Tee("tee")
    server = Server("server", concurrency=[1, 2, 4][v], service_time=ExponentialLatency([0.02, 0.05, 0.01][v]),
                    queue_capacity=[None, 20, 100][v], downstream=tee)
    probes, data = Probe.on_many(server, ["depth", "utilization", "active_requests"], interval=[0.1, 0.25, 0.05][v])
    extra_probe, extra = Probe.on(latency, "count" if hasattr(latency, "count") else "name", interval=0.5)
    src = req_source("src", server, [30, 20, 40][v], poisson=True, stop_after=5.0)
    burst = req_source("burst", server, [60, 40, 80][v], poisson=False, stop_after=2.0)
    sim = Simulation(sources=[src, burst], entities=[server, tee, latency, throughput], probes=[*probes, extra_probe],
                     duration=7.0)

    def stats():
        out = {"server": _clean(server.stats), "dropped": server.stats_dropped,
               "latency": {"p50": latency.p50(), "p99": latency.p99(), "mean": latency.mean_latency(),
                           "buckets": latency.summary(window_s=1.0).to_dict()},
               "throughput": throughput.throughput(window_s=1.0).to_dict()}
        for name, d in data.items():
            out[f"probe_{name}"] = {"n": d.count(), "mean": d.mean(), "max": d.max(), "p99": d.percentile(0.99),
                                    "between": d.between(2.0, 4.0).mean(), "rate": d.rate(1.0).raw_values()[:8],
                                    "bucket_means": d.bucket(1.0).means()}
        return out

    return sim, stats


@scenario
def core_control_hooks_tracing(seed, variant):
    """The non-fast run loop: control hooks (no pause), in-memory trace recorder, infinite end with auto-terminate."""
    from happysimulator import ConditionBreakpoint
    from happysimulator.components.server import Server
    from happysimulator.instrumentation.recorder import InMemoryTraceRecorder

    _seed(seed)
    v = variant % 3
    sink = Sink("sink")
    server = Server("server", concurrency=2, service_time=ExponentialLatency(0.03), downstream=sink)
    src = req_source("src", server, [50, 80, 30][v], poisson=True, stop_after=3.0)
    recorder = InMemoryTraceRecorder() if v != 0 else None
    sim = Simulation(sources=[src], entities=[server, sink], duration=5.0, trace_recorder=recorder)
    seen = {"events": 0, "advances": 0, "types": {}}
    if v != 1:
        def on_event(e):
            seen["events"] += 1
            seen["types"][e.event_type] = seen["types"].get(e.event_type, 0) + 1

        sim.control.on_event(on_event)
        sim.control.on_time_advance(lambda t: seen.__setitem__("advances", seen["advances"] + 1))
        sim.control.add_breakpoint(ConditionBreakpoint(fn=lambda ctx: False, description="never"))

    def stats():
        kinds: dict = {}
        if recorder is not None:
            for s in recorder.spans:
                kinds[s["kind"]] = kinds.get(s["kind"], 0) + 1
        return {"sink": sink_stats(sink), "server": _clean(server.stats), "seen": seen, "trace_kinds": kinds}

    return sim, stats


@scenario
def core_node_and_logical_clocks(seed, variant):
    """Nodes with skewed/drifting NodeClocks exchanging messages stamped by Lamport, vector and hybrid clocks."""
    from happysimulator import (FixedSkew, HybridLogicalClock, LamportClock, LinearDrift, Network, NodeClock, VectorClock,
                                datacenter_network, internet_network)

    _seed(seed)
    v = variant % 3
    net = Network(name="net")
    names = [f"peer{i}" for i in range(3)]

    class Peer(Entity):
        def __init__(self, name, model):
            super().__init__(name)
            self.node_clock = NodeClock(model)
            self.lamport = LamportClock()
            self.vector = VectorClock(name, names)
            self.hlc = HybridLogicalClock(name, physical_clock=self.node_clock)
            self.peers: list[Entity] = []
            self.received = 0
            self.causality_violations = 0
            self.local_regressions = 0
            self._last_local = None
            self.log: list = []

        def set_clock(self, clock):
            super().set_clock(clock)
            self.node_clock.set_clock(clock)

        def handle_event(self, event):
            local = self.node_clock.now
            if self._last_local is not None and local < self._last_local:
                self.local_regressions += 1
            self._last_local = local
            md = event.context.get("metadata", {})
            if event.event_type == "Tick":
                target = self.peers[event.context["request_id"] % len(self.peers)]
                ts = self.hlc.send()
                return [net.send(self, target, "Msg", payload={"lamport": self.lamport.send(), "vector": self.vector.send(),
                                                               "hlc": ts.to_dict(), "sent_local_ns": local.nanoseconds})]
            self.received += 1
            before = self.lamport.time
            self.lamport.receive(md["lamport"])
            self.vector.receive(md["vector"])
            from happysimulator import HLCTimestamp
            remote = HLCTimestamp.from_dict(md["hlc"])
            self.hlc.receive(remote)
            if not (self.lamport.time > md["lamport"] and self.lamport.time > before):
                self.causality_violations += 1
            if len(self.log) < 30:
                self.log.append([md["source"], md["lamport"], self.lamport.time, local.nanoseconds - md["sent_local_ns"]])
            return None

    models = [[None, FixedSkew(Duration.from_seconds(0.05)), FixedSkew(Duration.from_seconds(-0.02))],
              [LinearDrift(rate_ppm=5000), LinearDrift(rate_ppm=-3000), None],
              [FixedSkew(Duration.from_seconds(-0.5)), LinearDrift(rate_ppm=100000), FixedSkew(Duration.from_seconds(0.2))]][v]
    peers = [Peer(n, m) for n, m in zip(names, models)]
    for p in peers:
        p.peers = [q for q in peers if q is not p]
    _mesh(net, peers, [datacenter_network, internet_network, datacenter_network][v])
    srcs = [req_source(f"tick{i}", p, [20, 10, 40][v] + 3 * i, poisson=(i == 0), stop_after=4.0, event_type="Tick")
            for i, p in enumerate(peers)]
    sim = Simulation(sources=srcs, entities=[net, *peers], duration=6.0)

    def stats():
        return {"peers": [{"name": p.name, "received": p.received, "lamport": p.lamport.time, "vector": p.vector.snapshot(),
                           "hlc": p.hlc.now().to_dict(), "violations": p.causality_violations,
                           "regressions": p.local_regressions, "log": p.log} for p in peers],
                "concurrent": [[peers[i].vector.is_concurrent(peers[j].vector) for j in range(3)] for i in range(3)]}

    return sim, stats


@scenario
def core_hooks_cancellation_ordering(seed, variant):
    """Completion hooks, cancelled timers, daemon events and many same-instant events (pre-run and in-run)."""
    _seed(seed)
    v = variant % 3
    rng = random.Random(seed * 107 + v)
    sink = Sink("sink")
    order: list = []

    class TimerOwner(Entity):
        """Arms a timeout per request and cancels it when the worker's completion hook fires first."""

        def __init__(self, name, worker):
            super().__init__(name)
            self.worker = worker
            self.timers: dict[int, Event] = {}
            self.completed = 0
            self.timed_out = 0
            self.cancelled = 0

        def handle_event(self, event):
            n = event.context.get("request_id")
            if event.event_type == "Timeout":
                if self.timers.pop(n, None) is not None:
                    self.timed_out += 1
                return None
            if event.event_type == "WorkDone":
                t = self.timers.pop(n, None)
                if t is not None:
                    t.cancel()
                    self.cancelled += 1
                    self.completed += 1
                    return [Event(time=self.now, event_type="Done", target=sink,
                                  context={"created_at": event.context["started_at"]})]
                return None
            work = Event(time=self.now, event_type="Work", target=self.worker, context={"request_id": n})
            work.add_completion_hook(lambda t, n=n, st=self.now: Event(time=t, event_type="WorkDone", target=self,
                                                                       context={"request_id": n, "started_at": st}))
            timer = Event(time=self.now + [0.05, 0.03, 0.1][v], event_type="Timeout", target=self,
                          context={"request_id": n}, daemon=(n % 2 == 0))
            self.timers[n] = timer
            return [work, timer]

    class Worker(Entity):
        def handle_event(self, event):
            yield rng.random() * [0.08, 0.06, 0.12][v]
            return None

    class Recorder(Entity):
        def handle_event(self, event):
            order.append(event.context["tag"])

    worker = Worker("worker")
    owner = TimerOwner("owner", worker)
    rec = Recorder("recorder")
    src = req_source("src", owner, [60, 120, 30][v], poisson=(v != 0), stop_after=4.0)
    sim = Simulation(sources=[src], entities=[owner, worker, rec, sink], duration=6.0)
    # same-instant batch scheduled before the run, in shuffled creation order
    tags = list(range(20))
    rng.shuffle(tags)
    sim.schedule([Event(time=T(1.0), event_type="Tag", target=rec, context={"tag": f"pre{t}"}) for t in tags])

    def burst(e):
        return [Event(time=e.time, event_type="Tag", target=rec, context={"tag": f"run{k}"}) for k in range(20)]

    sim.schedule(Event.once(time=T(1.0), event_type="Burst", fn=burst))

    def stats():
        return {"owner": {"completed": owner.completed, "timed_out": owner.timed_out, "cancelled": owner.cancelled,
                          "pending": len(owner.timers)}, "sink": sink_stats(sink), "order": order,
                "expected_pre": [f"pre{t}" for t in tags]}

    return sim, stats


# ---------------------------------------------------------------------------
# adversarial "the guarded work outlasts its timer" scenarios (added after seeded changes C07-1 / C07-3:
# a timestamp computed from an earlier instant only falls into the past when the wait in between is
# longer than the delay added to it)
# ---------------------------------------------------------------------------

@scenario
def infra_gc_thrashing(seed, variant):
    """GarbageCollector whose pause exceeds its collection interval (GC thrashing), alone on the heap."""
    from happysimulator import ConcurrentGC, GarbageCollector, GenerationalGC, StopTheWorld

    _seed(seed)
    v = variant % 3
    gc = GarbageCollector("gc", strategy=[StopTheWorld(base_pause_s=0.5, interval_s=0.2, pressure_multiplier=2.0),
                                          ConcurrentGC(pause_s=0.3, interval_s=0.1),
                                          GenerationalGC(minor_pause_s=0.2, major_pause_s=0.9, minor_interval_s=0.1,
                                                         major_threshold=0.6)][v],
                          heap_pressure=[0.9, None, 0.8][v])
    sim = Simulation(entities=[gc], duration=6.0)
    sim.schedule(Event.once(time=T(0.0), event_type="PrimeGC", fn=lambda e: gc.prime()))

    def stats():
        return {"gc": {"stats": _clean(gc.stats), "collections": gc.collection_count}}

    return sim, stats


@scenario
def messaging_queue_slow_consumer(seed, variant):
    """MessageQueue whose consumers hold a delivery longer than the redelivery delay before reporting the failure."""
    from happysimulator.components.messaging import MessageQueue

    _seed(seed)
    v = variant % 3
    rng = random.Random(seed * 11 + v)
    mq = MessageQueue("mq", delivery_latency=[0.001, 0.01, 0.002][v], redelivery_delay=[0.05, 0.2, 0.1][v],
                      max_redeliveries=[3, 5, 2][v])

    class Producer(Entity):
        def handle_event(self, event):
            yield from mq.publish(event)
            return [Event(time=self.now, event_type="poll", target=mq)]

    class SlowConsumer(Entity):
        def __init__(self, name):
            super().__init__(name)
            self.acked = self.timed_out = 0

        def handle_event(self, event):
            mid = event.context["message_id"]
            yield [0.3, 0.9, 0.25][v] * (1 + rng.randrange(2))      # much longer than redelivery_delay
            out = [Event(time=self.now, event_type="poll", target=mq)]
            if event.context["delivery_count"] >= 2 or rng.random() < 0.3:
                mq.acknowledge(mid)
                self.acked += 1
            else:
                self.timed_out += 1
                redelivery = mq.schedule_redelivery(mid)
                if redelivery is not None:
                    out.append(redelivery)
            return out

    prod = Producer("producer")
    cons = [SlowConsumer(f"consumer{i}") for i in range([1, 2, 1][v])]
    for c in cons:
        mq.subscribe(c)
    srcs = [req_source("src", prod, [3, 2, 5][v], stop_after=3.0)]
    sim = Simulation(sources=srcs, entities=[mq, prod, *cons], duration=12.0)

    def stats():
        return {"mq": _clean(mq.stats), "consumers": [(c.acked, c.timed_out) for c in cons]}

    return sim, stats


@scenario
def core_batch_schedule_ties(seed, variant):
    """Pre-run events handed to the engine as ONE list into an empty heap (no sources), many on one
    timestamp, whose handlers create further events at the same instant: same-instant delivery order
    must be creation order whatever the process-wide event counter was when the model was built."""
    _seed(seed)
    v = variant % 3
    rng = random.Random(seed * 13 + v)
    seen: list = []

    class Node(Entity):
        def handle_event(self, event):
            seen.append((self.now.nanoseconds, event.event_type, self.name))
            k = event.context.get("k", 0)
            if event.event_type == "Kick" and k < [3, 5, 2][v]:
                # same instant, created during the run: must order after every pending pre-run event of this instant
                return [Event(time=self.now, event_type="Echo", target=peers[(int(self.name[1:]) + 1) % len(peers)], context={"k": k + 1}),
                        Event(time=self.now + Duration.from_seconds([0.0, 0.001, 0.0][v]), event_type="Kick", target=self, context={"k": k + 1})]
            return None

    peers = [Node(f"n{i}") for i in range([3, 4, 2][v])]
    sim = Simulation(entities=peers, duration=1.0)
    times = [0.0, 0.0, 0.0, 0.001, 0.001, 0.5]
    batch = [Event(time=T(times[i % len(times)]), event_type=("Kick" if i % 2 == 0 else "Mark"), target=peers[rng.randrange(len(peers))],
                   context={"k": 0}) for i in range([8, 12, 6][v])]
    sim.schedule(batch)

    def stats():
        return {"order": seen[:200], "n": len(seen)}

    return sim, stats


@scenario
def ratelimit_nonintegral_periods(seed, variant):
    """Rate limiters whose refill / leak / window periods are NOT a whole number of nanoseconds (3, 7, 9 per second,
    windows of 1/3 s ...), with a queue behind them: the limiter's own notion of 'when is capacity available' and
    its admission test must agree at the instant it wakes up, or the entity polls the same instant forever."""
    from happysimulator.components.rate_limiter import (FixedWindowPolicy, LeakyBucketPolicy, RateLimitedEntity,
                                                        SlidingWindowPolicy, TokenBucketPolicy)

    _seed(seed)
    v = variant % 4
    sink = Sink("sink")
    policy = [LeakyBucketPolicy(leak_rate=3.0), TokenBucketPolicy(capacity=2.0, refill_rate=7.0, initial_tokens=0.0),
              FixedWindowPolicy(requests_per_window=2, window_size=1.0 / 3.0),
              SlidingWindowPolicy(window_size_seconds=1.0 / 7.0, max_requests=2)][v]
    limiter = RateLimitedEntity("limiter", downstream=sink, policy=policy, queue_capacity=200)
    burst = req_source("burst", limiter, [40, 60, 50, 45][v], poisson=(v % 2 == 0), stop_after=1.0)
    sim = Simulation(sources=[burst], entities=[limiter, sink], duration=20.0)

    def stats():
        return {"limiter": {"stats": _clean(limiter.stats), "queue_depth": limiter.queue_depth,
                            "first_forwarded_ns": [t.nanoseconds for t in limiter.forwarded_times[:20]]}, "sink": sink_stats(sink)}

    return sim, stats
