"""Corpus of small deterministic scenario builders over the happysimulator component library.

Every builder has the signature  build(seed: int, variant: int) -> (sim, stats_fn):
it constructs fresh components and an un-run `Simulation` with a finite end time and
returns it together with a function producing a JSON-able dict of public statistics.
`variant` selects a constructor configuration of the same family (variant % k).

All randomness is seeded from `seed`; nothing here depends on wall-clock time, uuid,
os.urandom or hash() ordering.
"""
from __future__ import annotations

import dataclasses
import enum
import random
from collections import deque
from typing import Callable

from happysimulator import (
    ConstantArrivalTimeProvider,
    ConstantLatency,
    ConstantRateProfile,
    Counter,
    Duration,
    Entity,
    Event,
    ExponentialLatency,
    FIFOQueue,
    Instant,
    LIFOQueue,
    LinearRampProfile,
    PoissonArrivalTimeProvider,
    PriorityQueue,
    Queue,
    QueueDriver,
    QueuedResource,
    SimFuture,
    Simulation,
    Sink,
    Source,
    SpikeProfile,
    all_of,
    any_of,
)
from happysimulator.load.event_provider import EventProvider

SCENARIOS: dict[str, Callable[[int, int], tuple]] = {}


def scenario(fn):
    SCENARIOS[fn.__name__] = fn
    return fn


# ---------------------------------------------------------------------------
# statistics helpers
# ---------------------------------------------------------------------------

def _clean(v, depth=0):
    """Convert a public value into something JSON-able and deterministic."""
    if v is None or isinstance(v, (bool, int, str, float)):
        return v
    if depth > 6:
        return type(v).__name__
    if isinstance(v, Instant):
        return "inf" if v == Instant.Infinity else v.nanoseconds
    if isinstance(v, Duration):
        return v.nanoseconds
    if isinstance(v, enum.Enum):
        return v.name
    if isinstance(v, Entity):
        return "entity:" + str(v.name)
    if dataclasses.is_dataclass(v) and not isinstance(v, type):
        return {f.name: _clean(getattr(v, f.name), depth + 1) for f in dataclasses.fields(v)
                if not f.name.startswith("_")}
    if isinstance(v, dict):
        items = sorted(((str(_clean(k, depth + 1)), _clean(x, depth + 1)) for k, x in v.items()),
                       key=lambda kv: kv[0])
        return dict(items[:300])
    if isinstance(v, (list, tuple, deque)):
        return [_clean(x, depth + 1) for x in list(v)[:300]]
    if isinstance(v, (set, frozenset)):
        return sorted(str(_clean(x, depth + 1)) for x in v)[:300]
    if isinstance(v, bytes):
        return v.hex()
    return type(v).__name__


_SKIP_PROPS = {"now", "local_now", "clock", "wall_clock_seconds"}


def pub(obj, *extra):
    """Public state of a component: `.stats`, simple public properties and attributes.

    Only values of simple types (numbers, strings, enums, instants, small containers,
    dataclasses) are kept; everything else is dropped.  `extra` names additional
    attributes/zero-argument methods to include.
    """
    out = {}
    cls = type(obj)
    names = []
    for n in dir(cls):
        if n.startswith("_") or n in _SKIP_PROPS:
            continue
        if isinstance(getattr(cls, n, None), property):
            names.append(n)
    for n in getattr(obj, "__dict__", {}):
        if not n.startswith("_") and n not in _SKIP_PROPS:
            names.append(n)
    for n in sorted(set(names)):
        try:
            val = getattr(obj, n)
        except Exception as e:  # noqa: BLE001
            out[n] = "raised:" + type(e).__name__
            continue
        if callable(val) and not dataclasses.is_dataclass(val):
            continue
        c = _clean(val)
        if isinstance(c, str) and c == type(val).__name__ and not isinstance(val, str):
            continue  # opaque object
        out[n] = c
    for n in extra:
        try:
            val = getattr(obj, n)
            if callable(val):
                val = val()
            out[n] = _clean(val)
        except Exception as e:  # noqa: BLE001
            out[n] = "raised:" + type(e).__name__
    return out


def sink_stats(s: Sink):
    return {"received": s.events_received, "latency": s.latency_stats(),
            "last_completion_ns": s.completion_times[-1].nanoseconds if s.completion_times else None}


def counter_stats(c: Counter):
    return {"total": c.total, "by_type": dict(c.by_type)}


def T(s: float) -> Instant:
    return Instant.from_seconds(s)


# ---------------------------------------------------------------------------
# small reusable model entities
# ---------------------------------------------------------------------------

class FnProvider(EventProvider):
    """EventProvider calling fn(time, n) -> list[Event]; stops after `stop_after` seconds."""

    def __init__(self, fn, stop_after: float | None = None):
        self._fn = fn
        self._stop = None if stop_after is None else Instant.from_seconds(stop_after)
        self.generated = 0

    def get_events(self, time: Instant):
        if self._stop is not None and time > self._stop:
            return []
        self.generated += 1
        evs = self._fn(time, self.generated)
        if evs is None:
            return []
        if isinstance(evs, Event):
            evs = [evs]
        for e in evs:
            e.time = time
        return evs


def make_source(name, fn, rate, *, poisson=False, stop_after=None, profile=None):
    prof = profile if profile is not None else ConstantRateProfile(rate=rate)
    cls = PoissonArrivalTimeProvider if poisson else ConstantArrivalTimeProvider
    return Source(name=name, event_provider=FnProvider(fn, stop_after),
                  arrival_time_provider=cls(prof, start_time=Instant.Epoch))


def req_source(name, target, rate, *, poisson=False, stop_after=None, event_type="Request", ctx=None,
               profile=None):
    """Source of plain request events with a deterministic context."""

    def fn(time, n):
        c = {"created_at": time, "request_id": n}
        if ctx is not None:
            c.update(ctx(time, n))
        return [Event(time=time, event_type=event_type, target=target, context=c)]

    return make_source(name, fn, rate, poisson=poisson, stop_after=stop_after, profile=profile)


class DelayServer(Entity):
    """Unbounded-concurrency server: holds each event for `delay` seconds, then forwards."""

    def __init__(self, name, delay=0.01, downstream=None, jitter=0.0, rng=None):
        super().__init__(name)
        self.delay, self.downstream, self.jitter = delay, downstream, jitter
        self.rng = rng
        self.started = 0
        self.completed = 0
        self.in_flight = 0
        self.peak = 0

    def handle_event(self, event):
        self.started += 1
        self.in_flight += 1
        self.peak = max(self.peak, self.in_flight)
        d = self.delay
        if self.jitter and self.rng is not None:
            d += self.rng.random() * self.jitter
        yield d
        self.in_flight -= 1
        self.completed += 1
        if self.downstream is not None:
            return [self.forward(event, self.downstream)]
        return None


class ReplyServer(Entity):
    """Serves requests after `delay` and resolves context['reply_future'] if present."""

    def __init__(self, name, delay=0.01, fail_every=0):
        super().__init__(name)
        self.delay = delay
        self.fail_every = fail_every
        self.handled = 0

    def handle_event(self, event):
        self.handled += 1
        n = self.handled
        yield self.delay
        fut = event.context.get("reply_future")
        if fut is not None and not fut.is_resolved:
            failed = bool(self.fail_every) and n % self.fail_every == 0
            fut.resolve({"ok": not failed, "n": n})
        return None


class Script(Entity):
    """Runs one generator function per 'Start' event: fn(self, event) -> generator."""

    def __init__(self, name, fn):
        super().__init__(name)
        self.fn = fn
        self.runs = 0
        self.done = 0
        self.errors: list[str] = []
        self.log: list = []

    def handle_event(self, event):
        self.runs += 1
        try:
            result = yield from self.fn(self, event)
        except Exception as e:  # noqa: BLE001 - recorded, part of the observation
            self.errors.append(type(e).__name__ + ":" + str(e)[:60])
            result = None
        self.done += 1
        return result


def start(entity, at=0.0, event_type="Start", **ctx):
    return Event(time=T(at), event_type=event_type, target=entity, context=dict(ctx) if ctx else None)


def script_stats(s: Script):
    return {"runs": s.runs, "done": s.done, "errors": list(s.errors), "log": _clean(s.log)}


# ---------------------------------------------------------------------------
# core: sources, sinks, profiles
# ---------------------------------------------------------------------------

@scenario
def core_source_constant(seed, variant):
    random.seed(seed)
    v = variant % 3
    sink = Sink("sink")
    counter = Counter("counter")
    server = DelayServer("server", delay=[0.005, 0.05, 0.2][v], downstream=sink)
    src = Source.constant(rate=[20, 50, 100][v], target=server, event_type="Request", name="src",
                          stop_after=[8.0, 4.0, 2.0][v])
    src2 = Source.constant(rate=[5, 7, 11][v], target=counter, event_type="Tick", name="ticks")
    sim = Simulation(sources=[src, src2], entities=[server, sink, counter], duration=[10.0, 5.0, 3.0][v])

    def stats():
        return {"sink": sink_stats(sink), "counter": counter_stats(counter),
                "server": pub(server), "generated": [src.generated_count, src2.generated_count]}

    return sim, stats


@scenario
def core_source_poisson(seed, variant):
    random.seed(seed)
    v = variant % 3
    sink = Sink("sink")
    server = DelayServer("server", delay=[0.01, 0.03, 0.1][v], downstream=sink)
    srcs = [Source.poisson(rate=[30, 15, 60][v], target=server, event_type=f"Req{i}", name=f"src{i}",
                           stop_after=[5.0, 8.0, 3.0][v]) for i in range(1 + v)]
    sim = Simulation(sources=srcs, entities=[server, sink], end_time=T([6.0, 9.0, 4.0][v]))

    def stats():
        return {"sink": sink_stats(sink), "server": pub(server), "generated": [s.generated_count for s in srcs]}

    return sim, stats


@scenario
def core_source_profiles(seed, variant):
    random.seed(seed)
    v = variant % 4
    sink = Sink("sink")
    server = DelayServer("server", delay=0.02, downstream=sink)
    profile = [
        LinearRampProfile(duration_s=6.0, start_rate=5.0, end_rate=80.0),
        SpikeProfile(baseline_rate=10.0, spike_rate=120.0, warmup_s=2.0, spike_duration_s=2.0),
        LinearRampProfile(duration_s=5.0, start_rate=60.0, end_rate=2.0),
        SpikeProfile(baseline_rate=4.0, spike_rate=200.0, warmup_s=1.0, spike_duration_s=1.0),
    ][v]
    src = Source.with_profile(profile=profile, target=server, poisson=(v % 2 == 0), name="src", stop_after=7.0)
    sim = Simulation(sources=[src], entities=[server, sink], duration=8.0)

    def stats():
        return {"sink": sink_stats(sink), "server": pub(server), "generated": src.generated_count}

    return sim, stats


@scenario
def core_generators_futures(seed, variant):
    """Generators yielding delays, side effects, futures, any_of / all_of."""
    random.seed(seed)
    v = variant % 3
    backends = [ReplyServer(f"backend{i}", delay=[0.01, 0.05, 0.12][(i + v) % 3], fail_every=[0, 5, 3][v])
                for i in range(3)]
    sink = Sink("sink")
    timeout_s = [0.2, 0.06, 0.03][v]

    def body(self, event):
        n = event.context.get("request_id", 0)
        futs = [SimFuture() for _ in backends]
        evs = [Event(time=self.now, event_type="Call", target=b, context={"reply_future": f})
               for b, f in zip(backends, futs)]
        yield 0.001, evs
        if n % 2 == 0:
            timer = SimFuture()
            yield 0.0, [Event.once(time=self.now + timeout_s, event_type="Timer",
                                   fn=lambda e, t=timer: t.resolve("timeout") if not t.is_resolved else None)]
            idx, val = yield any_of(any_of(*futs), timer)
            self.log.append([n, "any", idx])
        else:
            vals = yield all_of(*futs)
            self.log.append([n, "all", len(vals)])
        return [Event(time=self.now, event_type="Done", target=sink, context={"created_at": event.context["created_at"]})]

    orchestrator = Script("orchestrator", body)
    src = req_source("src", orchestrator, [10, 25, 40][v], poisson=(v == 1), stop_after=4.0)
    sim = Simulation(sources=[src], entities=[orchestrator, sink, *backends], duration=5.0)

    def stats():
        return {"sink": sink_stats(sink), "orch": script_stats(orchestrator),
                "backends": [b.handled for b in backends]}

    return sim, stats
