"""./check <ID> [--tier quick|thorough] [--replay FILE] — one property check.

Exit protocol (MANIFEST contract): exit 0 when the property held on everything
explored (known findings are printed as KNOWN-FINDING lines); exit 1 with
`VIOLATION property=<id> replay=<path>` otherwise.
"""
from __future__ import annotations

import argparse
import importlib
import json
import os
import random
import sys
import time
import traceback

from . import coq

VERIF = "/verif"


class Ctx:
    def __init__(self, pid: str, tier: str, seed: int):
        self.pid, self.tier, self.seed = pid, tier, seed
        self.rng = random.Random(seed * 1000003 + sum(map(ord, pid)))
        self.t0 = time.time()
        self.violations: list[dict] = []
        self.known_hits: dict[str, str] = {}
        self.coverage: dict = {}
        self.assumptions: list[str] = []
        self.notes: list[str] = []
        fp = os.path.join(VERIF, "known_findings", f"{pid}.json")
        self.findings = json.load(open(fp))["findings"] if os.path.exists(fp) else []

    @property
    def quick(self) -> bool:
        return self.tier == "quick"

    def n(self, quick: int, thorough: int) -> int:
        return quick if self.quick else thorough

    # -- reporting ---------------------------------------------------------
    def violation(self, kind: str, detail: dict, no_failing_input: bool = False):
        """Record a violation. kind: 'oracle' (property fails on the implementation, detail is
        the failing input), 'obligation' (a theorem no longer checks), 'correspondence'
        (model and implementation differ and no failing input was found)."""
        self.violations.append(dict(kind=kind, detail=detail, no_failing_input=no_failing_input))

    def known(self, finding_id: str, what: str):
        """A failure attributed to an open known finding (the caller has established that
        component, clause and mechanism match and that the implementation still behaves as
        the committed faithful model on this case)."""
        for f in self.findings:
            if f["id"] == finding_id and f["status"] == "open":
                self.known_hits.setdefault(finding_id, what)
                return True
        return False

    def is_open(self, finding_id: str) -> bool:
        return any(f["id"] == finding_id and f["status"] == "open" for f in self.findings)

    def log(self, msg: str):
        print(f"[{self.pid} {time.time() - self.t0:6.1f}s] {msg}", flush=True)

    # -- obligations ----------------------------------------------------------
    def prove(self, files: list[str], allowed_axioms=(), trusted_base=()):
        """files: the .v files of this property in dependency order (relative to coq/), the
        last one being the Props file (theorems closed by `exact` + Print Assumptions)."""
        props_v = files[-1]
        dirs = sorted({os.path.dirname(f) for f in files} | {"Base"})
        bad = coq.gate(dirs)
        ob = coq.obligations(files, set(allowed_axioms))
        if bad:
            ob["errors"].append("forbidden constructs: " + "; ".join(bad[:10]))
            ob["discharged"] = 0
        self.coverage.update(
            obligations=ob["obligations"], discharged=ob["discharged"], checker_cmd=ob["checker_cmd"],
            trusted_base=list(trusted_base), theorems=ob["theorems"],
            axioms_per_theorem={k: v for k, v in ob["axioms"].items() if v},
            obligation_errors=ob["errors"],
        )
        self.log(f"obligations {ob['discharged']}/{ob['obligations']}  errors={len(ob['errors'])}")
        if ob["errors"]:
            self.pending_obligation_violation = dict(broken=f"{props_v} does not check", errors=ob["errors"])
        return ob

    pending_obligation_violation = None

    def finish_obligations(self):
        """Call after the search: a broken obligation with no failing input found is still a violation."""
        if self.pending_obligation_violation and not any(v["kind"] == "oracle" for v in self.violations):
            self.violation("obligation", self.pending_obligation_violation, no_failing_input=True)

    # -- correspondence ----------------------------------------------------
    def coq_cases(self, tag, imports, ok_fn, case_type, cases):
        return coq.eval_cases(f"{self.pid}_{tag}", imports, ok_fn, case_type, cases)


def write_evidence(ctx: Ctx, level: str):
    cov = dict(ctx.coverage)
    cov.setdefault("evaluations", 0)
    cov.setdefault("distinct_nontrivial", 0)
    cov.setdefault("rule", "")
    cov.setdefault("samples", [])
    ev = dict(
        property_id=ctx.pid, tier=ctx.tier, seed=ctx.seed, level=level, coverage=cov,
        assumptions=ctx.assumptions, wall_s=round(time.time() - ctx.t0, 2),
        violations=len(ctx.violations),
        known_findings_hit=sorted(ctx.known_hits), notes=ctx.notes,
    )
    # runs against a scratch copy of the repository (seeded changes: HS_REPO set) must not overwrite the
    # evidence of /repo itself
    evdir = os.environ.get("VERIF_EVIDENCE_DIR") or (os.path.join(VERIF, "evidence") if os.environ.get("HS_REPO", "/repo") == "/repo"
                                                      else os.path.join(VERIF, "build", "evidence_scratch"))
    os.makedirs(evdir, exist_ok=True)
    with open(os.path.join(evdir, f"{ctx.pid}.json"), "w") as f:
        json.dump(ev, f, indent=1, default=str)


def main(argv=None):
    ap = argparse.ArgumentParser()
    ap.add_argument("pid")
    ap.add_argument("--tier", default=os.environ.get("VERIF_TIER", "quick"), choices=["quick", "thorough"])
    ap.add_argument("--replay")
    a = ap.parse_args(argv)
    seed = int(os.environ.get("VERIF_SEED", "1"))
    pid = a.pid.upper()
    mod = importlib.import_module(f"props.{pid.lower()}")
    if a.replay:
        return mod.replay(json.load(open(a.replay)))
    ctx = Ctx(pid, a.tier, seed)
    try:
        mod.run(ctx)
    except Exception:
        tb = traceback.format_exc()
        print(tb)
        ctx.violation("harness-error", {"traceback": tb}, no_failing_input=True)
    level = getattr(mod, "LEVEL", "proof")
    write_evidence(ctx, level)
    for fid, what in sorted(ctx.known_hits.items()):
        print(f"KNOWN-FINDING: property={pid} {fid}: {what}")
    if ctx.violations:
        os.makedirs(os.path.join(VERIF, "replays"), exist_ok=True)
        # one replay file: the first violation with a failing input if any, else the first
        vs = sorted(ctx.violations, key=lambda v: v["no_failing_input"])
        v = vs[0]
        path = os.path.join(VERIF, "replays", f"{pid}_{ctx.tier}_{seed}.json")
        with open(path, "w") as f:
            json.dump(dict(property=pid, **v, others=[x["kind"] for x in vs[1:]][:20]), f, indent=1, default=str)
        tail = " no-failing-input-found" if v["no_failing_input"] else ""
        print(f"VIOLATION property={pid} replay={path}{tail}")
        return 1
    print(f"OK property={pid} tier={ctx.tier} wall={time.time() - ctx.t0:.1f}s")
    return 0


if __name__ == "__main__":
    sys.exit(main())
