"""Small helpers shared by the property harnesses."""
from __future__ import annotations

import contextlib
import signal


class Timeout(Exception):
    pass


@contextlib.contextmanager
def time_limit(seconds: float):
    """Raise Timeout in the current (main) thread after `seconds` of CPU time of this process
    (ITIMER_PROF), with a wall-clock backstop fifteen times longer (ITIMER_REAL).
    Used as the livelock watchdog around implementation runs (several defects of the pinned
    tree were zero-delay spins that never end).  CPU time, not wall time, is what a livelock
    burns; a wall-clock limit alone raised false alarms when worker processes were starved
    (first import in 14 fresh workers on a loaded machine took up to 17 s)."""
    def handler(signum, frame):
        raise Timeout(f"time limit {seconds}s (cpu) / {seconds * 15}s (wall) exceeded")
    old_prof = signal.signal(signal.SIGPROF, handler)
    old_alrm = signal.signal(signal.SIGALRM, handler)
    signal.setitimer(signal.ITIMER_PROF, seconds)
    signal.setitimer(signal.ITIMER_REAL, seconds * 15)
    try:
        yield
    finally:
        signal.setitimer(signal.ITIMER_PROF, 0)
        signal.setitimer(signal.ITIMER_REAL, 0)
        signal.signal(signal.SIGPROF, old_prof)
        signal.signal(signal.SIGALRM, old_alrm)


def shrink_list(items: list, still_fails, max_rounds: int = 200) -> list:
    """Delta-debugging on a list: returns a (locally) minimal sub-list on which
    still_fails(sublist) is True.  still_fails must be deterministic."""
    cur = list(items)
    n = 2
    rounds = 0
    while len(cur) >= 2 and rounds < max_rounds:
        rounds += 1
        chunk = max(1, len(cur) // n)
        reduced = False
        for i in range(0, len(cur), chunk):
            cand = cur[:i] + cur[i + chunk:]
            if cand and still_fails(cand):
                cur = cand
                n = max(n - 1, 2)
                reduced = True
                break
        if not reduced:
            if chunk == 1:
                break
            n = min(len(cur), n * 2)
    return cur


class FrozenClock(Exception):
    pass


def run_bounded(sim, max_events_per_instant: int = 5000, max_events: int = 200000, wall_s: float = 300.0):
    """Run a Simulation with a frozen-clock watchdog, without attaching the control
    surface (which would switch the engine to its instrumented loop).  The heap's
    pop is wrapped on this instance only.  Returns (summary | None, verdict) with
    verdict in {'ok', 'frozen-clock', 'too-many-events', 'wall-timeout'}."""
    heap = sim._event_heap
    orig_pop = heap.pop
    st = {"t": None, "same": 0, "total": 0}

    def pop():
        ev = orig_pop()
        st["total"] += 1
        if ev.time == st["t"]:
            st["same"] += 1
            if st["same"] > max_events_per_instant:
                raise FrozenClock(f"more than {max_events_per_instant} pops at t={ev.time!r}")
        else:
            st["t"], st["same"] = ev.time, 0
        if st["total"] > max_events:
            raise FrozenClock(f"more than {max_events} pops in total")
        return ev

    heap.pop = pop
    try:
        with time_limit(wall_s):
            return sim.run(), "ok"
    except FrozenClock as e:
        return None, "frozen-clock" if "at t=" in str(e) else "too-many-events"
    except Timeout:
        return None, "wall-timeout"
    finally:
        heap.pop = orig_pop
