"""Coq side of a check run: gate, build, obligations, in-Coq case evaluation."""
from __future__ import annotations

import os
import re
import subprocess
import time
from concurrent.futures import ThreadPoolExecutor

VERIF = "/verif"
COQ = os.path.join(VERIF, "coq")
BUILD = os.path.join(VERIF, "build")

FORBIDDEN = re.compile(
    r"\b(Admitted|admit|Axiom|Axioms|Parameter|Parameters|Conjecture|Conjectures|"
    r"Unset\s+Guard|bypass_check|Admit\s+Obligations|native_compute)\b|"
    r"-type-in-type|-impredicative-set|Unset\s+Universe\s+Checking|Unset\s+Positivity"
)


def strip_comments(src: str) -> str:
    out, depth, i = [], 0, 0
    while i < len(src):
        if src.startswith("(*", i):
            depth += 1
            i += 2
        elif src.startswith("*)", i) and depth:
            depth -= 1
            i += 2
        else:
            if not depth:
                out.append(src[i])
            i += 1
    return "".join(out)


def gate(dirs: list[str]) -> list[str]:
    """Grep gate over the .v sources of the given sub-directories of coq/."""
    bad = []
    for d in dirs:
        root = os.path.join(COQ, d)
        for dp, _, fns in os.walk(root):
            for fn in fns:
                if not fn.endswith(".v"):
                    continue
                p = os.path.join(dp, fn)
                code = strip_comments(open(p).read())
                for ln, line in enumerate(code.split("\n"), 1):
                    m = FORBIDDEN.search(line)
                    if m:
                        bad.append(f"{p}:{ln}: {m.group(0)}")
                # Variable/Hypothesis outside a section
                depth = 0
                for ln, line in enumerate(code.split("\n"), 1):
                    if re.match(r"\s*Section\b", line):
                        depth += 1
                    elif re.match(r"\s*End\b", line) and depth:
                        depth -= 1
                    elif depth == 0 and re.match(r"\s*(Variable|Variables|Hypothesis|Hypotheses|Context)\b", line):
                        bad.append(f"{p}:{ln}: section-less {line.strip()[:40]}")
    return bad


def _limit_memory(gb):
    def f():
        import resource
        resource.setrlimit(resource.RLIMIT_AS, (gb << 30, gb << 30))
    return f


def run(cmd, cwd=None, timeout=1800, mem_gb=None):
    """mem_gb: address-space cap for the child (case evaluations only: a model fed with observations of a
    broken implementation can blow up; the evaluation then fails instead of exhausting the machine)."""
    try:
        p = subprocess.run(cmd, cwd=cwd, capture_output=True, text=True, timeout=timeout,
                           preexec_fn=_limit_memory(mem_gb) if mem_gb else None)
        return p.returncode, p.stdout + p.stderr
    except subprocess.TimeoutExpired as e:
        return 124, f"TIMEOUT after {timeout}s: {cmd}\n{e.stdout or ''}"


def build(files: list[str], timeout=1800):
    """Compile the given .v files (paths relative to coq/, in dependency order) when their
    .vo is missing or older than the source or than an earlier file of the list.  Each coqc
    call runs under a per-directory lock so that concurrent checks do not collide."""
    os.makedirs(BUILD, exist_ok=True)
    files = ["Base/Prelude.v"] + [f for f in files if f != "Base/Prelude.v"]
    newest_dep = 0.0
    log = []
    for f in files:
        src = os.path.join(COQ, f)
        vo = src + "o"
        lock = os.path.join(BUILD, "." + os.path.dirname(f).replace("/", "_") + ".lock")
        import fcntl
        with open(lock, "w") as lk:
            fcntl.flock(lk, fcntl.LOCK_EX)
            stale = (not os.path.exists(vo)) or os.path.getmtime(vo) < os.path.getmtime(src) or os.path.getmtime(vo) < newest_dep
            if stale:
                rc, out = run(["coqc", "-R", ".", "HS", f], cwd=COQ, timeout=timeout)
                log.append(f"coqc {f}: rc={rc}")
                if rc != 0:
                    return rc, "\n".join(log) + "\n" + out
        newest_dep = max(newest_dep, os.path.getmtime(vo))
    return 0, "\n".join(log)


def obligations(files: list[str], allowed_axioms: set[str], timeout=1800):
    """Recompile the property file, count theorems and read Print Assumptions.

    Returns dict(obligations, discharged, theorems, axioms, errors, checker_cmd).
    """
    props_v = files[-1]
    vo = props_v + "o"
    src = open(os.path.join(COQ, props_v)).read()
    theorems = re.findall(r"^\s*Theorem\s+([A-Za-z0-9_']+)", strip_comments(src), flags=re.M)
    printed = re.findall(r"^\s*Print Assumptions\s+([A-Za-z0-9_']+)\s*\.", strip_comments(src), flags=re.M)
    errors = []
    missing = [t for t in theorems if t not in printed]
    if missing:
        errors.append(f"theorems without Print Assumptions: {missing}")
    rc, out = build(files, timeout=timeout)
    if rc != 0:
        errors.append("build failed: " + out[-3000:])
        return dict(obligations=len(theorems), discharged=0, theorems=theorems, axioms={}, errors=errors,
                    checker_cmd=f"coqc -R . HS {' '.join(files)}")
    # Re-run coqc on the property file alone to capture Print Assumptions output.
    tmpd = os.path.join(BUILD, f"props_{os.getpid()}")
    os.makedirs(tmpd, exist_ok=True)
    rc, out = run(["coqc", "-R", ".", "HS", props_v, "-o", os.path.join(tmpd, os.path.basename(vo))],
                  cwd=COQ, timeout=timeout)
    subprocess.run(["rm", "-rf", tmpd])
    if rc != 0:
        errors.append("coqc of property file failed: " + out[-3000:])
        return dict(obligations=len(theorems), discharged=0, theorems=theorems, axioms={}, errors=errors,
                    checker_cmd=f"coqc -R . HS {props_v}")
    # Parse the outputs in order: one block per Print Assumptions.
    blocks = re.split(r"(?=^Closed under the global context|^Axioms:|^Section Variables:)", out, flags=re.M)
    blocks = [b for b in blocks if b.startswith(("Closed under", "Axioms:", "Section Variables:"))]
    axioms: dict[str, list[str]] = {}
    # merge "Section Variables:" + "Axioms:" pairs is not needed: Props files have no sections
    if len(blocks) != len(printed):
        errors.append(f"expected {len(printed)} Print Assumptions outputs, saw {len(blocks)}")
    for name, b in zip(printed, blocks):
        if b.startswith("Closed under"):
            axioms[name] = []
        else:
            names = re.findall(r"^([A-Za-z0-9_.']+)\s*:", b, flags=re.M)
            names = [n for n in names if n not in ("Axioms",)]
            axioms[name] = names
            for n in names:
                if n not in allowed_axioms:
                    errors.append(f"{name} depends on non-allow-listed axiom {n}")
    discharged = len(theorems) if not errors else 0
    return dict(obligations=len(theorems), discharged=discharged, theorems=theorems, axioms=axioms, errors=errors,
                checker_cmd=f"cd coq && for f in {' '.join(files)}; do coqc -R . HS $f; done  (stale files only; {props_v} always, Print Assumptions under every theorem)")


# ---------------------------------------------------------------------------
# Python value -> Gallina term


class Raw(str):
    """A literal Coq term."""


class Nat(int):
    pass


class SomeV:
    def __init__(self, v):
        self.v = v


class Ctor:
    def __init__(self, name, *args):
        self.name, self.args = name, args


def term(v) -> str:
    if isinstance(v, Raw):
        return str(v)
    if isinstance(v, bool):
        return "true" if v else "false"
    if isinstance(v, Nat):
        return f"{int(v)}%nat"
    if isinstance(v, int):
        return f"({v})" if v < 0 else str(v)
    if v is None:
        return "None"
    if isinstance(v, SomeV):
        return f"(Some {term(v.v)})"
    if isinstance(v, Ctor):
        if not v.args:
            return v.name
        return "(" + v.name + " " + " ".join(term(a) for a in v.args) + ")"
    if isinstance(v, tuple):
        return "(" + ", ".join(term(a) for a in v) + ")"
    if isinstance(v, list):
        return "[" + "; ".join(term(a) for a in v) + "]"
    raise TypeError(f"cannot encode {type(v)}: {v!r}")


def _parse_zlist(out: str):
    m = re.search(r"=\s*(.*?)\n\s*:\s*list Z", out, flags=re.S)
    if not m:
        return None
    return [int(x) for x in re.findall(r"-?\d+", m.group(1))]


def eval_cases(tag: str, imports: str, ok_fn: str, case_type: str, cases: list[str], shard=400, timeout=1500, workers=8):
    """Evaluate `ok_fn` on every case inside Coq (vm_compute) and return
    (mismatch_indices, errors).  Each case is a Gallina term of type case_type."""
    d = os.path.join(COQ, "_scratch", f"{tag}_{os.getpid()}")
    os.makedirs(d, exist_ok=True)
    shards = [cases[i:i + shard] for i in range(0, len(cases), shard)]
    files = []
    for si, sh in enumerate(shards):
        fn = os.path.join(d, f"cases_{si}.v")
        with open(fn, "w") as f:
            f.write(imports + "\nLocal Open Scope Z_scope.\n")
            # one Definition per case: coqc elaborates a single huge list literal superlinearly
            for ci, t in enumerate(sh):
                f.write(f"Definition case_{ci} : {case_type} := {t}.\n")
            f.write(f"Definition cases : list ({case_type}) := [" + "; ".join(f"case_{ci}" for ci in range(len(sh))) + "].\n")
            f.write(f"Eval vm_compute in (mismatches {ok_fn} cases).\n")
        files.append(fn)

    def one(fn):
        return run(["coqc", "-R", COQ, "HS", fn], cwd=d, timeout=timeout, mem_gb=12)

    bad, errors = [], []
    with ThreadPoolExecutor(max_workers=workers) as ex:
        for si, (rc, out) in enumerate(ex.map(one, files)):
            if rc != 0:
                errors.append(f"shard {si}: coqc failed: {out[-1500:]}")
                continue
            idx = _parse_zlist(out)
            if idx is None:
                errors.append(f"shard {si}: cannot parse coqc output: {out[-500:]}")
                continue
            bad.extend(si * shard + i for i in idx)
    if not errors:
        subprocess.run(["rm", "-rf", d])
    return bad, errors


def eval_term(tag: str, imports: str, expr: str, timeout=300) -> str:
    """Evaluate one Gallina expression with vm_compute and return Coq's printed answer."""
    d = os.path.join(COQ, "_scratch", f"{tag}_{os.getpid()}_t")
    os.makedirs(d, exist_ok=True)
    fn = os.path.join(d, "t.v")
    with open(fn, "w") as f:
        f.write(imports + "\nLocal Open Scope Z_scope.\n")
        f.write(f"Eval vm_compute in ({expr}).\n")
    rc, out = run(["coqc", "-R", COQ, "HS", fn], cwd=d, timeout=timeout)
    subprocess.run(["rm", "-rf", d])
    return out.strip()
