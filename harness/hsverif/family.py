"""Generic driver for one *family* of correspondence cases.

A family bundles: a generator of structured inputs, the implementation driver
(runs /repo code, returns observations), the encoder of (input, observations)
as a Gallina term, the name of the model's boolean comparison function, and the
property oracle evaluated on the implementation's observations alone
(independent of the model — this is the failing-input search).
"""
from __future__ import annotations

import json
import os
import traceback
from concurrent.futures import ProcessPoolExecutor
from dataclasses import dataclass, field
from typing import Any, Callable

VERIF = "/verif"


@dataclass
class Family:
    name: str
    imports: str                       # Coq Require lines
    ok_fn: str                         # Gallina: case -> bool
    case_type: str                     # Gallina type of a case
    gen: Callable[[Any], dict]         # rng -> case input (JSON-able dict)
    impl: Callable[[dict], Any]        # input -> observations (JSON-able); may raise
    encode: Callable[[dict, Any], str]  # (input, obs) -> Gallina term
    oracle: Callable[[dict, Any], list]  # (input, obs) -> list of failure dicts ({clause, mechanism, ...})
    nontrivial: Callable[[dict, Any], bool] = lambda c, o: True
    attribute: Callable[[dict, Any, dict], str | None] = lambda c, o, f: None   # -> known-finding id
    parallel: bool = False             # run impl in worker processes
    impl_timeout: float = 60.0
    describe: Callable[[dict], str] = lambda c: ""   # histogram key for the input distribution


def _impl_safe(args):
    impl, c = args
    try:
        return {"ok": impl(c)}
    except Exception as e:  # noqa: BLE001
        # where was it raised?  An AttributeError/TypeError/... whose innermost frame is harness code means an
        # observer of this harness no longer fits the source (renamed private attribute, changed signature):
        # that is a broken correspondence, not a failing input of the property.
        frames = traceback.extract_tb(e.__traceback__)
        inner = frames[-1].filename if frames else ""
        in_harness = "/verif/harness/" in inner or inner.startswith("<")
        observer = in_harness and isinstance(e, (AttributeError, TypeError, KeyError, ImportError, NameError, IndexError)) \
            and not isinstance(e, AssertionError)
        return {"exc": f"{type(e).__name__}: {e}", "tb": traceback.format_exc()[-1500:], "observer_broken": observer}


def run_impl(fam: Family, cases: list[dict]) -> list[dict]:
    if fam.parallel and len(cases) > 8:
        with ProcessPoolExecutor(max_workers=14) as ex:
            return list(ex.map(_impl_safe, [(fam.impl, c) for c in cases], chunksize=max(1, len(cases) // 56)))
    return [_impl_safe((fam.impl, c)) for c in cases]


def _paths_to_lists(v, path=()):
    """All (path, length) of non-empty lists inside a JSON value."""
    out = []
    if isinstance(v, list):
        if v:
            out.append((path, len(v)))
        for i, x in enumerate(v):
            out.extend(_paths_to_lists(x, path + (i,)))
    elif isinstance(v, dict):
        for k, x in v.items():
            out.extend(_paths_to_lists(x, path + (k,)))
    return out


def _delete_at(v, path, idx):
    import copy
    w = copy.deepcopy(v)
    cur = w
    for k in path:
        cur = cur[k]
    del cur[idx]
    return w


def shrink_case(fam: "Family", case: dict, clause: str, budget: int = 120) -> dict:
    """Greedy structural shrinking of a failing input: repeatedly delete one list
    element anywhere in the case while the oracle still reports the same clause
    (and the implementation still runs).  Generic over JSON-shaped cases."""
    def still_fails(c):
        r = _impl_safe((fam.impl, c))
        if "exc" in r:
            return False
        try:
            return any(f.get("clause") == clause for f in fam.oracle(c, r["ok"]))
        except Exception:  # noqa: BLE001
            return False
    cur, spent, progress = case, 0, True
    while progress and spent < budget:
        progress = False
        for path, n in sorted(_paths_to_lists(cur), key=lambda x: -x[1]):
            for idx in range(n - 1, -1, -1):
                if spent >= budget:
                    break
                try:
                    cand = _delete_at(cur, path, idx)
                except Exception:  # noqa: BLE001
                    continue
                spent += 1
                if still_fails(cand):
                    cur, progress = cand, True
                    break
            if progress or spent >= budget:
                break
    return cur


def load_corpus(pid: str, fam: str) -> list[dict]:
    d = os.path.join(VERIF, "corpus", pid)
    out = []
    if os.path.isdir(d):
        for fn in sorted(os.listdir(d)):
            if fn.startswith(fam + ".") and fn.endswith(".json"):
                out.append(json.load(open(os.path.join(d, fn))))
    return out


def run_family(ctx, fam: Family, n: int, search_factor: int = 6) -> dict:
    """Run corpus + n generated cases of a family; returns coverage stats."""
    corpus = load_corpus(ctx.pid, fam.name)
    cases = corpus + [fam.gen(ctx.rng) for _ in range(n)]
    results = run_impl(fam, cases)
    stats = dict(family=fam.name, cases=len(cases), corpus=len(corpus), impl_exceptions=0,
                 mismatches=0, oracle_failures=0, known=0, histogram={})
    terms, keep = [], []
    seen_nontrivial = set()
    for i, (c, r) in enumerate(zip(cases, results)):
        if "exc" in r:
            stats["impl_exceptions"] += 1
            if r.get("observer_broken"):
                ctx.violation("correspondence", dict(family=fam.name, broken="the harness can no longer observe the implementation "
                                                     "(an attribute or signature it reads has changed)", case=c, error=r["exc"], tb=r["tb"]),
                              no_failing_input=True)
            else:
                ctx.violation("oracle", dict(family=fam.name, case=c, failure=dict(clause="implementation raised", error=r["exc"], tb=r["tb"])))
            continue
        o = r["ok"]
        try:
            terms.append(fam.encode(c, o))
        except Exception as e:  # noqa: BLE001
            ctx.violation("correspondence", dict(family=fam.name, case=c, obs=o, error=f"cannot encode observation: {e}"), no_failing_input=True)
            continue
        keep.append(i)
        key = fam.describe(c)
        if key:
            stats["histogram"][key] = stats["histogram"].get(key, 0) + 1
        if fam.nontrivial(c, o):
            seen_nontrivial.add(json.dumps(c, sort_keys=True, default=str))
    bad_local, errs = ctx.coq_cases(fam.name, fam.imports, fam.ok_fn, fam.case_type, terms) if terms else ([], [])
    bad = {keep[j] for j in bad_local}
    stats["mismatches"] = len(bad)
    unattributed = 0
    for i in keep:
        c, o = cases[i], results[i]["ok"]
        for f in fam.oracle(c, o):
            stats["oracle_failures"] += 1
            fid = fam.attribute(c, o, f)
            if fid and i not in bad and not errs and ctx.known(fid, f.get("what", f.get("clause", ""))):
                stats["known"] += 1
                continue
            unattributed += 1
            detail = dict(family=fam.name, case=c, obs=o, failure=f)
            if unattributed == 1 and f.get("clause"):
                try:
                    small = shrink_case(fam, c, f["clause"])
                    if small != c:
                        detail["minimized_case"] = small
                except Exception:  # noqa: BLE001
                    pass
            ctx.violation("oracle", detail)
    if (bad or errs) and not unattributed:
        # Correspondence broke but the oracle saw nothing yet: search more inputs.
        found = False
        extra = [fam.gen(ctx.rng) for _ in range(n * search_factor)]
        for c, r in zip(extra, run_impl(fam, extra)):
            if "exc" in r:
                if r.get("observer_broken"):
                    continue
                ctx.violation("oracle", dict(family=fam.name, case=c, failure=dict(clause="implementation raised", error=r["exc"])))
                found = True
                break
            fs = [f for f in fam.oracle(c, r["ok"]) if not (fam.attribute(c, r["ok"], f) and ctx.is_open(fam.attribute(c, r["ok"], f)))]
            if fs:
                ctx.violation("oracle", dict(family=fam.name, case=c, obs=r["ok"], failure=fs[0], found_by="search after correspondence break"))
                found = True
                break
        if not found:
            first = min(bad) if bad else None
            ctx.violation("correspondence", dict(
                family=fam.name, broken=f"correspondence {fam.ok_fn} (model vs implementation)",
                first_mismatching_case=cases[first] if first is not None else None,
                implementation_observed=results[first]["ok"] if first is not None else None,
                coq_errors=errs[:3], mismatching_cases=len(bad), searched_extra=len(extra)), no_failing_input=True)
    stats["distinct_nontrivial"] = len(seen_nontrivial)
    stats["sample"] = dict(input=cases[keep[-1]], observed=results[keep[-1]]["ok"]) if keep else None
    return stats


def run_oracle_only(ctx, fam, n):
    """A family without a Coq model: corpus + n generated cases, oracle on each, shrinking of the first failure."""
    cases = load_corpus(ctx.pid, fam.name) + [fam.gen(ctx.rng) for _ in range(n)]
    fails, nontrivial = 0, 0
    for c in cases:
        r = _impl_safe((fam.impl, c))
        if "exc" in r:
            if r.get("observer_broken"):
                ctx.violation("correspondence", dict(family=fam.name, broken="the harness can no longer observe the implementation", case=c,
                                                     error=r["exc"], tb=r["tb"]), no_failing_input=True)
            else:
                ctx.violation("oracle", dict(family=fam.name, case=c, failure=dict(clause="implementation raised", error=r["exc"], tb=r["tb"])))
            fails += 1
            continue
        o = r["ok"]
        nontrivial += bool(fam.nontrivial(c, o))
        fs = fam.oracle(c, o)
        if fs:
            fails += 1
            if fails == 1:
                d = dict(family=fam.name, case=c, obs=o, failure=fs[0])
                small = shrink_case(fam, c, fs[0]["clause"])
                if small != c:
                    d["minimized_case"] = small
                ctx.violation("oracle", d)
    return dict(family=fam.name, cases=len(cases), nontrivial=nontrivial, oracle_failures=fails, model="none (oracle only)")


def merge_stats(ctx, all_stats: list[dict], rule: str):
    cov = ctx.coverage
    cov["evaluations"] = sum(s["cases"] for s in all_stats)
    cov["distinct_nontrivial"] = sum(s["distinct_nontrivial"] for s in all_stats)
    cov["traces_validated_against_impl"] = sum(s["cases"] - s["mismatches"] - s["impl_exceptions"] for s in all_stats)
    cov["rule"] = rule
    cov["samples"] = [dict(family=s["family"], **(s["sample"] or {})) for s in all_stats if s.get("sample")]
    cov["families"] = [{k: v for k, v in s.items() if k != "sample"} for s in all_stats]
