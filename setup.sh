#!/bin/bash
# Build the whole Coq development (full .vo build, no -vos) offline.
set -e
mkdir -p "$(dirname "$0")/build"
# the generated Coq files (py2coq translations, site lists) are rewritten from the current source tree first, so
# that what gets built never depends on which tree the committed copies were generated from
( cd "$(dirname "$0")" && HS_REPO="${HS_REPO:-/repo}" PYTHONPATH="${HS_REPO:-/repo}:$(pwd)/harness" /venv/bin/python - <<'PY' || echo "WARNING: regeneration of coq/Gen failed (the checks regenerate on every run)"
import sys
sys.path.insert(0, "harness")
from props import pygen, sitegen
for n in pygen.TARGETS:
    pygen.regenerate(n)
sitegen.regenerate()
PY
)
cd "$(dirname "$0")/coq"
(
  flock 9
  { echo "-R . HS"; find . -name '*.v' ! -path './_scratch/*' | sed 's|^\./||' | sort; } > _CoqProject.new
  if ! cmp -s _CoqProject.new _CoqProject 2>/dev/null || [ ! -f Makefile ]; then
    mv _CoqProject.new _CoqProject
    coq_makefile -f _CoqProject -o Makefile >/dev/null
  else
    rm -f _CoqProject.new
  fi
  if [ "$1" != "--no-build" ]; then
    timeout 3000 make -j16 "${@}" 2>&1 | grep -v '^COQDEP\|^COQC\|^make' || true
    # fail if any .v lacks a .vo
    missing=0
    for f in $(grep '\.v$' _CoqProject); do [ -f "${f}o" ] || { echo "NOT BUILT: $f"; missing=1; }; done
    exit $missing
  fi
) 9>/verif/build/.coq.lock
