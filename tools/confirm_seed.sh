#!/bin/bash
# usage: tools/confirm_seed.sh <PID> <k>   — confirm a seeded change in a scratch export of /repo HEAD:
# demo fails with the change, passes without it, full pinned suite passes with it. Writes /tmp/seed/<PID>/out/change_k/confirm.json
pid=$1; k=$2; src=${SEEDROOT:-/tmp/seed}/$pid/out/change_$k
d=$(mktemp -d /tmp/confirm.XXXXXX)
git -C /repo archive HEAD | tar -x -C "$d"
cd "$d"
cp "$src/demo.py" "$d/demo_seed.py"
PYTHONPATH="$d" timeout 600 /venv/bin/python -W ignore demo_seed.py >/dev/null 2>&1; clean=$?
(git apply --unsafe-paths -p1 "$src/patch.diff" 2>/dev/null || patch -p1 -s < "$src/patch.diff")
PYTHONPATH="$d" timeout 600 /venv/bin/python -W ignore demo_seed.py >/dev/null 2>&1; mutated=$?
timeout 3000 /venv/bin/python -m pytest -q -p no:cacheprovider --timeout=900 -x -o addopts="" 2>&1 | tail -1 > "$d/suite.txt"; suite=$(cat "$d/suite.txt")
echo "{\"demo_exit_without_change\": $clean, \"demo_exit_with_change\": $mutated, \"suite_with_change\": \"$suite\", \"repo_head\": \"$(git -C /repo rev-parse --short HEAD)\"}" > "$src/confirm.json"
cat "$src/confirm.json"
cd /; rm -rf "$d"
