#!/usr/bin/env python3
"""Write seeded/README.md: one row per kept seeded change (from the meta.json files)."""
import json, os
root = "/verif/seeded"
rows = []
for d in sorted(os.listdir(root)):
    mp = os.path.join(root, d, "meta.json")
    if not os.path.exists(mp):
        continue
    m = json.load(open(mp))
    c = m.get("check", {})
    det = c.get("detail") or {}
    how = ""
    if c.get("verdict") == "VIOLATION":
        if det.get("kind") == "oracle":
            how = f"failing input ({det.get('family')}): {det.get('clause')}"
        elif det.get("kind") == "obligation":
            how = "proof obligation / tie lemma broke, no failing input found"
        else:
            how = f"correspondence broke ({det.get('family')}), no failing input found"
    hist = m.get("history", "")
    for other, e in (m.get("also_caught_by") or {}).items():
        if e.get("verdict") == "VIOLATION":
            ed = e.get("detail") or {}
            hist = (hist + "; " if hist else "") + f"caught by {other}'s check ({e.get('tier')}): {ed.get('clause') or ed.get('kind')}"
    rows.append((d, ", ".join(m.get("files") or []), (m.get("needs") or "")[:160].replace("|", "/").replace("\n", " "),
                 c.get("verdict", "?"), c.get("tier", ""), how.replace("|", "/"), hist))
with open(os.path.join(root, "README.md"), "w") as f:
    f.write("# Seeded changes\n\nIndependent breaking changes written by fresh sub-agents that saw only the property text and a scratch worktree of /repo "
            "(prompt: tools/seedprompts/Cxx.txt).  Each one was confirmed by `tools/confirm_seed.sh` in a scratch export of /repo HEAD "
            "(demo passes without / fails with the change; the full pinned suite passes with it) and then run against the property's check with "
            "`HS_REPO=<scratch export with the patch>` (`tools/collect_seed.py`).  None of them is ever applied to /repo.\n\n"
            "| id | files | needs | verdict | tier | how it was caught | history |\n|---|---|---|---|---|---|---|\n")
    for r in rows:
        f.write("| " + " | ".join(str(x) for x in r) + " |\n")
    n = len(rows); c = sum(1 for r in rows if r[3] == "VIOLATION")
    other = sum(1 for r in rows if r[3] != "VIOLATION" and "caught by" in r[6])
    q = sum(1 for r in rows if r[3] == "VIOLATION" and r[4] == "quick")
    f.write(f"\n{c} of {n} caught by their own property's check ({q} by the quick tier), {other} more by another property's check, "
            f"{n - c - other} not caught.\n")
print(len(rows))
