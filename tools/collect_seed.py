#!/usr/bin/env python3
"""Run the property's quick check against a scratch export of /repo with each confirmed seeded
change applied, and store the change under /verif/seeded/<PID>-<k>/ with a meta.json recording
what it breaks, what it needs, my confirmation and which check caught it.
usage: tools/collect_seed.py C01 [C02 ...]"""
import json, os, shutil, subprocess, sys, tempfile

def run_check(pid, patch, tier="quick"):
    d = tempfile.mkdtemp(prefix="seedrun.")
    subprocess.run(f"git -C /repo archive HEAD happysimulator | tar -x -C {d}", shell=True, check=True)
    r = subprocess.run(f"cd {d} && (git apply --unsafe-paths -p1 {patch} 2>/dev/null || patch -p1 -s < {patch})", shell=True)
    env = dict(os.environ, HS_REPO=d, VERIF_SEED="1")
    p = subprocess.run(["./check", pid, "--tier", tier], cwd="/verif", env=env, capture_output=True, text=True)
    out = p.stdout
    verdict = "VIOLATION" if "VIOLATION property=" in out else ("OK" if p.returncode == 0 else f"rc={p.returncode}")
    detail = None
    rp = f"/verif/replays/{pid}_{tier}_1.json"
    if verdict == "VIOLATION" and os.path.exists(rp):
        j = json.load(open(rp))
        f = j.get("detail", {}).get("failure") or {}
        detail = dict(kind=j.get("kind"), no_failing_input=j.get("no_failing_input"), family=j.get("detail", {}).get("family"),
                      clause=(f.get("clause") if isinstance(f, dict) else str(f))[:300] if f else None,
                      minimized=bool(j.get("detail", {}).get("minimized_case")))
    shutil.rmtree(d, ignore_errors=True)
    subprocess.run(['/verif/tools/regen.sh'], capture_output=True)
    return verdict, detail

for pid in sys.argv[1:]:
    for k in range(int(os.environ.get("SEED_FROM", "1")), 20):
        src = os.environ.get("SEEDROOT", "/tmp/seed") + f"/{pid}/out/change_{k}"
        if not os.path.exists(f"{src}/patch.diff"):
            continue
        conf = json.load(open(f"{src}/confirm.json")) if os.path.exists(f"{src}/confirm.json") else None
        if not conf or conf["demo_exit_with_change"] == 0 or conf["demo_exit_without_change"] != 0 or "passed" not in conf["suite_with_change"] or "failed" in conf["suite_with_change"]:
            print(pid, k, "NOT CONFIRMED", conf)
            continue
        verdict, detail = run_check(pid, f"{src}/patch.diff")
        tier = "quick"
        if verdict != "VIOLATION":
            verdict2, detail2 = run_check(pid, f"{src}/patch.diff", "thorough")
            if verdict2 == "VIOLATION":
                verdict, detail, tier = verdict2, detail2, "thorough"
        dst = f"/verif/seeded/{pid}-{k}"
        os.makedirs(dst, exist_ok=True)
        shutil.copy(f"{src}/patch.diff", dst)
        shutil.copy(f"{src}/demo.py", dst)
        meta = json.load(open(f"{src}/meta.json")) if os.path.exists(f"{src}/meta.json") else {}
        meta = dict(property=pid, breaks=meta.get("breaks"), needs=meta.get("needs"), files=meta.get("files"),
                    author="independent sub-agent given only the property text and a scratch worktree",
                    confirmed=dict(conf, how="tools/confirm_seed.sh: scratch export of /repo HEAD; demo without/with the change; full pinned suite with the change"),
                    check=dict(command=f"HS_REPO=<scratch export with patch> ./check {pid} --tier {tier}", verdict=verdict, tier=tier, detail=detail))
        json.dump(meta, open(f"{dst}/meta.json", "w"), indent=1)
        print(pid, k, verdict, tier, detail)
