#!/bin/bash
# regenerate coq/Gen/*.v (py2coq translations, site lists) from /repo — run after any check against a scratch copy
cd "$(dirname "$0")/.."
HS_REPO=/repo PYTHONPATH=/repo:$(pwd)/harness /venv/bin/python - <<'PY'
import sys
sys.path.insert(0, "harness")
from props import pygen, sitegen
for n in pygen.TARGETS:
    ok, info = pygen.regenerate(n)
    if not ok:
        print("regeneration failed:", n, info)
sitegen.regenerate()
PY
