#!/usr/bin/env python3
"""Write the prompt given to an independent seeding sub-agent for one property: ONLY the property's
text and the path of its own scratch worktree of /repo. Nothing from /verif is shown to it.
usage: tools/mkseedprompt.py C11 [n_changes]   -> prints the prompt; creates the worktree /tmp/seed/C11/wt"""
import json, os, subprocess, sys
pid = sys.argv[1]; n = int(sys.argv[2]) if len(sys.argv) > 2 and not sys.argv[2].startswith("-") else 3
start = int(sys.argv[sys.argv.index("--start") + 1]) if "--start" in sys.argv else 1
root = sys.argv[sys.argv.index("--root") + 1] if "--root" in sys.argv else "/tmp/seed"
avoid = sys.argv[sys.argv.index("--avoid") + 1] if "--avoid" in sys.argv else ""
p = next(json.loads(l) for l in open("/verif/properties.jsonl") if json.loads(l)["id"] == pid)
wt = f"{root}/{pid}/wt"; out = f"{root}/{pid}/out"
os.makedirs(out, exist_ok=True)
if not os.path.exists(wt):
    subprocess.run(["git", "-C", "/repo", "worktree", "add", "--detach", wt, "HEAD"], check=True, capture_output=True)
a = p["anchors"]
print(f"""You are helping to evaluate a verification tool chain by writing realistic regressions for a Python library. The library is adamfilli/happy-simulator (a pure-Python discrete-event simulation engine with many simulated components). You have your own scratch git worktree of it at {wt} — work ONLY there. Do not read or write anything under /verif or /repo (other people work there; what you write must be independent of them). Use /venv/bin/python (3.12) with PYTHONPATH={wt}. There is no network.

THE PROPERTY the library is supposed to satisfy (this text is all you get):
title: {p['title']}
statement: {p['statement']}
quantifier: {p['quantifier']['text']}
why the existing tests cannot settle it: {p['why_tests_cant']}
anchored source files: {', '.join(a.get('files', []))}
anchored state/mechanisms: {json.dumps(a.get('state', []) + a.get('mechanisms', []))}

YOUR TASK: produce {n} independent changes to the library source (files under happysimulator/ only, never tests) such that EACH change
 (a) breaks the property above (some clause of it) on the current code — i.e. there is a concrete input/schedule/history on which the unchanged library satisfies the property and the changed library does not;
 (b) still imports, and the whole existing test suite, unedited, still passes with it:  cd {wt} && /venv/bin/python -m pytest -q -p no:cacheprovider --timeout=900 -x -o addopts=""   (≈3000 tests, 3-4 minutes; it must end with "N passed" and no failure);
 (c) needs something SPECIFIC to manifest — a particular interleaving or same-instant tie, a crash or fault at a particular point, a multi-step sequence of operations, an unusual input or configuration, or two cooperating sites that each look fine alone. NOT something that ordinary use would expose at once;
 (d) looks like something a maintainer could plausibly commit: a small "optimisation", refactoring, off-by-one, swapped comparison, dropped guard, reordered statements, stale variable — typically 1-15 changed lines. No sabotage that is obviously deliberate, no environment checks, no special-casing of magic values.
{("Earlier rounds already changed these functions; pick DIFFERENT functions and mechanisms: " + avoid + chr(10)) if avoid else ""}The {n} changes must differ from each other in mechanism and in location (different functions, preferably different files / different clauses of the property). Read the anchored files carefully first and pick places where the property depends on a subtle detail.

NOTE: the current code may already violate some clause of the property in some situations (it has known open defects). A change only counts if your demonstration passes on the unchanged worktree and fails with your change.

FOR EACH change k = {start}..{start + n - 1} write, under {out}/change_k/ :
  patch.diff  — `git -C {wt} diff` of the change against the worktree HEAD (must apply with `git apply -p1` at the repository root);
  demo.py     — a small standalone program that uses the library (imported from PYTHONPATH, public API where possible), builds the specific situation, checks the property clause, and exits 0 if it holds / exits non-zero (assert or sys.exit(1)) if it is violated. Deterministic (fixed seeds), < 60 s, no pytest needed. It must exit 0 on the unchanged worktree and non-zero with the change applied. Guard against hangs (if the change can livelock, bound the run with a max event count or signal.alarm and treat that as failure);
  meta.json   — {{"property": "{pid}", "breaks": "<which clause and how>", "needs": "<what specific situation is needed for it to manifest>", "files": ["<changed files>"], "summary": "<one sentence describing the change as a commit message would>"}}.
Then VERIFY yourself, for each change: demo.py exits 0 on the clean worktree; non-zero with the patch; the full test suite passes with the patch. If the suite fails, choose a different change. After each change restore the worktree with `git -C {wt} checkout -- .` (leave the worktree clean at the end; do not commit).

Your final message: for each change one line — the file/function changed, what it needs to manifest, and the three verification results (demo clean / demo patched / suite).""")
