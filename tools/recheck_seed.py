#!/usr/bin/env python3
"""Re-run a check against stored seeded changes and refresh the `check` entry of their meta.json.
usage: tools/recheck_seed.py C18-9 [C06-8 ...] [--by C04] [--tier quick|thorough]
(--by: run another property's check against the change, recorded under `also_caught_by`)"""
import json, os, shutil, subprocess, sys, tempfile


def run_check(pid, patch, tier="quick"):
    d = tempfile.mkdtemp(prefix="seedrun.")
    subprocess.run(f"git -C /repo archive HEAD happysimulator | tar -x -C {d}", shell=True, check=True)
    r = subprocess.run(f"cd {d} && (git apply --unsafe-paths -p1 {patch} 2>/dev/null || patch -p1 -s < {patch})", shell=True)
    if r.returncode != 0:
        shutil.rmtree(d, ignore_errors=True)
        return "PATCH-DOES-NOT-APPLY", None
    env = dict(os.environ, HS_REPO=d, VERIF_SEED="1")
    p = subprocess.run(["./check", pid, "--tier", tier], cwd="/verif", env=env, capture_output=True, text=True)
    out = p.stdout
    verdict = "VIOLATION" if "VIOLATION property=" in out else ("OK" if p.returncode == 0 else f"rc={p.returncode}")
    detail = None
    rp = f"/verif/replays/{pid}_{tier}_1.json"
    if verdict == "VIOLATION" and os.path.exists(rp):
        j = json.load(open(rp))
        f = j.get("detail", {}).get("failure") or {}
        detail = dict(kind=j.get("kind"), no_failing_input=j.get("no_failing_input"), family=j.get("detail", {}).get("family"),
                      clause=(f.get("clause") if isinstance(f, dict) else str(f))[:300] if f else None,
                      minimized=bool(j.get("detail", {}).get("minimized_case")))
        if detail["kind"] in ("obligation", "correspondence") and not detail["clause"]:
            detail["broken"] = str(j.get("detail", {}).get("broken") or j.get("detail", {}).get("family") or "")[:200]
    shutil.rmtree(d, ignore_errors=True)
    subprocess.run(['/verif/tools/regen.sh'], capture_output=True)
    return verdict, detail


args = sys.argv[1:]
by = args[args.index("--by") + 1] if "--by" in args else None
tier0 = args[args.index("--tier") + 1] if "--tier" in args else None
ids = [a for i, a in enumerate(args) if not a.startswith("--") and (i == 0 or args[i - 1] not in ("--by", "--tier"))]
for sid in ids:
    dst = f"/verif/seeded/{sid}"
    pid = by or sid.split("-")[0]
    meta = json.load(open(f"{dst}/meta.json"))
    tiers = [tier0] if tier0 else ["quick", "thorough"]
    for tier in tiers:
        verdict, detail = run_check(pid, f"{dst}/patch.diff", tier)
        if verdict == "VIOLATION":
            break
    entry = dict(command=f"HS_REPO=<scratch export with patch> ./check {pid} --tier {tier}", verdict=verdict, tier=tier, detail=detail,
                 repo_head=subprocess.run("git -C /repo rev-parse --short HEAD", shell=True, capture_output=True, text=True).stdout.strip())
    if by:
        meta.setdefault("also_caught_by", {})[by] = entry
    else:
        meta["check"] = entry
    json.dump(meta, open(f"{dst}/meta.json", "w"), indent=1)
    print(sid, pid, verdict, tier, detail)
