#!/usr/bin/env python3-vt
"""Regenerate MANIFEST.json from tools/manifest_src.json (per-property entries) and validate it."""
import json, sys
import os, glob
src = {"checks": {}, "not_applicable": {}, "source_commits": [], "notes": "See DESIGN.md. ./check <ID> --tier quick|thorough; evidence/<ID>.json rewritten on every run; KNOWN_FINDINGS.json (assembled from known_findings/<ID>.json) lists recorded defects."}
for fn in sorted(glob.glob('/verif/manifest/C*.json')):
    pid = os.path.basename(fn)[:-5]
    evp = f'/verif/evidence/{pid}.json'
    # claim a property only once its check has produced a clean evidence file
    if not os.path.exists(evp) or json.load(open(evp)).get("violations", 1) != 0:
        print("WARNING:", pid, "has no clean evidence file in the working tree (re-run ./check", pid, "on the unchanged tree before committing)")
    src["checks"][pid] = json.load(open(fn))
if os.path.exists('/verif/manifest/_global.json'):
    src.update(json.load(open('/verif/manifest/_global.json')))
# assemble KNOWN_FINDINGS.json
allf = []
for fn in sorted(glob.glob('/verif/known_findings/C*.json')):
    allf += json.load(open(fn))["findings"]
json.dump({"comment": "Assembled by tools/mkmanifest.py from known_findings/<ID>.json (the files the checks read). Committed; never written at run time. status open = recorded defect (suppresses exactly the described failure, printed as KNOWN-FINDING); status fixed = repaired by the named fix: commit (suppresses nothing).", "findings": allf}, open('/verif/KNOWN_FINDINGS.json', 'w'), indent=1)
props = [json.loads(l) for l in open('/verif/properties.jsonl')]
checks, na = [], []
for p in props:
    e = src["checks"].get(p["id"])
    if e is None:
        na.append(dict(property_id=p["id"], reason=src["not_applicable"].get(p["id"], "check not built yet in this round (design in DESIGN.md section 5); not claimed until its model, theorems and correspondence are committed")))
        continue
    checks.append(dict(
        property_id=p["id"],
        quick_cmd=f"./check {p['id']} --tier quick",
        thorough_cmd=f"./check {p['id']} --tier thorough",
        evidence_file=f"/verif/evidence/{p['id']}.json",
        replay_cmd_template=f"./check {p['id']} --replay {{path}}",
        engine="coq-model+correspondence",
        level_claimed=dict(category=e.get("category", "proof"), text=e["text"], design_ref=e.get("design_ref", f"DESIGN.md section 5 ({p['id']})")),
        level_note=e["note"],
        technique=e["technique"],
    ))
m = dict(
    version=1,
    setup_cmd="./setup.sh",
    hooks=dict(guard="HAPPYSIM_VERIF", enable="no source hooks: checks import /repo as it is (PYTHONPATH=/repo) and observe public state plus the private attributes listed in each harness/props/cXX.py header",
               baseline_off_cmd="cd /repo && /venv/bin/python -m pytest -ra -q -p no:cacheprovider --timeout=900 --continue-on-collection-errors",
               source_commits=src.get("source_commits", []), add_only=True),
    engines=[dict(name="coq-model+correspondence", path="/verif/coq + /verif/harness",
                  serves_properties=[c["property_id"] for c in checks],
                  kind_free_text="Hand-written executable Gallina models with machine-checked theorems (Coq 8.16.1), tied to /repo on every run by a correspondence check: the Python harness runs the implementation on generated inputs, the observations are compared with the model inside Coq (vm_compute over a generated cases.v), and an implementation-side property oracle searches for a failing input.")],
    checks=checks,
    notes=src.get("notes", ""),
    not_applicable=na,
)
json.dump(m, open('/verif/MANIFEST.json', 'w'), indent=1)
import jsonschema
jsonschema.validate(m, json.load(open('/root/.vp/MANIFEST.schema.json')))
print("MANIFEST ok:", len(checks), "checks,", len(na), "not claimed")
