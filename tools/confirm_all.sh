#!/bin/bash
# usage: confirm_all.sh C01 C02 ...   -> runs tools/confirm_seed.sh for every change, 6 in parallel
for p in "$@"; do for k in 1 2 3 4 5 6 7 8 9 10 11 12; do [ -f ${SEEDROOT:-/tmp/seed}/$p/out/change_$k/patch.diff ] && [ ! -f ${SEEDROOT:-/tmp/seed}/$p/out/change_$k/confirm.json ] && echo "$p $k"; done; done | xargs -P 6 -L 1 /verif/tools/confirm_seed.sh > /tmp/confirm_$$.log 2>&1
echo done
