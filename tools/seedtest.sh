#!/bin/bash
# usage: tools/seedtest.sh <PID> <patch.diff> [tier]  — run a check against a scratch copy of /repo with the patch applied
set -e
pid=$1; patch=$2; tier=${3:-quick}
d=$(mktemp -d /tmp/seedtest.XXXXXX)
git -C /repo archive HEAD happysimulator | tar -x -C "$d"
(cd "$d" && git apply --unsafe-paths -p1 "$patch" 2>/dev/null || patch -p1 -s < "$patch")
cd /verif
HS_REPO="$d" VERIF_SEED=${VERIF_SEED:-1} ./check "$pid" --tier "$tier" 2>&1 | grep -v "UserWarning\|ps = Parallel" | tail -3
cp /verif/replays/${pid}_${tier}_${VERIF_SEED:-1}.json "$d.replay.json" 2>/dev/null || true
rm -rf "$d"
/verif/tools/regen.sh >/dev/null 2>&1
echo "replay copy: $d.replay.json"
