(** Property C17 — the theorems the check counts as obligations.  Nothing but
    statements closed by [exact] and [Print Assumptions]. *)
From HS Require Import Base.Prelude C17.Model C17.PBProofs C17.PBConv.
Local Open Scope Z_scope.

(** Primary-backup, every schedule (any message reordering, any interleaving of
    handlers, any number of backups): an acknowledged write (reply future
    resolved with seq [sq]) is the accepted write (w, sq, k, v); it has been
    applied on the primary; in SYNC mode on every backup; in SEMI_SYNC mode on
    at least one backup (when one is configured). *)
Theorem c17_pb_ack_applied : forall c sched s,
  run c init sched = Some s ->
  forall w sq, In (w, sq) (s_replies s) ->
  exists k v, In (w, sq, k, v) (s_accepted s) /\ In (sq, k, v) (ps_log (s_prim s)) /\
    (c_mode c = SYNC -> forall b, In b (bids c) -> In (sq, k, v) (bs_log (s_bak s b))) /\
    (c_mode c = SEMI -> c_nb c <> O -> exists b, In b (bids c) /\ In (sq, k, v) (bs_log (s_bak s b))).
Proof. exact pb_ack_applied. Qed.
Print Assumptions c17_pb_ack_applied.

(** Convergence of primary-backup under arbitrary reordering: REFUTED on the
    faithful model (known finding C17-pb-reorder-diverge). *)
Theorem c17_pb_convergence_refuted : ~ pb_convergence_statement.
Proof. exact pb_convergence_refuted. Qed.
Print Assumptions c17_pb_convergence_refuted.
