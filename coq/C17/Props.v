(** Property C17 — the theorems the check counts as obligations.  Nothing but
    statements closed by [exact] and [Print Assumptions]. *)
From HS Require Import Base.Prelude C17.Model C17.PBProofs C17.PBConv C17.Chain C17.ChainProofs C17.ChainConv C17.ML C17.MLProofs C17.PBFifo C17.RS C17.ChainFifo.
From Coq Require Import Permutation.
Local Open Scope Z_scope.

(** Primary-backup, every schedule (any message reordering, any interleaving of
    handlers, any number of backups): an acknowledged write (reply future
    resolved with seq [sq]) is the accepted write (w, sq, k, v); it has been
    applied on the primary; in SYNC mode on every backup; in SEMI_SYNC mode on
    at least one backup (when one is configured). *)
Theorem c17_pb_ack_applied : forall c sched s,
  run c init sched = Some s ->
  forall w sq, In (w, sq) (s_replies s) ->
  exists k v, In (w, sq, k, v) (s_accepted s) /\ In (sq, k, v) (ps_log (s_prim s)) /\
    (c_mode c = SYNC -> forall b, In b (bids c) -> In (sq, k, v) (bs_log (s_bak s b))) /\
    (c_mode c = SEMI -> c_nb c <> O -> exists b, In b (bids c) /\ In (sq, k, v) (bs_log (s_bak s b))).
Proof. exact pb_ack_applied. Qed.
Print Assumptions c17_pb_ack_applied.

(** Convergence of primary-backup under arbitrary reordering: REFUTED on the
    faithful model (known finding C17-pb-reorder-diverge). *)
Theorem c17_pb_convergence_refuted : ~ pb_convergence_statement.
Proof. exact pb_convergence_refuted. Qed.
Print Assumptions c17_pb_convergence_refuted.

(** Chain replication (build_chain, >= 2 nodes, with or without CRAQ), every
    schedule: an acknowledged write has been applied at every node of the chain. *)
Theorem c17_chain_ack_applied : forall c, (2 <= cc_n c)%nat -> forall sched s,
  crun c cinit sched = Some s ->
  forall w sq, In (w, sq) (k_replies s) ->
  exists k v, In (w, sq, k, v) (k_accepted s) /\
    forall i, 0 <= i < cn c -> In (sq, k, v) (n_log (k_node s i)).
Proof. exact chain_ack_applied. Qed.
Print Assumptions c17_chain_ack_applied.

(** A read served by the tail (directly, or forwarded by a CRAQ node) returns a
    value that has been applied at the tail and at every other node. *)
Theorem c17_chain_tail_read_committed : forall c, (2 <= cc_n c)%nat -> forall sched s,
  crun c cinit sched = Some s ->
  forall rid k v, In (rid, tail_of c, k, Some v) (k_reads s) ->
  exists sq, forall i, 0 <= i < cn c -> In (sq, k, v) (n_log (k_node s i)).
Proof. exact chain_tail_read_committed. Qed.
Print Assumptions c17_chain_tail_read_committed.

(** Chain convergence under reordering: REFUTED (known finding C17-chain-reorder-diverge). *)
Theorem c17_chain_convergence_refuted : ~ chain_convergence_statement.
Proof. exact chain_convergence_refuted. Qed.
Print Assumptions c17_chain_convergence_refuted.

(** CRAQ reads at clean non-tail nodes: REFUTED (known finding C17-craq-dirty-set). *)
Theorem c17_craq_clean_read_refuted : ~ craq_read_statement.
Proof. exact craq_clean_read_refuted. Qed.
Print Assumptions c17_craq_clean_read_refuted.

(** second, independent witness of the same refuted statement (known finding
    C17-craq-check-then-read): dirty check before store.get. *)
Theorem c17_craq_check_then_read_witness :
  craq_violates qwit2_cfg qwit2_sched 1 = true /\ ~ craq_read_statement.
Proof. exact (conj craq_check_then_read_witness (craq_violates_refutes _ _ _ craq_check_then_read_witness)). Qed.
Print Assumptions c17_craq_check_then_read_witness.

(** Multi-leader.  The version merge every replica applies ("dominating vector
    clock wins, otherwise LastWriterWins") is idempotent; on versions whose
    timestamps respect causality and whose (timestamp, writer) keys are distinct
    it is commutative and associative. *)
Theorem c17_ml_merge_laws : forall a b c,
  merge a a = a /\
  (consistent a b -> merge a b = merge b a) /\
  (consistent a b -> consistent b c -> consistent a c -> merge (merge a b) c = merge a (merge b c)).
Proof. intros a b c. exact (conj (merge_idem a) (conj (merge_comm a b) (merge_assoc a b c))). Qed.
Print Assumptions c17_ml_merge_laws.

(** Replicas that receive the same versions of a key in different orders (any
    reordering of Replicate / anti-entropy data) end with the same version. *)
Theorem c17_ml_order_independent : forall init l1 l2,
  Permutation l1 l2 -> pairwise (init :: l1) ->
  fold_left merge l1 init = fold_left merge l2 init.
Proof. exact merge_order_independent. Qed.
Print Assumptions c17_ml_order_independent.

(** The side condition is needed: causally ordered writes stamped with the same
    instant (zero store latency and zero link delay) break associativity. *)
Theorem c17_ml_merge_not_assoc_witness : merge (merge na nb) nc <> merge na (merge nb nc).
Proof. exact merge_not_assoc_witness. Qed.
Print Assumptions c17_ml_merge_not_assoc_witness.

(** Primary-backup convergence, PARTIAL (what does hold of the clause refuted by
    c17_pb_convergence_refuted): when every link delivers Replicate messages in
    send order and every backup store completes its puts in arrival order, then at
    quiescence every backup's log and store are exactly the primary's — all write
    sequences (repeated keys), all modes, any number of backups, any interleaving
    otherwise. *)
Theorem c17_pb_convergence_fifo_partial : forall c sched s,
  run_fifo c init sched = Some s -> quiescent s ->
  forall b, In b (bids c) ->
    bs_log (s_bak s b) = ps_log (s_prim s) /\ bs_store (s_bak s b) = ps_store (s_prim s).
Proof. exact pb_convergence_fifo. Qed.
Print Assumptions c17_pb_convergence_fifo_partial.

(** ReplicatedStore: a put that returned True has been applied on every replica,
    for every interleaving of concurrent puts and gets and every consistency level. *)
Theorem c17_rs_acked_everywhere : forall c sched s,
  rrun c rinit sched = Some s ->
  forall w k v, In (w, k, v) (r_acked s) -> forall i, (i < rc_n c)%nat -> In (k, v) (r_log s i).
Proof. exact rs_acked_everywhere. Qed.
Print Assumptions c17_rs_acked_everywhere.

(** Chain convergence, PARTIAL (what does hold of the clause refuted by
    c17_chain_convergence_refuted): under per-link FIFO delivery and per-store FIFO
    completion every node's log and store equal the head's at quiescence. *)
Theorem c17_chain_convergence_fifo_partial : forall c, (2 <= cc_n c)%nat -> forall sched s,
  crun_fifo c cinit sched = Some s -> cquiescent s ->
  forall i, 0 <= i < cn c ->
    n_log (k_node s i) = n_log (k_node s 0) /\ n_store (k_node s i) = n_store (k_node s 0).
Proof. exact chain_convergence_fifo. Qed.
Print Assumptions c17_chain_convergence_fifo_partial.
