(** C17 — executable model of happysimulator/components/replication/chain_replication.py
    (ChainNode as wired by build_chain, with and without CRAQ).

    Same conventions as Model.v: one step per handler segment, untimed, [step]
    returns [None] for an input that is not enabled.  Node 0 is the HEAD, node
    n-1 the TAIL, the others MIDDLE; head_node = 0, next = i+1, prev = i-1.
    The head's pending ack future of write [seq] is identified by [seq].
    No proofs in this file. *)
From HS Require Import Base.Prelude C17.Model.
Local Open Scope Z_scope.

Record ccfg := {
  cc_n : nat;              (* number of nodes, >= 2 for build_chain *)
  cc_craq : bool;
  cc_wlat : list Z;
  cc_rlat : list Z;
}.

Definition cn (c : ccfg) : Z := Z.of_nat (cc_n c).
Definition tail_of (c : ccfg) : Z := cn c - 1.
Definition is_node (c : ccfg) (i : Z) : bool := (0 <=? i) && (i <? cn c).
Definition is_tail (c : ccfg) (i : Z) : bool := i =? tail_of c.

Inductive cmsg :=
| CWrite (wid key val : Z) (rf : bool)            (* client Write *)
| CRead (rid key : Z) (rf : bool)                 (* client Read *)
| CFwdRead (rid key : Z) (rf : bool)              (* Read forwarded to the tail by a CRAQ node *)
| CProp (dst key val sq : Z)                      (* Propagate to node dst *)
| CAck (key sq : Z)                               (* WriteAck, tail -> head *)
| CCommit (dst key sq : Z)                        (* CommitNotify to node dst *)
| COther.

Definition cmsg_eqb (a b : cmsg) : bool :=
  match a, b with
  | CWrite w k v r, CWrite w' k' v' r' => (w =? w') && (k =? k') && (v =? v') && Bool.eqb r r'
  | CRead i k r, CRead i' k' r' => (i =? i') && (k =? k') && Bool.eqb r r'
  | CFwdRead i k r, CFwdRead i' k' r' => (i =? i') && (k =? k') && Bool.eqb r r'
  | CProp d k v s, CProp d' k' v' s' => (d =? d') && (k =? k') && (v =? v') && (s =? s')
  | CAck k s, CAck k' s' => (k =? k') && (s =? s')
  | CCommit d k s, CCommit d' k' s' => (d =? d') && (k =? k') && (s =? s')
  | COther, COther => true
  | _, _ => false
  end.

Fixpoint ctake (m : cmsg) (l : list cmsg) : option (list cmsg) :=
  match l with
  | [] => None
  | x :: r => if cmsg_eqb m x then Some r
              else match ctake m r with Some r' => Some (x :: r') | None => None end
  end.

Inductive cpc :=
| HWPut (wid key val sq : Z) (rf : bool)     (* head _handle_write inside store.put *)
| HWSent (wid key sq : Z) (rf : bool)        (* after [yield 0.0, [prop_event]] *)
| HWWait (wid key sq : Z) (rf : bool)        (* parked on the ack future *)
| PPut (key val sq : Z)                      (* _handle_propagate inside store.put *)
| PFwd                                       (* middle: after forwarding *)
| PAcked (key sq : Z)                        (* tail: after [yield 0.0, [ack_event]] *)
| PNotified                                  (* tail: after the commit notifications *)
| RGet (rid key : Z) (rf : bool)             (* _handle_read inside store.get *)
| RFwd.                                      (* after forwarding a dirty read to the tail *)

Record cproc := { cp_id : Z; cp_node : Z; cp_pc : cpc }.

Record cnode := {
  n_store : dict;
  n_seq : Z; n_writes : Z; n_psent : Z; n_precv : Z; n_acks : Z; n_reads : Z;
  n_dirty : list Z;          (* _dirty_keys, kept sorted *)
  n_pending : list Z;        (* keys of _pending_writes in insertion order *)
  n_log : list (Z * Z * Z);  (* ghost: completed puts (seq, key, value) *)
}.

Record cstate := {
  k_node : Z -> cnode;
  k_procs : list cproc;
  k_next : Z;
  k_net : list cmsg;
  k_res : list Z;                         (* resolved ack futures (seq) *)
  k_replies : list (Z * Z);               (* ghost: acknowledged writes (wid, seq) *)
  k_accepted : list (Z * Z * Z * Z);      (* ghost: accepted writes (wid, seq, key, value) *)
  k_reads : list (Z * Z * Z * option Z);  (* ghost: served reads (rid, node, key, value) *)
}.

Definition cnode0 : cnode :=
  {| n_store := []; n_seq := 0; n_writes := 0; n_psent := 0; n_precv := 0; n_acks := 0; n_reads := 0;
     n_dirty := []; n_pending := []; n_log := [] |}.
Definition cinit : cstate :=
  {| k_node := fun _ => cnode0; k_procs := []; k_next := 0; k_net := []; k_res := []; k_replies := [];
     k_accepted := []; k_reads := [] |}.

Inductive cinp := CStart (n : Z) (m : cmsg) | CResume (pid : Z).

Inductive cout :=
| COSend (m : cmsg)
| COResolve (sq : Z)
| COReply (wid sq : Z)
| COReplyErr (wid : Z)                    (* {"status": "error", "reason": "not_head"} *)
| COReadReply (rid : Z) (v : option Z).

(* ------------------------------------------------------------------ *)
Fixpoint sins (k : Z) (l : list Z) : list Z :=
  match l with
  | [] => [k]
  | x :: r => if k <? x then k :: l else if k =? x then l else x :: sins k r
  end.
Definition sdel (k : Z) (l : list Z) : list Z := filter (fun x => negb (x =? k)) l.
Definition zmem (k : Z) (l : list Z) : bool := existsb (Z.eqb k) l.

Fixpoint cfind (pid : Z) (l : list cproc) : option cproc :=
  match l with
  | [] => None
  | p :: r => if cp_id p =? pid then Some p else cfind pid r
  end.
Fixpoint cset (pid : Z) (c : cpc) (l : list cproc) : list cproc :=
  match l with
  | [] => []
  | p :: r => if cp_id p =? pid then {| cp_id := pid; cp_node := cp_node p; cp_pc := c |} :: r
              else p :: cset pid c r
  end.
Fixpoint cdel (pid : Z) (l : list cproc) : list cproc :=
  match l with
  | [] => []
  | p :: r => if cp_id p =? pid then r else p :: cdel pid r
  end.

Definition set_node (s : cstate) (i : Z) (nd : cnode) : cstate :=
  {| k_node := upd (k_node s) i nd; k_procs := k_procs s; k_next := k_next s; k_net := k_net s;
     k_res := k_res s; k_replies := k_replies s; k_accepted := k_accepted s; k_reads := k_reads s |}.
Definition set_procs (s : cstate) (l : list cproc) : cstate :=
  {| k_node := k_node s; k_procs := l; k_next := k_next s; k_net := k_net s;
     k_res := k_res s; k_replies := k_replies s; k_accepted := k_accepted s; k_reads := k_reads s |}.
Definition set_net (s : cstate) (l : list cmsg) : cstate :=
  {| k_node := k_node s; k_procs := k_procs s; k_next := k_next s; k_net := l;
     k_res := k_res s; k_replies := k_replies s; k_accepted := k_accepted s; k_reads := k_reads s |}.
Definition set_res (s : cstate) (l : list Z) : cstate :=
  {| k_node := k_node s; k_procs := k_procs s; k_next := k_next s; k_net := k_net s;
     k_res := l; k_replies := k_replies s; k_accepted := k_accepted s; k_reads := k_reads s |}.
Definition set_replies (s : cstate) (l : list (Z * Z)) : cstate :=
  {| k_node := k_node s; k_procs := k_procs s; k_next := k_next s; k_net := k_net s;
     k_res := k_res s; k_replies := l; k_accepted := k_accepted s; k_reads := k_reads s |}.
Definition set_accepted (s : cstate) (l : list (Z * Z * Z * Z)) : cstate :=
  {| k_node := k_node s; k_procs := k_procs s; k_next := k_next s; k_net := k_net s;
     k_res := k_res s; k_replies := k_replies s; k_accepted := l; k_reads := k_reads s |}.
Definition set_reads (s : cstate) (l : list (Z * Z * Z * option Z)) : cstate :=
  {| k_node := k_node s; k_procs := k_procs s; k_next := k_next s; k_net := k_net s;
     k_res := k_res s; k_replies := k_replies s; k_accepted := k_accepted s; k_reads := l |}.
Definition cbump (s : cstate) : cstate :=
  {| k_node := k_node s; k_procs := k_procs s; k_next := k_next s + 1; k_net := k_net s;
     k_res := k_res s; k_replies := k_replies s; k_accepted := k_accepted s; k_reads := k_reads s |}.
Definition cspawn (s : cstate) (n : Z) (c : cpc) : cstate :=
  cbump (set_procs s (k_procs s ++ [{| cp_id := k_next s; cp_node := n; cp_pc := c |}])).

(** field updates of one node *)
Definition nd_upd (nd : cnode) (store : dict) (sq wr ps pr ak rd : Z) (dirty pending : list Z)
  (log : list (Z * Z * Z)) : cnode :=
  {| n_store := store; n_seq := sq; n_writes := wr; n_psent := ps; n_precv := pr; n_acks := ak;
     n_reads := rd; n_dirty := dirty; n_pending := pending; n_log := log |}.

(* ------------------------------------------------------------------ *)
(** * First segments *)
Definition c_write_start (c : ccfg) (s : cstate) (i wid k v : Z) (rf : bool) : cstate * list cout * yld :=
  if i =? 0 then
    let nd := k_node s 0 in
    let sq := n_seq nd + 1 in
    let nd' := nd_upd nd (n_store nd) sq (n_writes nd + 1) (n_psent nd) (n_precv nd) (n_acks nd)
                      (n_reads nd) (n_dirty nd) (n_pending nd) (n_log nd) in
    let s1 := set_accepted (set_node s 0 nd') ((wid, sq, k, v) :: k_accepted s) in
    (cspawn s1 0 (HWPut wid k v sq rf), [], YDelay (lat (cc_wlat c) 0))
  else
    (cbump s, if rf then [COReplyErr wid] else [], YEnd).

Definition c_read_start (c : ccfg) (s : cstate) (i rid k : Z) (rf : bool) : cstate * list cout * yld :=
  let nd := k_node s i in
  if cc_craq c && negb (is_tail c i) && zmem k (n_dirty nd) then
    let m := CFwdRead rid k rf in
    (cspawn (set_net s (k_net s ++ [m])) i RFwd, [COSend m], YEvents 0)
  else
    let nd' := nd_upd nd (n_store nd) (n_seq nd) (n_writes nd) (n_psent nd) (n_precv nd) (n_acks nd)
                      (n_reads nd + 1) (n_dirty nd) (n_pending nd) (n_log nd) in
    (cspawn (set_node s i nd') i (RGet rid k rf), [], YDelay (lat (cc_rlat c) i)).

Definition c_prop_start (c : ccfg) (s : cstate) (i k v sq : Z) : cstate * list cout * yld :=
  let nd := k_node s i in
  let nd' := nd_upd nd (n_store nd) (n_seq nd) (n_writes nd) (n_psent nd) (n_precv nd + 1) (n_acks nd)
                    (n_reads nd) (n_dirty nd) (n_pending nd) (n_log nd) in
  (cspawn (set_node s i nd') i (PPut k v sq), [], YDelay (lat (cc_wlat c) i)).

(** _handle_write_ack: resolve the pending future of [seq] if there is one *)
Definition c_ack (s : cstate) (i sq : Z) : cstate * list cout * yld :=
  let nd := k_node s i in
  if zmem sq (n_pending nd) && negb (zmem sq (k_res s)) then
    (cbump (set_res s (sq :: k_res s)), [COResolve sq], YEnd)
  else (cbump s, [], YEnd).

Definition c_commit (c : ccfg) (s : cstate) (i k : Z) : cstate * list cout * yld :=
  let nd := k_node s i in
  if cc_craq c then
    let nd' := nd_upd nd (n_store nd) (n_seq nd) (n_writes nd) (n_psent nd) (n_precv nd) (n_acks nd)
                      (n_reads nd) (sdel k (n_dirty nd)) (n_pending nd) (n_log nd) in
    (cbump (set_node s i nd'), [], YEnd)
  else (cbump s, [], YEnd).

Definition cstart (c : ccfg) (s : cstate) (i : Z) (m : cmsg) : option (cstate * list cout * yld) :=
  if is_node c i then
    match m with
    | CWrite wid k v rf => Some (c_write_start c s i wid k v rf)
    | CRead rid k rf => Some (c_read_start c s i rid k rf)
    | CFwdRead rid k rf =>
        if is_tail c i then
          match ctake m (k_net s) with
          | Some net' => Some (c_read_start c (set_net s net') i rid k rf)
          | None => None
          end
        else None
    | CProp d k v sq =>
        if d =? i then
          match ctake m (k_net s) with
          | Some net' => Some (c_prop_start c (set_net s net') i k v sq)
          | None => None
          end
        else None
    | CAck k sq =>
        if i =? 0 then
          match ctake m (k_net s) with
          | Some net' => Some (c_ack (set_net s net') i sq)
          | None => None
          end
        else None
    | CCommit d k sq =>
        if d =? i then
          match ctake m (k_net s) with
          | Some net' => Some (c_commit c (set_net s net') i k)
          | None => None
          end
        else None
    | COther => Some (cbump s, [], YEnd)
    end
  else None.

(* ------------------------------------------------------------------ *)
(** * Later segments *)
Definition c_reply (s : cstate) (wid sq : Z) (rf : bool) : cstate :=
  if rf then set_replies s ((wid, sq) :: k_replies s) else s.

(** head: store.put returned *)
Definition h_put_done (c : ccfg) (s : cstate) (pid wid k v sq : Z) (rf : bool) : cstate * list cout * yld :=
  let nd := k_node s 0 in
  let m := CProp 1 k v sq in
  let nd' := nd_upd nd (dput k v (n_store nd)) (n_seq nd) (n_writes nd) (n_psent nd + 1) (n_precv nd)
                    (n_acks nd) (n_reads nd) (if cc_craq c then sins k (n_dirty nd) else n_dirty nd)
                    (n_pending nd ++ [sq]) (n_log nd ++ [(sq, k, v)]) in
  let s1 := set_net (set_node s 0 nd') (k_net s ++ [m]) in
  (set_procs s1 (cset pid (HWSent wid k sq rf) (k_procs s1)), [COSend m], YEvents 0).

(** head: the ack future is resolved *)
Definition h_acked (c : ccfg) (s : cstate) (pid wid k sq : Z) (rf : bool) : cstate * list cout * yld :=
  let nd := k_node s 0 in
  let nd' := nd_upd nd (n_store nd) (n_seq nd) (n_writes nd) (n_psent nd) (n_precv nd) (n_acks nd)
                    (n_reads nd) (if cc_craq c then sdel k (n_dirty nd) else n_dirty nd)
                    (sdel sq (n_pending nd)) (n_log nd) in
  let s1 := set_procs (set_node s 0 nd') (cdel pid (k_procs s)) in
  (c_reply s1 wid sq rf, if rf then [COReply wid sq] else [], YEnd).

(** middle / tail: store.put returned *)
Definition p_put_done (c : ccfg) (s : cstate) (pid i k v sq : Z) : cstate * list cout * yld :=
  let nd := k_node s i in
  let dirty := if cc_craq c then sins k (n_dirty nd) else n_dirty nd in
  if is_tail c i then
    let m := CAck k sq in
    let nd' := nd_upd nd (dput k v (n_store nd)) (n_seq nd) (n_writes nd) (n_psent nd) (n_precv nd)
                      (n_acks nd + 1) (n_reads nd) dirty (n_pending nd) (n_log nd ++ [(sq, k, v)]) in
    let s1 := set_net (set_node s i nd') (k_net s ++ [m]) in
    (set_procs s1 (cset pid (PAcked k sq) (k_procs s1)), [COSend m], YEvents 0)
  else
    let m := CProp (i + 1) k v sq in
    let nd' := nd_upd nd (dput k v (n_store nd)) (n_seq nd) (n_writes nd) (n_psent nd + 1) (n_precv nd)
                      (n_acks nd) (n_reads nd) dirty (n_pending nd) (n_log nd ++ [(sq, k, v)]) in
    let s1 := set_net (set_node s i nd') (k_net s ++ [m]) in
    (set_procs s1 (cset pid PFwd (k_procs s1)), [COSend m], YEvents 0).

(** upstream nodes, nearest first: prev, prev.prev, ..., head *)
Definition upstream (i : Z) : list Z := map (fun j => i - 1 - Z.of_nat j) (seq 0 (Z.to_nat i)).

(** tail: after the ack was handed to the network *)
Definition t_acked (c : ccfg) (s : cstate) (pid i k sq : Z) : cstate * list cout * yld :=
  if cc_craq c then
    let nd := k_node s i in
    let nd' := nd_upd nd (n_store nd) (n_seq nd) (n_writes nd) (n_psent nd) (n_precv nd) (n_acks nd)
                      (n_reads nd) (sdel k (n_dirty nd)) (n_pending nd) (n_log nd) in
    let ms := map (fun j => CCommit j k sq) (upstream i) in
    let s1 := set_net (set_node s i nd') (k_net s ++ ms) in
    match ms with
    | [] => (set_procs s1 (cdel pid (k_procs s1)), [], YEnd)
    | _ => (set_procs s1 (cset pid PNotified (k_procs s1)), map COSend ms, YEvents 0)
    end
  else (set_procs s (cdel pid (k_procs s)), [], YEnd).

Definition r_done (s : cstate) (pid i rid k : Z) (rf : bool) : cstate * list cout * yld :=
  let v := dget k (n_store (k_node s i)) in
  let s1 := set_procs s (cdel pid (k_procs s)) in
  (set_reads s1 ((rid, i, k, v) :: k_reads s1), if rf then [COReadReply rid v] else [], YEnd).

Definition cresume (c : ccfg) (s : cstate) (pid : Z) : option (cstate * list cout * yld) :=
  match cfind pid (k_procs s) with
  | None => None
  | Some p =>
      let i := cp_node p in
      match cp_pc p with
      | HWPut wid k v sq rf => Some (h_put_done c s pid wid k v sq rf)
      | HWSent wid k sq rf => Some (set_procs s (cset pid (HWWait wid k sq rf) (k_procs s)), [], YFuture)
      | HWWait wid k sq rf => if zmem sq (k_res s) then Some (h_acked c s pid wid k sq rf) else None
      | PPut k v sq => Some (p_put_done c s pid i k v sq)
      | PAcked k sq => Some (t_acked c s pid i k sq)
      | RGet rid k rf => Some (r_done s pid i rid k rf)
      | PFwd | PNotified | RFwd => Some (set_procs s (cdel pid (k_procs s)), [], YEnd)
      end
  end.

Definition cstep (c : ccfg) (s : cstate) (i : cinp) : option (cstate * list cout * yld) :=
  match i with
  | CStart n m => cstart c s n m
  | CResume pid => cresume c s pid
  end.

Fixpoint crun (c : ccfg) (s : cstate) (sched : list cinp) : option cstate :=
  match sched with
  | [] => Some s
  | i :: r => match cstep c s i with
              | Some (s', _, _) => crun c s' r
              | None => None
              end
  end.

Definition cquiescent (s : cstate) : Prop := k_net s = [] /\ k_procs s = [].
Definition cnodes (c : ccfg) : list Z := map Z.of_nat (seq 0 (cc_n c)).

(* ------------------------------------------------------------------ *)
(** * Comparison with the implementation's recorded trace *)
Definition cout_eqb (a b : cout) : bool :=
  match a, b with
  | COSend m, COSend m' => cmsg_eqb m m'
  | COResolve s, COResolve s' => s =? s'
  | COReply w s, COReply w' s' => (w =? w') && (s =? s')
  | COReplyErr w, COReplyErr w' => w =? w'
  | COReadReply r v, COReadReply r' v' => (r =? r') && oz_eqb v v'
  | _, _ => false
  end.

(** store items; counters, -1, sorted dirty keys, -1, pending seqs *)
Definition cobs_node (s : cstate) (i : Z) : node_obs :=
  let nd := k_node s i in
  (n_store nd,
   [n_seq nd; n_writes nd; n_psent nd; n_precv nd; n_acks nd; n_reads nd] ++ [-1] ++ n_dirty nd ++ [-1] ++ n_pending nd).

Definition cnode_of_inp (s : cstate) (i : cinp) : Z :=
  match i with
  | CStart n _ => n
  | CResume pid => match cfind pid (k_procs s) with Some p => cp_node p | None => -1 end
  end.

Definition cseg : Type := cinp * list cout * yld * option node_obs.

Fixpoint creplay (c : ccfg) (s : cstate) (tr : list cseg) : option cstate :=
  match tr with
  | [] => Some s
  | (i, outs, y, ob) :: r =>
      let n := cnode_of_inp s i in
      match cstep c s i with
      | None => None
      | Some (s', outs', y') =>
          if list_eqb cout_eqb outs' outs && yld_eqb y' y
             && obs_eqb (cobs_node s' n) (match ob with Some o => o | None => cobs_node s n end)
          then creplay c s' r else None
      end
  end.

Definition mk_ccfg (e : nat * bool * list Z * list Z) : ccfg :=
  let '(n, q, wl, rl) := e in {| cc_n := n; cc_craq := q; cc_wlat := wl; cc_rlat := rl |}.

Definition ok_chain (cs : (nat * bool * list Z * list Z) * list cseg * final_obs) : bool :=
  let '(ce, tr, (nodes, nnet, nprocs)) := cs in
  let c := mk_ccfg ce in
  match creplay c cinit tr with
  | None => false
  | Some s =>
      forallb2 (fun n o => obs_eqb (cobs_node s n) (fst o) && list_eqb zz_eqb (log_kv (n_log (k_node s n))) (snd o))
               (cnodes c) nodes
      && (Z.of_nat (length (k_net s)) =? nnet) && (Z.of_nat (length (k_procs s)) =? nprocs)
  end.
