(** C17 — executable model of happysimulator/components/replication/primary_backup.py
    (PrimaryNode, BackupNode) over happysimulator/components/datastore/kv_store.py.

    Every [handle_event] of the real classes is a generator; the model is a step
    machine with one process state per [yield].  One model step = one *segment*
    of a real handler: from its invocation (or resumption) to its next [yield]
    (or its end).  The model is untimed: a schedule is any sequence of
      - [IStart n m]  : the engine invokes [handle_event] of node [n] with message [m]
                        (a client Write/Read, or the delivery of an in-flight network message),
      - [IResume pid] : the engine resumes the suspended handler [pid].
    [step] returns [None] when the input is not enabled (message not in flight,
    process parked on a future that is not resolved, unknown pid).  All message
    reorderings, all delays and all interleavings of handlers are schedules.

    Node 0 is the primary, nodes 1..nb the backups.  Keys, values, request ids
    are [Z].  Ack futures are identified by (seq, backup); reply futures by the
    client's request id.  No proofs in this file. *)
From HS Require Import Base.Prelude.
Local Open Scope Z_scope.

(* ------------------------------------------------------------------ *)
(** * Python dicts with insertion order (KVStore._data) *)
Definition dict := list (Z * Z).

Fixpoint dget (k : Z) (m : dict) : option Z :=
  match m with
  | [] => None
  | (k', v) :: r => if Z.eqb k k' then Some v else dget k r
  end.

Fixpoint dput (k v : Z) (m : dict) : dict :=
  match m with
  | [] => [(k, v)]
  | (k', v') :: r => if Z.eqb k k' then (k', v) :: r else (k', v') :: dput k v r
  end.

(** total maps with default 0 (the code reads them with [.get(k, 0)]) *)
Definition zset (k v : Z) (m : dict) : dict := dput k v m.

Definition upd {V} (f : Z -> V) (k : Z) (v : V) : Z -> V :=
  fun k' => if Z.eqb k' k then v else f k'.

(* ------------------------------------------------------------------ *)
(** * Configuration, messages, processes *)
Inductive mode := ASYNC | SEMI | SYNC.

Record cfg := {
  c_mode : mode;
  c_nb : nat;                 (* number of backups *)
  c_wlat : list Z;            (* store write latency per node (microseconds) *)
  c_rlat : list Z;            (* store read latency per node *)
  c_serve : list bool;        (* BackupNode.serve_reads per node (index 0 unused) *)
}.

Definition lat (l : list Z) (n : Z) : Z := nth (Z.to_nat n) l 0.
Definition serves (c : cfg) (n : Z) : bool := nth (Z.to_nat n) (c_serve c) true.
Definition bids (c : cfg) : list Z := map Z.of_nat (seq 1 (c_nb c)).
Definition is_backup (c : cfg) (n : Z) : bool := (1 <=? n) && (n <=? Z.of_nat (c_nb c)).

Inductive msg :=
| MWrite (wid key val : Z) (rf : bool)          (* client Write; rf = a reply_future is attached *)
| MRead (rid key : Z) (rf : bool)               (* client Read *)
| MReplicate (b key val sq : Z) (fut : bool)    (* primary -> backup b; fut = ack_future attached *)
| MAck (b sq : Z)                               (* backup b -> primary: ReplicationAck *)
| MOther.                                       (* any other event type *)

Definition msg_eqb (a b : msg) : bool :=
  match a, b with
  | MWrite w k v r, MWrite w' k' v' r' => (w =? w') && (k =? k') && (v =? v') && Bool.eqb r r'
  | MRead i k r, MRead i' k' r' => (i =? i') && (k =? k') && Bool.eqb r r'
  | MReplicate b k v s f, MReplicate b' k' v' s' f' =>
      (b =? b') && (k =? k') && (v =? v') && (s =? s') && Bool.eqb f f'
  | MAck b s, MAck b' s' => (b =? b') && (s =? s')
  | MOther, MOther => true
  | _, _ => false
  end.

(** remove the first occurrence; [None] when absent *)
Fixpoint take_msg (m : msg) (l : list msg) : option (list msg) :=
  match l with
  | [] => None
  | x :: r => if msg_eqb m x then Some r
              else match take_msg m r with Some r' => Some (x :: r') | None => None end
  end.

Inductive pc :=
| PWPut (wid key val sq : Z) (rf : bool)   (* PrimaryNode._handle_write inside store.put *)
| PWSent (wid sq : Z) (rf : bool)          (* after [yield 0.0, events] *)
| PWWait (wid sq : Z) (rf : bool)          (* parked on ack future / any_of / all_of *)
| PRGet (rid key : Z) (rf : bool)          (* _handle_read inside store.get (primary or backup) *)
| PBPut (key val sq : Z) (fut : bool)      (* BackupNode._handle_replicate inside store.put *)
| PBSent.                                  (* after [yield 0.0, [ack_event]] *)

Record proc := { p_id : Z; p_node : Z; p_pc : pc }.

Record prim := {
  ps_store : dict; ps_seq : Z; ps_writes : Z; ps_reads : Z; ps_sent : Z; ps_acks : Z;
  ps_lag : dict;      (* _backup_lag[b.name] *)
  ps_acked : dict;    (* _backup_lag["_acked_" + b.name] *)
  ps_log : list (Z * Z * Z);   (* ghost: completed local puts (seq, key, value), oldest first *)
}.

Record bak := {
  bs_store : dict; bs_applied : Z; bs_reads : Z; bs_last : Z;
  bs_log : list (Z * Z * Z);   (* ghost: completed puts (seq, key, value), oldest first *)
}.

Record state := {
  s_prim : prim;
  s_bak : Z -> bak;
  s_procs : list proc;          (* suspended handlers, in creation order *)
  s_next : Z;                   (* next process id *)
  s_net : list msg;             (* in-flight network messages, in send order *)
  s_res : list (Z * Z);         (* resolved ack futures (seq, backup) *)
  s_replies : list (Z * Z);     (* ghost: resolved reply futures (wid, seq), newest first *)
  s_accepted : list (Z * Z * Z * Z);  (* ghost: accepted writes (wid, seq, key, value) *)
}.

Definition prim0 : prim :=
  {| ps_store := []; ps_seq := 0; ps_writes := 0; ps_reads := 0; ps_sent := 0; ps_acks := 0;
     ps_lag := []; ps_acked := []; ps_log := [] |}.
Definition bak0 : bak :=
  {| bs_store := []; bs_applied := 0; bs_reads := 0; bs_last := 0; bs_log := [] |}.
Definition init : state :=
  {| s_prim := prim0; s_bak := fun _ => bak0; s_procs := []; s_next := 0; s_net := [];
     s_res := []; s_replies := []; s_accepted := [] |}.

Inductive inp := IStart (n : Z) (m : msg) | IResume (pid : Z).

Inductive out :=
| OSend (m : msg)
| OResolve (sq b : Z)                                  (* ack_future.resolve *)
| OReply (wid sq : Z)                                  (* reply_future.resolve({"status": "ok", "seq": seq}) *)
| OReadReply (rid : Z) (v : option Z) (stale : bool) (sq : Z).

Inductive yld := YDelay (d : Z) | YEvents (d : Z) | YFuture | YEnd.

(* ------------------------------------------------------------------ *)
(** * Process table helpers *)
Fixpoint find_proc (pid : Z) (l : list proc) : option proc :=
  match l with
  | [] => None
  | p :: r => if p_id p =? pid then Some p else find_proc pid r
  end.

Fixpoint set_pc (pid : Z) (c : pc) (l : list proc) : list proc :=
  match l with
  | [] => []
  | p :: r => if p_id p =? pid then {| p_id := pid; p_node := p_node p; p_pc := c |} :: r
              else p :: set_pc pid c r
  end.

Fixpoint del_proc (pid : Z) (l : list proc) : list proc :=
  match l with
  | [] => []
  | p :: r => if p_id p =? pid then r else p :: del_proc pid r
  end.

Definition mem2 (a b : Z) (l : list (Z * Z)) : bool :=
  existsb (fun p => (fst p =? a) && (snd p =? b)) l.

(* ------------------------------------------------------------------ *)
(** * State update helpers *)
Definition with_prim (s : state) (p : prim) : state :=
  {| s_prim := p; s_bak := s_bak s; s_procs := s_procs s; s_next := s_next s; s_net := s_net s;
     s_res := s_res s; s_replies := s_replies s; s_accepted := s_accepted s |}.
Definition with_bak (s : state) (n : Z) (b : bak) : state :=
  {| s_prim := s_prim s; s_bak := upd (s_bak s) n b; s_procs := s_procs s; s_next := s_next s;
     s_net := s_net s; s_res := s_res s; s_replies := s_replies s; s_accepted := s_accepted s |}.
Definition with_procs (s : state) (l : list proc) : state :=
  {| s_prim := s_prim s; s_bak := s_bak s; s_procs := l; s_next := s_next s; s_net := s_net s;
     s_res := s_res s; s_replies := s_replies s; s_accepted := s_accepted s |}.
Definition with_net (s : state) (l : list msg) : state :=
  {| s_prim := s_prim s; s_bak := s_bak s; s_procs := s_procs s; s_next := s_next s; s_net := l;
     s_res := s_res s; s_replies := s_replies s; s_accepted := s_accepted s |}.
Definition with_res (s : state) (l : list (Z * Z)) : state :=
  {| s_prim := s_prim s; s_bak := s_bak s; s_procs := s_procs s; s_next := s_next s; s_net := s_net s;
     s_res := l; s_replies := s_replies s; s_accepted := s_accepted s |}.
Definition with_replies (s : state) (l : list (Z * Z)) : state :=
  {| s_prim := s_prim s; s_bak := s_bak s; s_procs := s_procs s; s_next := s_next s; s_net := s_net s;
     s_res := s_res s; s_replies := l; s_accepted := s_accepted s |}.
Definition with_accepted (s : state) (l : list (Z * Z * Z * Z)) : state :=
  {| s_prim := s_prim s; s_bak := s_bak s; s_procs := s_procs s; s_next := s_next s; s_net := s_net s;
     s_res := s_res s; s_replies := s_replies s; s_accepted := l |}.
Definition bump_next (s : state) : state :=
  {| s_prim := s_prim s; s_bak := s_bak s; s_procs := s_procs s; s_next := s_next s + 1; s_net := s_net s;
     s_res := s_res s; s_replies := s_replies s; s_accepted := s_accepted s |}.

Definition spawn (s : state) (n : Z) (c : pc) : state :=
  bump_next (with_procs s (s_procs s ++ [{| p_id := s_next s; p_node := n; p_pc := c |}])).

(* ------------------------------------------------------------------ *)
(** * Handlers: first segment (invocation of handle_event) *)

(** PrimaryNode._handle_write up to the yield inside store.put *)
Definition prim_write_start (c : cfg) (s : state) (wid k v : Z) (rf : bool) : state * list out * yld :=
  let p := s_prim s in
  let sq := ps_seq p + 1 in
  let p' := {| ps_store := ps_store p; ps_seq := sq; ps_writes := ps_writes p + 1; ps_reads := ps_reads p;
               ps_sent := ps_sent p; ps_acks := ps_acks p; ps_lag := ps_lag p; ps_acked := ps_acked p;
               ps_log := ps_log p |} in
  let s1 := with_accepted (with_prim s p') ((wid, sq, k, v) :: s_accepted s) in
  (spawn s1 0 (PWPut wid k v sq rf), [], YDelay (lat (c_wlat c) 0)).

Definition prim_read_start (c : cfg) (s : state) (rid k : Z) (rf : bool) : state * list out * yld :=
  let p := s_prim s in
  let p' := {| ps_store := ps_store p; ps_seq := ps_seq p; ps_writes := ps_writes p; ps_reads := ps_reads p + 1;
               ps_sent := ps_sent p; ps_acks := ps_acks p; ps_lag := ps_lag p; ps_acked := ps_acked p;
               ps_log := ps_log p |} in
  (spawn (with_prim s p') 0 (PRGet rid k rf), [], YDelay (lat (c_rlat c) 0)).

(** PrimaryNode._handle_ack *)
Definition prim_ack (s : state) (b sq : Z) : state :=
  let p := s_prim s in
  let prev := zget b (ps_acked p) in
  let newer := prev <? sq in
  let p' := {| ps_store := ps_store p; ps_seq := ps_seq p; ps_writes := ps_writes p; ps_reads := ps_reads p;
               ps_sent := ps_sent p; ps_acks := ps_acks p + 1;
               ps_lag := if newer then zset b (ps_seq p - sq) (ps_lag p) else ps_lag p;
               ps_acked := if newer then zset b sq (ps_acked p) else ps_acked p;
               ps_log := ps_log p |} in
  bump_next (with_prim s p').

Definition bak_read_start (c : cfg) (s : state) (n rid k : Z) (rf : bool) : state * list out * yld :=
  let b := s_bak s n in
  let b' := {| bs_store := bs_store b; bs_applied := bs_applied b; bs_reads := bs_reads b + 1;
               bs_last := bs_last b; bs_log := bs_log b |} in
  (spawn (with_bak s n b') n (PRGet rid k rf), [], YDelay (lat (c_rlat c) n)).

Definition start (c : cfg) (s : state) (n : Z) (m : msg) : option (state * list out * yld) :=
  if n =? 0 then
    match m with
    | MWrite wid k v rf => Some (prim_write_start c s wid k v rf)
    | MRead rid k rf => Some (prim_read_start c s rid k rf)
    | MAck b sq =>
        match take_msg m (s_net s) with
        | Some net' => Some (prim_ack (with_net s net') b sq, [], YEnd)
        | None => None
        end
    | MReplicate _ _ _ _ _ => None
    | MOther => Some (bump_next s, [], YEnd)
    end
  else if is_backup c n then
    match m with
    | MReplicate b k v sq fut =>
        if b =? n then
          match take_msg m (s_net s) with
          | Some net' => Some (spawn (with_net s net') n (PBPut k v sq fut), [], YDelay (lat (c_wlat c) n))
          | None => None
          end
        else None
    | MRead rid k rf =>
        if serves c n then Some (bak_read_start c s n rid k rf)
        else Some (bump_next s, [], YEnd)
    | MAck _ _ => None
    | MWrite _ _ _ _ | MOther => Some (bump_next s, [], YEnd)
    end
  else None.

(* ------------------------------------------------------------------ *)
(** * Handlers: later segments *)

Definition lag_after_write (c : cfg) (p : prim) (sq : Z) : dict :=
  fold_left (fun lg b => zset b (sq - zget b (ps_acked p)) lg) (bids c) (ps_lag p).

Definition reply_outs (wid sq : Z) (rf : bool) : list out := if rf then [OReply wid sq] else [].
Definition add_reply (s : state) (wid sq : Z) (rf : bool) : state :=
  if rf then with_replies s ((wid, sq) :: s_replies s) else s.

(** _handle_write after store.put returned: apply, update lag, send replication *)
Definition prim_put_done (c : cfg) (s : state) (pid wid k v sq : Z) (rf : bool) : state * list out * yld :=
  let p := s_prim s in
  let fut := match c_mode c with ASYNC => false | _ => true end in
  let msgs := map (fun b => MReplicate b k v sq fut) (bids c) in
  let p' := {| ps_store := dput k v (ps_store p); ps_seq := ps_seq p; ps_writes := ps_writes p;
               ps_reads := ps_reads p; ps_sent := ps_sent p + Z.of_nat (c_nb c); ps_acks := ps_acks p;
               ps_lag := lag_after_write c p sq; ps_acked := ps_acked p;
               ps_log := ps_log p ++ [(sq, k, v)] |} in
  let s1 := with_net (with_prim s p') (s_net s ++ msgs) in
  match c_mode c, c_nb c with
  | ASYNC, O =>
      (add_reply (with_procs s1 (del_proc pid (s_procs s1))) wid sq rf, reply_outs wid sq rf, YEnd)
  | _, _ =>
      (with_procs s1 (set_pc pid (PWSent wid sq rf) (s_procs s1)), map OSend msgs, YEvents 0)
  end.

Definition finish_write (s : state) (pid wid sq : Z) (rf : bool) : state * list out * yld :=
  (add_reply (with_procs s (del_proc pid (s_procs s))) wid sq rf, reply_outs wid sq rf, YEnd).

(** _handle_write resumed after [yield 0.0, events] *)
Definition prim_sent (c : cfg) (s : state) (pid wid sq : Z) (rf : bool) : state * list out * yld :=
  match c_mode c, c_nb c with
  | ASYNC, _ => finish_write s pid wid sq rf
  | _, O => finish_write s pid wid sq rf
  | _, _ => (with_procs s (set_pc pid (PWWait wid sq rf) (s_procs s)), [], YFuture)
  end.

(** the composite future the write is parked on is resolved *)
Definition acks_ready (c : cfg) (s : state) (sq : Z) : bool :=
  match c_mode c with
  | ASYNC => false
  | SEMI => existsb (fun b => mem2 sq b (s_res s)) (bids c)
  | SYNC => forallb (fun b => mem2 sq b (s_res s)) (bids c)
  end.

Definition read_done (s : state) (pid n rid k : Z) (rf : bool) : state * list out * yld :=
  let s' := with_procs s (del_proc pid (s_procs s)) in
  if n =? 0 then
    (s', if rf then [OReadReply rid (dget k (ps_store (s_prim s))) false 0] else [], YEnd)
  else
    (s', if rf then [OReadReply rid (dget k (bs_store (s_bak s n))) true (bs_last (s_bak s n))] else [], YEnd).

(** BackupNode._handle_replicate after store.put returned *)
Definition bak_put_done (s : state) (pid n k v sq : Z) (fut : bool) : state * list out * yld :=
  let b := s_bak s n in
  let b' := {| bs_store := dput k v (bs_store b); bs_applied := bs_applied b + 1; bs_reads := bs_reads b;
               bs_last := sq; bs_log := bs_log b ++ [(sq, k, v)] |} in
  let s1 := with_bak s n b' in
  let s2 := if fut then (if mem2 sq n (s_res s1) then s1 else with_res s1 ((sq, n) :: s_res s1)) else s1 in
  let s3 := with_net s2 (s_net s2 ++ [MAck n sq]) in
  (with_procs s3 (set_pc pid PBSent (s_procs s3)),
   (if fut then [OResolve sq n] else []) ++ [OSend (MAck n sq)], YEvents 0).

Definition resume (c : cfg) (s : state) (pid : Z) : option (state * list out * yld) :=
  match find_proc pid (s_procs s) with
  | None => None
  | Some p =>
      let n := p_node p in
      match p_pc p with
      | PWPut wid k v sq rf => Some (prim_put_done c s pid wid k v sq rf)
      | PWSent wid sq rf => Some (prim_sent c s pid wid sq rf)
      | PWWait wid sq rf => if acks_ready c s sq then Some (finish_write s pid wid sq rf) else None
      | PRGet rid k rf => Some (read_done s pid n rid k rf)
      | PBPut k v sq fut => Some (bak_put_done s pid n k v sq fut)
      | PBSent => Some (with_procs s (del_proc pid (s_procs s)), [], YEnd)
      end
  end.

Definition step (c : cfg) (s : state) (i : inp) : option (state * list out * yld) :=
  match i with
  | IStart n m => start c s n m
  | IResume pid => resume c s pid
  end.

Fixpoint run (c : cfg) (s : state) (sched : list inp) : option state :=
  match sched with
  | [] => Some s
  | i :: r => match step c s i with
              | Some (s', _, _) => run c s' r
              | None => None
              end
  end.

Definition quiescent (s : state) : Prop := s_net s = [] /\ s_procs s = [].

(* ------------------------------------------------------------------ *)
(** * Comparison with the implementation's recorded trace *)
Definition zz_eqb (a b : Z * Z) : bool := (fst a =? fst b) && (snd a =? snd b).
Definition oz_eqb := option_eqb Z.eqb.

Definition out_eqb (a b : out) : bool :=
  match a, b with
  | OSend m, OSend m' => msg_eqb m m'
  | OResolve s b, OResolve s' b' => (s =? s') && (b =? b')
  | OReply w s, OReply w' s' => (w =? w') && (s =? s')
  | OReadReply r v st s, OReadReply r' v' st' s' => (r =? r') && oz_eqb v v' && Bool.eqb st st' && (s =? s')
  | _, _ => false
  end.

Definition yld_eqb (a b : yld) : bool :=
  match a, b with
  | YDelay d, YDelay d' => d =? d'
  | YEvents d, YEvents d' => d =? d'
  | YFuture, YFuture => true
  | YEnd, YEnd => true
  | _, _ => false
  end.

(** what the harness reads off a node: store items in dict order, counters *)
Definition node_obs : Type := list (Z * Z) * list Z.

Definition obs_node (c : cfg) (s : state) (n : Z) : node_obs :=
  if n =? 0 then
    let p := s_prim s in
    (ps_store p,
     [ps_seq p; ps_writes p; ps_reads p; ps_sent p; ps_acks p]
       ++ map (fun b => zget b (ps_lag p)) (bids c) ++ map (fun b => zget b (ps_acked p)) (bids c))
  else
    let b := s_bak s n in (bs_store b, [bs_applied b; bs_reads b; bs_last b]).

Definition obs_eqb (a b : node_obs) : bool :=
  list_eqb zz_eqb (fst a) (fst b) && list_eqb Z.eqb (snd a) (snd b).

Definition node_of_inp (s : state) (i : inp) : Z :=
  match i with
  | IStart n _ => n
  | IResume pid => match find_proc pid (s_procs s) with Some p => p_node p | None => -1 end
  end.

(** [None] = the acting node's observable state is the same as before the segment *)
Definition seg : Type := inp * list out * yld * option node_obs.

Fixpoint replay (c : cfg) (s : state) (tr : list seg) : option state :=
  match tr with
  | [] => Some s
  | (i, outs, y, ob) :: r =>
      let n := node_of_inp s i in
      match step c s i with
      | None => None
      | Some (s', outs', y') =>
          if list_eqb out_eqb outs' outs && yld_eqb y' y
             && obs_eqb (obs_node c s' n) (match ob with Some o => o | None => obs_node c s n end)
          then replay c s' r else None
      end
  end.

Definition log_kv (l : list (Z * Z * Z)) : list (Z * Z) := map (fun e => (snd (fst e), snd e)) l.
Definition node_log (s : state) (n : Z) : list (Z * Z) :=
  if n =? 0 then log_kv (ps_log (s_prim s)) else log_kv (bs_log (s_bak s n)).

(** final observation: per node (store+counters, store put log), number of in-flight
    messages, number of suspended handlers *)
Definition final_obs : Type := list (node_obs * list (Z * Z)) * Z * Z.

Definition mk_cfg (e : mode * nat * list Z * list Z * list bool) : cfg :=
  let '(m, nb, wl, rl, sv) := e in
  {| c_mode := m; c_nb := nb; c_wlat := wl; c_rlat := rl; c_serve := sv |}.

Definition ok_pb (cs : (mode * nat * list Z * list Z * list bool) * list seg * final_obs) : bool :=
  let '(ce, tr, (nodes, nnet, nprocs)) := cs in
  let c := mk_cfg ce in
  match replay c init tr with
  | None => false
  | Some s =>
      forallb2 (fun n o => obs_eqb (obs_node c s n) (fst o) && list_eqb zz_eqb (node_log s n) (snd o))
               (0 :: bids c) nodes
      && (Z.of_nat (length (s_net s)) =? nnet) && (Z.of_nat (length (s_procs s)) =? nprocs)
  end.
