(** C17 — chain replication convergence, the part that does hold: when every
    link i -> i+1 delivers Propagate messages in send order and every store
    completes its puts in arrival order, all nodes hold exactly the head's store
    once the system is quiescent (any writes, repeated keys, CRAQ or not, any
    chain length, any interleaving otherwise). *)
From HS Require Import Base.Prelude C17.Model C17.PBProofs C17.PBConv C17.PBFifo C17.Chain C17.ChainProofs C17.ChainConv.
Local Open Scope Z_scope.

Definition ce_proc (p : cproc) : list entry :=
  match cp_pc p with PPut k v sq => [(sq, k, v)] | _ => [] end.
Definition cputq (n : Z) (l : list cproc) : list entry :=
  flat_map (fun p => if cp_node p =? n then ce_proc p else []) l.
Definition ce_msg (d : Z) (m : cmsg) : list entry :=
  match m with CProp d' k v sq => if d' =? d then [(sq, k, v)] else [] | _ => [] end.
Definition clink (d : Z) (net : list cmsg) : list entry := flat_map (ce_msg d) net.

Fixpoint cfirst_link (d : Z) (net : list cmsg) : option cmsg :=
  match net with
  | [] => None
  | m :: r => match ce_msg d m with [] => cfirst_link d r | _ => Some m end
  end.
Fixpoint cfirst_put (n : Z) (l : list cproc) : option Z :=
  match l with
  | [] => None
  | p :: r => match (if cp_node p =? n then ce_proc p else []) with [] => cfirst_put n r | _ => Some (cp_id p) end
  end.

Definition cfifo_ok (s : cstate) (i : cinp) : bool :=
  match i with
  | CStart _ (CProp d k v sq) =>
      match cfirst_link d (k_net s) with Some m => cmsg_eqb (CProp d k v sq) m | None => false end
  | CStart _ _ => true
  | CResume pid =>
      match cfind pid (k_procs s) with
      | Some p => match ce_proc p with
                  | [] => true
                  | _ => match cfirst_put (cp_node p) (k_procs s) with Some q => q =? pid | None => false end
                  end
      | None => true
      end
  end.

Fixpoint crun_fifo (c : ccfg) (s : cstate) (sched : list cinp) : option cstate :=
  match sched with
  | [] => Some s
  | i :: r => if cfifo_ok s i then
                match cstep c s i with Some (s', _, _) => crun_fifo c s' r | None => None end
              else None
  end.

Record CJ (c : ccfg) (s : cstate) : Prop := {
  cj_order : forall d, 1 <= d < cn c ->
             n_log (k_node s d) ++ cputq d (k_procs s) ++ clink d (k_net s) = n_log (k_node s (d - 1));
  cj_store : forall i, n_store (k_node s i) = replay_log (n_log (k_node s i));
}.

(* ------------------------------------------------------------------ *)
Lemma cputq_app n l1 l2 : cputq n (l1 ++ l2) = cputq n l1 ++ cputq n l2.
Proof. apply flat_map_app. Qed.
Lemma clink_app b l1 l2 : clink b (l1 ++ l2) = clink b l1 ++ clink b l2.
Proof. apply flat_map_app. Qed.

Lemma clink_take_other d m net net' : ctake m net = Some net' -> ce_msg d m = [] -> clink d net' = clink d net.
Proof.
  revert net'; induction net as [|x r IH]; cbn; intros net' H E; [discriminate|].
  destruct (cmsg_eqb m x) eqn:Q.
  - inversion H; subst. apply cmsg_eqb_eq in Q; subst. rewrite E. reflexivity.
  - destruct (ctake m r) eqn:T; [|discriminate]. inversion H; subst. cbn. f_equal. exact (IH _ eq_refl E).
Qed.

Lemma clink_take_first d m net net' e :
  ctake m net = Some net' -> ce_msg d m = [e] ->
  (match cfirst_link d net with Some x => cmsg_eqb m x | None => false end) = true ->
  clink d net = e :: clink d net'.
Proof.
  revert net'; induction net as [|x r IH]; cbn; intros net' H E F; [discriminate|].
  destruct (cmsg_eqb m x) eqn:Q.
  - inversion H; subst. apply cmsg_eqb_eq in Q; subst. rewrite E. reflexivity.
  - destruct (ctake m r) eqn:T; [|discriminate]. inversion H; subst. cbn.
    destruct (ce_msg d x) eqn:Ex; [|congruence].
    cbn. exact (IH _ eq_refl E F).
Qed.

Lemma cputq_set_other n pid c l p :
  cfind pid l = Some p -> ce_proc p = [] ->
  (forall nd, ce_proc {| cp_id := pid; cp_node := nd; cp_pc := c |} = []) ->
  cputq n (cset pid c l) = cputq n l.
Proof.
  induction l as [|x r IH]; cbn; intros F E C; [reflexivity|].
  destruct (cp_id x =? pid) eqn:Q.
  - inversion F; subst. cbn. rewrite E, C. destruct (cp_node p =? n); reflexivity.
  - cbn. f_equal. exact (IH F E C).
Qed.

Lemma cputq_del_other n pid l p :
  cfind pid l = Some p -> ce_proc p = [] -> cputq n (cdel pid l) = cputq n l.
Proof.
  induction l as [|x r IH]; cbn; intros F E; [reflexivity|].
  destruct (cp_id x =? pid) eqn:Q.
  - inversion F; subst. rewrite E. destruct (cp_node p =? n); reflexivity.
  - cbn. f_equal. exact (IH F E).
Qed.

Lemma cputq_set_put_same n pid c l p e :
  cfind pid l = Some p -> ce_proc p = [e] -> cp_node p = n ->
  (forall nd, ce_proc {| cp_id := pid; cp_node := nd; cp_pc := c |} = []) ->
  (match cfirst_put n l with Some q => q =? pid | None => false end) = true ->
  cputq n l = e :: cputq n (cset pid c l).
Proof.
  induction l as [|x r IH]; cbn; intros F E Hn C FP; [discriminate|].
  destruct (cp_id x =? pid) eqn:Q.
  - inversion F; subst. cbn. rewrite E, C, Z.eqb_refl. reflexivity.
  - cbn. destruct (if cp_node x =? n then ce_proc x else []) eqn:Ex.
    + cbn. exact (IH F E Hn C FP).
    + rewrite Q in FP. discriminate.
Qed.

Lemma cputq_set_put_other n pid c l p :
  cfind pid l = Some p -> cp_node p <> n -> cputq n (cset pid c l) = cputq n l.
Proof.
  induction l as [|x r IH]; cbn; intros F Hn; [reflexivity|].
  destruct (cp_id x =? pid) eqn:Q.
  - inversion F; subst. cbn. apply Z.eqb_neq in Hn. rewrite Hn. reflexivity.
  - cbn. f_equal. exact (IH F Hn).
Qed.

Lemma cputq_spawn b s n c0 :
  cputq b (k_procs (cspawn s n c0)) =
  cputq b (k_procs s) ++ (if n =? b then ce_proc {| cp_id := k_next s; cp_node := n; cp_pc := c0 |} else []).
Proof. unfold cputq, cspawn, cbump, set_procs; cbn [k_procs]. rewrite flat_map_app. cbn. rewrite app_nil_r. reflexivity. Qed.

Lemma cputq_spawn_nonput b s n c0 :
  (forall pid nd, ce_proc {| cp_id := pid; cp_node := nd; cp_pc := c0 |} = []) ->
  cputq b (k_procs (cspawn s n c0)) = cputq b (k_procs s).
Proof. intros H. rewrite cputq_spawn, H. destruct (n =? b); apply app_nil_r. Qed.

(** steps that leave logs, stores, put queues and links alone *)
Lemma CJ_ext c s s' :
  CJ c s ->
  (forall i, n_log (k_node s' i) = n_log (k_node s i) /\ n_store (k_node s' i) = n_store (k_node s i)) ->
  (forall d, cputq d (k_procs s') = cputq d (k_procs s)) ->
  (forall d, clink d (k_net s') = clink d (k_net s)) ->
  CJ c s'.
Proof.
  intros [Jo Js] Hn Hq Hl. split.
  - intros d Hd. rewrite Hq, Hl. destruct (Hn d) as [-> _]. destruct (Hn (d - 1)) as [-> _]. auto.
  - intros i. destruct (Hn i) as [-> ->]. auto.
Qed.

Lemma upd_node_fields (f : Z -> cnode) n x i :
  n_log x = n_log (f n) -> n_store x = n_store (f n) ->
  n_log (upd f n x i) = n_log (f i) /\ n_store (upd f n x i) = n_store (f i).
Proof. intros H1 H2. unfold upd. destruct (i =? n) eqn:E; [apply Z.eqb_eq in E; subst; auto|auto]. Qed.

Ltac cjext c s :=
  apply (CJ_ext c s);
  [ assumption
  | try (solve [intros ?i; cbn; first [split; reflexivity | apply upd_node_fields; reflexivity]])
  | try (solve [intros ?d; cbn; reflexivity])
  | try (solve [intros ?d; cbn; reflexivity]) ].

Lemma cj_init c : CJ c cinit.
Proof. split; cbn; auto. Qed.

(** a put completes at node [i] (head write or propagated write): the entry joins
    log i and, unless i is the tail, the link to i+1 *)
Lemma cj_apply c s i sq k v nd' net' procs' :
  CJ c s ->
  n_log nd' = n_log (k_node s i) ++ [(sq, k, v)] -> n_store nd' = dput k v (n_store (k_node s i)) ->
  (forall d, 1 <= d < cn c -> clink d net' = clink d (k_net s) ++ (if d =? i + 1 then [(sq, k, v)] else [])) ->
  (forall d, 1 <= d -> cputq d (k_procs s) = (if d =? i then [(sq, k, v)] else []) ++ cputq d procs') ->
  CJ c (set_procs (set_net (set_node s i nd') net') procs').
Proof.
  intros [Jo Js] Hlog Hst Hl Hq.
  split; cbn [k_node k_procs k_net set_procs set_net set_node].
  - intros d Hd. specialize (Jo d Hd). rewrite (Hl d Hd). rewrite (Hq d) in Jo by lia. unfold upd.
    destruct (Z.eqb_spec d i) as [E1|E1]; destruct (Z.eqb_spec (d - 1) i) as [E2|E2]; try lia.
    + rewrite Hlog. replace (d =? i + 1) with false by lia. rewrite app_nil_r.
      rewrite <- Jo. subst d. rewrite <- !app_assoc. reflexivity.
    + rewrite Hlog. rewrite E2 in Jo. replace (d =? i + 1) with true by lia.
      cbn [app] in Jo. rewrite <- Jo. rewrite <- !app_assoc. reflexivity.
    + replace (d =? i + 1) with false by lia. cbn [app] in *. rewrite app_nil_r. exact Jo.
  - intros j. unfold upd. destruct (j =? i) eqn:E; [|apply Js].
    apply Z.eqb_eq in E; subst j. rewrite Hst, Hlog, replay_app. cbn [fst snd]. rewrite Js. reflexivity.
Qed.

Lemma c_reply_fields s w sq rf :
  k_node (c_reply s w sq rf) = k_node s /\ k_procs (c_reply s w sq rf) = k_procs s /\ k_net (c_reply s w sq rf) = k_net s.
Proof. unfold c_reply; destruct rf; cbn; auto. Qed.

Lemma clink_commits d k sq l : clink d (map (fun j => CCommit j k sq) l) = [].
Proof. induction l; cbn; auto. Qed.

Section WithN.
Variable c : ccfg.
Hypothesis Hn : (2 <= cc_n c)%nat.

Lemma cj_step s i s' o y :
  CJ c s -> cfifo_ok s i = true -> cstep c s i = Some (s', o, y) -> CJ c s'.
Proof.
  intros Jn F H. destruct i as [n m|pid]; cbn [cstep] in H.
  - unfold cstart in H. destruct (is_node c n) eqn:Nd; [|discriminate].
    destruct m as [w k v rf|r k rf|r k rf|d k v sq|k sq|d k sq|].
    + injection H as H. unfold c_write_start in H. destruct (n =? 0); inversion H; subst; clear H; cjext c s.
      intros d. etransitivity; [apply cputq_spawn_nonput; reflexivity|reflexivity].
    + injection H as H. unfold c_read_start in H.
      destruct (cc_craq c && negb (is_tail c n) && zmem k (n_dirty (k_node s n))); inversion H; subst; clear H; cjext c s.
      * intros d. etransitivity; [apply cputq_spawn_nonput; reflexivity|reflexivity].
      * intros d. cbn [k_net cspawn cbump set_procs set_net]. rewrite clink_app. cbn. apply app_nil_r.
      * intros d. etransitivity; [apply cputq_spawn_nonput; reflexivity|reflexivity].
    + destruct (is_tail c n); [|discriminate].
      destruct (ctake (CFwdRead r k rf) (k_net s)) as [net'|] eqn:T; [|discriminate].
      injection H as H. unfold c_read_start in H.
      destruct (cc_craq c && negb (is_tail c n) && zmem k (n_dirty (k_node (set_net s net') n))); inversion H; subst; clear H; cjext c s.
      * intros d. etransitivity; [apply cputq_spawn_nonput; reflexivity|reflexivity].
      * intros d. cbn [k_net cspawn cbump set_procs set_net]. rewrite clink_app. cbn. rewrite app_nil_r.
        eapply clink_take_other; eauto.
      * intros d. etransitivity; [apply cputq_spawn_nonput; reflexivity|reflexivity].
      * intros d. cbn. eapply clink_take_other; eauto.
    + (* delivery of a Propagate: the oldest one on the link *)
      destruct (d =? n) eqn:Ed; [|discriminate]. apply Z.eqb_eq in Ed; subst d.
      destruct (ctake (CProp n k v sq) (k_net s)) as [net'|] eqn:T; [|discriminate].
      inversion H; subst; clear H. cbn in F. unfold c_prop_start.
      destruct Jn as [Jo Js]. split.
      * intros d Hd. rewrite cputq_spawn. cbn [k_net k_node cspawn cbump set_procs set_net set_node k_procs].
        assert (Hlog : forall j, n_log (upd (k_node s) n
                   (nd_upd (k_node s n) (n_store (k_node s n)) (n_seq (k_node s n)) (n_writes (k_node s n))
                      (n_psent (k_node s n)) (n_precv (k_node s n) + 1) (n_acks (k_node s n)) (n_reads (k_node s n))
                      (n_dirty (k_node s n)) (n_pending (k_node s n)) (n_log (k_node s n))) j) = n_log (k_node s j)).
        { intros j. unfold upd. destruct (j =? n) eqn:E; [apply Z.eqb_eq in E; subst; reflexivity|reflexivity]. }
        rewrite !Hlog. rewrite <- (Jo d Hd). cbn [ce_proc cp_pc cp_node].
        destruct (n =? d) eqn:E.
        -- apply Z.eqb_eq in E; subst d.
           rewrite (clink_take_first n _ _ _ (sq, k, v) T); [|cbn; rewrite Z.eqb_refl; reflexivity|exact F].
           rewrite <- !app_assoc. reflexivity.
        -- rewrite app_nil_r. rewrite (clink_take_other d _ _ _ T); [reflexivity|cbn; rewrite E; reflexivity].
      * intros j. cbn. unfold upd. destruct (j =? n) eqn:E; [apply Z.eqb_eq in E; subst; apply Js|apply Js].
    + destruct (n =? 0); [|discriminate].
      destruct (ctake (CAck k sq) (k_net s)) as [net'|] eqn:T; [|discriminate].
      injection H as H. unfold c_ack in H.
      destruct (zmem sq (n_pending (k_node (set_net s net') n)) && negb (zmem sq (k_res (set_net s net'))));
        inversion H; subst; clear H; cjext c s; intros d; cbn; eapply clink_take_other; eauto.
    + destruct (d =? n); [|discriminate].
      destruct (ctake (CCommit d k sq) (k_net s)) as [net'|] eqn:T; [|discriminate].
      injection H as H. unfold c_commit in H.
      destruct (cc_craq c); inversion H; subst; clear H; cjext c s; intros d0; cbn; eapply clink_take_other; eauto.
    + inversion H; subst; clear H. cjext c s.
  - unfold cresume in H. cbn in F.
    destruct (cfind pid (k_procs s)) as [p|] eqn:Fp; [|discriminate].
    destruct (cp_pc p) as [w k v sq rf|w k sq rf|w k sq rf|k v sq| |k sq| |r k rf| ] eqn:Epc.
    + (* head: put done *)
      assert (Ep : ce_proc p = []) by (unfold ce_proc; rewrite Epc; reflexivity).
      inversion H; subst; clear H. unfold h_put_done.
      apply (cj_apply c s 0 sq k v); auto.
      * intros d Hd. cbn [k_net set_net set_node]. rewrite clink_app. unfold clink at 2. cbn [flat_map ce_msg].
        rewrite app_nil_r. rewrite (Z.eqb_sym 1 d). reflexivity.
      * intros d Hd. replace (d =? 0) with false by lia. cbn [app k_procs set_net set_node].
        symmetry. eapply cputq_set_other; eauto.
    + assert (Ep : ce_proc p = []) by (unfold ce_proc; rewrite Epc; reflexivity).
      inversion H; subst; clear H. cjext c s. intros d. cbn. eapply cputq_set_other; eauto.
    + assert (Ep : ce_proc p = []) by (unfold ce_proc; rewrite Epc; reflexivity).
      destruct (zmem sq (k_res s)); [|discriminate]. inversion H; subst; clear H. unfold h_acked.
      match goal with |- CJ c (c_reply ?s0 _ _ _) => destruct (c_reply_fields s0 w sq rf) as (E1 & E2 & E3) end.
      apply (CJ_ext c s); [assumption| | |].
      * intros j. rewrite E1. cbn. apply upd_node_fields; reflexivity.
      * intros d. rewrite E2. cbn. eapply cputq_del_other; eauto.
      * intros d. rewrite E3. reflexivity.
    + (* propagate: put done, the oldest put of that store *)
      assert (Ep : ce_proc p = [(sq, k, v)]) by (unfold ce_proc; rewrite Epc; reflexivity).
      rewrite Ep in F. injection H as H. unfold p_put_done in H.
      set (i := cp_node p) in *.
      assert (Hq : forall X, (forall nd, ce_proc {| cp_id := pid; cp_node := nd; cp_pc := X |} = []) ->
                forall d, 1 <= d -> cputq d (k_procs s) = (if d =? i then [(sq, k, v)] else []) ++ cputq d (cset pid X (k_procs s))).
      { intros X HX d Hd. destruct (Z.eqb_spec d i) as [E|E].
        - subst d. cbn [app]. rewrite (cputq_set_put_same i pid X (k_procs s) p (sq, k, v) Fp Ep eq_refl HX F). reflexivity.
        - cbn [app]. symmetry. eapply cputq_set_put_other; eauto. }
      destruct (is_tail c i) eqn:Et; inversion H; subst; clear H.
      * apply (cj_apply c s i sq k v); auto.
        intros d Hd. cbn [k_net set_net set_node]. rewrite clink_app. cbn.
        unfold is_tail, tail_of in Et. apply Z.eqb_eq in Et. replace (d =? i + 1) with false by lia. reflexivity.
      * apply (cj_apply c s i sq k v); auto.
        intros d Hd. cbn [k_net set_net set_node]. rewrite clink_app. unfold clink at 2. cbn [flat_map ce_msg].
        rewrite app_nil_r. rewrite (Z.eqb_sym (i + 1) d). reflexivity.
    + assert (Ep : ce_proc p = []) by (unfold ce_proc; rewrite Epc; reflexivity).
      inversion H; subst; clear H. cjext c s. intros d. cbn. eapply cputq_del_other; eauto.
    + assert (Ep : ce_proc p = []) by (unfold ce_proc; rewrite Epc; reflexivity).
      injection H as H. unfold t_acked in H. destruct (cc_craq c).
      * assert (Hl : forall d, clink d (k_net s ++ map (fun j => CCommit j k sq) (upstream (cp_node p))) = clink d (k_net s)).
        { intros d. rewrite clink_app, clink_commits. apply app_nil_r. }
        destruct (map (fun j => CCommit j k sq) (upstream (cp_node p))) eqn:Ems; inversion H; subst; clear H.
        -- cjext c s.
           ++ intros d. cbn. eapply cputq_del_other; eauto.
           ++ intros d. cbn [k_net set_procs set_net set_node]. rewrite clink_app. cbn. apply app_nil_r.
        -- apply (CJ_ext c s); [assumption| | |].
           ++ intros j. cbn. apply upd_node_fields; reflexivity.
           ++ intros d. cbn. eapply cputq_set_other; eauto.
           ++ intros d. cbn [k_net set_procs set_net set_node]. apply Hl.
      * inversion H; subst; clear H. cjext c s. intros d. cbn. eapply cputq_del_other; eauto.
    + assert (Ep : ce_proc p = []) by (unfold ce_proc; rewrite Epc; reflexivity).
      inversion H; subst; clear H. cjext c s. intros d. cbn. eapply cputq_del_other; eauto.
    + assert (Ep : ce_proc p = []) by (unfold ce_proc; rewrite Epc; reflexivity).
      inversion H; subst; clear H. unfold r_done. cjext c s. intros d. cbn. eapply cputq_del_other; eauto.
    + assert (Ep : ce_proc p = []) by (unfold ce_proc; rewrite Epc; reflexivity).
      inversion H; subst; clear H. cjext c s. intros d. cbn. eapply cputq_del_other; eauto.
Qed.

Lemma cj_run sched : forall s s', CJ c s -> crun_fifo c s sched = Some s' -> CJ c s'.
Proof.
  induction sched as [|i r IH]; cbn; intros s s' Jn H; [inversion H; subst; exact Jn|].
  destruct (cfifo_ok s i) eqn:F; [|discriminate].
  destruct (cstep c s i) as [[[s1 o] y]|] eqn:E; [|discriminate].
  eapply IH; [eapply cj_step; eauto|exact H].
Qed.

(** Chain convergence under per-link FIFO delivery and per-store FIFO completion *)
Theorem chain_convergence_fifo sched s :
  crun_fifo c cinit sched = Some s -> cquiescent s ->
  forall i, 0 <= i < cn c ->
    n_log (k_node s i) = n_log (k_node s 0) /\ n_store (k_node s i) = n_store (k_node s 0).
Proof.
  intros H [Qn Qp] i Hi. pose proof (cj_run sched _ _ (cj_init c) H) as [Jo Js].
  assert (Hl : forall j, (0 <= j < cc_n c)%nat -> n_log (k_node s (Z.of_nat j)) = n_log (k_node s 0)).
  { induction j as [|j IH]; intros Hj; [reflexivity|].
    assert (Hd : 1 <= Z.of_nat (S j) < cn c) by (unfold cn; lia).
    assert (Ej : Z.of_nat (S j) - 1 = Z.of_nat j) by lia.
    remember (Z.of_nat (S j)) as d eqn:Ed. clear Ed.
    specialize (Jo _ Hd). rewrite Qn, Qp in Jo. unfold cputq, clink in Jo. cbn [flat_map] in Jo.
    rewrite !app_nil_r in Jo. rewrite Jo, Ej. apply IH. lia. }
  assert (E : n_log (k_node s i) = n_log (k_node s 0)).
  { replace i with (Z.of_nat (Z.to_nat i)) by lia. apply Hl. unfold cn in Hi. lia. }
  split; [exact E|]. rewrite (Js i), (Js 0), E. reflexivity.
Qed.

End WithN.

(** the hypotheses are satisfiable (in-order delivery of the refutation witness's two writes) *)
Definition cfifo_sched : list cinp :=
  [ CStart 0 (CWrite 101 0 101 true); CStart 0 (CWrite 102 0 102 true);
    CResume 0; CResume 1; CResume 0; CResume 1;
    CStart 1 (CProp 1 0 101 1); CStart 1 (CProp 1 0 102 2);
    CResume 2; CResume 3; CResume 2; CResume 3;
    CStart 0 (CAck 0 1); CStart 0 (CAck 0 2); CResume 0; CResume 1 ].

Example cfifo_example :
  match crun_fifo cwit_cfg cinit cfifo_sched with
  | Some s => cquiescent_b s && negb (cdiverged_b cwit_cfg s)
  | None => false
  end = true.
Proof. vm_compute. reflexivity. Qed.

Example cwit_not_fifo : crun_fifo cwit_cfg cinit cwit_sched = None.
Proof. vm_compute. reflexivity. Qed.
