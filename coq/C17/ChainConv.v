(** C17 — chain replication: convergence under reordering and CRAQ clean reads
    are refuted on the faithful model (witnesses replayed on the implementation
    by corpus/C17/chain.reorder.json and chain.craq_clean_uncommitted.json). *)
From HS Require Import Base.Prelude C17.Model C17.PBProofs C17.PBConv C17.Chain C17.ChainProofs.
Local Open Scope Z_scope.

Definition chain_converged (c : ccfg) (s : cstate) : Prop :=
  forall i, In i (cnodes c) -> forall k, dget k (n_store (k_node s i)) = dget k (n_store (k_node s 0)).

Definition chain_convergence_statement : Prop :=
  forall c sched s, (2 <= cc_n c)%nat -> crun c cinit sched = Some s -> cquiescent s -> chain_converged c s.

Definition cquiescent_b (s : cstate) : bool :=
  match k_net s, k_procs s with [], [] => true | _, _ => false end.

Definition cdiverged_b (c : ccfg) (s : cstate) : bool :=
  existsb (fun i => existsb (fun k => negb (oz_eqb (dget k (n_store (k_node s i))) (dget k (n_store (k_node s 0)))))
                            (map fst (n_store (k_node s 0)))) (cnodes c).

Definition cdiverges (c : ccfg) (sched : list cinp) : bool :=
  (2 <=? cc_n c)%nat &&
  match crun c cinit sched with Some s => cquiescent_b s && cdiverged_b c s | None => false end.

Lemma cdiverges_refutes c sched : cdiverges c sched = true -> ~ chain_convergence_statement.
Proof.
  unfold cdiverges. intros D H. apply andb_true_iff in D. destruct D as [N D]. apply Nat.leb_le in N.
  destruct (crun c cinit sched) as [s|] eqn:Hr; [|discriminate].
  apply andb_true_iff in D. destruct D as [Q D].
  assert (Hq : cquiescent s).
  { unfold cquiescent_b in Q. unfold cquiescent. destruct (k_net s); [|discriminate]. destruct (k_procs s); [auto|discriminate]. }
  specialize (H c sched s N Hr Hq). unfold cdiverged_b in D.
  apply existsb_exists in D. destruct D as (b & Hb & D).
  apply existsb_exists in D. destruct D as (k & _ & D).
  rewrite (H b Hb k), oz_eqb_refl in D. discriminate.
Qed.

Definition cwit_cfg : ccfg := {| cc_n := 2; cc_craq := false; cc_wlat := [2000; 2000]; cc_rlat := [500; 500] |}.

(** two writes to key 0; the Propagate of the second overtakes the first *)
Definition cwit_sched : list cinp :=
  [ CStart 0 (CWrite 101 0 101 true); CStart 0 (CWrite 102 0 102 true);
    CResume 0; CResume 1; CResume 0; CResume 1;
    CStart 1 (CProp 1 0 102 2); CResume 2;
    CStart 1 (CProp 1 0 101 1); CResume 3;
    CResume 2; CResume 3; CStart 0 (CAck 0 2); CStart 0 (CAck 0 1);
    CResume 0; CResume 1 ].

Lemma cwit_diverges : cdiverges cwit_cfg cwit_sched = true.
Proof. vm_compute. reflexivity. Qed.

Theorem chain_convergence_refuted : ~ chain_convergence_statement.
Proof. exact (cdiverges_refutes _ _ cwit_diverges). Qed.

(* ------------------------------------------------------------------ *)
(** CRAQ: "a read never returns a value not yet committed at the tail": whenever
    a handler segment resolves a read with value v, v has been applied at the tail. *)
Definition craq_read_statement : Prop :=
  forall c sched s pid s' o y, (2 <= cc_n c)%nat ->
    crun c cinit sched = Some s -> cresume c s pid = Some (s', o, y) ->
    forall rid v, In (COReadReply rid (Some v)) o ->
    exists sq k, In (sq, k, v) (n_log (k_node s' (tail_of c))).

Definition uncommitted_reply (c : ccfg) (s' : cstate) (o : cout) : bool :=
  match o with
  | COReadReply _ (Some v) => negb (existsb (fun e => snd e =? v) (n_log (k_node s' (tail_of c))))
  | _ => false
  end.

Definition craq_violates (c : ccfg) (sched : list cinp) (pid : Z) : bool :=
  (2 <=? cc_n c)%nat &&
  match crun c cinit sched with
  | Some s => match cresume c s pid with
              | Some (s', o, _) => existsb (uncommitted_reply c s') o
              | None => false
              end
  | None => false
  end.

Lemma craq_violates_refutes c sched pid : craq_violates c sched pid = true -> ~ craq_read_statement.
Proof.
  unfold craq_violates. intros D H. apply andb_true_iff in D. destruct D as [N D]. apply Nat.leb_le in N.
  destruct (crun c cinit sched) as [s|] eqn:Hr; [|discriminate].
  destruct (cresume c s pid) as [[[s' o] y]|] eqn:Hs; [|discriminate].
  apply existsb_exists in D. destruct D as (x & Hin & D).
  destruct x as [| | | |rid [v|]]; try discriminate. cbn in D.
  destruct (H c sched s pid s' o y N Hr Hs rid v Hin) as (sq & k & Hl).
  apply negb_true_iff in D. rewrite <- not_true_iff_false in D. apply D.
  apply existsb_exists. exists (sq, k, v). split; [exact Hl|cbn; apply Z.eqb_refl].
Qed.

Definition qwit_cfg : ccfg :=
  {| cc_n := 3; cc_craq := true; cc_wlat := [1000; 1000; 1000]; cc_rlat := [500; 500; 500] |}.

(** write 101 commits; write 102 has reached node 1 only; CommitNotify of 101
    cleans key 0 at node 1; a read at node 1 is served locally *)
Definition qwit_sched : list cinp :=
  [ CStart 0 (CWrite 101 0 101 true); CResume 0; CResume 0;
    CStart 1 (CProp 1 0 101 1); CResume 1; CResume 1;
    CStart 2 (CProp 2 0 101 1); CResume 2; CResume 2; CResume 2;
    CStart 0 (CWrite 102 0 102 true); CResume 3; CResume 3;
    CStart 1 (CProp 1 0 102 2); CResume 4;
    CStart 1 (CCommit 1 0 1);
    CStart 1 (CRead 103 0 true) ].

Lemma qwit_violates : craq_violates qwit_cfg qwit_sched 6 = true.
Proof. vm_compute. reflexivity. Qed.

Theorem craq_clean_read_refuted : ~ craq_read_statement.
Proof. exact (craq_violates_refutes _ _ _ qwit_violates). Qed.

(** second witness (different mechanism): the dirty mark is tested before
    store.get; a write applied during the read latency is returned uncommitted *)
Definition qwit2_cfg : ccfg := {| cc_n := 2; cc_craq := true; cc_wlat := [3000; 5000]; cc_rlat := [1000; 1500] |}.
Definition qwit2_sched : list cinp :=
  [ CStart 0 (CWrite 100 0 100 true); CStart 0 (CRead 102 0 true); CResume 0 ].

Theorem craq_check_then_read_witness : craq_violates qwit2_cfg qwit2_sched 1 = true.
Proof. vm_compute. reflexivity. Qed.
