(** C17 — executable model of happysimulator/components/replication/multi_leader.py
    (LeaderNode) with conflict_resolver.py (LastWriterWins; VectorClockMerge without
    merge_fn, which coincides with it once dominance has been tested).

    Conventions as in Model.v (one step per handler segment, untimed).  Leaders are
    nodes 0..n-1 (names "n0".."n9": string order = integer order); a version is
    (value, timestamp in microseconds, writer, vector clock as a list indexed by
    node).  The timestamp of a Write and the peer drawn by random.choice in an
    anti-entropy round are explicit inputs.  The Merkle root hash is modelled by
    the sorted (key, value) list it is computed from (sha256 assumed injective).
    No proofs in this file. *)
From HS Require Import Base.Prelude C17.Model.
Local Open Scope Z_scope.

Definition ver : Type := Z * Z * Z * list Z.     (* value, timestamp, writer, vector clock *)
Definition v_val (v : ver) : Z := fst (fst (fst v)).
Definition v_ts (v : ver) : Z := snd (fst (fst v)).
Definition v_wr (v : ver) : Z := snd (fst v).
Definition v_vc (v : ver) : list Z := snd v.

(** _vc_dominates: all components >=, one > (missing components are 0) *)
Fixpoint vc_geq (a b : list Z) : bool :=
  match a, b with
  | [], _ => forallb (fun y => y <=? 0) b
  | x :: a', [] => (0 <=? x) && vc_geq a' []
  | x :: a', y :: b' => (y <=? x) && vc_geq a' b'
  end.
Fixpoint vc_gt_some (a b : list Z) : bool :=
  match a, b with
  | [], _ => existsb (fun y => y <? 0) b
  | x :: a', [] => (0 <? x) || vc_gt_some a' []
  | x :: a', y :: b' => (y <? x) || vc_gt_some a' b'
  end.
Definition vc_dom (a b : list Z) : bool := vc_geq a b && vc_gt_some a b.

(** LastWriterWins.resolve(key, [existing, incoming]): max by (timestamp, 0, writer_id),
    the first one on a tie *)
Definition lww_lt (a b : ver) : bool := (v_ts a <? v_ts b) || ((v_ts a =? v_ts b) && (v_wr a <? v_wr b)).
Definition lww (existing incoming : ver) : ver := if lww_lt existing incoming then incoming else existing.

(** The decision shared by _handle_replicate and both anti-entropy handlers:
    [Some v] = v must be written (store.put, _versions[key] = v), [None] = keep.
    The bool says whether a conflict was counted. *)
Definition decide (existing : option ver) (incoming : ver) : option ver * bool :=
  match existing with
  | None => (Some incoming, false)
  | Some e =>
      if vc_dom (v_vc incoming) (v_vc e) then (Some incoming, false)
      else if vc_dom (v_vc e) (v_vc incoming) then (None, false)
      else if lww_lt e incoming then (Some incoming, true) else (None, true)
  end.

(** the version a replica holds after seeing [incoming] (no store latency) *)
Definition merge (e incoming : ver) : ver :=
  match fst (decide (Some e) incoming) with Some v => v | None => e end.

(* ------------------------------------------------------------------ *)
Definition vdict := list (Z * ver).
Fixpoint vget (k : Z) (m : vdict) : option ver :=
  match m with [] => None | (k', v) :: r => if k =? k' then Some v else vget k r end.
Fixpoint vput (k : Z) (v : ver) (m : vdict) : vdict :=
  match m with
  | [] => [(k, v)]
  | (k', v') :: r => if k =? k' then (k', v) :: r else (k', v') :: vput k v r
  end.

Fixpoint kv_insert (k v : Z) (l : list (Z * Z)) : list (Z * Z) :=
  match l with
  | [] => [(k, v)]
  | (k', v') :: r => if k <? k' then (k, v) :: l else if k =? k' then (k, v) :: r else (k', v') :: kv_insert k v r
  end.
(** MerkleTree.items(): sorted (key, value) *)
Definition merkle_items (m : vdict) : list (Z * Z) :=
  fold_left (fun acc kv => kv_insert (fst kv) (v_val (snd kv)) acc) m [].

Record mcfg := { mc_n : nat; mc_wlat : list Z; mc_rlat : list Z }.
Definition mn (c : mcfg) : Z := Z.of_nat (mc_n c).
Definition m_is_node (c : mcfg) (i : Z) : bool := (0 <=? i) && (i <? mn c).
Definition peers (c : mcfg) (i : Z) : list Z := filter (fun j => negb (j =? i)) (map Z.of_nat (seq 0 (mc_n c))).

Inductive mmsg :=
| LWrite (wid key val ts : Z) (rf : bool)
| LRead (rid key : Z) (rf : bool)
| LRep (dst key : Z) (v : ver)
| LAE (peer : Z)                                   (* AntiEntropy timer; peer = the random.choice draw *)
| LAEReq (dst src : Z) (h : list (Z * Z)) (vs : vdict)
| LAEResp (dst : Z) (vs : vdict)
| LOther.

Definition ver_eqb (a b : ver) : bool :=
  (v_val a =? v_val b) && (v_ts a =? v_ts b) && (v_wr a =? v_wr b) && list_eqb Z.eqb (v_vc a) (v_vc b).
Definition kver_eqb (a b : Z * ver) : bool := (fst a =? fst b) && ver_eqb (snd a) (snd b).

Definition mmsg_eqb (a b : mmsg) : bool :=
  match a, b with
  | LWrite w k v t r, LWrite w' k' v' t' r' => (w =? w') && (k =? k') && (v =? v') && (t =? t') && Bool.eqb r r'
  | LRead i k r, LRead i' k' r' => (i =? i') && (k =? k') && Bool.eqb r r'
  | LRep d k v, LRep d' k' v' => (d =? d') && (k =? k') && ver_eqb v v'
  | LAE p, LAE p' => p =? p'
  | LAEReq d s h vs, LAEReq d' s' h' vs' => (d =? d') && (s =? s') && list_eqb zz_eqb h h' && list_eqb kver_eqb vs vs'
  | LAEResp d vs, LAEResp d' vs' => (d =? d') && list_eqb kver_eqb vs vs'
  | LOther, LOther => true
  | _, _ => false
  end.

Fixpoint mtake (m : mmsg) (l : list mmsg) : option (list mmsg) :=
  match l with
  | [] => None
  | x :: r => if mmsg_eqb m x then Some r
              else match mtake m r with Some r' => Some (x :: r') | None => None end
  end.

Inductive mpc :=
| LWPut (wid key : Z) (v : ver) (rf : bool)       (* _handle_write inside store.put *)
| LWSent (wid : Z) (rf : bool)                    (* after [yield 0.0, events] *)
| LRGet (rid key : Z) (rf : bool)
| LRPut (key : Z) (v : ver)                       (* _handle_replicate inside store.put *)
| LAESent                                         (* _handle_anti_entropy after its yield *)
| LAEPut (isreq : bool) (src : Z) (h : list (Z * Z)) (key : Z) (v : ver) (rest : vdict)
                                                  (* anti-entropy request/response loop inside store.put *)
| LAERespSent.

Record mproc := { mp_id : Z; mp_node : Z; mp_pc : mpc }.

Record lnode := {
  l_store : dict; l_vers : vdict; l_vclock : list Z;
  l_writes : Z; l_reads : Z; l_rsent : Z; l_rrecv : Z; l_cdet : Z; l_cres : Z; l_ae : Z; l_rep : Z;
}.

Record mstate := {
  m_node : Z -> lnode; m_procs : list mproc; m_next : Z; m_net : list mmsg;
}.

Definition lnode0 (c : mcfg) : lnode :=
  {| l_store := []; l_vers := []; l_vclock := repeat 0 (mc_n c);
     l_writes := 0; l_reads := 0; l_rsent := 0; l_rrecv := 0; l_cdet := 0; l_cres := 0; l_ae := 0; l_rep := 0 |}.
Definition minit (c : mcfg) : mstate :=
  {| m_node := fun _ => lnode0 c; m_procs := []; m_next := 0; m_net := [] |}.

Inductive minp := MStart (n : Z) (m : mmsg) | MResume (pid : Z).
Inductive mout :=
| MOSend (m : mmsg)
| MONext                                  (* the next AntiEntropy timer event *)
| MOReply (wid : Z)
| MOReadReply (rid : Z) (v : option Z).

(* ------------------------------------------------------------------ *)
Fixpoint vc_tick (i : nat) (v : list Z) : list Z :=
  match i, v with
  | _, [] => []
  | O, x :: r => (x + 1) :: r
  | S i', x :: r => x :: vc_tick i' r
  end.
Fixpoint vc_max (a b : list Z) : list Z :=
  match a, b with
  | [], _ => []
  | x :: a', [] => x :: a'
  | x :: a', y :: b' => Z.max x y :: vc_max a' b'
  end.

Fixpoint mfind (pid : Z) (l : list mproc) : option mproc :=
  match l with [] => None | p :: r => if mp_id p =? pid then Some p else mfind pid r end.
Fixpoint mset (pid : Z) (c : mpc) (l : list mproc) : list mproc :=
  match l with
  | [] => []
  | p :: r => if mp_id p =? pid then {| mp_id := pid; mp_node := mp_node p; mp_pc := c |} :: r else p :: mset pid c r
  end.
Fixpoint mdel (pid : Z) (l : list mproc) : list mproc :=
  match l with [] => [] | p :: r => if mp_id p =? pid then r else p :: mdel pid r end.

Definition ms_node (s : mstate) (i : Z) (nd : lnode) : mstate :=
  {| m_node := upd (m_node s) i nd; m_procs := m_procs s; m_next := m_next s; m_net := m_net s |}.
Definition ms_procs (s : mstate) (l : list mproc) : mstate :=
  {| m_node := m_node s; m_procs := l; m_next := m_next s; m_net := m_net s |}.
Definition ms_net (s : mstate) (l : list mmsg) : mstate :=
  {| m_node := m_node s; m_procs := m_procs s; m_next := m_next s; m_net := l |}.
Definition mbump (s : mstate) : mstate :=
  {| m_node := m_node s; m_procs := m_procs s; m_next := m_next s + 1; m_net := m_net s |}.
Definition mspawn (s : mstate) (n : Z) (c : mpc) : mstate :=
  mbump (ms_procs s (m_procs s ++ [{| mp_id := m_next s; mp_node := n; mp_pc := c |}])).
(** the process table entry of [pid] (a fresh one when the handler is in its first segment) *)
Definition msuspend (s : mstate) (pid : option Z) (n : Z) (c : mpc) : mstate :=
  match pid with
  | Some p => ms_procs s (mset p c (m_procs s))
  | None => mspawn s n c
  end.
Definition mfinish (s : mstate) (pid : option Z) : mstate :=
  match pid with
  | Some p => ms_procs s (mdel p (m_procs s))
  | None => mbump s
  end.

Definition nd_set (nd : lnode) (store : dict) (vers : vdict) (vcl : list Z) (w r rs rr cd cr ae rp : Z) : lnode :=
  {| l_store := store; l_vers := vers; l_vclock := vcl; l_writes := w; l_reads := r; l_rsent := rs;
     l_rrecv := rr; l_cdet := cd; l_cres := cr; l_ae := ae; l_rep := rp |}.

(** apply a version after store.put returned *)
Definition nd_apply (nd : lnode) (k : Z) (v : ver) (repaired : Z) : lnode :=
  nd_set nd (dput k (v_val v) (l_store nd)) (vput k v (l_vers nd)) (l_vclock nd) (l_writes nd) (l_reads nd)
         (l_rsent nd) (l_rrecv nd) (l_cdet nd) (l_cres nd) (l_ae nd) (l_rep nd + repaired).
Definition nd_conflict (nd : lnode) (b : bool) : lnode :=
  if b then nd_set nd (l_store nd) (l_vers nd) (l_vclock nd) (l_writes nd) (l_reads nd) (l_rsent nd) (l_rrecv nd)
                   (l_cdet nd + 1) (l_cres nd + 1) (l_ae nd) (l_rep nd)
  else nd.

(** the reconcile loop of _handle_anti_entropy_request/_response: runs until an item needs a
    store.put (suspend) or the items are exhausted (then the request side may answer) *)
Fixpoint ae_loop (c : mcfg) (s : mstate) (pid : option Z) (i : Z) (isreq : bool) (src : Z) (h : list (Z * Z))
  (items : vdict) : mstate * list mout * yld :=
  match items with
  | [] =>
      let nd := m_node s i in
      if isreq && negb (list_eqb zz_eqb h (merkle_items (l_vers nd))) && existsb (Z.eqb src) (peers c i) then
        let m := LAEResp src (l_vers nd) in
        (msuspend (ms_net s (m_net s ++ [m])) pid i LAERespSent, [MOSend m], YEvents 0)
      else (mfinish s pid, [], YEnd)
  | (k, rv) :: rest =>
      let nd := m_node s i in
      let '(d, conflict) := decide (vget k (l_vers nd)) rv in
      let s1 := ms_node s i (nd_conflict nd conflict) in
      match d with
      | Some v => (msuspend s1 pid i (LAEPut isreq src h k v rest), [], YDelay (lat (mc_wlat c) i))
      | None => ae_loop c s1 pid i isreq src h rest
      end
  end.

Definition mstart (c : mcfg) (s : mstate) (i : Z) (m : mmsg) : option (mstate * list mout * yld) :=
  if m_is_node c i then
    let nd := m_node s i in
    match m with
    | LWrite wid k val ts rf =>
        let vcl := vc_tick (Z.to_nat i) (l_vclock nd) in
        let nd' := nd_set nd (l_store nd) (l_vers nd) vcl (l_writes nd + 1) (l_reads nd) (l_rsent nd) (l_rrecv nd)
                          (l_cdet nd) (l_cres nd) (l_ae nd) (l_rep nd) in
        Some (mspawn (ms_node s i nd') i (LWPut wid k (val, ts, i, vcl) rf), [], YDelay (lat (mc_wlat c) i))
    | LRead rid k rf =>
        let nd' := nd_set nd (l_store nd) (l_vers nd) (l_vclock nd) (l_writes nd) (l_reads nd + 1) (l_rsent nd)
                          (l_rrecv nd) (l_cdet nd) (l_cres nd) (l_ae nd) (l_rep nd) in
        Some (mspawn (ms_node s i nd') i (LRGet rid k rf), [], YDelay (lat (mc_rlat c) i))
    | LRep d k v =>
        if d =? i then
          match mtake m (m_net s) with
          | None => None
          | Some net' =>
              let vcl := match v_vc v with
                         | [] => l_vclock nd
                         | _ => vc_tick (Z.to_nat i) (vc_max (l_vclock nd) (v_vc v))
                         end in
              let '(dec, conflict) := decide (vget k (l_vers nd)) v in
              let nd1 := nd_set nd (l_store nd) (l_vers nd) vcl (l_writes nd) (l_reads nd) (l_rsent nd)
                                (l_rrecv nd + 1) (l_cdet nd) (l_cres nd) (l_ae nd) (l_rep nd) in
              let s1 := ms_node (ms_net s net') i (nd_conflict nd1 conflict) in
              match dec with
              | Some w => Some (mspawn s1 i (LRPut k w), [], YDelay (lat (mc_wlat c) i))
              | None => Some (mbump s1, [], YEnd)
              end
          end
        else None
    | LAE peer =>
        match peers c i with
        | [] => Some (mbump s, [], YEnd)
        | _ =>
            if existsb (Z.eqb peer) (peers c i) then
              let nd' := nd_set nd (l_store nd) (l_vers nd) (l_vclock nd) (l_writes nd) (l_reads nd) (l_rsent nd)
                                (l_rrecv nd) (l_cdet nd) (l_cres nd) (l_ae nd + 1) (l_rep nd) in
              let rq := LAEReq peer i (merkle_items (l_vers nd)) (l_vers nd) in
              Some (mspawn (ms_net (ms_node s i nd') (m_net s ++ [rq])) i LAESent, [MOSend rq; MONext], YEvents 0)
            else None
        end
    | LAEReq d src h vs =>
        if d =? i then
          match mtake m (m_net s) with
          | None => None
          | Some net' => Some (ae_loop c (ms_net s net') None i true src h vs)
          end
        else None
    | LAEResp d vs =>
        if d =? i then
          match mtake m (m_net s) with
          | None => None
          | Some net' => Some (ae_loop c (ms_net s net') None i false 0 [] vs)
          end
        else None
    | LOther => Some (mbump s, [], YEnd)
    end
  else None.

Definition mresume (c : mcfg) (s : mstate) (pid : Z) : option (mstate * list mout * yld) :=
  match mfind pid (m_procs s) with
  | None => None
  | Some p =>
      let i := mp_node p in
      let nd := m_node s i in
      match mp_pc p with
      | LWPut wid k v rf =>
          let ps := peers c i in
          let ms := map (fun j => LRep j k v) ps in
          let nd1 := nd_apply nd k v 0 in
          let nd' := nd_set nd1 (l_store nd1) (l_vers nd1) (l_vclock nd1) (l_writes nd1) (l_reads nd1)
                            (l_rsent nd1 + Z.of_nat (length ps)) (l_rrecv nd1) (l_cdet nd1) (l_cres nd1) (l_ae nd1) (l_rep nd1) in
          let s1 := ms_net (ms_node s i nd') (m_net s ++ ms) in
          match ms with
          | [] => Some (ms_procs s1 (mdel pid (m_procs s1)), if rf then [MOReply wid] else [], YEnd)
          | _ => Some (ms_procs s1 (mset pid (LWSent wid rf) (m_procs s1)), map MOSend ms, YEvents 0)
          end
      | LWSent wid rf => Some (ms_procs s (mdel pid (m_procs s)), if rf then [MOReply wid] else [], YEnd)
      | LRGet rid k rf =>
          Some (ms_procs s (mdel pid (m_procs s)), if rf then [MOReadReply rid (dget k (l_store nd))] else [], YEnd)
      | LRPut k v => Some (ms_procs (ms_node s i (nd_apply nd k v 0)) (mdel pid (m_procs s)), [], YEnd)
      | LAEPut isreq src h k v rest =>
          Some (ae_loop c (ms_node s i (nd_apply nd k v 1)) (Some pid) i isreq src h rest)
      | LAESent | LAERespSent => Some (ms_procs s (mdel pid (m_procs s)), [], YEnd)
      end
  end.

Definition mstep (c : mcfg) (s : mstate) (i : minp) : option (mstate * list mout * yld) :=
  match i with MStart n m => mstart c s n m | MResume pid => mresume c s pid end.

Fixpoint mrun (c : mcfg) (s : mstate) (sched : list minp) : option mstate :=
  match sched with
  | [] => Some s
  | i :: r => match mstep c s i with Some (s', _, _) => mrun c s' r | None => None end
  end.

(* ------------------------------------------------------------------ *)
(** * Comparison with the implementation's recorded trace *)
Definition mout_eqb (a b : mout) : bool :=
  match a, b with
  | MOSend m, MOSend m' => mmsg_eqb m m'
  | MONext, MONext => true
  | MOReply w, MOReply w' => w =? w'
  | MOReadReply r v, MOReadReply r' v' => (r =? r') && oz_eqb v v'
  | _, _ => false
  end.

Definition flat_vers (m : vdict) : list Z :=
  flat_map (fun kv => [fst kv; v_val (snd kv); v_ts (snd kv); v_wr (snd kv)] ++ v_vc (snd kv)) m.

(** store items; counters ++ vclock ++ [-1] ++ flattened versions *)
Definition mobs_node (s : mstate) (i : Z) : node_obs :=
  let nd := m_node s i in
  (l_store nd,
   [l_writes nd; l_reads nd; l_rsent nd; l_rrecv nd; l_cdet nd; l_cres nd; l_ae nd; l_rep nd]
     ++ l_vclock nd ++ [-1] ++ flat_vers (l_vers nd)).

Definition mnode_of_inp (s : mstate) (i : minp) : Z :=
  match i with
  | MStart n _ => n
  | MResume pid => match mfind pid (m_procs s) with Some p => mp_node p | None => -1 end
  end.

Definition mseg : Type := minp * list mout * yld * option node_obs.

Fixpoint mreplay (c : mcfg) (s : mstate) (tr : list mseg) : option mstate :=
  match tr with
  | [] => Some s
  | (i, outs, y, ob) :: r =>
      let n := mnode_of_inp s i in
      match mstep c s i with
      | None => None
      | Some (s', outs', y') =>
          if list_eqb mout_eqb outs' outs && yld_eqb y' y
             && obs_eqb (mobs_node s' n) (match ob with Some o => o | None => mobs_node s n end)
          then mreplay c s' r else None
      end
  end.

Definition mk_mcfg (e : nat * list Z * list Z) : mcfg :=
  let '(n, wl, rl) := e in {| mc_n := n; mc_wlat := wl; mc_rlat := rl |}.

Definition ok_ml (cs : (nat * list Z * list Z) * list mseg * (list node_obs * Z * Z)) : bool :=
  let '(ce, tr, (nodes, nnet, nprocs)) := cs in
  let c := mk_mcfg ce in
  match mreplay c (minit c) tr with
  | None => false
  | Some s =>
      forallb2 (fun n o => obs_eqb (mobs_node s n) o) (map Z.of_nat (seq 0 (mc_n c))) nodes
      && (Z.of_nat (length (m_net s)) =? nnet) && (Z.of_nat (length (m_procs s)) =? nprocs)
  end.

(** direct comparison of the decision kernel with _vc_dominates / the resolvers *)
Definition ok_ml_kernel (cs : ver * ver * (bool * bool * Z * Z)) : bool :=
  let '(a, b, (dab, dba, lww_ab, merge_ab)) := cs in
  Bool.eqb (vc_dom (v_vc a) (v_vc b)) dab && Bool.eqb (vc_dom (v_vc b) (v_vc a)) dba
  && (v_val (lww a b) =? lww_ab) && (v_val (merge a b) =? merge_ab).
