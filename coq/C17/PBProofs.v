(** C17 — primary-backup: acknowledged writes are applied where the mode promises
    (invariant over every schedule of the step machine of Model.v). *)
From HS Require Import Base.Prelude C17.Model.
Local Open Scope Z_scope.

(* ------------------------------------------------------------------ *)
(** * Small facts about the helpers *)
Lemma msg_eqb_eq a b : msg_eqb a b = true -> a = b.
Proof.
  destruct a, b; cbn; try discriminate; intros H;
    repeat (apply andb_true_iff in H; destruct H as [H ?]);
    repeat match goal with
           | H : (_ =? _) = true |- _ => apply Z.eqb_eq in H
           | H : Bool.eqb _ _ = true |- _ => apply eqb_prop in H
           end; subst; reflexivity.
Qed.

Lemma take_msg_in m l l' : take_msg m l = Some l' -> In m l /\ incl l' l.
Proof.
  revert l'; induction l as [|x r IH]; cbn; intros l' H; [discriminate|].
  destruct (msg_eqb m x) eqn:E.
  - inversion H; subst. apply msg_eqb_eq in E; subst. split; [now left|]. intros y Hy; now right.
  - destruct (take_msg m r) eqn:T; [|discriminate]. inversion H; subst.
    destruct (IH _ eq_refl) as [Hin Hinc]. split; [now right|].
    intros y [->|Hy]; [now left|right; now apply Hinc].
Qed.

Lemma find_proc_in pid l p : find_proc pid l = Some p -> In p l /\ p_id p = pid.
Proof.
  induction l as [|q r IH]; cbn; [discriminate|].
  destruct (p_id q =? pid) eqn:E; intros H.
  - inversion H; subst. split; [now left|now apply Z.eqb_eq].
  - destruct (IH H); split; [now right|assumption].
Qed.

Lemma in_set_pc pid c l q : In q (set_pc pid c l) -> In q l \/ p_pc q = c.
Proof.
  induction l as [|p r IH]; cbn; [tauto|].
  destruct (p_id p =? pid); cbn; intros [<-|H]; auto.
  destruct (IH H); auto.
Qed.

Lemma in_del_proc pid l q : In q (del_proc pid l) -> In q l.
Proof.
  induction l as [|p r IH]; cbn; [tauto|].
  destruct (p_id p =? pid); cbn; [now right|]. intros [<-|H]; auto.
Qed.

Lemma mem2_in a b l : mem2 a b l = true <-> In (a, b) l.
Proof.
  unfold mem2. rewrite existsb_exists. split.
  - intros [[x y] [Hin H]]; cbn in H. apply andb_true_iff in H; destruct H as [H1 H2].
    apply Z.eqb_eq in H1, H2; subst; assumption.
  - intros H; exists (a, b); split; [assumption|]. cbn. now rewrite !Z.eqb_refl.
Qed.

Lemma in_bids c b : In b (bids c) <-> 1 <= b <= Z.of_nat (c_nb c).
Proof.
  unfold bids. rewrite in_map_iff. split.
  - intros [n [<- H]]. apply in_seq in H. lia.
  - intros H. exists (Z.to_nat b). split; [lia|]. apply in_seq. lia.
Qed.

(* ------------------------------------------------------------------ *)
(** * The invariant *)
Notation acc s := (s_accepted s).
Notation plog s := (ps_log (s_prim s)).
Notation blog s b := (bs_log (s_bak s b)).

(** what an acknowledgement promises *)
Definition reply_ok (c : cfg) (s : state) (w sq : Z) : Prop :=
  exists k v, In (w, sq, k, v) (acc s) /\ In (sq, k, v) (plog s) /\
    (c_mode c = SYNC -> forall b, In b (bids c) -> In (sq, k, v) (blog s b)) /\
    (c_mode c = SEMI -> c_nb c <> O -> exists b, In b (bids c) /\ In (sq, k, v) (blog s b)).

Definition proc_ok (s : state) (p : proc) : Prop :=
  match p_pc p with
  | PWPut w k v sq _ => In (w, sq, k, v) (acc s)
  | PWSent w sq _ | PWWait w sq _ => exists k v, In (w, sq, k, v) (acc s) /\ In (sq, k, v) (plog s)
  | PBPut k v sq _ => exists w, In (w, sq, k, v) (acc s)
  | PRGet _ _ _ | PBSent => True
  end.

Record Inv (c : cfg) (s : state) : Prop := {
  i_bound : forall w sq k v, In (w, sq, k, v) (acc s) -> sq <= ps_seq (s_prim s);
  i_fun : forall w sq k v w' k' v', In (w, sq, k, v) (acc s) -> In (w', sq, k', v') (acc s) ->
          w = w' /\ k = k' /\ v = v';
  i_net : forall b k v sq f, In (MReplicate b k v sq f) (s_net s) -> exists w, In (w, sq, k, v) (acc s);
  i_procs : forall p, In p (s_procs s) -> proc_ok s p;
  i_res : forall sq b, In (sq, b) (s_res s) -> exists w k v, In (w, sq, k, v) (acc s) /\ In (sq, k, v) (blog s b);
  i_rep : forall w sq, In (w, sq) (s_replies s) -> reply_ok c s w sq;
}.

Definition mono (s s' : state) : Prop :=
  incl (acc s) (acc s') /\ incl (plog s) (plog s') /\ forall b, incl (blog s b) (blog s' b).

Lemma mono_refl s : mono s s.
Proof. repeat split; intros; apply incl_refl. Qed.

Lemma proc_ok_mono s s' p : mono s s' -> proc_ok s p -> proc_ok s' p.
Proof.
  intros (Ha & Hp & Hb). unfold proc_ok. destruct (p_pc p); auto.
  - intros (k & v & H1 & H2); eauto 6.
  - intros (k & v & H1 & H2); eauto 6.
  - intros (w & H); eauto.
Qed.

Lemma reply_ok_mono c s s' w sq : mono s s' -> reply_ok c s w sq -> reply_ok c s' w sq.
Proof.
  intros (Ha & Hp & Hb) (k & v & H1 & H2 & H3 & H4). exists k, v. repeat split; auto.
  - intros Hm b Hin. apply Hb; auto.
  - intros Hm Hn. destruct (H4 Hm Hn) as (b & ? & ?). exists b; split; auto. apply Hb; auto.
Qed.

Lemma inv_init c : Inv c init.
Proof. split; cbn; intros; try contradiction. Qed.

(* ------------------------------------------------------------------ *)
(** * Preservation *)
Ltac inv_pair H := inversion H; subst; clear H.
Ltac mono_tac :=
  repeat split; cbn; intros; unfold with_bak, upd; cbn;
  try match goal with |- context [?b =? ?n] => destruct (b =? n) eqn:?E; [apply Z.eqb_eq in E; subst|] end;
  try apply incl_refl; try (apply incl_tl, incl_refl); try (apply incl_appl, incl_refl).

Lemma inv_gen c s s' :
  Inv c s -> acc s' = acc s -> ps_seq (s_prim s) <= ps_seq (s_prim s') -> mono s s' ->
  (forall b k v sq f, In (MReplicate b k v sq f) (s_net s') ->
     In (MReplicate b k v sq f) (s_net s) \/ exists w, In (w, sq, k, v) (acc s')) ->
  (forall p, In p (s_procs s') -> In p (s_procs s) \/ proc_ok s' p) ->
  (forall sq b, In (sq, b) (s_res s') ->
     In (sq, b) (s_res s) \/ exists w k v, In (w, sq, k, v) (acc s') /\ In (sq, k, v) (blog s' b)) ->
  (forall w sq, In (w, sq) (s_replies s') -> In (w, sq) (s_replies s) \/ reply_ok c s' w sq) ->
  Inv c s'.
Proof.
  intros I Ha Hs Hm Hn Hp Hr Hy. pose proof Hm as (Hma & Hmp & Hmb). destruct I. split.
  - intros w sq k v Hin. rewrite Ha in Hin. apply i_bound0 in Hin. lia.
  - intros w sq k v w' k' v'. rewrite Ha. apply i_fun0.
  - intros b k v sq f Hin. destruct (Hn _ _ _ _ _ Hin) as [H|H]; [|exact H].
    destruct (i_net0 _ _ _ _ _ H) as [w ?]. exists w. now apply Hma.
  - intros p Hin. destruct (Hp _ Hin) as [H|H]; [|exact H]. apply (proc_ok_mono s); auto.
  - intros sq b Hin. destruct (Hr _ _ Hin) as [H|H]; [|exact H].
    destruct (i_res0 _ _ H) as (w & k & v & ? & ?). exists w, k, v. split; [now apply Hma|now apply Hmb].
  - intros w sq Hin. destruct (Hy _ _ Hin) as [H|H]; [|exact H]. apply (reply_ok_mono c s); auto.
Qed.

Ltac gen_tac c s :=
  apply (inv_gen c s); auto; try reflexivity; try (cbn; lia); try (solve [mono_tac]); cbn; auto.

Lemma in_spawn s n pcv p :
  In p (s_procs (spawn s n pcv)) -> In p (s_procs s) \/ p = {| p_id := s_next s; p_node := n; p_pc := pcv |}.
Proof. cbn. intros H. apply in_app_or in H. destruct H as [H|[<-|[]]]; auto. Qed.

Lemma inv_start c s n m s' o y : Inv c s -> start c s n m = Some (s', o, y) -> Inv c s'.
Proof.
  intros I H. unfold start in H.
  destruct (n =? 0) eqn:En.
  - destruct m as [w k v rf|r k rf|b k v sq f|b sq|].
    + (* Write *) inv_pair H. unfold prim_write_start. destruct I. split.
      * cbn. intros w0 sq k0 v0 [E|Hin]; [inversion E; subst; lia|]. apply i_bound0 in Hin. lia.
      * cbn. intros w0 sq k0 v0 w' k' v' [E|Hin] [E'|Hin'].
        -- inversion E; inversion E'; subst; auto.
        -- inversion E; subst. apply i_bound0 in Hin'. lia.
        -- inversion E'; subst. apply i_bound0 in Hin. lia.
        -- eapply i_fun0; eauto.
      * cbn. intros b k0 v0 sq f Hin. destruct (i_net0 _ _ _ _ _ Hin) as [w0 ?]. exists w0; now right.
      * intros q Hin. apply in_spawn in Hin. destruct Hin as [Hin| ->].
        -- apply (proc_ok_mono s); [mono_tac|]. apply i_procs0. exact Hin.
        -- cbn. now left.
      * cbn. intros sq b Hin. destruct (i_res0 _ _ Hin) as (w0 & k0 & v0 & ? & ?). exists w0, k0, v0; split; [now right|auto].
      * cbn. intros w0 sq Hin. apply (reply_ok_mono c s); [mono_tac|auto].
    + (* Read *) inv_pair H. unfold prim_read_start.
      gen_tac c s.
      intros q Hin. apply in_app_or in Hin. destruct Hin as [Hin|[<-|[]]]; [now left|right; exact Logic.I].
    + discriminate.
    + (* Ack *) destruct (take_msg (MAck b sq) (s_net s)) eqn:T; [|discriminate]. inv_pair H.
      apply take_msg_in in T; destruct T as [_ Hinc].
      gen_tac c s.
    + inv_pair H. gen_tac c s.
  - destruct (is_backup c n); [|discriminate].
    destruct m as [w k v rf|r k rf|b k v sq f|b sq|].
    + inv_pair H. gen_tac c s.
    + destruct (serves c n); inv_pair H.
      * gen_tac c s.
        intros q Hin. apply in_app_or in Hin. destruct Hin as [Hin|[<-|[]]]; [now left|right; exact Logic.I].
      * gen_tac c s.
    + destruct (b =? n) eqn:Eb; [|discriminate].
      destruct (take_msg (MReplicate b k v sq f) (s_net s)) eqn:T; [|discriminate]. inv_pair H.
      apply take_msg_in in T; destruct T as [Hm Hinc].
      gen_tac c s.
      intros q Hin. apply in_app_or in Hin. destruct Hin as [Hin|[<-|[]]]; [now left|right].
      cbn. destruct I. eauto.
    + discriminate.
    + inv_pair H. gen_tac c s.
Qed.

Lemma in_add_reply s w sq rf w0 sq0 :
  In (w0, sq0) (s_replies (add_reply s w sq rf)) -> In (w0, sq0) (s_replies s) \/ (w0 = w /\ sq0 = sq).
Proof. unfold add_reply. destruct rf; cbn; auto. intros [E|H]; auto. inversion E; auto. Qed.

Lemma add_reply_same s w sq rf :
  acc (add_reply s w sq rf) = acc s /\ s_prim (add_reply s w sq rf) = s_prim s /\
  s_bak (add_reply s w sq rf) = s_bak s /\ s_net (add_reply s w sq rf) = s_net s /\
  s_procs (add_reply s w sq rf) = s_procs s /\ s_res (add_reply s w sq rf) = s_res s.
Proof. unfold add_reply; destruct rf; cbn; auto 10. Qed.

Lemma inv_finish c s pid w sq rf s' o y :
  Inv c s -> finish_write s pid w sq rf = (s', o, y) -> reply_ok c s w sq -> Inv c s'.
Proof.
  intros I H R. unfold finish_write in H. inv_pair H.
  set (s0 := with_procs s (del_proc pid (s_procs s))).
  destruct (add_reply_same s0 w sq rf) as (E1 & E2 & E3 & E4 & E5 & E6).
  assert (Hm : mono s (add_reply s0 w sq rf)).
  { unfold mono. rewrite E1, E2, E3. subst s0; cbn. repeat split; intros; apply incl_refl. }
  apply (inv_gen c s); auto.
  - rewrite E2; subst s0; cbn; lia.
  - rewrite E4; subst s0; cbn; auto.
  - rewrite E5; subst s0; cbn. intros p Hin. left. eapply in_del_proc; eauto.
  - rewrite E6; subst s0; cbn; auto.
  - intros w0 sq0 Hin. apply in_add_reply in Hin. destruct Hin as [Hin|[-> ->]]; [now left|right].
    apply (reply_ok_mono c s); auto.
Qed.

Lemma inv_resume c s pid s' o y : Inv c s -> resume c s pid = Some (s', o, y) -> Inv c s'.
Proof.
  intros I H. unfold resume in H.
  destruct (find_proc pid (s_procs s)) as [p|] eqn:F; [|discriminate].
  apply find_proc_in in F. destruct F as [Hp _].
  pose proof (i_procs c s I p Hp) as Hok. unfold proc_ok in Hok.
  destruct (p_pc p) as [w k v sq rf|w sq rf|w sq rf|r k rf|k v sq fut|] eqn:Epc.
  - (* primary: put done *)
    injection H as H. unfold prim_put_done in H.
    set (msgs := map (fun b => MReplicate b k v sq match c_mode c with ASYNC => false | _ => true end) (bids c)) in *.
    set (p' := {| ps_store := dput k v (ps_store (s_prim s)); ps_seq := ps_seq (s_prim s);
                  ps_writes := ps_writes (s_prim s); ps_reads := ps_reads (s_prim s);
                  ps_sent := ps_sent (s_prim s) + Z.of_nat (c_nb c); ps_acks := ps_acks (s_prim s);
                  ps_lag := lag_after_write c (s_prim s) sq; ps_acked := ps_acked (s_prim s);
                  ps_log := plog s ++ [(sq, k, v)] |}) in *.
    set (s1 := with_net (with_prim s p') (s_net s ++ msgs)) in *.
    assert (I1 : Inv c (with_procs s1 (set_pc pid (PWSent w sq rf) (s_procs s1)))).
    { gen_tac c s.
      - intros b k0 v0 sq0 f Hin. apply in_app_or in Hin. destruct Hin as [Hin|Hin]; [now left|right].
        subst msgs. apply in_map_iff in Hin. destruct Hin as (b0 & E & _). inversion E; subst. eauto.
      - intros q Hin. apply in_set_pc in Hin. destruct Hin as [Hin|Hq]; [now left|right].
        unfold proc_ok. rewrite Hq. cbn. exists k, v. split; [auto|]. apply in_or_app; right; now left. }
    destruct (c_mode c) eqn:Em; try (inv_pair H; exact I1).
    destruct (c_nb c) eqn:En; try (inv_pair H; exact I1).
    eapply (inv_finish c s1); [|exact H|].
    + subst s1. gen_tac c s.
      intros b k0 v0 sq0 f Hin. apply in_app_or in Hin. destruct Hin as [Hin|Hin]; [now left|right].
      subst msgs. apply in_map_iff in Hin. destruct Hin as (b0 & E & _). inversion E; subst. eauto.
    + exists k, v. subst s1; cbn. split; [auto|]. split; [apply in_or_app; right; now left|].
      split; intros; congruence.
  - (* primary: after yield 0.0, events *)
    unfold prim_sent in H.
    assert (R : c_mode c = ASYNC \/ c_nb c = O -> reply_ok c s w sq).
    { intros HH. destruct Hok as (k & v & H1 & H2). exists k, v. repeat split; auto.
      - intros Hm b Hb. destruct HH as [HH|HH]; [congruence|]. apply in_bids in Hb. lia.
      - intros Hm Hn. destruct HH as [HH|HH]; congruence. }
    assert (W : Inv c (with_procs s (set_pc pid (PWWait w sq rf) (s_procs s)))).
    { gen_tac c s. intros q Hin. apply in_set_pc in Hin. destruct Hin as [Hin|Hq]; [now left|right].
      unfold proc_ok. rewrite Hq. exact Hok. }
    destruct (c_mode c) eqn:Em; destruct (c_nb c) eqn:En; inv_pair H;
      try exact W;
      (eapply (inv_finish c s pid w sq rf); [exact I|reflexivity|apply R; auto]).
  - (* primary: composite ack future resolved *)
    destruct (acks_ready c s sq) eqn:A; [|discriminate]. inv_pair H.
    eapply (inv_finish c s pid w sq rf); [exact I|reflexivity|].
    destruct Hok as (k & v & H1 & H2). exists k, v. repeat split; auto.
    + intros Hm b Hb. unfold acks_ready in A. rewrite Hm in A. rewrite forallb_forall in A.
      specialize (A _ Hb). apply mem2_in in A. destruct (i_res c s I _ _ A) as (w' & k' & v' & Ha & Hl).
      destruct (i_fun c s I _ _ _ _ _ _ _ H1 Ha) as (_ & -> & ->). exact Hl.
    + intros Hm _. unfold acks_ready in A. rewrite Hm in A. apply existsb_exists in A.
      destruct A as (b & Hb & A). apply mem2_in in A. destruct (i_res c s I _ _ A) as (w' & k' & v' & Ha & Hl).
      destruct (i_fun c s I _ _ _ _ _ _ _ H1 Ha) as (_ & -> & ->). eauto.
  - (* read done *)
    unfold read_done in H. destruct (p_node p =? 0); inv_pair H; gen_tac c s;
      intros q Hin; left; eapply in_del_proc; eauto.
  - (* backup: put done *)
    inv_pair H. unfold bak_put_done. destruct Hok as (w & Hacc).
    set (n := p_node p).
    set (b' := {| bs_store := dput k v (bs_store (s_bak s n)); bs_applied := bs_applied (s_bak s n) + 1;
                  bs_reads := bs_reads (s_bak s n); bs_last := sq; bs_log := blog s n ++ [(sq, k, v)] |}).
    assert (Hlog : In (sq, k, v) (blog (with_bak s n b') n)).
    { unfold with_bak, upd; cbn. rewrite Z.eqb_refl. cbn. apply in_or_app; right; now left. }
    destruct fut; [change (s_res (with_bak s n b')) with (s_res s); destruct (mem2 sq n (s_res s)) eqn:M|].
    + gen_tac c s.
      * intros b k0 v0 sq0 f Hin. apply in_app_or in Hin. destruct Hin as [Hin|[E|[]]]; [now left|discriminate].
      * intros q Hin. apply in_set_pc in Hin. destruct Hin as [Hin|Hq]; [now left|right].
        unfold proc_ok. rewrite Hq. exact Logic.I.
    + gen_tac c s.
      * intros b k0 v0 sq0 f Hin. apply in_app_or in Hin. destruct Hin as [Hin|[E|[]]]; [now left|discriminate].
      * intros q Hin. apply in_set_pc in Hin. destruct Hin as [Hin|Hq]; [now left|right].
        unfold proc_ok. rewrite Hq. exact Logic.I.
      * intros sq0 b [E|Hin]; [|now left]. inversion E; subst. right. exists w, k, v. split; [auto|exact Hlog].
    + gen_tac c s.
      * intros b k0 v0 sq0 f Hin. apply in_app_or in Hin. destruct Hin as [Hin|[E|[]]]; [now left|discriminate].
      * intros q Hin. apply in_set_pc in Hin. destruct Hin as [Hin|Hq]; [now left|right].
        unfold proc_ok. rewrite Hq. exact Logic.I.
  - inv_pair H. gen_tac c s. intros q Hin; left; eapply in_del_proc; eauto.
Qed.

Lemma inv_step c s i s' o y : Inv c s -> step c s i = Some (s', o, y) -> Inv c s'.
Proof. destruct i; cbn; [apply inv_start|apply inv_resume]. Qed.

Lemma inv_run c sched : forall s s', Inv c s -> run c s sched = Some s' -> Inv c s'.
Proof.
  induction sched as [|i r IH]; cbn; intros s s' I H; [inversion H; subst; exact I|].
  destruct (step c s i) as [[[s1 o] y]|] eqn:E; [|discriminate].
  eapply IH; [eapply inv_step; eauto|exact H].
Qed.

(* ------------------------------------------------------------------ *)
(** * The theorems *)

(** Every acknowledgement, in every mode, after every schedule: the write was
    applied on the primary; on every backup (SYNC); on some backup (SEMI_SYNC,
    at least one backup configured). *)
Theorem pb_ack_applied c sched s :
  run c init sched = Some s ->
  forall w sq, In (w, sq) (s_replies s) ->
  exists k v, In (w, sq, k, v) (s_accepted s) /\ In (sq, k, v) (ps_log (s_prim s)) /\
    (c_mode c = SYNC -> forall b, In b (bids c) -> In (sq, k, v) (bs_log (s_bak s b))) /\
    (c_mode c = SEMI -> c_nb c <> O -> exists b, In b (bids c) /\ In (sq, k, v) (bs_log (s_bak s b))).
Proof.
  intros H w sq Hin. pose proof (inv_run c sched init s (inv_init c) H) as I.
  exact (i_rep c s I w sq Hin).
Qed.
