(** C17 — primary-backup convergence, the part that does hold: when every link
    primary->backup delivers in send order and every backup store completes its
    puts in arrival order (constant latencies, the situation of the unit tests),
    all replicas hold exactly the primary's store once the system is quiescent —
    for every write sequence (repeated keys included), every mode, every number
    of backups, every interleaving otherwise. *)
From HS Require Import Base.Prelude C17.Model C17.PBProofs C17.PBConv.
From Coq Require Import FinFun.
Local Open Scope Z_scope.

Definition entry : Type := (Z * Z * Z)%type.

Definition e_proc (p : proc) : list entry :=
  match p_pc p with PBPut k v sq _ => [(sq, k, v)] | _ => [] end.
(** writes inside the store.put of backup [n], oldest first *)
Definition putq (n : Z) (l : list proc) : list entry :=
  flat_map (fun p => if p_node p =? n then e_proc p else []) l.
Definition e_msg (b : Z) (m : msg) : list entry :=
  match m with MReplicate b' k v sq _ => if b' =? b then [(sq, k, v)] else [] | _ => [] end.
(** Replicate messages in flight to backup [b], in send order *)
Definition link (b : Z) (net : list msg) : list entry := flat_map (e_msg b) net.

Fixpoint first_link (b : Z) (net : list msg) : option msg :=
  match net with
  | [] => None
  | m :: r => match e_msg b m with [] => first_link b r | _ => Some m end
  end.
Fixpoint first_put (n : Z) (l : list proc) : option Z :=
  match l with
  | [] => None
  | p :: r => match (if p_node p =? n then e_proc p else []) with [] => first_put n r | _ => Some (p_id p) end
  end.

(** the step respects per-link FIFO delivery and per-store FIFO completion *)
Definition fifo_ok (s : state) (i : inp) : bool :=
  match i with
  | IStart _ (MReplicate b k v sq f) =>
      match first_link b (s_net s) with Some m => msg_eqb (MReplicate b k v sq f) m | None => false end
  | IStart _ _ => true
  | IResume pid =>
      match find_proc pid (s_procs s) with
      | Some p => match e_proc p with
                  | [] => true
                  | _ => match first_put (p_node p) (s_procs s) with Some q => q =? pid | None => false end
                  end
      | None => true
      end
  end.

Fixpoint run_fifo (c : cfg) (s : state) (sched : list inp) : option state :=
  match sched with
  | [] => Some s
  | i :: r => if fifo_ok s i then
                match step c s i with Some (s', _, _) => run_fifo c s' r | None => None end
              else None
  end.

Definition replay_log (l : list entry) : dict := fold_left (fun m e => dput (snd (fst e)) (snd e) m) l [].

Record J (c : cfg) (s : state) : Prop := {
  j_order : forall b, In b (bids c) ->
            bs_log (s_bak s b) ++ putq b (s_procs s) ++ link b (s_net s) = ps_log (s_prim s);
  j_pstore : ps_store (s_prim s) = replay_log (ps_log (s_prim s));
  j_bstore : forall b, bs_store (s_bak s b) = replay_log (bs_log (s_bak s b));
}.

(* ------------------------------------------------------------------ *)
Lemma msg_eqb_refl m : msg_eqb m m = true.
Proof. destruct m; cbn; rewrite ?Z.eqb_refl, ?eqb_reflx; reflexivity. Qed.

Lemma putq_app n l1 l2 : putq n (l1 ++ l2) = putq n l1 ++ putq n l2.
Proof. apply flat_map_app. Qed.
Lemma link_app b l1 l2 : link b (l1 ++ l2) = link b l1 ++ link b l2.
Proof. apply flat_map_app. Qed.

Lemma replay_app l e : replay_log (l ++ [e]) = dput (snd (fst e)) (snd e) (replay_log l).
Proof. unfold replay_log. rewrite fold_left_app. reflexivity. Qed.

(** removing a message that is not a Replicate to b *)
Lemma link_take_other b m net net' : take_msg m net = Some net' -> e_msg b m = [] -> link b net' = link b net.
Proof.
  revert net'; induction net as [|x r IH]; cbn; intros net' H E; [discriminate|].
  destruct (msg_eqb m x) eqn:Q.
  - inversion H; subst. apply msg_eqb_eq in Q; subst. rewrite E. reflexivity.
  - destruct (take_msg m r) eqn:T; [|discriminate]. inversion H; subst. cbn. f_equal. exact (IH _ eq_refl E).
Qed.

(** removing the oldest Replicate to b *)
Lemma link_take_first b m net net' e :
  take_msg m net = Some net' -> e_msg b m = [e] ->
  (match first_link b net with Some x => msg_eqb m x | None => false end) = true ->
  link b net = e :: link b net'.
Proof.
  revert net'; induction net as [|x r IH]; cbn; intros net' H E F; [discriminate|].
  destruct (msg_eqb m x) eqn:Q.
  - inversion H; subst. apply msg_eqb_eq in Q; subst. rewrite E. reflexivity.
  - destruct (take_msg m r) eqn:T; [|discriminate]. inversion H; subst. cbn.
    destruct (e_msg b x) eqn:Ex; [|congruence].
    cbn. exact (IH _ eq_refl E F).
Qed.

Lemma putq_set_other n pid c l p :
  find_proc pid l = Some p -> e_proc p = [] ->
  (forall nd, e_proc {| p_id := pid; p_node := nd; p_pc := c |} = []) ->
  putq n (set_pc pid c l) = putq n l.
Proof.
  induction l as [|x r IH]; cbn; intros F E C; [reflexivity|].
  destruct (p_id x =? pid) eqn:Q.
  - inversion F; subst. cbn. rewrite E, C. destruct (p_node p =? n); reflexivity.
  - cbn. f_equal. exact (IH F E C).
Qed.

Lemma putq_del_other n pid l p :
  find_proc pid l = Some p -> e_proc p = [] -> putq n (del_proc pid l) = putq n l.
Proof.
  induction l as [|x r IH]; cbn; intros F E; [reflexivity|].
  destruct (p_id x =? pid) eqn:Q.
  - inversion F; subst. rewrite E. destruct (p_node p =? n); reflexivity.
  - cbn. f_equal. exact (IH F E).
Qed.

(** the put-stage process [pid] leaves the put stage *)
Lemma putq_set_put_same n pid c l p e :
  find_proc pid l = Some p -> e_proc p = [e] -> p_node p = n ->
  (forall nd, e_proc {| p_id := pid; p_node := nd; p_pc := c |} = []) ->
  (match first_put n l with Some q => q =? pid | None => false end) = true ->
  putq n l = e :: putq n (set_pc pid c l).
Proof.
  induction l as [|x r IH]; cbn; intros F E Hn C FP; [discriminate|].
  destruct (p_id x =? pid) eqn:Q.
  - inversion F; subst. cbn. rewrite E, C, Z.eqb_refl. reflexivity.
  - cbn. destruct (if p_node x =? n then e_proc x else []) eqn:Ex.
    + cbn. exact (IH F E Hn C FP).
    + rewrite Q in FP. discriminate.
Qed.

Lemma putq_set_put_other n pid c l p :
  find_proc pid l = Some p -> p_node p <> n -> putq n (set_pc pid c l) = putq n l.
Proof.
  induction l as [|x r IH]; cbn; intros F Hn; [reflexivity|].
  destruct (p_id x =? pid) eqn:Q.
  - inversion F; subst. cbn. apply Z.eqb_neq in Hn. rewrite Hn. reflexivity.
  - cbn. f_equal. exact (IH F Hn).
Qed.

Lemma link_msgs b k v sq f l :
  NoDup l -> In b l -> link b (map (fun b' => MReplicate b' k v sq f) l) = [(sq, k, v)].
Proof.
  induction l as [|x r IH]; cbn; intros ND Hin; [contradiction|].
  inversion ND; subst. destruct Hin as [->|Hin].
  - rewrite Z.eqb_refl. cbn. f_equal.
    clear IH ND. induction r as [|y r IH]; cbn; [reflexivity|].
    destruct (y =? b) eqn:E; [apply Z.eqb_eq in E; subst; exfalso; apply H1; now left|].
    cbn. apply IH. intros H; apply H1; now right. inversion H2; auto.
  - destruct (x =? b) eqn:E; [apply Z.eqb_eq in E; subst; contradiction|]. cbn. auto.
Qed.

Lemma bids_nodup c : NoDup (bids c).
Proof.
  unfold bids. apply Injective_map_NoDup; [intros a b H; lia|apply seq_NoDup].
Qed.

Lemma j_init c : J c init.
Proof. split; cbn; auto. Qed.

(** steps that leave logs, stores, put queues and links alone *)
Lemma J_ext c s s' :
  J c s -> s_prim s' = s_prim s \/ (ps_log (s_prim s') = ps_log (s_prim s) /\ ps_store (s_prim s') = ps_store (s_prim s)) ->
  (forall b, bs_log (s_bak s' b) = bs_log (s_bak s b) /\ bs_store (s_bak s' b) = bs_store (s_bak s b)) ->
  (forall b, putq b (s_procs s') = putq b (s_procs s)) ->
  (forall b, link b (s_net s') = link b (s_net s)) ->
  J c s'.
Proof.
  intros [Jo Jp Jb] Hp Hb Hq Hl.
  assert (Hp' : ps_log (s_prim s') = ps_log (s_prim s) /\ ps_store (s_prim s') = ps_store (s_prim s))
    by (destruct Hp as [->|?]; auto).
  destruct Hp' as [Hp1 Hp2]. split.
  - intros b Hin. rewrite Hp1, Hq, Hl. destruct (Hb b) as [-> _]. auto.
  - rewrite Hp1, Hp2. auto.
  - intros b. destruct (Hb b) as [-> ->]. auto.
Qed.

Lemma add_reply_fields s w sq rf :
  s_prim (add_reply s w sq rf) = s_prim s /\ s_bak (add_reply s w sq rf) = s_bak s /\
  s_procs (add_reply s w sq rf) = s_procs s /\ s_net (add_reply s w sq rf) = s_net s.
Proof. unfold add_reply; destruct rf; cbn; auto. Qed.

Lemma putq_spawn b s n c0 :
  putq b (s_procs (spawn s n c0)) =
  putq b (s_procs s) ++ (if n =? b then e_proc {| p_id := s_next s; p_node := n; p_pc := c0 |} else []).
Proof. unfold putq, spawn, bump_next, with_procs; cbn [s_procs]. rewrite flat_map_app. cbn. rewrite app_nil_r. reflexivity. Qed.

Lemma putq_spawn_nonput b s n c0 :
  (forall pid nd, e_proc {| p_id := pid; p_node := nd; p_pc := c0 |} = []) ->
  putq b (s_procs (spawn s n c0)) = putq b (s_procs s).
Proof. intros H. rewrite putq_spawn, H. destruct (n =? b); apply app_nil_r. Qed.

Lemma upd_bak_fields (f : Z -> bak) n x b :
  bs_log x = bs_log (f n) -> bs_store x = bs_store (f n) ->
  bs_log (upd f n x b) = bs_log (f b) /\ bs_store (upd f n x b) = bs_store (f b).
Proof. intros H1 H2. unfold upd. destruct (b =? n) eqn:E; [apply Z.eqb_eq in E; subst; auto|auto]. Qed.

Ltac jext c s :=
  apply (J_ext c s);
  [ assumption
  | first [left; reflexivity | right; cbn; split; reflexivity | idtac]
  | try (solve [intros ?b; cbn; first [split; reflexivity | apply upd_bak_fields; reflexivity]])
  | try (solve [intros ?b; cbn; reflexivity])
  | try (solve [intros ?b; cbn; reflexivity]) ].

Lemma j_finish c s pid w sq rf s' o y p :
  J c s -> find_proc pid (s_procs s) = Some p -> e_proc p = [] ->
  finish_write s pid w sq rf = (s', o, y) -> J c s'.
Proof.
  intros Jn F E H. unfold finish_write in H. inversion H; subst; clear H.
  destruct (add_reply_fields (with_procs s (del_proc pid (s_procs s))) w sq rf) as (E1 & E2 & E3 & E4).
  apply (J_ext c s); [assumption| | | |].
  - left. rewrite E1. reflexivity.
  - intros b. rewrite E2. auto.
  - intros b. rewrite E3. cbn. eapply putq_del_other; eauto.
  - intros b. rewrite E4. reflexivity.
Qed.

Lemma j_step c s i s' o y :
  J c s -> fifo_ok s i = true -> step c s i = Some (s', o, y) -> J c s'.
Proof.
  intros Jn F H. destruct i as [n m|pid]; cbn in H.
  - (* handler invocation *)
    unfold start in H. destruct (n =? 0) eqn:En.
    + destruct m as [w k v rf|r k rf|b k v sq f|b sq|]; try discriminate.
      * inversion H; subst; clear H. unfold prim_write_start. jext c s.
        intros b. etransitivity; [apply putq_spawn_nonput; reflexivity|reflexivity].
      * inversion H; subst; clear H. unfold prim_read_start. jext c s.
        intros b. etransitivity; [apply putq_spawn_nonput; reflexivity|reflexivity].
      * destruct (take_msg (MAck b sq) (s_net s)) as [net'|] eqn:T; [|discriminate].
        inversion H; subst; clear H. unfold prim_ack. jext c s.
        intros b0. cbn. eapply link_take_other; eauto.
      * inversion H; subst; clear H. jext c s.
    + destruct (is_backup c n); [|discriminate].
      destruct m as [w k v rf|r k rf|b k v sq f|b sq|]; try discriminate.
      * inversion H; subst; clear H. jext c s.
      * destruct (serves c n); inversion H; subst; clear H; [|jext c s].
        unfold bak_read_start. jext c s.
        intros b. etransitivity; [apply putq_spawn_nonput; reflexivity|reflexivity].
      * (* delivery of a Replicate: the oldest one on the link *)
        destruct (b =? n) eqn:Eb; [|discriminate]. apply Z.eqb_eq in Eb; subst b.
        destruct (take_msg (MReplicate n k v sq f) (s_net s)) as [net'|] eqn:T; [|discriminate].
        inversion H; subst; clear H. cbn in F.
        destruct Jn as [Jo Jp Jb]. split; [|exact Jp|exact Jb].
        intros b Hin. rewrite putq_spawn. cbn [s_net with_net s_bak s_prim spawn bump_next with_procs s_procs].
        rewrite <- (Jo b Hin). cbn [e_proc p_pc p_node].
        destruct (n =? b) eqn:E.
        -- apply Z.eqb_eq in E; subst b.
           rewrite (link_take_first n _ _ _ (sq, k, v) T); [|cbn; rewrite Z.eqb_refl; reflexivity|exact F].
           rewrite <- !app_assoc. reflexivity.
        -- rewrite app_nil_r. rewrite (link_take_other b _ _ _ T); [reflexivity|cbn; rewrite E; reflexivity].
      * inversion H; subst; clear H. jext c s.
  - (* resumption *)
    unfold resume in H. cbn in F.
    destruct (find_proc pid (s_procs s)) as [p|] eqn:Fp; [|discriminate].
    destruct (p_pc p) as [w k v sq rf|w sq rf|w sq rf|r k rf|k v sq fut|] eqn:Epc.
    + (* primary put done: the entry enters the log and every link *)
      assert (Ep : e_proc p = []) by (unfold e_proc; rewrite Epc; reflexivity).
      injection H as H. unfold prim_put_done in H.
      set (fut := match c_mode c with ASYNC => false | _ => true end) in *.
      assert (Jmid : forall procs', (forall b, putq b procs' = putq b (s_procs s)) ->
        J c (with_procs (with_net (with_prim s
          {| ps_store := dput k v (ps_store (s_prim s)); ps_seq := ps_seq (s_prim s);
             ps_writes := ps_writes (s_prim s); ps_reads := ps_reads (s_prim s);
             ps_sent := ps_sent (s_prim s) + Z.of_nat (c_nb c); ps_acks := ps_acks (s_prim s);
             ps_lag := lag_after_write c (s_prim s) sq; ps_acked := ps_acked (s_prim s);
             ps_log := ps_log (s_prim s) ++ [(sq, k, v)] |})
          (s_net s ++ map (fun b => MReplicate b k v sq fut) (bids c))) procs')).
      { intros procs' Hq. destruct Jn as [Jo Jp Jb].
        split; cbn [s_prim s_bak s_procs s_net with_procs with_net with_prim ps_log ps_store].
        - intros b Hin. rewrite Hq, link_app, (link_msgs b k v sq fut _ (bids_nodup c) Hin).
          rewrite <- (Jo b Hin). rewrite <- !app_assoc. reflexivity.
        - rewrite replay_app. cbn. rewrite Jp. reflexivity.
        - exact Jb. }
      destruct (c_mode c) eqn:Em; [destruct (c_nb c) eqn:Enb|..]; inversion H; subst; clear H;
        try (apply Jmid; intros b; cbn; eapply putq_set_other; eauto; fail).
      match goal with |- J c (add_reply ?s0 _ _ _) =>
        destruct (add_reply_fields s0 w sq rf) as (E1 & E2 & E3 & E4);
        specialize (Jmid (del_proc pid (s_procs s)) (fun b => putq_del_other b pid _ p Fp Ep));
        destruct Jmid as [Jo Jp Jb]; split; rewrite ?E1, ?E2, ?E3, ?E4; auto
      end.
    + assert (Ep : e_proc p = []) by (unfold e_proc; rewrite Epc; reflexivity).
      unfold prim_sent in H.
      destruct (c_mode c); destruct (c_nb c);
        try (assert (H' : finish_write s pid w sq rf = (s', o, y)) by congruence; eapply j_finish; eauto; fail);
        inversion H; subst; clear H; jext c s; intros b; cbn; eapply putq_set_other; eauto.
    + assert (Ep : e_proc p = []) by (unfold e_proc; rewrite Epc; reflexivity).
      destruct (acks_ready c s sq); [|discriminate].
      assert (H' : finish_write s pid w sq rf = (s', o, y)) by congruence. eapply j_finish; eauto.
    + assert (Ep : e_proc p = []) by (unfold e_proc; rewrite Epc; reflexivity).
      injection H as H. unfold read_done in H.
      destruct (p_node p =? 0); inversion H; subst; clear H; jext c s;
        intros b; cbn; eapply putq_del_other; eauto.
    + (* backup put done: the oldest put of that store *)
      assert (Ep : e_proc p = [(sq, k, v)]) by (unfold e_proc; rewrite Epc; reflexivity).
      rewrite Ep in F. inversion H; subst; clear H. unfold bak_put_done.
      set (n := p_node p) in *.
      set (b' := {| bs_store := dput k v (bs_store (s_bak s n)); bs_applied := bs_applied (s_bak s n) + 1;
                    bs_reads := bs_reads (s_bak s n); bs_last := sq; bs_log := bs_log (s_bak s n) ++ [(sq, k, v)] |}).
      assert (Hcase : forall s2, s_prim s2 = s_prim s -> s_bak s2 = upd (s_bak s) n b' ->
                s_procs s2 = s_procs s -> s_net s2 = s_net s ->
                J c (with_procs (with_net s2 (s_net s2 ++ [MAck n sq]))
                                (set_pc pid PBSent (s_procs (with_net s2 (s_net s2 ++ [MAck n sq])))))).
      { intros s2 P1 P2 P3 P4. destruct Jn as [Jo Jp Jb].
        split; cbn [s_prim s_bak s_procs s_net with_procs with_net]; rewrite ?P1, ?P2, ?P3, ?P4.
        * intros b Hin. rewrite link_app. cbn [link flat_map e_msg]. rewrite !app_nil_r. rewrite <- (Jo b Hin).
          unfold upd. destruct (b =? n) eqn:E.
          -- apply Z.eqb_eq in E; subst b. cbn [bs_log b'].
             rewrite (putq_set_put_same n pid PBSent (s_procs s) p (sq, k, v) Fp Ep eq_refl (fun _ => eq_refl) F).
             rewrite <- !app_assoc. reflexivity.
          -- apply Z.eqb_neq in E.
             rewrite (putq_set_put_other b pid PBSent (s_procs s) p Fp); [reflexivity|fold n; congruence].
        * exact Jp.
        * intros b. unfold upd. destruct (b =? n) eqn:E; [|apply Jb].
          apply Z.eqb_eq in E; subst b. cbn [bs_store bs_log b']. rewrite replay_app. cbn [fst snd]. rewrite Jb. reflexivity. }
      destruct fut; [change (s_res (with_bak s n b')) with (s_res s); destruct (mem2 sq n (s_res s))|];
        apply Hcase; reflexivity.
    + assert (Ep : e_proc p = []) by (unfold e_proc; rewrite Epc; reflexivity).
      inversion H; subst; clear H. jext c s. intros b; cbn; eapply putq_del_other; eauto.
Qed.

Lemma j_run c sched : forall s s', J c s -> run_fifo c s sched = Some s' -> J c s'.
Proof.
  induction sched as [|i r IH]; cbn; intros s s' Jn H; [inversion H; subst; exact Jn|].
  destruct (fifo_ok s i) eqn:F; [|discriminate].
  destruct (step c s i) as [[[s1 o] y]|] eqn:E; [|discriminate].
  eapply IH; [eapply j_step; eauto|exact H].
Qed.

(** a FIFO run is a run: the theorems over all schedules apply to it *)
Lemma run_fifo_run c sched : forall s s', run_fifo c s sched = Some s' -> run c s sched = Some s'.
Proof.
  induction sched as [|i r IH]; cbn; intros s s' H; [exact H|].
  destruct (fifo_ok s i); [|discriminate].
  destruct (step c s i) as [[[s1 o] y]|]; [|discriminate]. auto.
Qed.

(** Convergence under per-link FIFO delivery and per-store FIFO completion: at
    quiescence every backup's store (and its log of applied writes) is exactly
    the primary's. *)
Theorem pb_convergence_fifo c sched s :
  run_fifo c init sched = Some s -> quiescent s ->
  forall b, In b (bids c) ->
    bs_log (s_bak s b) = ps_log (s_prim s) /\ bs_store (s_bak s b) = ps_store (s_prim s).
Proof.
  intros H [Qn Qp] b Hin. pose proof (j_run c sched _ _ (j_init c) H) as [Jo Jp Jb].
  specialize (Jo b Hin). rewrite Qn, Qp in Jo. cbn in Jo. rewrite !app_nil_r in Jo.
  split; [exact Jo|]. rewrite Jb, Jp, Jo. reflexivity.
Qed.

Corollary pb_converged_fifo c sched s :
  run_fifo c init sched = Some s -> quiescent s -> pb_converged c s.
Proof.
  intros H Q b Hin k. destruct (pb_convergence_fifo c sched s H Q b Hin) as [_ ->]. reflexivity.
Qed.

(** the hypotheses are satisfiable: the two writes of the refutation witness,
    delivered in order, reach a quiescent state *)
Definition fifo_sched : list inp :=
  [ IStart 0 (MWrite 101 0 101 true); IStart 0 (MWrite 102 0 102 true);
    IResume 0; IResume 1; IResume 0; IResume 1;
    IStart 1 (MReplicate 1 0 101 1 true); IStart 1 (MReplicate 1 0 102 2 true);
    IResume 2; IResume 3; IResume 2; IResume 3;
    IStart 0 (MAck 1 1); IStart 0 (MAck 1 2); IResume 0; IResume 1 ].

Example fifo_example :
  match run_fifo wit_cfg init fifo_sched with
  | Some s => quiescent_b s && negb (diverged_b wit_cfg s)
  | None => false
  end = true.
Proof. vm_compute. reflexivity. Qed.

(** and the refutation witness is exactly a schedule that is not FIFO *)
Example wit_not_fifo : run_fifo wit_cfg init wit_sched = None.
Proof. vm_compute. reflexivity. Qed.
