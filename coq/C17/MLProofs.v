(** C17 — multi-leader: laws of the version merge ("dominating vector clock wins,
    otherwise the resolver") that every replica applies to what it receives. *)
From HS Require Import Base.Prelude C17.Model C17.ML.
From Coq Require Import Permutation.
Local Open Scope Z_scope.

(** Timestamps respect causality (a dominated version has a smaller LWW key) and
    distinct versions have distinct (timestamp, writer) keys.  In a run this holds
    when every store has a positive write latency: a write that has seen another
    one is stamped strictly later. *)
Definition consistent (a b : ver) : Prop :=
  (vc_dom (v_vc a) (v_vc b) = true -> lww_lt b a = true) /\
  (vc_dom (v_vc b) (v_vc a) = true -> lww_lt a b = true) /\
  (v_ts a = v_ts b -> v_wr a = v_wr b -> a = b).

Fixpoint pairwise (l : list ver) : Prop :=
  match l with
  | [] => True
  | x :: r => (forall y, In y r -> consistent x y) /\ pairwise r
  end.

Lemma lww_lt_spec a b :
  lww_lt a b = true <-> (v_ts a < v_ts b \/ (v_ts a = v_ts b /\ v_wr a < v_wr b)).
Proof. unfold lww_lt. lia. Qed.

Lemma lww_lt_false a b :
  lww_lt a b = false <-> (v_ts b < v_ts a \/ (v_ts a = v_ts b /\ v_wr b <= v_wr a)).
Proof. unfold lww_lt. lia. Qed.

Lemma consistent_sym a b : consistent a b -> consistent b a.
Proof. intros (H1 & H2 & H3). repeat split; auto. intros E1 E2. symmetry. apply H3; auto. Qed.

Lemma consistent_refl a : vc_dom (v_vc a) (v_vc a) = false -> consistent a a.
Proof. intros H. repeat split; intros; auto; congruence. Qed.

Lemma merge_cases a b : merge a b = a \/ merge a b = b.
Proof.
  unfold merge, decide. destruct (vc_dom (v_vc b) (v_vc a)); cbn; auto.
  destruct (vc_dom (v_vc a) (v_vc b)); cbn; auto. destruct (lww_lt a b); cbn; auto.
Qed.

(** under consistency the merge is the LWW maximum *)
Lemma merge_is_lww a b : consistent a b -> merge a b = lww a b.
Proof.
  intros (H1 & H2 & H3). unfold merge, decide, lww.
  destruct (vc_dom (v_vc b) (v_vc a)) eqn:D1; cbn.
  - rewrite (H2 eq_refl). reflexivity.
  - destruct (vc_dom (v_vc a) (v_vc b)) eqn:D2; cbn.
    + specialize (H1 eq_refl). apply lww_lt_spec in H1.
      destruct (lww_lt a b) eqn:L; [apply lww_lt_spec in L; lia|reflexivity].
    + destruct (lww_lt a b); reflexivity.
Qed.

Lemma lww_idem a : lww a a = a.
Proof. unfold lww. destruct (lww_lt a a); reflexivity. Qed.

Lemma merge_idem a : merge a a = a.
Proof. destruct (merge_cases a a); auto. Qed.

Lemma lww_comm a b : (v_ts a = v_ts b -> v_wr a = v_wr b -> a = b) -> lww a b = lww b a.
Proof.
  intros H. unfold lww. destruct (lww_lt a b) eqn:L1; destruct (lww_lt b a) eqn:L2; auto.
  - apply lww_lt_spec in L1, L2. lia.
  - apply lww_lt_false in L1, L2. apply H; lia.
Qed.

Lemma lww_assoc a b c : lww (lww a b) c = lww a (lww b c).
Proof.
  unfold lww.
  destruct (lww_lt a b) eqn:L1; destruct (lww_lt b c) eqn:L2; rewrite ?L1, ?L2; try reflexivity.
  - destruct (lww_lt a c) eqn:L3; [reflexivity|].
    apply lww_lt_spec in L1, L2. apply lww_lt_false in L3. lia.
  - destruct (lww_lt a c) eqn:L3; [|reflexivity].
    apply lww_lt_false in L1, L2. apply lww_lt_spec in L3. lia.
Qed.

Lemma merge_comm a b : consistent a b -> merge a b = merge b a.
Proof.
  intros H. rewrite (merge_is_lww a b H), (merge_is_lww b a (consistent_sym _ _ H)).
  apply lww_comm. apply H.
Qed.

Lemma merge_assoc a b c :
  consistent a b -> consistent b c -> consistent a c ->
  merge (merge a b) c = merge a (merge b c).
Proof.
  intros Hab Hbc Hac.
  assert (H1 : consistent (merge a b) c) by (destruct (merge_cases a b) as [->| ->]; auto).
  assert (H2 : consistent a (merge b c)) by (destruct (merge_cases b c) as [->| ->]; auto).
  rewrite (merge_is_lww _ _ H1), (merge_is_lww _ _ H2), (merge_is_lww _ _ Hab), (merge_is_lww _ _ Hbc).
  apply lww_assoc.
Qed.

(* ------------------------------------------------------------------ *)
(** * Order independence of what a replica holds after receiving a set of versions *)

Definition is_max (r : ver) (l : list ver) : Prop :=
  In r l /\ forall x, In x l -> lww_lt r x = false.

Lemma fold_lww_max l : forall init, is_max (fold_left lww l init) (init :: l).
Proof.
  induction l as [|x r IH]; intros init; cbn.
  - split; [now left|]. intros y [<-|[]]. unfold lww_lt. lia.
  - destruct (IH (lww init x)) as [Hin Hmax]. split.
    + destruct Hin as [E|Hin]; [|right; now right].
      rewrite <- E. unfold lww. destruct (lww_lt init x); [right; now left|now left].
    + intros y Hy.
      assert (Hl : lww_lt (fold_left lww r (lww init x)) (lww init x) = false) by (apply Hmax; now left).
      remember (fold_left lww r (lww init x)) as m eqn:Em. clear Em.
      destruct Hy as [<-|[<-|Hy]].
      * apply lww_lt_false. apply lww_lt_false in Hl. unfold lww in Hl.
        destruct (lww_lt init x) eqn:L; [apply lww_lt_spec in L|]; lia.
      * apply lww_lt_false. apply lww_lt_false in Hl. unfold lww in Hl.
        destruct (lww_lt init x) eqn:L; [|apply lww_lt_false in L]; lia.
      * apply Hmax. now right.
Qed.

Lemma fold_merge_lww l : forall init, pairwise (init :: l) -> fold_left merge l init = fold_left lww l init.
Proof.
  induction l as [|x r IH]; intros init P; cbn; [reflexivity|].
  destruct P as [P1 [P2 P3]].
  rewrite (merge_is_lww init x (P1 x (or_introl eq_refl))).
  apply IH. cbn. split; [|exact P3].
  intros y Hy. unfold lww. destruct (lww_lt init x); [apply P2; auto|apply P1; now right].
Qed.

Lemma pairwise_in l : pairwise l -> forall a b, In a l -> In b l -> a = b \/ consistent a b.
Proof.
  induction l as [|x r IH]; cbn; [tauto|]. intros [P1 P2] a b [<-|Ha] [<-|Hb]; auto.
  right. apply consistent_sym. auto.
Qed.

Lemma max_unique l r1 r2 : pairwise l -> is_max r1 l -> is_max r2 l -> r1 = r2.
Proof.
  intros P [H1 M1] [H2 M2]. destruct (pairwise_in l P r1 r2 H1 H2) as [E|(_ & _ & C)]; [exact E|].
  specialize (M1 r2 H2). specialize (M2 r1 H1). apply lww_lt_false in M1, M2. apply C; lia.
Qed.

Lemma pairwise_perm l1 l2 : Permutation l1 l2 -> pairwise l1 -> pairwise l2.
Proof.
  induction 1; cbn; auto.
  - intros [P1 P2]. split; [|auto]. intros y Hy. apply P1. eapply Permutation_in; [apply Permutation_sym|]; eauto.
  - intros [P1 [P2 P3]]. split; [|split; [|exact P3]].
    + intros z [<-|Hz]; [apply consistent_sym; apply P1; now left|apply P2; auto].
    + intros z Hz. apply P1. now right.
Qed.

(** Any two replicas that start from the same version and receive the same set of
    versions for a key, in any order, end with the same version (no store latency
    between decision and write; the store-write window is handled by anti-entropy). *)
Theorem merge_order_independent init l1 l2 :
  Permutation l1 l2 -> pairwise (init :: l1) ->
  fold_left merge l1 init = fold_left merge l2 init.
Proof.
  intros Hp P.
  assert (P' : pairwise (init :: l2)) by (eapply pairwise_perm; [apply perm_skip; exact Hp|exact P]).
  rewrite (fold_merge_lww _ _ P), (fold_merge_lww _ _ P').
  apply (max_unique (init :: l2) _ _ P').
  - destruct (fold_lww_max l1 init) as [Hin Hm]. split.
    + eapply Permutation_in; [apply perm_skip; exact Hp|exact Hin].
    + intros x Hx. apply Hm. eapply Permutation_in; [apply Permutation_sym, perm_skip; exact Hp|exact Hx].
  - apply fold_lww_max.
Qed.

(** hypotheses are satisfiable: two concurrent writes and one that has seen both *)
Example pairwise_example :
  pairwise [(1, 10, 0, [1; 0]); (2, 12, 1, [0; 1]); (3, 20, 0, [2; 1])].
Proof. cbn. repeat split; intros; try tauto; try discriminate; try lia;
  repeat match goal with H : _ \/ _ |- _ => destruct H as [<-|H] | H : False |- _ => destruct H end;
  unfold consistent; cbn; repeat split; intros; try discriminate; try reflexivity; try lia.
Qed.

(** Without the hypothesis the merge is not associative: a and b are causally ordered
    (b has seen a) but carry the same timestamp and b's writer id is smaller; c is
    concurrent with both. *)
Definition na : ver := (1, 5, 2, [0; 0; 1]).
Definition nb : ver := (2, 5, 0, [1; 0; 1]).
Definition nc : ver := (3, 5, 1, [0; 1; 0]).

Lemma merge_not_assoc_witness : merge (merge na nb) nc <> merge na (merge nb nc).
Proof. vm_compute. discriminate. Qed.
