(** C17 — executable model of happysimulator/components/datastore/replicated_store.py
    (ReplicatedStore.put/get over KVStore replicas) and the theorem that an
    acknowledged put has been applied on every replica, for every interleaving
    of concurrent puts and gets.

    One step per segment of a client handler that runs [yield from store.put(k, v)]
    or [yield from store.get(k)]: the generators yield the latency of one replica
    at a time and touch that replica when resumed. *)
From HS Require Import Base.Prelude C17.Model.
Local Open Scope Z_scope.

Inductive level := L_ONE | L_QUORUM | L_ALL.

Record rcfg := { rc_n : nat; rc_read : level; rc_write : level; rc_wlat : list Z; rc_rlat : list Z }.

Definition required (n : nat) (l : level) : nat :=
  match l with L_ONE => 1 | L_QUORUM => n / 2 + 1 | L_ALL => n end.

Inductive rpc :=
| RSPut (wid key val : Z) (i : nat)                      (* inside replicas[i].put *)
| RSGet (rid key : Z) (i : nat) (resp : list (option Z)). (* inside replicas[i].get *)

Record rproc := { rp_id : Z; rp_pc : rpc }.

Record rstate := {
  r_rep : nat -> dict;                 (* replica i's KVStore._data *)
  r_log : nat -> list (Z * Z);         (* ghost: completed puts (key, value) of replica i *)
  r_procs : list rproc; r_next : Z;
  r_reads : Z; r_writes : Z; r_rs : Z; r_ws : Z;     (* reads, writes, read_successes, write_successes *)
  r_acked : list (Z * Z * Z);          (* ghost: puts that returned True (wid, key, value) *)
}.

Definition rinit : rstate :=
  {| r_rep := fun _ => []; r_log := fun _ => []; r_procs := []; r_next := 0;
     r_reads := 0; r_writes := 0; r_rs := 0; r_ws := 0; r_acked := [] |}.

Inductive rinp := RPutStart (wid key val : Z) | RGetStart (rid key : Z) | RResume (pid : Z).
Inductive rout := ROPut (wid : Z) (ok : bool) | ROGet (rid : Z) (v : option Z).

Definition nupd {V} (f : nat -> V) (k : nat) (v : V) : nat -> V := fun k' => if Nat.eqb k' k then v else f k'.

Fixpoint rfind (pid : Z) (l : list rproc) : option rproc :=
  match l with [] => None | p :: r => if rp_id p =? pid then Some p else rfind pid r end.
Fixpoint rset (pid : Z) (c : rpc) (l : list rproc) : list rproc :=
  match l with
  | [] => []
  | p :: r => if rp_id p =? pid then {| rp_id := pid; rp_pc := c |} :: r else p :: rset pid c r
  end.
Fixpoint rdel (pid : Z) (l : list rproc) : list rproc :=
  match l with [] => [] | p :: r => if rp_id p =? pid then r else p :: rdel pid r end.

Definition first_some (l : list (option Z)) : option Z :=
  fold_right (fun x acc => match x with Some v => Some v | None => acc end) None l.

Definition mk (s : rstate) rep lg procs next rd wr rs ws acked : rstate :=
  {| r_rep := rep; r_log := lg; r_procs := procs; r_next := next; r_reads := rd; r_writes := wr;
     r_rs := rs; r_ws := ws; r_acked := acked |}.

Definition rstep (c : rcfg) (s : rstate) (i : rinp) : option (rstate * list rout * yld) :=
  match i with
  | RPutStart wid k v =>
      Some (mk s (r_rep s) (r_log s) (r_procs s ++ [{| rp_id := r_next s; rp_pc := RSPut wid k v 0 |}])
               (r_next s + 1) (r_reads s) (r_writes s + 1) (r_rs s) (r_ws s) (r_acked s),
            [], YDelay (nth 0 (rc_wlat c) 0))
  | RGetStart rid k =>
      Some (mk s (r_rep s) (r_log s) (r_procs s ++ [{| rp_id := r_next s; rp_pc := RSGet rid k 0 [] |}])
               (r_next s + 1) (r_reads s + 1) (r_writes s) (r_rs s) (r_ws s) (r_acked s),
            [], YDelay (nth 0 (rc_rlat c) 0))
  | RResume pid =>
      match rfind pid (r_procs s) with
      | None => None
      | Some p =>
          match rp_pc p with
          | RSPut wid k v j =>
              let rep := nupd (r_rep s) j (dput k v (r_rep s j)) in
              let lg := nupd (r_log s) j (r_log s j ++ [(k, v)]) in
              if (S j <? rc_n c)%nat then
                Some (mk s rep lg (rset pid (RSPut wid k v (S j)) (r_procs s)) (r_next s) (r_reads s) (r_writes s)
                         (r_rs s) (r_ws s) (r_acked s), [], YDelay (nth (S j) (rc_wlat c) 0))
              else
                (* acks = number of replicas >= required *)
                Some (mk s rep lg (rdel pid (r_procs s)) (r_next s) (r_reads s) (r_writes s)
                         (r_rs s) (r_ws s + 1) ((wid, k, v) :: r_acked s), [ROPut wid true], YEnd)
          | RSGet rid k j resp =>
              let resp' := resp ++ [dget k (r_rep s j)] in
              let enough := (required (rc_n c) (rc_read c) <=? length resp')%nat in
              match (if enough then first_some resp' else None) with
              | Some v =>
                  Some (mk s (r_rep s) (r_log s) (rdel pid (r_procs s)) (r_next s) (r_reads s) (r_writes s)
                           (r_rs s + 1) (r_ws s) (r_acked s), [ROGet rid (Some v)], YEnd)
              | None =>
                  if (S j <? rc_n c)%nat then
                    Some (mk s (r_rep s) (r_log s) (rset pid (RSGet rid k (S j) resp') (r_procs s)) (r_next s)
                             (r_reads s) (r_writes s) (r_rs s) (r_ws s) (r_acked s), [], YDelay (nth (S j) (rc_rlat c) 0))
                  else
                    Some (mk s (r_rep s) (r_log s) (rdel pid (r_procs s)) (r_next s) (r_reads s) (r_writes s)
                             (r_rs s + 1) (r_ws s) (r_acked s), [ROGet rid None], YEnd)
              end
          end
      end
  end.

Fixpoint rrun (c : rcfg) (s : rstate) (sched : list rinp) : option rstate :=
  match sched with
  | [] => Some s
  | i :: r => match rstep c s i with Some (s', _, _) => rrun c s' r | None => None end
  end.

(* ------------------------------------------------------------------ *)
(** * Comparison with the implementation *)
Definition rout_eqb (a b : rout) : bool :=
  match a, b with
  | ROPut w o, ROPut w' o' => (w =? w') && Bool.eqb o o'
  | ROGet r v, ROGet r' v' => (r =? r') && oz_eqb v v'
  | _, _ => false
  end.

Definition robs (c : rcfg) (s : rstate) : list (list (Z * Z)) * list Z :=
  (map (fun j => r_rep s j) (seq 0 (rc_n c)), [r_reads s; r_writes s; r_rs s; r_ws s]).

Definition rseg : Type := rinp * list rout * yld * (list (list (Z * Z)) * list Z).

Fixpoint rreplay (c : rcfg) (s : rstate) (tr : list rseg) : option rstate :=
  match tr with
  | [] => Some s
  | (i, outs, y, ob) :: r =>
      match rstep c s i with
      | None => None
      | Some (s', outs', y') =>
          if list_eqb rout_eqb outs' outs && yld_eqb y' y
             && list_eqb (list_eqb zz_eqb) (fst (robs c s')) (fst ob) && list_eqb Z.eqb (snd (robs c s')) (snd ob)
          then rreplay c s' r else None
      end
  end.

Definition ok_rs (cs : (nat * level * level * list Z * list Z) * list rseg) : bool :=
  let '((n, rl, wl, wlat, rlat), tr) := cs in
  let c := {| rc_n := n; rc_read := rl; rc_write := wl; rc_wlat := wlat; rc_rlat := rlat |} in
  match rreplay c rinit tr with Some _ => true | None => false end.

(* ------------------------------------------------------------------ *)
(** * An acknowledged put has been applied on every replica *)
Lemma rfind_in pid l p : rfind pid l = Some p -> In p l.
Proof.
  induction l as [|q r IH]; cbn; [discriminate|].
  destruct (rp_id q =? pid); intros H; [inversion H; now left|right; auto].
Qed.
Lemma in_rset pid c l q : In q (rset pid c l) -> In q l \/ rp_pc q = c.
Proof.
  induction l as [|p r IH]; cbn; [tauto|].
  destruct (rp_id p =? pid); cbn; intros [<-|H]; auto. destruct (IH H); auto.
Qed.
Lemma in_rdel pid l q : In q (rdel pid l) -> In q l.
Proof.
  induction l as [|p r IH]; cbn; [tauto|].
  destruct (rp_id p =? pid); cbn; [now right|]. intros [<-|H]; auto.
Qed.

Definition rproc_ok (s : rstate) (p : rproc) : Prop :=
  match rp_pc p with
  | RSPut _ k v j => forall i, (i < j)%nat -> In (k, v) (r_log s i)
  | RSGet _ _ _ _ => True
  end.

Record RInv (c : rcfg) (s : rstate) : Prop := {
  ri_procs : forall p, In p (r_procs s) -> rproc_ok s p;
  ri_acked : forall w k v, In (w, k, v) (r_acked s) -> forall i, (i < rc_n c)%nat -> In (k, v) (r_log s i);
}.

Lemma rinv_step c s i s' o y : RInv c s -> rstep c s i = Some (s', o, y) -> RInv c s'.
Proof.
  intros [Ip Ia] H. destruct i as [w k v|r k|pid]; [cbn in H|cbn in H|unfold rstep in H].
  - inversion H; subst; clear H. split; cbn; auto.
    intros p Hin. apply in_app_or in Hin. destruct Hin as [Hin|[<-|[]]]; [apply Ip; auto|].
    unfold rproc_ok; cbn. intros i Hi. lia.
  - inversion H; subst; clear H. split; cbn; auto.
    intros p Hin. apply in_app_or in Hin. destruct Hin as [Hin|[<-|[]]]; [apply Ip; auto|exact I].
  - destruct (rfind pid (r_procs s)) as [p|] eqn:F; [|discriminate].
    apply rfind_in in F. pose proof (Ip p F) as Hok. unfold rproc_ok in Hok.
    destruct (rp_pc p) as [w k v j|r k j resp] eqn:Epc.
    + assert (Hmono : forall i e, In e (r_log s i) -> In e (nupd (r_log s) j (r_log s j ++ [(k, v)]) i)).
      { intros i e Hin. unfold nupd. destruct (Nat.eqb i j) eqn:E; [apply Nat.eqb_eq in E; subst; apply in_or_app; now left|exact Hin]. }
      assert (Hnew : forall i, (i < S j)%nat -> In (k, v) (nupd (r_log s) j (r_log s j ++ [(k, v)]) i)).
      { intros i Hi. unfold nupd. destruct (Nat.eqb i j) eqn:E.
        - apply in_or_app; right; now left.
        - apply Nat.eqb_neq in E. apply Hok. lia. }
      destruct (S j <? rc_n c)%nat eqn:Lt; inversion H; subst; clear H; split; cbn.
      * intros q Hin. apply in_rset in Hin. destruct Hin as [Hin|Hq].
        -- specialize (Ip q Hin). unfold rproc_ok in *. destruct (rp_pc q); auto.
           intros i0 Hi0. cbn. apply Hmono. apply Ip. exact Hi0.
        -- unfold rproc_ok. rewrite Hq. exact Hnew.
      * intros w0 k0 v0 Hin i Hi. apply Hmono. eapply Ia; eauto.
      * intros q Hin. apply in_rdel in Hin. specialize (Ip q Hin). unfold rproc_ok in *. destruct (rp_pc q); auto.
           intros i0 Hi0. cbn. apply Hmono. apply Ip. exact Hi0.
      * intros w0 k0 v0 [E|Hin] i Hi.
        -- inversion E; subst. apply Hnew. apply Nat.ltb_ge in Lt. lia.
        -- apply Hmono. eapply Ia; eauto.
    + destruct (if (required (rc_n c) (rc_read c) <=? length (resp ++ [dget k (r_rep s j)]))%nat
                then first_some (resp ++ [dget k (r_rep s j)]) else None);
        [|destruct (S j <? rc_n c)%nat]; inversion H; subst; clear H; split; cbn; auto;
        intros q Hin; first [apply in_rdel in Hin; exact (Ip q Hin) | apply in_rset in Hin; destruct Hin as [Hin|Hq]; [exact (Ip q Hin)|unfold rproc_ok; rewrite Hq; exact I]].
Qed.

Theorem rs_acked_everywhere c sched s :
  rrun c rinit sched = Some s ->
  forall w k v, In (w, k, v) (r_acked s) -> forall i, (i < rc_n c)%nat -> In (k, v) (r_log s i).
Proof.
  assert (G : forall sched s0 s1, RInv c s0 -> rrun c s0 sched = Some s1 -> RInv c s1).
  { induction sched0 as [|i r IH]; cbn; intros s0 s1 I0 H; [inversion H; subst; auto|].
    destruct (rstep c s0 i) as [[[s2 o] y]|] eqn:E; [|discriminate]. eapply IH; [eapply rinv_step; eauto|exact H]. }
  intros H. apply (ri_acked c s). eapply G; [|exact H]. split; cbn; intros; contradiction.
Qed.
