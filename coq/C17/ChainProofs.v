(** C17 — chain replication: an acknowledged write is applied at every node; a
    read served by the tail returns a value applied at every node (invariant over
    every schedule of the step machine of Chain.v). *)
From HS Require Import Base.Prelude C17.Model C17.PBProofs C17.Chain.
Local Open Scope Z_scope.

Lemma cmsg_eqb_eq a b : cmsg_eqb a b = true -> a = b.
Proof.
  destruct a, b; cbn; try discriminate; intros H;
    repeat (apply andb_true_iff in H; destruct H as [H ?]);
    repeat match goal with
           | H : (_ =? _) = true |- _ => apply Z.eqb_eq in H
           | H : Bool.eqb _ _ = true |- _ => apply eqb_prop in H
           end; subst; reflexivity.
Qed.

Lemma ctake_in m l l' : ctake m l = Some l' -> In m l /\ incl l' l.
Proof.
  revert l'; induction l as [|x r IH]; cbn; intros l' H; [discriminate|].
  destruct (cmsg_eqb m x) eqn:E.
  - inversion H; subst. apply cmsg_eqb_eq in E; subst. split; [now left|]. intros y Hy; now right.
  - destruct (ctake m r) eqn:T; [|discriminate]. inversion H; subst.
    destruct (IH _ eq_refl) as [Hin Hinc]. split; [now right|].
    intros y [->|Hy]; [now left|right; now apply Hinc].
Qed.

Lemma cfind_in pid l p : cfind pid l = Some p -> In p l.
Proof.
  induction l as [|q r IH]; cbn; [discriminate|].
  destruct (cp_id q =? pid); intros H; [inversion H; now left|right; auto].
Qed.

Lemma in_cset pid c l q : In q (cset pid c l) -> In q l \/ (cp_pc q = c /\ exists p, In p l /\ cp_node q = cp_node p).
Proof.
  induction l as [|p r IH]; cbn; [tauto|].
  destruct (cp_id p =? pid); cbn; intros [<-|H]; auto.
  - right. split; [reflexivity|]. exists p; split; [now left|reflexivity].
  - destruct (IH H) as [?|[? (p0 & ? & ?)]]; auto. right; split; auto. exists p0; auto.
Qed.

Lemma in_cdel pid l q : In q (cdel pid l) -> In q l.
Proof.
  induction l as [|p r IH]; cbn; [tauto|].
  destruct (cp_id p =? pid); cbn; [now right|]. intros [<-|H]; auto.
Qed.

Lemma zmem_in k l : zmem k l = true <-> In k l.
Proof.
  unfold zmem. rewrite existsb_exists. split.
  - intros (x & Hin & E). apply Z.eqb_eq in E; subst; auto.
  - intros H; exists k; split; [auto|apply Z.eqb_refl].
Qed.

Lemma dget_dput k v m k' : dget k' (dput k v m) = if k' =? k then Some v else dget k' m.
Proof.
  induction m as [|[a b] r IH]; cbn.
  - destruct (k' =? k); reflexivity.
  - destruct (k =? a) eqn:E; cbn.
    + apply Z.eqb_eq in E; subst. destruct (k' =? a); reflexivity.
    + rewrite IH. destruct (k' =? a) eqn:E2; [|reflexivity].
      apply Z.eqb_eq in E2; subst. rewrite Z.eqb_sym, E. reflexivity.
Qed.

(* ------------------------------------------------------------------ *)
Notation cacc s := (k_accepted s).
Notation clog s i := (n_log (k_node s i)).

(** (sq,k,v) has been applied at nodes 0 .. d-1 *)
Definition prefix (s : cstate) (d sq k v : Z) : Prop :=
  forall i, 0 <= i < d -> In (sq, k, v) (clog s i).

Definition cproc_ok (s : cstate) (p : cproc) : Prop :=
  match cp_pc p with
  | HWPut w k v sq _ => In (w, sq, k, v) (cacc s)
  | HWSent w k sq _ | HWWait w k sq _ => exists v, In (w, sq, k, v) (cacc s) /\ In (sq, k, v) (clog s 0)
  | PPut k v sq => 1 <= cp_node p /\ (exists w, In (w, sq, k, v) (cacc s)) /\ prefix s (cp_node p) sq k v
  | _ => True
  end.

Definition cmsg_ok (c : ccfg) (s : cstate) (m : cmsg) : Prop :=
  match m with
  | CProp d k v sq => 1 <= d /\ (exists w, In (w, sq, k, v) (cacc s)) /\ prefix s d sq k v
  | CAck k sq => exists w v, In (w, sq, k, v) (cacc s) /\ prefix s (cn c) sq k v
  | _ => True
  end.

Record CInv (c : ccfg) (s : cstate) : Prop := {
  ci_bound : forall w sq k v, In (w, sq, k, v) (cacc s) -> sq <= n_seq (k_node s 0);
  ci_fun : forall w sq k v w' k' v', In (w, sq, k, v) (cacc s) -> In (w', sq, k', v') (cacc s) ->
           w = w' /\ k = k' /\ v = v';
  ci_net : forall m, In m (k_net s) -> cmsg_ok c s m;
  ci_procs : forall p, In p (k_procs s) -> cproc_ok s p;
  ci_res : forall sq, In sq (k_res s) -> exists w k v, In (w, sq, k, v) (cacc s) /\ prefix s (cn c) sq k v;
  ci_rep : forall w sq, In (w, sq) (k_replies s) -> exists k v, In (w, sq, k, v) (cacc s) /\ prefix s (cn c) sq k v;
  ci_tail : forall sq k v, In (sq, k, v) (clog s (tail_of c)) -> prefix s (cn c) sq k v;
  ci_store : forall i k v, dget k (n_store (k_node s i)) = Some v -> exists sq, In (sq, k, v) (clog s i);
  ci_reads : forall rid i k v, In (rid, i, k, Some v) (k_reads s) -> exists sq, In (sq, k, v) (clog s i);
}.

Definition cmono (s s' : cstate) : Prop :=
  incl (cacc s) (cacc s') /\ forall i, incl (clog s i) (clog s' i).

Lemma prefix_mono s s' d sq k v : cmono s s' -> prefix s d sq k v -> prefix s' d sq k v.
Proof. intros [_ Hl] H i Hi. apply Hl. auto. Qed.

Lemma cproc_ok_mono s s' p : cmono s s' -> cproc_ok s p -> cproc_ok s' p.
Proof.
  intros Hm. pose proof Hm as [Ha Hl]. unfold cproc_ok. destruct (cp_pc p); auto.
  - intros (v & H1 & H2). exists v; split; [auto|apply Hl; auto].
  - intros (v & H1 & H2). exists v; split; [auto|apply Hl; auto].
  - intros (H1 & (w & H2) & H3). split; [auto|]. split; [eauto|]. eapply prefix_mono; eauto.
Qed.

Lemma cmsg_ok_mono c s s' m : cmono s s' -> cmsg_ok c s m -> cmsg_ok c s' m.
Proof.
  intros Hm. pose proof Hm as [Ha Hl]. unfold cmsg_ok. destruct m; auto.
  - intros (H1 & (w & H2) & H3). split; [auto|]. split; [eauto|]. eapply prefix_mono; eauto.
  - intros (w & v & H1 & H2). exists w, v. split; [auto|]. eapply prefix_mono; eauto.
Qed.

Lemma cinv_init c : CInv c cinit.
Proof. split; cbn; intros; try contradiction; discriminate. Qed.

(** generic preservation for steps that do not accept a new write *)
Lemma cinv_gen c s s' :
  CInv c s -> cacc s' = cacc s -> n_seq (k_node s 0) <= n_seq (k_node s' 0) -> cmono s s' ->
  (forall m, In m (k_net s') -> In m (k_net s) \/ cmsg_ok c s' m) ->
  (forall p, In p (k_procs s') -> In p (k_procs s) \/ cproc_ok s' p) ->
  (forall sq, In sq (k_res s') -> In sq (k_res s) \/
     exists w k v, In (w, sq, k, v) (cacc s') /\ prefix s' (cn c) sq k v) ->
  (forall w sq, In (w, sq) (k_replies s') -> In (w, sq) (k_replies s) \/
     exists k v, In (w, sq, k, v) (cacc s') /\ prefix s' (cn c) sq k v) ->
  (forall sq k v, In (sq, k, v) (clog s' (tail_of c)) -> In (sq, k, v) (clog s (tail_of c)) \/ prefix s' (cn c) sq k v) ->
  (forall i k v, dget k (n_store (k_node s' i)) = Some v ->
     dget k (n_store (k_node s i)) = Some v \/ exists sq, In (sq, k, v) (clog s' i)) ->
  (forall rid i k v, In (rid, i, k, Some v) (k_reads s') ->
     In (rid, i, k, Some v) (k_reads s) \/ exists sq, In (sq, k, v) (clog s' i)) ->
  CInv c s'.
Proof.
  intros I Ha Hs Hm Hn Hp Hr Hy Ht Hst Hrd. pose proof Hm as (Hma & Hml). destruct I. split.
  - intros w sq k v Hin. rewrite Ha in Hin. apply ci_bound0 in Hin. lia.
  - intros w sq k v w' k' v'. rewrite Ha. apply ci_fun0.
  - intros m Hin. destruct (Hn _ Hin) as [H|H]; [|exact H]. apply (cmsg_ok_mono c s); auto.
  - intros p Hin. destruct (Hp _ Hin) as [H|H]; [|exact H]. apply (cproc_ok_mono s); auto.
  - intros sq Hin. destruct (Hr _ Hin) as [H|H]; [|exact H].
    destruct (ci_res0 _ H) as (w & k & v & ? & ?). exists w, k, v. split; [now apply Hma|eapply prefix_mono; eauto].
  - intros w sq Hin. destruct (Hy _ _ Hin) as [H|H]; [|exact H].
    destruct (ci_rep0 _ _ H) as (k & v & ? & ?). exists k, v. split; [now apply Hma|eapply prefix_mono; eauto].
  - intros sq k v Hin. destruct (Ht _ _ _ Hin) as [H|H]; [|exact H]. eapply prefix_mono; eauto.
  - intros i k v Hin. destruct (Hst _ _ _ Hin) as [H|H]; [|exact H].
    destruct (ci_store0 _ _ _ H) as (sq & ?). exists sq. now apply Hml.
  - intros rid i k v Hin. destruct (Hrd _ _ _ _ Hin) as [H|H]; [|exact H].
    destruct (ci_reads0 _ _ _ _ H) as (sq & ?). exists sq. now apply Hml.
Qed.

(* ------------------------------------------------------------------ *)
(** * Preservation *)
Ltac upd_cases :=
  repeat match goal with
         | H : context [upd _ ?i _ ?j] |- _ => unfold upd in H
         | |- context [upd _ ?i _ ?j] => unfold upd
         | H : context [if ?a =? ?b then _ else _] |- _ =>
             let E := fresh "E" in destruct (a =? b) eqn:E; [apply Z.eqb_eq in E; subst|apply Z.eqb_neq in E]
         | |- context [if ?a =? ?b then _ else _] =>
             let E := fresh "E" in destruct (a =? b) eqn:E; [apply Z.eqb_eq in E; subst|apply Z.eqb_neq in E]
         end.

Ltac cmono_tac :=
  split; cbn; intros; upd_cases; cbn;
  try apply incl_refl; try (apply incl_tl, incl_refl); try (apply incl_appl, incl_refl).

Ltac cgen c s :=
  apply (cinv_gen c s); auto; try reflexivity; try (cbn; upd_cases; cbn; lia); try (solve [cmono_tac]);
  cbn; intros; upd_cases; cbn in *; auto.

Lemma in_cspawn s n pcv p :
  In p (k_procs (cspawn s n pcv)) -> In p (k_procs s) \/ p = {| cp_id := k_next s; cp_node := n; cp_pc := pcv |}.
Proof. cbn. intros H. apply in_app_or in H. destruct H as [H|[<-|[]]]; auto. Qed.

Section WithN.
Variable c : ccfg.
Hypothesis Hn : (2 <= cc_n c)%nat.

Lemma tail_pos : tail_of c <> 0.
Proof. unfold tail_of, cn. lia. Qed.

Lemma cinv_write_head s wid k v rf s' o y :
  CInv c s -> c_write_start c s 0 wid k v rf = (s', o, y) -> CInv c s'.
Proof.
  intros I H. unfold c_write_start in H. cbn in H. inversion H; subst; clear H. destruct I. split.
  - cbn. intros w0 sq k0 v0 [E|Hin]; [inversion E; subst; unfold upd; cbn; lia|].
    apply ci_bound0 in Hin. unfold upd; cbn. lia.
  - cbn. intros w0 sq k0 v0 w' k' v' [E|Hin] [E'|Hin'].
    + inversion E; inversion E'; subst; auto.
    + inversion E; subst. apply ci_bound0 in Hin'. lia.
    + inversion E'; subst. apply ci_bound0 in Hin. lia.
    + eapply ci_fun0; eauto.
  - cbn. intros m Hin. apply (cmsg_ok_mono c s); [cmono_tac|auto].
  - intros q Hin. apply in_cspawn in Hin. destruct Hin as [Hin| ->].
    + apply (cproc_ok_mono s); [cmono_tac|auto].
    + cbn. now left.
  - cbn. intros sq Hin. destruct (ci_res0 _ Hin) as (w0 & k0 & v0 & ? & ?). exists w0, k0, v0. split; [now right|].
    intros i Hi. specialize (H0 i Hi). cbn. upd_cases; auto.
  - cbn. intros w0 sq Hin. destruct (ci_rep0 _ _ Hin) as (k0 & v0 & ? & ?). exists k0, v0. split; [now right|].
    intros i Hi. specialize (H0 i Hi). cbn. upd_cases; auto.
  - cbn. intros sq k0 v0 Hin. unfold upd in Hin.
    destruct (tail_of c =? 0) eqn:E; [apply Z.eqb_eq in E; exfalso; exact (tail_pos E)|].
    intros i Hi. specialize (ci_tail0 _ _ _ Hin i Hi). cbn. upd_cases; auto.
  - cbn. intros i k0 v0 Hin. upd_cases; cbn in *; auto.
  - cbn. intros rid i k0 v0 Hin. destruct (ci_reads0 _ _ _ _ Hin) as (sq & ?). exists sq. upd_cases; auto.
Qed.

Lemma cinv_start s n m s' o y : CInv c s -> cstart c s n m = Some (s', o, y) -> CInv c s'.
Proof.
  intros I H. unfold cstart in H. destruct (is_node c n) eqn:Nd; [|discriminate].
  destruct m as [w k v rf|r k rf|r k rf|d k v sq|k sq|d k sq|].
  - (* Write *) injection H as H. unfold c_write_start in H.
    destruct (n =? 0) eqn:E0.
    + apply Z.eqb_eq in E0; subst. eapply cinv_write_head; eauto. unfold c_write_start. cbn. exact H.
    + inversion H; subst. cgen c s.
  - (* Read *) injection H as H. unfold c_read_start in H.
    destruct (cc_craq c && negb (is_tail c n) && zmem k (n_dirty (k_node s n))); inversion H; subst; clear H.
    + cgen c s.
      * apply in_app_or in H. destruct H as [H|[<-|[]]]; [now left|right; exact Logic.I].
      * apply in_app_or in H. destruct H as [H|[<-|[]]]; [now left|right; exact Logic.I].
    + cgen c s. apply in_app_or in H. destruct H as [H|[<-|[]]]; [now left|right; exact Logic.I].
  - (* forwarded read *)
    destruct (is_tail c n); [|discriminate].
    destruct (ctake (CFwdRead r k rf) (k_net s)) as [net'|] eqn:T; [|discriminate].
    apply ctake_in in T; destruct T as [_ Hinc]. injection H as H. unfold c_read_start in H.
    destruct (cc_craq c && negb (is_tail c n) && zmem k (n_dirty (k_node (set_net s net') n))); inversion H; subst; clear H.
    + cgen c s.
      * apply in_app_or in H. destruct H as [H|[<-|[]]]; [left; now apply Hinc|right; exact Logic.I].
      * apply in_app_or in H. destruct H as [H|[<-|[]]]; [now left|right; exact Logic.I].
    + cgen c s. apply in_app_or in H. destruct H as [H|[<-|[]]]; [now left|right; exact Logic.I].
  - (* Propagate *)
    destruct (d =? n) eqn:Ed; [|discriminate]. apply Z.eqb_eq in Ed; subst.
    destruct (ctake (CProp n k v sq) (k_net s)) as [net'|] eqn:T; [|discriminate].
    apply ctake_in in T; destruct T as [Hm Hinc]. inversion H; subst; clear H.
    pose proof (ci_net c s I _ Hm) as Hok. cbn in Hok.
    cgen c s. apply in_app_or in H. destruct H as [H|[<-|[]]]; [now left|right].
    unfold cproc_ok; cbn. destruct Hok as (H1 & H2 & H3). split; [auto|]. split; [auto|].
    intros i Hi. specialize (H3 i Hi). cbn. upd_cases; auto.
  - (* WriteAck *)
    destruct (n =? 0) eqn:E0; [|discriminate].
    destruct (ctake (CAck k sq) (k_net s)) as [net'|] eqn:T; [|discriminate].
    apply ctake_in in T; destruct T as [Hm Hinc]. injection H as H. unfold c_ack in H.
    pose proof (ci_net c s I _ Hm) as Hok. cbn in Hok.
    destruct (zmem sq (n_pending (k_node (set_net s net') n)) && negb (zmem sq (k_res (set_net s net'))));
      inversion H; subst; clear H.
    + cgen c s. destruct H as [<-|H]; [right|now left].
      destruct Hok as (w & v & H1 & H2). exists w, k, v. auto.
    + cgen c s.
  - (* CommitNotify *)
    destruct (d =? n) eqn:Ed; [|discriminate].
    destruct (ctake (CCommit d k sq) (k_net s)) as [net'|] eqn:T; [|discriminate].
    apply ctake_in in T; destruct T as [Hm Hinc]. injection H as H. unfold c_commit in H.
    destruct (cc_craq c); inversion H; subst; clear H; cgen c s.
  - inversion H; subst. cgen c s.
Qed.

Ltac st := unfold cmsg_ok, cproc_ok, prefix; cbn; unfold upd; cbn.
Ltac same_node :=
  let H := fresh "H" in
  intros ? ? ? H; left; unfold upd in H;
  match type of H with
  | context [if ?a =? ?b then _ else _] =>
      let E := fresh "E" in destruct (a =? b) eqn:E; [apply Z.eqb_eq in E; rewrite E|]
  end; exact H.
Ltac last_in := apply in_or_app; right; now left.
Ltac cgen0 c s :=
  apply (cinv_gen c s); auto; try reflexivity; try (cbn; unfold upd; cbn; lia);
  try (cbn; unfold upd;
       match goal with |- context [if ?a =? ?b then _ else _] =>
         let E := fresh in destruct (a =? b) eqn:E; [apply Z.eqb_eq in E; try rewrite <- E|] end; cbn; lia);
  try (solve [cmono_tac]); cbn.
Ltac keep_procs := let q := fresh "q" in let H := fresh "H" in
  intros q H; first [apply in_cdel in H; now left
                    | apply in_cset in H; destruct H as [H|[H _]]; [now left|right; unfold cproc_ok; rewrite H; try exact Logic.I]].
Ltac store_put k sq :=
  let i := fresh "i" in let k0 := fresh "k0" in let v0 := fresh "v0" in let H := fresh "H" in
  intros i k0 v0 H; unfold upd in *; cbn in *;
  match goal with
  | H : context [if ?a =? ?b then _ else _] |- _ =>
      destruct (a =? b) eqn:?E; [apply Z.eqb_eq in E; subst; cbn in *|now left]
  end;
  rewrite dget_dput in H;
  match goal with
  | H : (if ?a =? ?b then _ else _) = _ |- _ =>
      destruct (a =? b) eqn:?Ek; [apply Z.eqb_eq in Ek; subst; inversion H; subst; right; exists sq; last_in|now left]
  end.

Lemma cinv_resume s pid s' o y : CInv c s -> cresume c s pid = Some (s', o, y) -> CInv c s'.
Proof.
  intros I H. unfold cresume in H.
  destruct (cfind pid (k_procs s)) as [p|] eqn:F; [|discriminate].
  apply cfind_in in F.
  pose proof (ci_procs c s I p F) as Hok. unfold cproc_ok in Hok.
  destruct (cp_pc p) as [w k v sq rf|w k sq rf|w k sq rf|k v sq| |k sq| |r k rf| ] eqn:Epc.
  - (* head put done *)
    inversion H; subst; clear H. cgen0 c s.
    + intros m H. apply in_app_or in H. destruct H as [H|[<-|[]]]; [now left|right]. st.
      split; [lia|]. split; [eauto|]. intros i Hi. assert (i = 0) by lia; subst. cbn. last_in.
    + keep_procs. st. exists v. split; [auto|last_in].
    + intros sq0 k0 v0 H. left. unfold upd in H. destruct (tail_of c =? 0) eqn:E; [|exact H].
      apply Z.eqb_eq in E. exfalso; exact (tail_pos E).
    + store_put k sq.
  - (* head: after yield *)
    inversion H; subst; clear H. cgen0 c s. keep_procs. exact Hok.
  - (* head: acked *)
    destruct (zmem sq (k_res s)) eqn:R; [|discriminate]. apply zmem_in in R.
    inversion H; subst; clear H. unfold c_reply.
    destruct (ci_res c s I _ R) as (w' & k' & v' & Ha & Hp).
    destruct Hok as (v & Hacc & Hl).
    destruct (ci_fun c s I _ _ _ _ _ _ _ Hacc Ha) as (_ & <- & <-).
    destruct rf.
    + cgen0 c s.
      * keep_procs.
      * intros w0 sq0 [E|H]; [inversion E; subst; right|now left].
        exists k, v. split; [auto|]. intros i Hi. specialize (Hp i Hi). st.
        destruct (i =? 0) eqn:E0; [apply Z.eqb_eq in E0; subst|]; auto.
      * same_node.
      * same_node.
    + cgen0 c s.
      * keep_procs.
      * same_node.
      * same_node.
  - (* propagate: put done *)
    injection H as H. destruct Hok as (Hge & (w & Hacc) & Hpre). unfold p_put_done in H.
    set (i := cp_node p) in *.
    destruct (is_tail c i) eqn:Et; inversion H; subst; clear H.
    + unfold is_tail in Et. apply Z.eqb_eq in Et.
      assert (Hfull : forall s2, cmono s s2 -> In (sq, k, v) (clog s2 i) -> prefix s2 (cn c) sq k v).
      { intros s2 Hm Hi j Hj. destruct (Z.eq_dec j i) as [->|Hne]; [auto|].
        destruct Hm as [_ Hl]. apply Hl. apply Hpre. unfold tail_of in Et. lia. }
      cgen0 c s.
      * intros m H. apply in_app_or in H. destruct H as [H|[<-|[]]]; [now left|right]. unfold cmsg_ok.
        exists w, v. split; [auto|]. apply Hfull; [cmono_tac|]. cbn. unfold upd. rewrite Z.eqb_refl. cbn. last_in.
      * keep_procs.
      * intros sq0 k0 v0 H. unfold upd in H. rewrite <- Et, Z.eqb_refl in H. cbn in H.
        apply in_app_or in H. destruct H as [H|[E1|[]]]; [left; rewrite <- Et; exact H|right]. inversion E1; subst.
        apply Hfull; [cmono_tac|]. cbn. unfold upd. rewrite Z.eqb_refl. cbn. last_in.
      * store_put k sq.
    + unfold is_tail in Et. apply Z.eqb_neq in Et.
      cgen0 c s.
      * intros m H. apply in_app_or in H. destruct H as [H|[<-|[]]]; [now left|right]. st.
        split; [lia|]. split; [eauto|]. intros j Hj.
        destruct (j =? i) eqn:Ej; [cbn; last_in|]. apply Z.eqb_neq in Ej. apply Hpre. lia.
      * keep_procs.
      * intros sq0 k0 v0 H. left. unfold upd in H. destruct (tail_of c =? i) eqn:E; [|exact H].
        apply Z.eqb_eq in E. congruence.
      * store_put k sq.
  - inversion H; subst; clear H. cgen0 c s. keep_procs.
  - (* tail: after the ack *)
    injection H as H. unfold t_acked in H. destruct (cc_craq c).
    + destruct (map (fun j => CCommit j k sq) (upstream (cp_node p))) eqn:Ems; inversion H; subst; clear H.
      * cgen0 c s.
        -- intros m H. rewrite app_nil_r in H. now left.
        -- keep_procs.
        -- same_node.
        -- same_node.
      * cgen0 c s.
        -- intros m H. apply in_app_or in H. destruct H as [H|H]; [now left|right].
           rewrite <- Ems in H. apply in_map_iff in H. destruct H as (j & <- & _). exact Logic.I.
        -- keep_procs.
        -- same_node.
        -- same_node.
    + inversion H; subst; clear H. cgen0 c s. keep_procs.
  - inversion H; subst; clear H. cgen0 c s. keep_procs.
  - (* read done *)
    inversion H; subst; clear H. cgen0 c s.
    + keep_procs.
    + intros rid i k0 v0 [E|H]; [|now left]. inversion E; subst. right.
      match goal with H : _ = Some v0 |- _ => destruct (ci_store c s I _ _ _ H) as (sq & ?) end. eauto.
  - inversion H; subst; clear H. cgen0 c s. keep_procs.
Qed.

Lemma cinv_run sched : forall s s', CInv c s -> crun c s sched = Some s' -> CInv c s'.
Proof.
  induction sched as [|i r IH]; cbn; intros s s' I H; [inversion H; subst; exact I|].
  destruct (cstep c s i) as [[[s1 o] y]|] eqn:E; [|discriminate].
  eapply IH; [|exact H]. destruct i; cbn in E; [eapply cinv_start|eapply cinv_resume]; eauto.
Qed.

(** An acknowledged write has been applied at every node of the chain. *)
Theorem chain_ack_applied sched s :
  crun c cinit sched = Some s ->
  forall w sq, In (w, sq) (k_replies s) ->
  exists k v, In (w, sq, k, v) (k_accepted s) /\
    forall i, 0 <= i < cn c -> In (sq, k, v) (n_log (k_node s i)).
Proof.
  intros H w sq Hin. pose proof (cinv_run sched _ _ (cinv_init c) H) as I.
  exact (ci_rep c s I w sq Hin).
Qed.

(** A read served by the tail returns a value that has been applied at the tail
    and (hence) at every node: it is committed. *)
Theorem chain_tail_read_committed sched s :
  crun c cinit sched = Some s ->
  forall rid k v, In (rid, tail_of c, k, Some v) (k_reads s) ->
  exists sq, forall i, 0 <= i < cn c -> In (sq, k, v) (n_log (k_node s i)).
Proof.
  intros H rid k v Hin. pose proof (cinv_run sched _ _ (cinv_init c) H) as I.
  destruct (ci_reads c s I _ _ _ _ Hin) as (sq & Hl). exists sq. exact (ci_tail c s I _ _ _ Hl).
Qed.

End WithN.
