(** C17 — primary-backup convergence: refuted under reordering (faithful model),
    witness replayed on the implementation by corpus/C17/pb.reorder.json. *)
From HS Require Import Base.Prelude C17.Model C17.PBProofs.
Local Open Scope Z_scope.

Definition pb_converged (c : cfg) (s : state) : Prop :=
  forall b, In b (bids c) -> forall k, dget k (bs_store (s_bak s b)) = dget k (ps_store (s_prim s)).

(** "once writes stop and all in-flight messages are delivered, all replicas hold
    the same value for every key, under any message reordering" *)
Definition pb_convergence_statement : Prop :=
  forall c sched s, run c init sched = Some s -> quiescent s -> pb_converged c s.

Definition wit_cfg : cfg :=
  {| c_mode := SYNC; c_nb := 1; c_wlat := [2000; 2000]; c_rlat := [500; 500]; c_serve := [true; true] |}.

(** two writes to key 0; the Replicate of the second overtakes the first *)
Definition wit_sched : list inp :=
  [ IStart 0 (MWrite 101 0 101 true); IStart 0 (MWrite 102 0 102 true);
    IResume 0; IResume 1; IResume 0; IResume 1;
    IStart 1 (MReplicate 1 0 102 2 true); IResume 2;
    IStart 1 (MReplicate 1 0 101 1 true); IResume 3;
    IResume 2; IResume 3; IStart 0 (MAck 1 2); IStart 0 (MAck 1 1);
    IResume 0; IResume 1 ].

Definition quiescent_b (s : state) : bool :=
  match s_net s, s_procs s with [], [] => true | _, _ => false end.

Definition diverged_b (c : cfg) (s : state) : bool :=
  existsb (fun b => existsb (fun k => negb (oz_eqb (dget k (bs_store (s_bak s b))) (dget k (ps_store (s_prim s)))))
                            (map fst (ps_store (s_prim s)))) (bids c).

Definition diverges (c : cfg) (sched : list inp) : bool :=
  match run c init sched with Some s => quiescent_b s && diverged_b c s | None => false end.

Lemma oz_eqb_refl o : oz_eqb o o = true.
Proof. destruct o; cbn; [apply Z.eqb_refl|reflexivity]. Qed.

Lemma diverges_refutes c sched : diverges c sched = true -> ~ pb_convergence_statement.
Proof.
  unfold diverges. intros D H. destruct (run c init sched) as [s|] eqn:Hr; [|discriminate].
  apply andb_true_iff in D. destruct D as [Q D].
  assert (Hq : quiescent s).
  { unfold quiescent_b in Q. unfold quiescent. destruct (s_net s); [|discriminate]. destruct (s_procs s); [auto|discriminate]. }
  specialize (H c sched s Hr Hq). unfold diverged_b in D.
  apply existsb_exists in D. destruct D as (b & Hb & D).
  apply existsb_exists in D. destruct D as (k & _ & D).
  rewrite (H b Hb k), oz_eqb_refl in D. discriminate.
Qed.

Lemma wit_diverges : diverges wit_cfg wit_sched = true.
Proof. vm_compute. reflexivity. Qed.

Theorem pb_convergence_refuted : ~ pb_convergence_statement.
Proof. exact (diverges_refutes _ _ wit_diverges). Qed.
