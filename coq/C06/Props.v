(** Property C06 — the theorems the check counts as obligations.  Nothing but
    statements closed by [exact] and [Print Assumptions].

    [write] ranges over the activation closures of the register faults:
    [crash_write] (CrashNode/PauseNode), [lat_write] (InjectLatency),
    [loss_write] (InjectPacketLoss), [capv_write] (ReduceCapacity's capacity). *)
From HS Require Import Base.Prelude C06.Model C06.Registers C06.Partition C06.Capacity C06.Dispatch.
Local Open Scope Z_scope.

(** Outside every window the target has its configured setting — for EVERY
    schedule, overlapping or not, with cancels and permanent crashes ("once every
    window has ended the system is back to its configured state"; "processing
    resumes from the restart time"). *)
Theorem c06_back_to_configured : forall write cfg sched, wf sched ->
  forall x t, active sched x t = false -> reg_at write cfg sched t x = cfg x.
Proof. exact inactive_configured. Qed.
Print Assumptions c06_back_to_configured.

(** An effect is only ever present while a window on that target is active. *)
Theorem c06_effect_only_while_active : forall write cfg sched, wf sched ->
  forall x t, reg_at write cfg sched t x <> cfg x -> active sched x t = true.
Proof. exact effect_only_while_active. Qed.
Print Assumptions c06_effect_only_while_active.

(** PARTIAL (windows on the target strictly separated): the fault is in effect
    during the whole window. *)
Theorem c06_effect_while_active_partial : forall write cfg sched x, wf sched -> separated sched x ->
  forall w t, In w sched -> w_tgt w = x -> covers w t = true ->
  reg_at write cfg sched t x = write (cfg x) (w_p w).
Proof. exact separated_effect. Qed.
Print Assumptions c06_effect_while_active_partial.

(** The full clause ("whatever other faults overlap it") is REFUTED on the
    faithful model, for each register kind (known findings C06-overlap-crash, -lat, -loss). *)
Theorem c06_crash_overlap_refuted : ~ effect_while_active_statement crash_write.
Proof. exact crash_overlap_refuted. Qed.
Print Assumptions c06_crash_overlap_refuted.

Theorem c06_latency_overlap_refuted : ~ effect_while_active_statement lat_write.
Proof. exact latency_overlap_refuted. Qed.
Print Assumptions c06_latency_overlap_refuted.

Theorem c06_loss_overlap_refuted : ~ effect_while_active_statement loss_write.
Proof. exact loss_overlap_refuted. Qed.
Print Assumptions c06_loss_overlap_refuted.

Theorem c06_capacity_overlap_refuted : ~ effect_while_active_statement capv_write.
Proof. exact capacity_overlap_refuted. Qed.
Print Assumptions c06_capacity_overlap_refuted.

(** A handle cancelled before activation: none of the fault's closures ever runs. *)
Theorem c06_cancel_before_activation : forall sched (k : nat) w tc,
  wf sched -> nth_error sched k = Some w -> w_c w = Some tc -> tc < w_s w ->
  forall e, In e (delivered sched) -> fe_fid e <> Z.of_nat k.
Proof. exact cancelled_before_activation_not_delivered. Qed.
Print Assumptions c06_cancel_before_activation.

(** Targets no fault names keep their configured setting at all times. *)
Theorem c06_untargeted_unchanged : forall write cfg sched y,
  (forall w, In w sched -> w_tgt w <> y) -> forall t, reg_at write cfg sched t y = cfg y.
Proof. exact untargeted_unchanged. Qed.
Print Assumptions c06_untargeted_unchanged.

(* ---------------------------------------------------------------- partitions *)

(** A pair is partitioned only while a partition window separating it is in
    force; once every window has ended the network is whole.  EVERY schedule. *)
Theorem c06_partition_only_while_active : forall sched, wf sched ->
  forall a b t, part_active sched a b t = false -> is_partitioned (part_at sched t) a b = false.
Proof. exact partition_only_while_active. Qed.
Print Assumptions c06_partition_only_while_active.

(** PARTIAL (windows separating the pair strictly separated in time). *)
Theorem c06_partition_while_active_partial : forall sched a b, wf sched ->
  separatedG (fun w => separates w a b) sched ->
  forall w t, In w sched -> separates w a b = true -> covers w t = true ->
  is_partitioned (part_at sched t) a b = true.
Proof. exact partition_separated_effect. Qed.
Print Assumptions c06_partition_while_active_partial.

(** REFUTED in full: the heal of one partition unblocks a pair another active
    partition shares (known finding C06-overlap-part). *)
Theorem c06_partition_overlap_refuted : ~ partition_while_active_statement.
Proof. exact partition_overlap_refuted. Qed.
Print Assumptions c06_partition_overlap_refuted.

(* ---------------------------------------------------------------- capacity *)

(** For every fault schedule and workload: 0 <= available <= capacity <= configured. *)
Theorem c06_capacity_available_bounded : forall orig, 0 <= orig -> forall ops s,
  Forall factor_ok ops -> cap_inv orig s -> cap_inv orig (cap_final orig s ops).
Proof. exact available_bounded. Qed.
Print Assumptions c06_capacity_available_bounded.

(** The capacity value is written by the last fault closure only (so the
    register theorems above apply to it with [capv_write]). *)
Theorem c06_capacity_is_last_writer : forall orig ops s,
  c_cap (cap_final orig s ops) =
  match last_fault ops with
  | Some e => if fe_on e then capv_write orig (fe_p e) else orig
  | None => c_cap s
  end.
Proof. exact capacity_is_last_writer. Qed.
Print Assumptions c06_capacity_is_last_writer.

(** REFUTED: available + held = capacity, already with ONE window when something
    is held at activation (known finding C06-capacity-held-ignored). *)
Theorem c06_capacity_conservation_refuted : ~ conservation_statement.
Proof. exact conservation_refuted. Qed.
Print Assumptions c06_capacity_conservation_refuted.

(** PARTIAL: exact accounting when every activation finds nothing held and does
    not raise the capacity. *)
Theorem c06_capacity_conservation_partial : forall orig ops s h,
  conserved s h -> acts_idle orig s h ops ->
  conserved (cap_final orig s ops) (held_after orig s h ops).
Proof. exact conservation_partial. Qed.
Print Assumptions c06_capacity_conservation_partial.

(* ---------------------------------------------------------------- crashed entities *)

(** PARTIAL: no handler is entered while the crash flag is set. *)
Theorem c06_no_handler_entry_while_crashed_partial : forall sched x arrs t pid,
  In (t, pid, 0) (plain_activity sched x arrs) -> crashed_at sched t x = false.
Proof. exact no_handler_entry_while_flagged. Qed.
Print Assumptions c06_no_handler_entry_while_crashed_partial.

(** REFUTED: "while crashed it executes nothing" — a process in flight at the
    crash instant keeps advancing (known finding C06-inflight-process-runs-while-crashed). *)
Theorem c06_crashed_executes_nothing_refuted : ~ crashed_executes_nothing_statement.
Proof. exact crashed_executes_nothing_refuted. Qed.
Print Assumptions c06_crashed_executes_nothing_refuted.

(** Outside every crash/pause window arrivals are processed in full. EVERY schedule. *)
Theorem c06_processing_resumes : forall sched x arrs t pid ds, wf sched ->
  In (t, pid, ds) arrs -> active sched x t = false ->
  forall r, r = (t, pid, 0) \/ In r (proc_steps t pid 1 ds) -> In r (plain_activity sched x arrs).
Proof. exact processes_outside_windows. Qed.
Print Assumptions c06_processing_resumes.

(** Entities no fault names run exactly as in the fault-free simulation. *)
Theorem c06_bystander_unaffected : forall sched y arrs,
  (forall w, In w sched -> w_tgt w <> y) -> plain_activity sched y arrs = plain_activity [] y arrs.
Proof. exact bystander_unaffected. Qed.
Print Assumptions c06_bystander_unaffected.

(** Queue-fronted target. PARTIAL: only work that arrived while the flag was
    clear is executed; REFUTED: queued work is started during the crash
    (known finding C06-queued-work-starts-while-crashed). *)
Theorem c06_queue_accepts_only_while_up_partial : forall sched x arrs r,
  In r (qr_activity sched x arrs) ->
  exists t d, In (t, snd (fst r), d) arrs /\ crashed_at sched t x = false.
Proof. exact queue_accepts_only_while_unflagged. Qed.
Print Assumptions c06_queue_accepts_only_while_up_partial.

Theorem c06_queued_entry_while_crashed_refuted : ~ queued_no_entry_while_crashed_statement.
Proof. exact queued_entry_while_crashed_refuted. Qed.
Print Assumptions c06_queued_entry_while_crashed_refuted.
