(** Property C06 — the theorems the check counts as obligations.  Nothing but
    statements closed by [exact] and [Print Assumptions].

    [write] ranges over the activation closures of the register faults:
    [crash_write] (CrashNode/PauseNode), [lat_write] (InjectLatency),
    [loss_write] (InjectPacketLoss), [capv_write] (ReduceCapacity's capacity). *)
From HS Require Import Base.Prelude C06.Model C06.Registers.
Local Open Scope Z_scope.

(** Outside every window the target has its configured setting — for EVERY
    schedule, overlapping or not, with cancels and permanent crashes ("once every
    window has ended the system is back to its configured state"; "processing
    resumes from the restart time"). *)
Theorem c06_back_to_configured : forall write cfg sched, wf sched ->
  forall x t, active sched x t = false -> reg_at write cfg sched t x = cfg x.
Proof. exact inactive_configured. Qed.
Print Assumptions c06_back_to_configured.

(** An effect is only ever present while a window on that target is active. *)
Theorem c06_effect_only_while_active : forall write cfg sched, wf sched ->
  forall x t, reg_at write cfg sched t x <> cfg x -> active sched x t = true.
Proof. exact effect_only_while_active. Qed.
Print Assumptions c06_effect_only_while_active.

(** PARTIAL (windows on the target strictly separated): the fault is in effect
    during the whole window. *)
Theorem c06_effect_while_active_partial : forall write cfg sched x, wf sched -> separated sched x ->
  forall w t, In w sched -> w_tgt w = x -> covers w t = true ->
  reg_at write cfg sched t x = write (cfg x) (w_p w).
Proof. exact separated_effect. Qed.
Print Assumptions c06_effect_while_active_partial.

(** The full clause ("whatever other faults overlap it") is REFUTED on the
    faithful model, for each register kind (known findings C06-overlap-crash, -lat, -loss). *)
Theorem c06_crash_overlap_refuted : ~ effect_while_active_statement crash_write.
Proof. exact crash_overlap_refuted. Qed.
Print Assumptions c06_crash_overlap_refuted.

Theorem c06_latency_overlap_refuted : ~ effect_while_active_statement lat_write.
Proof. exact latency_overlap_refuted. Qed.
Print Assumptions c06_latency_overlap_refuted.

Theorem c06_loss_overlap_refuted : ~ effect_while_active_statement loss_write.
Proof. exact loss_overlap_refuted. Qed.
Print Assumptions c06_loss_overlap_refuted.

(** A handle cancelled before activation: none of the fault's closures ever runs. *)
Theorem c06_cancel_before_activation : forall sched (k : nat) w tc,
  wf sched -> nth_error sched k = Some w -> w_c w = Some tc -> tc < w_s w ->
  forall e, In e (delivered sched) -> fe_fid e <> Z.of_nat k.
Proof. exact cancelled_before_activation_not_delivered. Qed.
Print Assumptions c06_cancel_before_activation.

(** Targets no fault names keep their configured setting at all times. *)
Theorem c06_untargeted_unchanged : forall write cfg sched y,
  (forall w, In w sched -> w_tgt w <> y) -> forall t, reg_at write cfg sched t y = cfg y.
Proof. exact untargeted_unchanged. Qed.
Print Assumptions c06_untargeted_unchanged.
