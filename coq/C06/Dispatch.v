(** C06 — what a crashed entity executes (Event.invoke, ProcessContinuation.invoke,
    QueuedResource worker adapter). *)
From HS Require Import Base.Prelude C06.Model C06.Registers.
Local Open Scope Z_scope.

Lemma proc_steps_ge t pid : forall ds k r, In r (proc_steps t pid k ds) -> k <= snd r.
Proof.
  intros ds; revert t. induction ds as [|d ds IH]; intros t k r; cbn; [intros []|].
  intros [<-|H]; [cbn; lia|]. apply IH in H. lia.
Qed.

Lemma In_plain sched x arrs r : In r (plain_activity sched x arrs) <->
  exists t pid ds, In (t, pid, ds) arrs /\ crashed_at sched t x = false /\
                   (r = (t, pid, 0) \/ In r (proc_steps t pid 1 ds)).
Proof.
  unfold plain_activity. rewrite in_flat_map. split.
  - intros (((t & pid) & ds) & Hi & Hr). exists t, pid, ds. split; [exact Hi|].
    destruct (crashed_at sched t x); [destruct Hr|]. split; [reflexivity|].
    destruct Hr as [<-|Hr]; auto.
  - intros (t & pid & ds & Hi & Hc & Hr). exists (t, pid, ds). split; [exact Hi|].
    rewrite Hc. destruct Hr as [->|Hr]; [now left|now right].
Qed.

(** D1 (partial of "executes nothing"): no handler is ENTERED while the entity's
    crash flag is set. *)
Theorem no_handler_entry_while_flagged sched x arrs t pid :
  In (t, pid, 0) (plain_activity sched x arrs) -> crashed_at sched t x = false.
Proof.
  intros H. apply In_plain in H. destruct H as (t' & pid' & ds & _ & Hc & [E|Hr]).
  - injection E as -> _. exact Hc.
  - apply proc_steps_ge in Hr. cbn in Hr. lia.
Qed.

(** D2: the full clause is false — a process in flight at the crash instant
    keeps running.  Crash [2,10), one arrival at 1 whose handler yields 3 ns. *)
Definition crashed_executes_nothing_statement : Prop :=
  forall sched x arrs, wf sched -> forall t pid k,
  In (t, pid, k) (plain_activity sched x arrs) -> active sched x t = false.

Theorem crashed_executes_nothing_refuted : ~ crashed_executes_nothing_statement.
Proof.
  intros H.
  specialize (H [W 0 2 (Some 10) 0 None] 0 [(1, 7, [3])]).
  assert (Hwf : wf [W 0 2 (Some 10) 0 None]) by (intros w [<-|[]]; cbn; lia).
  specialize (H Hwf 4 7 1). vm_compute in H. discriminate H. right. now left.
Qed.

(** D3: outside every crash/pause window the entity processes what arrives
    ("processing resumes from the restart time"), all steps included. ANY schedule. *)
Theorem processes_outside_windows sched x arrs t pid ds : wf sched ->
  In (t, pid, ds) arrs -> active sched x t = false ->
  forall r, r = (t, pid, 0) \/ In r (proc_steps t pid 1 ds) -> In r (plain_activity sched x arrs).
Proof.
  intros Hwf Hi Ha r Hr. apply In_plain. exists t, pid, ds. split; [exact Hi|]. split; [|exact Hr].
  unfold crashed_at. rewrite (inactive_configured crash_write (fun _ => 0) sched Hwf x t Ha). reflexivity.
Qed.

(** D4: an entity that no fault names behaves exactly as in the fault-free run. *)
Lemma crashed_at_nil t y : crashed_at [] t y = false.
Proof. reflexivity. Qed.

Theorem bystander_unaffected sched y arrs :
  (forall w, In w sched -> w_tgt w <> y) -> plain_activity sched y arrs = plain_activity [] y arrs.
Proof.
  intros Hno. unfold plain_activity. induction arrs as [|((t & pid) & ds) r IH]; [reflexivity|].
  cbn [flat_map]. rewrite IH. f_equal.
  unfold crashed_at at 1. rewrite (untargeted_unchanged crash_write (fun _ => 0) sched y Hno t).
  rewrite crashed_at_nil. reflexivity.
Qed.

(* ------------------------------------------------------------------ *)
(** * Queue-fronted entity *)

Lemma In_qr_serve r : forall arrs free, In r (qr_serve free arrs) ->
  exists t d, In (t, snd (fst r), d) arrs.
Proof.
  induction arrs as [|((t & pid) & d) l IH]; intros free; cbn; [intros []|].
  intros [<-|[<-|H]]; [exists t, d; now left|exists t, d; now left|].
  destruct (IH _ H) as (t' & d' & Hi). exists t', d'. now right.
Qed.

(** Q1 (partial): only work that ARRIVED while the crash flag was clear is ever executed. *)
Theorem queue_accepts_only_while_unflagged sched x arrs r :
  In r (qr_activity sched x arrs) ->
  exists t d, In (t, snd (fst r), d) arrs /\ crashed_at sched t x = false.
Proof.
  unfold qr_activity. intros H. apply In_qr_serve in H. destruct H as (t & d & Hi).
  apply filter_In in Hi. destruct Hi as (Hi & Hc). exists t, d. split; [exact Hi|].
  cbn in Hc. now destruct (crashed_at sched t x).
Qed.

(** Q2: but queued work is STARTED while the resource is crashed (the worker
    adapter carries no crash flag).  Crash [2,10); arrivals at 0 and 1, 3 ns each:
    the second handler is entered at 3. *)
Definition queued_no_entry_while_crashed_statement : Prop :=
  forall sched x arrs, wf sched -> forall t pid,
  In (t, pid, 0) (qr_activity sched x arrs) -> active sched x t = false.

Theorem queued_entry_while_crashed_refuted : ~ queued_no_entry_while_crashed_statement.
Proof.
  intros H.
  specialize (H [W 0 2 (Some 10) 0 None] 0 [(0, 1, 3); (1, 2, 3)]).
  assert (Hwf : wf [W 0 2 (Some 10) 0 None]) by (intros w [<-|[]]; cbn; lia).
  specialize (H Hwf 3 2). vm_compute in H. discriminate H. right. right. now left.
Qed.
