(** C06 — proofs about NetworkPartition faults (Network.partition / Partition.heal). *)
From HS Require Import Base.Prelude C06.Model C06.Registers.
From Coq Require Import Sorting.Sorted.
Local Open Scope Z_scope.
Arguments pmem : simpl never.
Arguments zmem : simpl never.

(* ------------------------------------------------------------------ *)
(** * List-sets of pairs *)

Lemma pair_eqb_refl p : pair_eqb p p = true.
Proof. unfold pair_eqb. lia. Qed.

Lemma pair_eqb_eq p q : pair_eqb p q = true -> p = q.
Proof. destruct p, q. unfold pair_eqb. cbn. intros H. f_equal; lia. Qed.

Lemma pmem_app p l1 l2 : pmem p (l1 ++ l2) = pmem p l1 || pmem p l2.
Proof. unfold pmem. apply existsb_app. Qed.

Lemma pmem_padd p q l : pmem p (padd q l) = pair_eqb p q || pmem p l.
Proof.
  unfold padd. destruct (pmem q l) eqn:M.
  - destruct (pair_eqb p q) eqn:E; [|reflexivity]. apply pair_eqb_eq in E. subst. now rewrite M.
  - rewrite pmem_app. change (pmem p [q]) with (pair_eqb p q || false). rewrite orb_false_r. apply orb_comm.
Qed.

Lemma pmem_adds p qs : forall l, pmem p (fold_left (fun l q => padd q l) qs l) = pmem p qs || pmem p l.
Proof.
  induction qs as [|q r IH]; intros l; cbn [fold_left]; [reflexivity|].
  rewrite IH, pmem_padd. change (pmem p (q :: r)) with (pair_eqb p q || pmem p r). destruct (pair_eqb p q), (pmem p r), (pmem p l); reflexivity.
Qed.

Lemma pmem_cons p a l : pmem p (a :: l) = pair_eqb p a || pmem p l.
Proof. reflexivity. Qed.

Lemma pmem_pminus p l rm : pmem p (pminus l rm) = pmem p l && negb (pmem p rm).
Proof.
  unfold pminus. induction l as [|a l IH]; [reflexivity|].
  cbn [filter]. rewrite pmem_cons.
  destruct (pmem a rm) eqn:M; cbn [negb].
  - rewrite IH. destruct (pair_eqb p a) eqn:E; [|reflexivity].
    apply pair_eqb_eq in E. subst. rewrite M. cbn. now rewrite andb_false_r.
  - rewrite pmem_cons, IH. destruct (pair_eqb p a) eqn:E; [|reflexivity].
    apply pair_eqb_eq in E. subst. now rewrite M.
Qed.

(* ------------------------------------------------------------------ *)
(** * Per-pair view of the fold: a last-writer register, provided every
      deactivation finds its handle set *)

(** [handles_ok hs l]: when the events of [l] run in order starting with the
    handle set [hs], every deactivation closure finds [partition_handle] set. *)
Fixpoint handles_ok (hs : list Z) (l : list fev) : Prop :=
  match l with
  | [] => True
  | e :: r => (fe_on e = false -> zmem (fe_fid e) hs = true) /\
              handles_ok (if fe_on e then fe_fid e :: hs else hs) r
  end.

Definition rel_bi (q : Z * Z) (e : fev) : bool := pmem q (fe_pairs e).
Definition rel_di (q : Z * Z) (e : fev) : bool := pmem q (fe_dpairs e).

Lemma part_fold_bi q : forall l s, handles_ok (ps_h s) l ->
  pmem q (ps_bi (fold_left part_step l s)) =
  match last_rel (rel_bi q) l with Some e => fe_on e | None => pmem q (ps_bi s) end.
Proof.
  induction l as [|e r IH]; intros s H; cbn; [reflexivity|].
  destruct H as (Hoff & Hr).
  rewrite IH.
  - destruct (last_rel (rel_bi q) r); [reflexivity|].
    unfold part_step, rel_bi. destruct (fe_on e) eqn:On; cbn.
    + rewrite pmem_adds. destruct (pmem q (fe_pairs e)); cbn; [now rewrite On|reflexivity].
    + rewrite (Hoff eq_refl). cbn. rewrite pmem_pminus.
      destruct (pmem q (fe_pairs e)); cbn; [rewrite On; apply andb_false_r|apply andb_true_r].
  - unfold part_step. destruct (fe_on e) eqn:On; cbn; [exact Hr|].
    rewrite (Hoff eq_refl). exact Hr.
Qed.

Lemma part_fold_di q : forall l s, handles_ok (ps_h s) l ->
  pmem q (ps_di (fold_left part_step l s)) =
  match last_rel (rel_di q) l with Some e => fe_on e | None => pmem q (ps_di s) end.
Proof.
  induction l as [|e r IH]; intros s H; cbn; [reflexivity|].
  destruct H as (Hoff & Hr).
  rewrite IH.
  - destruct (last_rel (rel_di q) r); [reflexivity|].
    unfold part_step, rel_di. destruct (fe_on e) eqn:On; cbn.
    + rewrite pmem_adds. destruct (pmem q (fe_dpairs e)); cbn; [now rewrite On|reflexivity].
    + rewrite (Hoff eq_refl). cbn. rewrite pmem_pminus.
      destruct (pmem q (fe_dpairs e)); cbn; [rewrite On; apply andb_false_r|apply andb_true_r].
  - unfold part_step. destruct (fe_on e) eqn:On; cbn; [exact Hr|].
    rewrite (Hoff eq_refl). exact Hr.
Qed.

(** In a sorted stream of a well-formed schedule, each deactivation is preceded
    by its own activation. *)
Definition on_before_off (l : list fev) : Prop :=
  forall l1 e l2, l = l1 ++ e :: l2 -> fe_on e = false ->
  exists e', In e' l1 /\ fe_on e' = true /\ fe_fid e' = fe_fid e.

Lemma zmem_cons k a hs : zmem k (a :: hs) = (k =? a) || zmem k hs.
Proof. reflexivity. Qed.

Lemma handles_ok_of_order : forall l hs,
  (forall l1 e l2, l = l1 ++ e :: l2 -> fe_on e = false ->
     zmem (fe_fid e) hs = true \/ exists e', In e' l1 /\ fe_on e' = true /\ fe_fid e' = fe_fid e) ->
  handles_ok hs l.
Proof.
  induction l as [|a r IH]; intros hs H; cbn; [exact I|]. split.
  - intros Off. destruct (H [] a r eq_refl Off) as [Hz|(e' & [] & _)]. exact Hz.
  - apply IH. intros l1 e l2 -> Off.
    destruct (H (a :: l1) e l2 eq_refl Off) as [Hz|(e' & [<-|Hi] & On & Hf)].
    + left. destruct (fe_on a); [rewrite zmem_cons, Hz; apply orb_true_r|exact Hz].
    + left. rewrite On, zmem_cons, Hf, Z.eqb_refl. reflexivity.
    + right. now exists e'.
Qed.

Lemma SS_before l1 e l2 e' : StronglySorted kle (l1 ++ e :: l2) ->
  In e' (l1 ++ e :: l2) -> ~ kle e e' -> In e' l1.
Proof.
  induction l1 as [|a l1 IH]; cbn; intros Hs Hi Hn.
  - apply StronglySorted_inv in Hs. destruct Hs as (_ & Hf). rewrite Forall_forall in Hf.
    destruct Hi as [<-|Hi]; exfalso; apply Hn; [apply kle_iff; lia|now apply Hf].
  - apply StronglySorted_inv in Hs. destruct Hs as (Hs & _).
    destruct Hi as [<-|Hi]; [now left|right; now apply IH].
Qed.

Lemma stream_on_before_off sched t : wf sched -> on_before_off (upto t (delivered sched)).
Proof.
  intros Hwf l1 e l2 Heq Off.
  assert (Hin : In e (upto t (delivered sched))) by (rewrite Heq; apply in_or_app; right; now left).
  apply In_stream in Hin. destruct Hin as (Ht & Hk & k & w & Hn & [->|(te & He & ->)]); [discriminate|].
  pose proof (Hwf w (nth_error_In _ _ Hn)) as W. unfold wf_win in W. rewrite He in W.
  cbn in Ht. rewrite (kept_off _ _ _ He) in Hk.
  exists (ev_on (Z.of_nat k) w). repeat split.
  eapply SS_before.
  - rewrite <- Heq. apply stream_sorted.
  - rewrite <- Heq. apply In_stream. cbn. split; [lia|]. split.
    + rewrite kept_on. unfold deact_delivered in Hk. rewrite He in Hk. unfold act_delivered.
      destruct (w_c w); [lia|reflexivity].
    + exists k, w. split; [exact Hn|now left].
  - rewrite kle_iff. cbn. lia.
Qed.

Lemma stream_handles_ok sched t : wf sched -> handles_ok [] (upto t (delivered sched)).
Proof.
  intros Hwf. apply handles_ok_of_order. intros l1 e l2 Heq Off. right.
  exact (stream_on_before_off sched t Hwf l1 e l2 Heq Off).
Qed.

(* ------------------------------------------------------------------ *)
(** * Theorems *)

Definition relw_bi (q : Z * Z) (w : win) : bool := pmem q (w_pairs w).
Definition relw_di (q : Z * Z) (w : win) : bool := pmem q (w_dpairs w).

Lemma existsb_mono {A} (f g : A -> bool) l :
  (forall x, f x = true -> g x = true) -> existsb g l = false -> existsb f l = false.
Proof.
  intros Hfg Hg. destruct (existsb f l) eqn:E; [|reflexivity].
  apply existsb_exists in E. destruct E as (x & Hi & Hx).
  assert (existsb g l = true) by (apply existsb_exists; exists x; auto). congruence.
Qed.

Lemma part_active_split sched a b t : part_active sched a b t = false ->
  activeG (relw_bi (norm_pair a b)) sched t = false /\ activeG (relw_di (a, b)) sched t = false.
Proof.
  unfold part_active, activeG, separates, relw_bi, relw_di. intros H.
  split; (eapply existsb_mono; [|exact H]); intros w Hw; cbn beta;
    apply andb_prop in Hw; destruct Hw as (-> & ->); [reflexivity|now rewrite orb_true_r].
Qed.

(** P1: a pair is partitioned only while a partition window separating it is
    in force; after every window has ended the network is whole again.  ANY schedule. *)
Theorem partition_only_while_active sched : wf sched ->
  forall a b t, part_active sched a b t = false -> is_partitioned (part_at sched t) a b = false.
Proof.
  intros Hwf a b t H. destruct (part_active_split _ _ _ _ H) as (Hb & Hd).
  unfold is_partitioned, part_at.
  rewrite part_fold_bi, part_fold_di by (apply stream_handles_ok; exact Hwf). cbn.
  destruct (last_rel (rel_bi (norm_pair a b)) _) as [e|] eqn:L1;
    [rewrite (last_is_off (relw_bi (norm_pair a b)) (rel_bi (norm_pair a b)) (fun _ _ => eq_refl) (fun _ _ _ => eq_refl) sched t Hwf Hb e L1)|];
  (destruct (last_rel (rel_di (a, b)) _) as [e'|] eqn:L2;
    [rewrite (last_is_off (relw_di (a, b)) (rel_di (a, b)) (fun _ _ => eq_refl) (fun _ _ _ => eq_refl) sched t Hwf Hd e' L2)|]);
  reflexivity.
Qed.

(** P2 (partial): when the windows separating the pair are strictly separated
    in time, the pair is partitioned during the whole window. *)
Theorem partition_separated_effect sched a b : wf sched ->
  separatedG (fun w => separates w a b) sched ->
  forall w t, In w sched -> separates w a b = true -> covers w t = true ->
  is_partitioned (part_at sched t) a b = true.
Proof.
  intros Hwf Hsep w t Hw Hs Hc. unfold is_partitioned, part_at.
  rewrite part_fold_bi, part_fold_di by (apply stream_handles_ok; exact Hwf).
  unfold separates in Hs. apply orb_prop in Hs. destruct Hs as [Hs|Hs].
  - assert (Hsep' : separatedG (relw_bi (norm_pair a b)) sched).
    { intros i j x y Hij Hi Hj Hx Hy. apply (Hsep i j x y Hij Hi Hj); unfold separates;
        [unfold relw_bi in Hx; now rewrite Hx|unfold relw_bi in Hy; now rewrite Hy]. }
    destruct (last_is_own_on (relw_bi (norm_pair a b)) (rel_bi (norm_pair a b)) (fun _ _ => eq_refl) (fun _ _ _ => eq_refl)
                sched Hwf Hsep' w t Hw Hs Hc) as (k & _ & L).
    rewrite L. reflexivity.
  - assert (Hsep' : separatedG (relw_di (a, b)) sched).
    { intros i j x y Hij Hi Hj Hx Hy. apply (Hsep i j x y Hij Hi Hj); unfold separates;
        [unfold relw_di in Hx; rewrite Hx|unfold relw_di in Hy; rewrite Hy]; apply orb_true_r. }
    destruct (last_is_own_on (relw_di (a, b)) (rel_di (a, b)) (fun _ _ => eq_refl) (fun _ _ _ => eq_refl)
                sched Hwf Hsep' w t Hw Hs Hc) as (k & _ & L).
    rewrite L. cbn. apply orb_true_r.
Qed.

(** P3: the full clause is false — two partitions that share a pair. *)
Definition partition_while_active_statement : Prop :=
  forall sched, wf sched -> forall a b t,
  part_active sched a b t = true -> is_partitioned (part_at sched t) a b = true.

Definition part_overlap_witness : list win :=
  [PW [0] [1] false 1 5 None; PW [0] [1; 2] false 3 4 None].

Theorem partition_overlap_refuted : ~ partition_while_active_statement.
Proof.
  intros H. specialize (H part_overlap_witness).
  assert (Hwf : wf part_overlap_witness) by (intros w [<-|[<-|[]]]; cbn; lia).
  specialize (H Hwf 0 1 4 eq_refl). vm_compute in H. discriminate.
Qed.

(** The hypotheses of the conditional theorem are satisfiable. *)
Example partition_separated_example :
  wf [PW [0] [1] false 1 3 None; PW [0] [1; 2] false 4 6 None] /\
  separatedG (fun w => separates w 0 1) [PW [0] [1] false 1 3 None; PW [0] [1; 2] false 4 6 None].
Proof.
  split.
  - intros w [<-|[<-|[]]]; cbn; lia.
  - intros i j a b Hij Hi Hj _ _ _ _.
    destruct i as [|[|i]]; destruct j as [|[|j]]; cbn in Hi, Hj;
      try congruence; try (injection Hi as <-); try (injection Hj as <-);
      try (destruct i; discriminate); try (destruct j; discriminate).
    + left. exists 3. cbn. repeat split; lia.
    + right. exists 3. cbn. repeat split; lia.
Qed.
