(** C06 — executable model of the fault-injection framework:
    happysimulator/faults/{node_faults,network_faults,resource_faults,schedule,fault}.py,
    the crash check of happysimulator/core/event.py (Event.invoke vs
    ProcessContinuation.invoke), Partition.heal of components/network/network.py
    and the queue-fronted dispatch of components/queued_resource.py.

    Executable definitions only (the single [Qed] below is the totality of the
    delivery order, which the standard-library merge sort functor asks for).

    Times are [Z] nanoseconds.  Entity / link / resource names are small [Z].

    What is taken from the engine (property C01, modelled by the main session in
    coq/Engine and NOT re-modelled here): fault events are [Event.once] daemon
    events created by [FaultSchedule.start] in the order of the schedule
    (activate before deactivate, fault by fault); the engine delivers
    non-cancelled events in the order of (time, creation index).  [delivered]
    below is exactly that order; the correspondence check validates it against
    real [Simulation] runs on every case. *)
From HS Require Import Base.Prelude.
From Coq Require Import Sorting.Mergesort Orders.
Local Open Scope Z_scope.

(* ------------------------------------------------------------------ *)
(** * Fault windows and the fault events they generate *)

(** One fault of the schedule.  [w_e = None]: no deactivation event
    (CrashNode without restart_at).  [w_c = Some tc]: the handle is cancelled by
    an event that runs at time [tc] (after the fault events of that instant);
    [FaultHandle.cancel] marks both events, the engine skips the ones not yet
    delivered.  [w_pairs]/[w_dpairs] are used by NetworkPartition only. *)
Record win := {
  w_tgt : Z;            (* entity / link / resource the closures write to *)
  w_s : Z;              (* activation time *)
  w_e : option Z;       (* deactivation time *)
  w_p : Z;              (* parameter: extra latency ns, extra loss, capacity factor *)
  w_c : option Z;       (* cancel time of the handle *)
  w_pairs : list (Z * Z);   (* bidirectional pairs, normalised (min,max) *)
  w_dpairs : list (Z * Z)   (* directed pairs *)
}.

Record fev := {
  fe_time : Z;
  fe_idx : Z;           (* creation index: 2*fid (activate), 2*fid+1 (deactivate) *)
  fe_fid : Z;           (* position of the fault in the schedule *)
  fe_tgt : Z;
  fe_on : bool;         (* activate / deactivate closure *)
  fe_p : Z;
  fe_c : option Z;
  fe_pairs : list (Z * Z);
  fe_dpairs : list (Z * Z)
}.

Definition ev_on (i : Z) (w : win) : fev :=
  {| fe_time := w_s w; fe_idx := 2 * i; fe_fid := i; fe_tgt := w_tgt w; fe_on := true;
     fe_p := w_p w; fe_c := w_c w; fe_pairs := w_pairs w; fe_dpairs := w_dpairs w |}.
Definition ev_off (i : Z) (w : win) (e : Z) : fev :=
  {| fe_time := e; fe_idx := 2 * i + 1; fe_fid := i; fe_tgt := w_tgt w; fe_on := false;
     fe_p := w_p w; fe_c := w_c w; fe_pairs := w_pairs w; fe_dpairs := w_dpairs w |}.

(** [generate_events] of every fault, in schedule order (FaultSchedule.start). *)
Definition win_events (i : Z) (w : win) : list fev :=
  ev_on i w :: match w_e w with Some e => [ev_off i w e] | None => [] end.

Fixpoint events_from (i : Z) (ws : list win) : list fev :=
  match ws with
  | [] => []
  | w :: r => win_events i w ++ events_from (i + 1) r
  end.

(** An event survives cancellation iff it is delivered no later than the
    cancelling instant (FaultHandle.cancel -> Event.cancel -> skipped on pop). *)
Definition kept (e : fev) : bool :=
  match fe_c e with None => true | Some tc => fe_time e <=? tc end.

Module FevOrder <: TotalLeBool.
  Definition t := fev.
  Definition leb (a b : fev) : bool :=
    (fe_time a <? fe_time b) || ((fe_time a =? fe_time b) && (fe_idx a <=? fe_idx b)).
  Theorem leb_total : forall a b, leb a b = true \/ leb b a = true.
  Proof. intros a b; unfold leb; lia. Qed.
End FevOrder.
Module FevSort := Sort FevOrder.

(** The order in which the engine runs the fault closures. *)
Definition delivered (sched : list win) : list fev :=
  FevSort.sort (filter kept (events_from 0 sched)).

Definition upto (t : Z) (evs : list fev) : list fev :=
  filter (fun e => fe_time e <=? t) evs.

Definition upd {V} (f : Z -> V) (k : Z) (v : V) : Z -> V :=
  fun k' => if Z.eqb k' k then v else f k'.

(* ------------------------------------------------------------------ *)
(** * Register faults: crash/pause flag, link latency, link loss rate

    All three closures have the same shape: activate WRITES a value computed
    from the setting captured at generation time ([orig], i.e. the configured
    value, since every fault is generated at simulation start) and the fault's
    parameter; deactivate WRITES [orig] back.  Neither reads the current value. *)

Definition crash_write (orig p : Z) : Z := 1.                 (* entity._crashed = True *)
Definition lat_write (orig p : Z) : Z := orig + p.            (* _CompoundLatency(original, extra) *)
Definition loss_write (orig p : Z) : Z := Z.min 16 (orig + p). (* min(1.0, original + extra), unit 1/16 *)
Definition capv_write (orig p : Z) : Z := orig * p / 4.       (* original_capacity * factor, factor = p/4 *)

Definition reg_step (write : Z -> Z -> Z) (cfg st : Z -> Z) (e : fev) : Z -> Z :=
  upd st (fe_tgt e)
      (if fe_on e then write (cfg (fe_tgt e)) (fe_p e) else cfg (fe_tgt e)).

Definition reg_run write cfg (evs : list fev) : Z -> Z :=
  fold_left (reg_step write cfg) evs cfg.

(** Setting of target [x] at time [t] (after the fault events of instant [t]). *)
Definition reg_at write cfg (sched : list win) (t x : Z) : Z :=
  reg_run write cfg (upto t (delivered sched)) x.

Definition crashed_at (sched : list win) (t x : Z) : bool :=
  reg_at crash_write (fun _ => 0) sched t x =? 1.

(** Specification side: window [w] is in force at [t]. *)
Definition act_delivered (w : win) : bool :=
  match w_c w with None => true | Some tc => w_s w <=? tc end.
Definition deact_delivered (w : win) : bool :=
  match w_e w with
  | None => false
  | Some e => match w_c w with None => true | Some tc => e <=? tc end
  end.
Definition covers (w : win) (t : Z) : bool :=
  act_delivered w && (w_s w <=? t) &&
  match w_e w with
  | None => true
  | Some e => if deact_delivered w then t <? e else true
  end.
Definition active (sched : list win) (x t : Z) : bool :=
  existsb (fun w => (w_tgt w =? x) && covers w t) sched.

(* ------------------------------------------------------------------ *)
(** * Network partitions (NetworkPartition closures + Network.partition + Partition.heal) *)

Definition pair_eqb (a b : Z * Z) : bool := (fst a =? fst b) && (snd a =? snd b).
Definition pmem (p : Z * Z) (l : list (Z * Z)) : bool := existsb (pair_eqb p) l.
Definition padd (p : Z * Z) (l : list (Z * Z)) : list (Z * Z) := if pmem p l then l else l ++ [p].
Definition pminus (l rm : list (Z * Z)) : list (Z * Z) := filter (fun p => negb (pmem p rm)) l.

Record pstate := {
  ps_bi : list (Z * Z);      (* network._partitioned_pairs *)
  ps_di : list (Z * Z);      (* network._directed_partitions *)
  ps_h : list Z              (* faults whose closure variable partition_handle is not None *)
}.
Definition ps0 : pstate := {| ps_bi := []; ps_di := []; ps_h := [] |}.

Definition zmem (k : Z) (l : list Z) : bool := existsb (Z.eqb k) l.

Definition part_step (s : pstate) (e : fev) : pstate :=
  if fe_on e then
    {| ps_bi := fold_left (fun l p => padd p l) (fe_pairs e) (ps_bi s);
       ps_di := fold_left (fun l p => padd p l) (fe_dpairs e) (ps_di s);
       ps_h := fe_fid e :: ps_h s |}
  else if zmem (fe_fid e) (ps_h s) then
    {| ps_bi := pminus (ps_bi s) (fe_pairs e);
       ps_di := pminus (ps_di s) (fe_dpairs e);
       ps_h := ps_h s |}
  else s.

Definition part_at (sched : list win) (t : Z) : pstate :=
  fold_left part_step (upto t (delivered sched)) ps0.

Definition norm_pair (a b : Z) : Z * Z := (Z.min a b, Z.max a b).

(** Network.is_partitioned(src, dst). *)
Definition is_partitioned (s : pstate) (src dst : Z) : bool :=
  pmem (norm_pair src dst) (ps_bi s) || pmem (src, dst) (ps_di s).

(** Specification: some window in force separates src from dst. *)
Definition separates (w : win) (src dst : Z) : bool :=
  pmem (norm_pair src dst) (w_pairs w) || pmem (src, dst) (w_dpairs w).
Definition part_active (sched : list win) (src dst t : Z) : bool :=
  existsb (fun w => separates w src dst && covers w t) sched.

(** Pair sets of NetworkPartition(group_a, group_b, asymmetric). *)
Definition mk_pairs (ga gb : list Z) (asym : bool) : list (Z * Z) * list (Z * Z) :=
  let prod := flat_map (fun a => map (fun b => (a, b)) gb) ga in
  if asym then ([], prod) else (map (fun ab => norm_pair (fst ab) (snd ab)) prod, []).

(* ------------------------------------------------------------------ *)
(** * Resource capacity (ReduceCapacity closures + Resource.try_acquire / Grant.release)

    Quantities are in quarter units (value * 4) so that factors k/4 stay in Z. *)

Record cres := { c_cap : Z; c_avail : Z }.

Inductive cop :=
| CFault (e : fev)          (* activate / deactivate closure; fe_p = 4 * factor *)
| CTry (amt : Z)            (* resource.try_acquire(amt) *)
| CRel (amt : Z).           (* grant.release() of a grant of [amt] *)

(** Result codes: 0 nothing to report / refused, 1 granted, 2 ValueError. *)
Definition cap_step (orig : Z) (s : cres) (o : cop) : cres * Z :=
  match o with
  | CFault e =>
      if fe_on e then
        let new := orig * fe_p e / 4 in
        ({| c_cap := new; c_avail := if c_avail s >? new then new else c_avail s |}, 0)
      else
        let inc := orig - c_cap s in
        ({| c_cap := orig; c_avail := c_avail s + inc |}, 0)
  | CTry a =>
      if a <=? 0 then (s, 2)
      else if a >? c_cap s then (s, 2)
      else if c_avail s >=? a then ({| c_cap := c_cap s; c_avail := c_avail s - a |}, 1)
      else (s, 0)
  | CRel a =>
      if c_avail s + a >? c_cap s then (s, 2)
      else ({| c_cap := c_cap s; c_avail := c_avail s + a |}, 0)
  end.

Fixpoint cap_run (orig : Z) (s : cres) (ops : list cop) : list (cres * Z) :=
  match ops with
  | [] => []
  | o :: r => let '(s', res) := cap_step orig s o in (s', res) :: cap_run orig s' r
  end.

Definition cap_final (orig : Z) (s : cres) (ops : list cop) : cres :=
  fold_left (fun s o => fst (cap_step orig s o)) ops s.

(** Amount currently held through grants, according to the results. *)
Fixpoint held_after (orig : Z) (s : cres) (h : Z) (ops : list cop) : Z :=
  match ops with
  | [] => h
  | o :: r =>
      let '(s', res) := cap_step orig s o in
      let h' := match o with
                | CTry a => if res =? 1 then h + a else h
                | CRel a => if res =? 0 then h - a else h
                | CFault _ => h
                end in
      held_after orig s' h' r
  end.

(** Workload operations (time, op) merged with the delivered fault events;
    at equal times the fault closure runs first (it was created earlier). *)
Fixpoint cap_merge (evs : list fev) (wl : list (Z * cop)) (fuel : nat) : list cop :=
  match fuel with
  | O => []
  | S f =>
      match evs, wl with
      | [], [] => []
      | e :: er, [] => CFault e :: cap_merge er [] f
      | [], (_, o) :: wr => o :: cap_merge [] wr f
      | e :: er, (t, o) :: wr =>
          if fe_time e <=? t then CFault e :: cap_merge er wl f
          else o :: cap_merge evs wr f
      end
  end.

Definition cap_ops (sched : list win) (wl : list (Z * cop)) : list cop :=
  cap_merge (delivered sched) wl (length (delivered sched) + length wl).

(* ------------------------------------------------------------------ *)
(** * Dispatch while crashed (Event.invoke / ProcessContinuation.invoke / QueuedResource)

    A workload is a list of arrivals [(time, pid, delays)] at one entity whose
    handler is a generator that logs, yields delays.(0), logs, yields
    delays.(1), ... .  Event.invoke tests [target._crashed] before calling
    handle_event; ProcessContinuation.invoke (the resumption of a process that
    has yielded) does NOT test it.  An activity record is (time, pid, step). *)

Fixpoint proc_steps (t pid k : Z) (ds : list Z) : list (Z * Z * Z) :=
  match ds with
  | [] => []
  | d :: r => (t + d, pid, k) :: proc_steps (t + d) pid (k + 1) r
  end.

Definition arrival := (Z * Z * list Z)%type.

Definition plain_activity (sched : list win) (x : Z) (arrs : list arrival) : list (Z * Z * Z) :=
  flat_map (fun a : arrival =>
              let '(t, pid, ds) := a in
              if crashed_at sched t x then []            (* Event.invoke: dropped *)
              else (t, pid, 0) :: proc_steps t pid 1 ds) (* every later resume runs *)
           arrs.

(** Queue-fronted entity (QueuedResource with one worker slot): the crash flag
    sits on the resource, so arrivals are dropped at its handle_event while
    crashed; accepted items wait in the queue; the driver hands them to the
    worker ADAPTER entity, which carries no crash flag.  Service is FIFO, one at
    a time, [d] ns each.  Records: (time, pid, 0) handler entry, (time, pid, 1) done. *)
Fixpoint qr_serve (free_at : Z) (arrs : list (Z * Z * Z)) : list (Z * Z * Z) :=
  match arrs with
  | [] => []
  | (t, pid, d) :: r =>
      let st := Z.max t free_at in
      (st, pid, 0) :: (st + d, pid, 1) :: qr_serve (st + d) r
  end.

Definition qr_activity (sched : list win) (x : Z) (arrs : list (Z * Z * Z)) : list (Z * Z * Z) :=
  qr_serve 0 (filter (fun a => negb (crashed_at sched (fst (fst a)) x)) arrs).

(* ------------------------------------------------------------------ *)
(** * Comparison functions used by the correspondence check *)

Definition triple_eqb (a b : Z * Z * Z) : bool :=
  (fst (fst a) =? fst (fst b)) && (snd (fst a) =? snd (fst b)) && (snd a =? snd b).

Definition kind_write (k : Z) : Z -> Z -> Z :=
  if k =? 0 then crash_write else if k =? 1 then lat_write
  else if k =? 2 then loss_write else capv_write.

(** Register timeline: (kind, configured values, schedule, samples grouped by
    instant: (t, [(target, observed)])).  [reg_run .. (upto t (delivered sched)) x]
    is [reg_at .. sched t x]; the stream is computed once per case. *)
Definition ok_reg (c : Z * list (Z * Z) * list win * list (Z * list (Z * Z))) : bool :=
  let '(k, cfg, sched, samples) := c in
  let d := delivered sched in
  forallb (fun s : Z * list (Z * Z) =>
             let st := reg_run (kind_write k) (fun y => zget y cfg) (upto (fst s) d) in
             forallb (fun xv : Z * Z => st (fst xv) =? snd xv) (snd s)) samples.

(** Partition timeline: per instant t: observed is_partitioned for ordered
    pairs (src, dst, observed), |bidirectional set|, |directed set|. *)
Definition ok_part (c : list win * list (Z * list (Z * Z * bool) * Z * Z)) : bool :=
  let '(sched, samples) := c in
  let d := delivered sched in
  forallb (fun s : Z * list (Z * Z * bool) * Z * Z =>
             let '(t, pairs, nb, nd) := s in
             let st := fold_left part_step (upto t d) ps0 in
             forallb (fun p : Z * Z * bool =>
                        Bool.eqb (is_partitioned st (fst (fst p)) (snd (fst p))) (snd p)) pairs &&
             (Z.of_nat (length (ps_bi st)) =? nb) && (Z.of_nat (length (ps_di st)) =? nd)) samples.

(** Capacity: (orig, schedule, workload, observed (capacity, available, result) after every op). *)
Definition ok_cap (c : Z * list win * list (Z * cop) * list (Z * Z * Z)) : bool :=
  let '(orig, sched, wl, obs) := c in
  list_eqb triple_eqb
    (map (fun r : cres * Z => (c_cap (fst r), c_avail (fst r), snd r))
         (cap_run orig {| c_cap := orig; c_avail := orig |} (cap_ops sched wl)))
    obs.

(** Crash workload: (schedule, entity, arrivals, observed activity sorted by (time,pid,step)). *)
Definition ok_plain (c : list win * Z * list arrival * list (Z * Z * Z)) : bool :=
  let '(sched, x, arrs, obs) := c in
  list_eqb triple_eqb (plain_activity sched x arrs) obs.

Definition ok_qr (c : list win * Z * list (Z * Z * Z) * list (Z * Z * Z)) : bool :=
  let '(sched, x, arrs, obs) := c in
  list_eqb triple_eqb (qr_activity sched x arrs) obs.

(** Convenience constructor for register windows. *)
Definition W (tgt s : Z) (e : option Z) (p : Z) (c : option Z) : win :=
  {| w_tgt := tgt; w_s := s; w_e := e; w_p := p; w_c := c; w_pairs := []; w_dpairs := [] |}.
Definition PW (ga gb : list Z) (asym : bool) (s e : Z) (c : option Z) : win :=
  {| w_tgt := 0; w_s := s; w_e := Some e; w_p := 0; w_c := c;
     w_pairs := fst (mk_pairs ga gb asym); w_dpairs := snd (mk_pairs ga gb asym) |}.
