(** C06 — proofs about the fault-event stream and the register faults
    (crash/pause flag, link latency, link loss rate, capacity value). *)
From HS Require Import Base.Prelude C06.Model.
From Coq Require Import Sorting.Sorted Sorting.Permutation.
Local Open Scope Z_scope.

(* ------------------------------------------------------------------ *)
(** * The delivery order *)

Definition kle (a b : fev) : Prop := is_true (FevOrder.leb a b).

Lemma kle_iff a b :
  kle a b <-> fe_time a < fe_time b \/ (fe_time a = fe_time b /\ fe_idx a <= fe_idx b).
Proof. unfold kle, is_true, FevOrder.leb. lia. Qed.

Lemma kle_trans : RelationClasses.Transitive kle.
Proof. intros a b c; rewrite !kle_iff; lia. Qed.

Lemma delivered_sorted sched : StronglySorted kle (delivered sched).
Proof. apply FevSort.StronglySorted_sort. exact kle_trans. Qed.

Lemma In_delivered sched e :
  In e (delivered sched) <-> In e (events_from 0 sched) /\ kept e = true.
Proof.
  unfold delivered. rewrite <- filter_In. split; intros H.
  - eapply Permutation_in; [apply Permutation_sym, FevSort.Permuted_sort|exact H].
  - eapply Permutation_in; [apply FevSort.Permuted_sort|exact H].
Qed.

Lemma In_events_from ws : forall i e,
  In e (events_from i ws) <->
  exists (k : nat) w, nth_error ws k = Some w /\
    (e = ev_on (i + Z.of_nat k) w \/ exists t, w_e w = Some t /\ e = ev_off (i + Z.of_nat k) w t).
Proof.
  induction ws as [|w r IH]; intros i e; cbn [events_from].
  - split; [intros []|]. intros (k & w & H & _). destruct k; discriminate.
  - rewrite in_app_iff, IH. split.
    + intros [H|(k & w' & Hn & H)].
      * exists O, w. split; [reflexivity|]. rewrite Z.add_0_r. unfold win_events in H.
        destruct H as [<-|H]; [now left|]. right.
        destruct (w_e w) as [t|]; [|destruct H]. destruct H as [<-|[]]. now exists t.
      * exists (S k), w'. split; [exact Hn|]. now replace (i + Z.of_nat (S k)) with (i + 1 + Z.of_nat k) by lia.
    + intros (k & w' & Hn & H). destruct k as [|k].
      * left. cbn in Hn. injection Hn as <-. rewrite Z.add_0_r in H. unfold win_events.
        destruct H as [->|(t & Ht & ->)]; [now left|]. right. rewrite Ht. now left.
      * right. exists k, w'. split; [exact Hn|]. now replace (i + 1 + Z.of_nat k) with (i + Z.of_nat (S k)) by lia.
Qed.

Lemma SS_filter {A} (R : A -> A -> Prop) f l : StronglySorted R l -> StronglySorted R (filter f l).
Proof.
  induction 1 as [|a l Hs IH Hf]; cbn; [constructor|].
  destruct (f a); [|exact IH]. constructor; [exact IH|].
  rewrite Forall_forall in *. intros x Hx. apply filter_In in Hx. apply Hf, Hx.
Qed.

Lemma In_upto t l e : In e (upto t l) <-> In e l /\ fe_time e <= t.
Proof. unfold upto. rewrite filter_In. intuition lia. Qed.

(* ------------------------------------------------------------------ *)
(** * Last relevant event *)

Fixpoint last_rel (rel : fev -> bool) (l : list fev) : option fev :=
  match l with
  | [] => None
  | e :: r => match last_rel rel r with
              | Some e' => Some e'
              | None => if rel e then Some e else None
              end
  end.

Lemma last_rel_none rel l : last_rel rel l = None -> forall e, In e l -> rel e = false.
Proof.
  induction l as [|a r IH]; cbn; intros H e; [intros []|].
  destruct (last_rel rel r); [discriminate|]. destruct (rel a) eqn:E; [discriminate|].
  intros [<-|Hi]; [exact E|]. now apply IH.
Qed.

Lemma last_rel_max rel l : StronglySorted kle l -> forall e, last_rel rel l = Some e ->
  In e l /\ rel e = true /\ forall e', In e' l -> rel e' = true -> kle e' e.
Proof.
  induction 1 as [|a r Hs IH Hf]; cbn; intros e H; [discriminate|].
  rewrite Forall_forall in Hf.
  destruct (last_rel rel r) as [e0|] eqn:L.
  - injection H as <-. destruct (IH e0 eq_refl) as (Hi & Ht & Hm). repeat split; auto.
    intros e' [<-|Hi'] Hx; [now apply Hf|now apply Hm].
  - destruct (rel a) eqn:E; [|discriminate]. injection H as <-.
    repeat split; [now left|exact E|]. intros e' [<-|Hi'] Hx.
    + apply kle_iff; lia.
    + exfalso. rewrite (last_rel_none _ _ L _ Hi') in Hx. discriminate.
Qed.

(* ------------------------------------------------------------------ *)
(** * Well-formed schedules and membership *)

Definition wf_win (w : win) : Prop := match w_e w with Some e => w_s w <= e | None => True end.
Definition wf (sched : list win) : Prop := forall w, In w sched -> wf_win w.

(** Every event delivered up to [t] comes from a window of the schedule. *)
Lemma In_stream sched t e : In e (upto t (delivered sched)) <->
  fe_time e <= t /\ kept e = true /\
  exists (k : nat) w, nth_error sched k = Some w /\
    (e = ev_on (Z.of_nat k) w \/ exists te, w_e w = Some te /\ e = ev_off (Z.of_nat k) w te).
Proof.
  rewrite In_upto, In_delivered, In_events_from. cbn. tauto.
Qed.

Lemma stream_sorted sched t : StronglySorted kle (upto t (delivered sched)).
Proof. apply SS_filter, delivered_sorted. Qed.

Lemma kept_on k w : kept (ev_on k w) = act_delivered w.
Proof. reflexivity. Qed.

Lemma kept_off k w te : w_e w = Some te -> kept (ev_off k w te) = deact_delivered w.
Proof. intros H. unfold kept, deact_delivered. rewrite H. reflexivity. Qed.

(** Generic "some relevant window is in force". *)
Definition activeG (relw : win -> bool) (sched : list win) (t : Z) : bool :=
  existsb (fun w => relw w && covers w t) sched.

Lemma activeG_false relw sched t : activeG relw sched t = false ->
  forall w, In w sched -> relw w = true -> covers w t = false.
Proof.
  unfold activeG. intros H w Hi Hx.
  destruct (covers w t) eqn:C; [|reflexivity].
  assert (existsb (fun w => relw w && covers w t) sched = true); [|congruence].
  apply existsb_exists. exists w. split; [exact Hi|]. now rewrite C, Hx.
Qed.

Definition ends_before (a b : win) : Prop :=
  exists e, w_e a = Some e /\ deact_delivered a = true /\ e < w_s b.

(** Relevant windows whose activation is delivered are pairwise strictly separated. *)
Definition separatedG (relw : win -> bool) (sched : list win) : Prop :=
  forall (i j : nat) a b, i <> j -> nth_error sched i = Some a -> nth_error sched j = Some b ->
    relw a = true -> relw b = true -> act_delivered a = true -> act_delivered b = true ->
    ends_before a b \/ ends_before b a.

Section Generic.
  (** [rele] selects the events that write the observed location; it depends
      only on the window the event was generated from. *)
  Variable relw : win -> bool.
  Variable rele : fev -> bool.
  Hypothesis rele_on : forall k w, rele (ev_on k w) = relw w.
  Hypothesis rele_off : forall k w te, rele (ev_off k w te) = relw w.

  (** G1: when no relevant window is in force, the last relevant closure that
      ran (if any) is a deactivation.  ANY schedule. *)
  Lemma last_is_off sched t : wf sched -> activeG relw sched t = false ->
    forall e, last_rel rele (upto t (delivered sched)) = Some e -> fe_on e = false.
  Proof.
    intros Hwf Hact e L.
    destruct (last_rel_max _ _ (stream_sorted sched t) _ L) as (Hin & Hrel & Hmax).
    apply In_stream in Hin. destruct Hin as (Ht & Hk & k & w & Hn & [->|(te & He & ->)]); [|reflexivity].
    exfalso. cbn in Ht. rewrite kept_on in Hk. rewrite rele_on in Hrel.
    assert (Hw : In w sched) by (eapply nth_error_In; eauto).
    pose proof (activeG_false _ _ _ Hact w Hw Hrel) as C.
    pose proof (Hwf w Hw) as W. unfold wf_win in W.
    unfold covers in C. rewrite Hk in C. cbn in C.
    destruct (w_e w) as [te|] eqn:E; [|lia].
    destruct (deact_delivered w) eqn:D; [|lia].
    assert (Hoff : In (ev_off (Z.of_nat k) w te) (upto t (delivered sched))).
    { apply In_stream. cbn. split; [lia|]. split; [now rewrite kept_off|]. exists k, w. split; [exact Hn|].
      right. now exists te. }
    assert (Hr : rele (ev_off (Z.of_nat k) w te) = true) by now rewrite rele_off.
    specialize (Hmax _ Hoff Hr). apply kle_iff in Hmax. cbn in Hmax. lia.
  Qed.

  (** G2: with strictly separated relevant windows, during window [w] the last
      relevant closure that ran is [w]'s own activation. *)
  Lemma last_is_own_on sched : wf sched -> separatedG relw sched ->
    forall w t, In w sched -> relw w = true -> covers w t = true ->
    exists k : nat, nth_error sched k = Some w /\
      last_rel rele (upto t (delivered sched)) = Some (ev_on (Z.of_nat k) w).
  Proof.
    intros Hwf Hsep w t Hw Hrel Hcov.
    destruct (In_nth_error _ _ Hw) as (k & Hk). exists k. split; [exact Hk|].
    unfold covers in Hcov. apply andb_prop in Hcov. destruct Hcov as (Hc1 & Hc3).
    apply andb_prop in Hc1. destruct Hc1 as (Hc1 & Hc2).
    assert (Hon : In (ev_on (Z.of_nat k) w) (upto t (delivered sched))).
    { apply In_stream. cbn. split; [lia|]. split; [now rewrite kept_on|]. exists k, w. split; [exact Hk|now left]. }
    assert (Hron : rele (ev_on (Z.of_nat k) w) = true) by now rewrite rele_on.
    destruct (last_rel rele (upto t (delivered sched))) as [e|] eqn:L.
    2:{ exfalso. rewrite (last_rel_none _ _ L _ Hon) in Hron. discriminate. }
    destruct (last_rel_max _ _ (stream_sorted sched t) _ L) as (Hin & Het & Hmax).
    specialize (Hmax _ Hon Hron). apply kle_iff in Hmax. cbn in Hmax.
    apply In_stream in Hin. destruct Hin as (Hte & Hke & j & w' & Hj & Hform).
    assert (Hw' : In w' sched) by (eapply nth_error_In; eauto).
    pose proof (Hwf w' Hw') as W'. unfold wf_win in W'.
    destruct (Nat.eq_dec j k) as [->|Hjk].
    - rewrite Hk in Hj. injection Hj as <-.
      destruct Hform as [->|(te & He & ->)]; [reflexivity|].
      exfalso. cbn in Hte. rewrite (kept_off _ _ _ He) in Hke. rewrite He, Hke in Hc3. lia.
    - exfalso.
      assert (Hrel' : relw w' = true).
      { destruct Hform as [->|(te & He & ->)]; [now rewrite rele_on in Het|now rewrite rele_off in Het]. }
      assert (Hact' : act_delivered w' = true).
      { destruct Hform as [->|(te & He & ->)]; [now rewrite kept_on in Hke|].
        rewrite (kept_off _ _ _ He) in Hke. unfold deact_delivered in Hke. rewrite He in Hke, W'.
        unfold act_delivered. destruct (w_c w'); [lia|reflexivity]. }
      assert (Hs' : w_s w' <= fe_time e)
        by (destruct Hform as [->|(te & He & ->)]; cbn; [lia|rewrite He in W'; exact W']).
      destruct (Hsep k j w w' (fun E => Hjk (eq_sym E)) Hk Hj Hrel Hrel' Hc1 Hact')
        as [(ee & He & Hd & Hlt)|(ee & He & Hd & Hlt)].
      + rewrite He, Hd in Hc3. lia.
      + assert (fe_time e <= ee); [|lia].
        destruct Hform as [->|(te & He' & ->)]; cbn; rewrite He in W'; [lia|].
        rewrite He in He'. injection He' as ->. lia.
  Qed.
End Generic.

(* ------------------------------------------------------------------ *)
(** * Register faults *)

Definition wr (write : Z -> Z -> Z) (cfg : Z -> Z) (x : Z) (e : fev) : Z :=
  if fe_on e then write (cfg x) (fe_p e) else cfg x.

Definition rel_tgt (x : Z) (e : fev) : bool := fe_tgt e =? x.
Definition relw_tgt (x : Z) (w : win) : bool := w_tgt w =? x.

Lemma reg_run_last write cfg x : forall l st,
  fold_left (reg_step write cfg) l st x =
  match last_rel (rel_tgt x) l with Some e => wr write cfg x e | None => st x end.
Proof.
  induction l as [|e r IH]; intros st; cbn; [reflexivity|].
  rewrite IH. destruct (last_rel (rel_tgt x) r); [reflexivity|].
  unfold reg_step, upd, wr, rel_tgt. rewrite (Z.eqb_sym x). destruct (fe_tgt e =? x) eqn:E; [|reflexivity].
  apply Z.eqb_eq in E. now rewrite E.
Qed.

Definition separated (sched : list win) (x : Z) : Prop := separatedG (relw_tgt x) sched.

Lemma active_activeG sched x t : active sched x t = activeG (relw_tgt x) sched t.
Proof. reflexivity. Qed.

(** T1: outside every window the setting is the configured one (ANY schedule). *)
Theorem inactive_configured write cfg sched : wf sched ->
  forall x t, active sched x t = false -> reg_at write cfg sched t x = cfg x.
Proof.
  intros Hwf x t Hact. unfold reg_at, reg_run. rewrite reg_run_last.
  destruct (last_rel (rel_tgt x) (upto t (delivered sched))) as [e|] eqn:L; [|reflexivity].
  rewrite active_activeG in Hact.
  unfold wr. erewrite (last_is_off (relw_tgt x) (rel_tgt x)); eauto.
Qed.

(** Contrapositive: an effect is only ever seen while some window is active. *)
Corollary effect_only_while_active write cfg sched : wf sched ->
  forall x t, reg_at write cfg sched t x <> cfg x -> active sched x t = true.
Proof.
  intros Hwf x t H. destruct (active sched x t) eqn:A; [reflexivity|].
  exfalso. apply H. now apply inactive_configured.
Qed.

(** T2: separated windows — the effect is in force during the whole window. *)
Theorem separated_effect write cfg sched x : wf sched -> separated sched x ->
  forall w t, In w sched -> w_tgt w = x -> covers w t = true ->
  reg_at write cfg sched t x = write (cfg x) (w_p w).
Proof.
  intros Hwf Hsep w t Hw Htgt Hcov.
  assert (Hrel : relw_tgt x w = true) by (unfold relw_tgt; lia).
  destruct (last_is_own_on (relw_tgt x) (rel_tgt x) (fun _ _ => eq_refl) (fun _ _ _ => eq_refl)
              sched Hwf Hsep w t Hw Hrel Hcov) as (k & _ & L).
  unfold reg_at, reg_run. rewrite reg_run_last, L. reflexivity.
Qed.

(* ------------------------------------------------------------------ *)
(** * T3: the full statement ("whatever other faults overlap it") is false *)

Definition effect_while_active_statement (write : Z -> Z -> Z) : Prop :=
  forall cfg sched, wf sched ->
  forall x t, active sched x t = true ->
  exists w, In w sched /\ w_tgt w = x /\ covers w t = true /\
            reg_at write cfg sched t x = write (cfg x) (w_p w).

(** crash [1,5) and [3,4) on the same entity: at t = 4 the entity runs although
    the first window lasts until 5. *)
Definition overlap_witness (p1 p2 : Z) : list win :=
  [W 0 1 (Some 5) p1 None; W 0 3 (Some 4) p2 None].

Lemma overlap_refutes write : write 0 5 <> 0 -> write 0 7 <> 0 -> ~ effect_while_active_statement write.
Proof.
  intros Hw5 Hw7 H.
  destruct (H (fun _ => 0) (overlap_witness 5 7)) with (x := 0) (t := 4) as (w & Hin & _ & _ & Hv).
  - intros w [<-|[<-|[]]]; cbn; lia.
  - reflexivity.
  - assert (E : reg_at write (fun _ => 0) (overlap_witness 5 7) 4 0 = 0) by reflexivity.
    rewrite E in Hv. destruct Hin as [<-|[<-|[]]]; cbn in Hv; symmetry in Hv; contradiction.
Qed.

Theorem crash_overlap_refuted : ~ effect_while_active_statement crash_write.
Proof.
  intros H.
  destruct (H (fun _ => 0) (overlap_witness 0 0)) with (x := 0) (t := 4) as (w & Hin & _ & _ & Hv).
  - intros w [<-|[<-|[]]]; cbn; lia.
  - reflexivity.
  - assert (E : reg_at crash_write (fun _ => 0) (overlap_witness 0 0) 4 0 = 0) by reflexivity.
    rewrite E in Hv. discriminate.
Qed.

Theorem latency_overlap_refuted : ~ effect_while_active_statement lat_write.
Proof. apply overlap_refutes; unfold lat_write; lia. Qed.

(** Loss: configured 0, windows of +5/16 and +7/16. *)
Theorem loss_overlap_refuted : ~ effect_while_active_statement loss_write.
Proof. apply overlap_refutes; unfold loss_write; lia. Qed.

(** Capacity value: configured 10 (40 quarter units), two halvings. *)
Theorem capacity_overlap_refuted : ~ effect_while_active_statement capv_write.
Proof.
  intros H.
  destruct (H (fun _ => 40) (overlap_witness 2 2)) with (x := 0) (t := 4) as (w & Hin & _ & _ & Hv).
  - intros w [<-|[<-|[]]]; cbn; lia.
  - reflexivity.
  - assert (E : reg_at capv_write (fun _ => 40) (overlap_witness 2 2) 4 0 = 40) by reflexivity.
    rewrite E in Hv. destruct Hin as [<-|[<-|[]]]; vm_compute in Hv; discriminate.
Qed.

(** Abutting windows listed in reverse chronological order are already enough:
    B = [5,9) is added before A = [1,5); at t = 5 A's deactivation (created
    later) runs after B's activation. *)
Definition abut_witness : list win := [W 0 5 (Some 9) 0 None; W 0 1 (Some 5) 0 None].
Lemma abutting_reverse_order_uncrashed :
  active abut_witness 0 6 = true /\ crashed_at abut_witness 6 0 = false.
Proof. split; reflexivity. Qed.

(* ------------------------------------------------------------------ *)
(** * T4: a handle cancelled before activation never runs a closure *)

Theorem cancelled_before_activation_not_delivered sched (k : nat) w tc :
  wf sched -> nth_error sched k = Some w -> w_c w = Some tc -> tc < w_s w ->
  forall e, In e (delivered sched) -> fe_fid e <> Z.of_nat k.
Proof.
  intros Hwf Hk Hc Hlt e Hin Hfid.
  apply In_delivered in Hin. destruct Hin as (Hev & Hkept).
  apply In_events_from in Hev. destruct Hev as (j & w' & Hj & Hform). cbn in Hform.
  assert (j = k) by (destruct Hform as [->|(te & _ & ->)]; cbn in Hfid; lia). subst j.
  rewrite Hk in Hj. injection Hj as <-.
  pose proof (Hwf w (nth_error_In _ _ Hk)) as W. unfold wf_win in W.
  destruct Hform as [->|(te & He & ->)]; unfold kept in Hkept; cbn in Hkept; rewrite Hc in Hkept;
    [|rewrite He in W]; lia.
Qed.

(** ... and it counts for nothing in the specification either. *)
Lemma cancelled_never_covers w tc t : w_c w = Some tc -> tc < w_s w -> covers w t = false.
Proof. intros Hc Hlt. unfold covers, act_delivered. rewrite Hc. destruct (w_s w <=? tc) eqn:E; [lia|reflexivity]. Qed.

(* ------------------------------------------------------------------ *)
(** * T5: targets that no fault names keep their configured setting (ANY schedule) *)

Theorem untargeted_unchanged write cfg sched y :
  (forall w, In w sched -> w_tgt w <> y) -> forall t, reg_at write cfg sched t y = cfg y.
Proof.
  intros Hno t. unfold reg_at, reg_run. rewrite reg_run_last.
  destruct (last_rel (rel_tgt y) (upto t (delivered sched))) as [e|] eqn:L; [|reflexivity].
  exfalso.
  destruct (last_rel_max _ _ (stream_sorted sched t) _ L) as (Hin & Htgt & _).
  apply In_stream in Hin. destruct Hin as (_ & _ & k & w & Hn & Hform).
  apply (Hno w (nth_error_In _ _ Hn)). unfold rel_tgt in Htgt.
  destruct Hform as [->|(te & _ & ->)]; cbn in Htgt; lia.
Qed.

(** The hypotheses of the conditional theorems are satisfiable. *)
Example separated_example :
  wf [W 0 1 (Some 3) 5 None; W 0 4 (Some 6) 7 None; W 1 2 (Some 5) 1 None] /\
  separated [W 0 1 (Some 3) 5 None; W 0 4 (Some 6) 7 None; W 1 2 (Some 5) 1 None] 0.
Proof.
  split.
  - intros w [<-|[<-|[<-|[]]]]; cbn; lia.
  - intros i j a b Hij Hi Hj Ha Hb _ _. unfold relw_tgt in Ha, Hb.
    destruct i as [|[|[|i]]]; destruct j as [|[|[|j]]]; cbn in Hi, Hj;
      try congruence; try (injection Hi as <-); try (injection Hj as <-);
      try (cbn in Ha; discriminate); try (cbn in Hb; discriminate);
      try (destruct i; discriminate); try (destruct j; discriminate).
    + left. exists 3. cbn. repeat split; lia.
    + right. exists 3. cbn. repeat split; lia.
Qed.
