(** C06 — proofs about ReduceCapacity (resource_faults.py) interleaved with
    Resource.try_acquire / Grant.release, over ALL operation sequences. *)
From HS Require Import Base.Prelude C06.Model.
Local Open Scope Z_scope.

(** Fault closures in the sequence use factors in [0,1] (fe_p in 0..4 quarter
    units); released grants have a positive amount (they come from try_acquire). *)
Definition factor_ok (o : cop) : Prop :=
  match o with CFault e => 0 <= fe_p e <= 4 | CRel a => 0 < a | CTry _ => True end.

Definition cap_inv (orig : Z) (s : cres) : Prop := 0 <= c_avail s <= c_cap s /\ c_cap s <= orig.

Lemma cap_step_inv orig s o : 0 <= orig -> factor_ok o -> cap_inv orig s -> cap_inv orig (fst (cap_step orig s o)).
Proof.
  unfold cap_inv. intros Ho Hf (Ha & Hc). destruct o as [e|a|a]; cbn in *.
  - destruct (fe_on e); cbn.
    + assert (0 <= orig * fe_p e / 4 <= orig).
      { split; [apply Z.div_pos; nia|apply Z.div_le_upper_bound; nia]. }
      destruct (c_avail s >? orig * fe_p e / 4) eqn:E; cbn; lia.
    + lia.
  - destruct (a <=? 0) eqn:E0; [cbn; lia|]. destruct (a >? c_cap s) eqn:E1; [cbn; lia|].
    destruct (c_avail s >=? a) eqn:E; cbn; lia.
  - destruct (c_avail s + a >? c_cap s) eqn:E; cbn; [lia|].
    lia.
Qed.

(** C1: whatever the fault schedule and the workload, the available amount
    stays within [0, current capacity] and the capacity within [0, configured]. *)
Theorem available_bounded orig : 0 <= orig -> forall ops s,
  Forall factor_ok ops -> cap_inv orig s -> cap_inv orig (cap_final orig s ops).
Proof.
  intros Ho ops. unfold cap_final. induction ops as [|o r IH]; intros s Hf Hi; cbn; [exact Hi|].
  inversion Hf; subst. apply IH; [assumption|]. now apply cap_step_inv.
Qed.

(** The capacity value itself is a last-writer register (same shape as the
    crash flag): workload operations never change it. *)
Fixpoint last_fault (ops : list cop) : option fev :=
  match ops with
  | [] => None
  | o :: r => match last_fault r with
              | Some e => Some e
              | None => match o with CFault e => Some e | _ => None end
              end
  end.

Theorem capacity_is_last_writer orig : forall ops s,
  c_cap (cap_final orig s ops) =
  match last_fault ops with
  | Some e => if fe_on e then capv_write orig (fe_p e) else orig
  | None => c_cap s
  end.
Proof.
  unfold cap_final. induction ops as [|o r IH]; intros s; cbn; [reflexivity|].
  rewrite IH. destruct (last_fault r); [reflexivity|].
  destruct o as [e|a|a]; cbn.
  - destruct (fe_on e); reflexivity.
  - destruct (a <=? 0); [reflexivity|]. destruct (a >? c_cap s); [reflexivity|].
    destruct (c_avail s >=? a); reflexivity.
  - destruct (c_avail s + a >? c_cap s); reflexivity.
Qed.

(* ------------------------------------------------------------------ *)
(** * Accounting: available + held = capacity *)

Definition conserved (s : cres) (h : Z) : Prop := c_avail s + h = c_cap s.

(** REFUTED, with a single window: capacity 10, 6 held, halve, restore. *)
Definition conservation_statement : Prop :=
  forall orig ops, 0 < orig -> Forall factor_ok ops ->
  let s0 := {| c_cap := orig; c_avail := orig |} in
  conserved (cap_final orig s0 ops) (held_after orig s0 0 ops).

Definition one_window_on : fev := ev_on 0 (W 0 2 (Some 4) 2 None).
Definition one_window_off : fev := ev_off 0 (W 0 2 (Some 4) 2 None) 4.
Definition conservation_witness : list cop := [CTry 24; CFault one_window_on; CFault one_window_off].

Theorem conservation_refuted : ~ conservation_statement.
Proof.
  intros H. specialize (H 40 conservation_witness).
  assert (Hf : Forall factor_ok conservation_witness) by (repeat constructor; cbn; lia).
  specialize (H ltac:(lia) Hf). vm_compute in H. discriminate.
Qed.

(** During the window as well: with 2 of 10 held, halving leaves 5 available,
    so 7 can be in use against a capacity of 5. *)
Lemma reduced_capacity_exceeded :
  let s0 := {| c_cap := 40; c_avail := 40 |} in
  let ops := [CTry 8; CFault one_window_on; CTry 20] in
  c_cap (cap_final 40 s0 ops) = 20 /\ held_after 40 s0 0 ops = 28.
Proof. split; reflexivity. Qed.

(** PARTIAL: the accounting is exact along every sequence in which each
    activation happens while nothing is held and does not raise the capacity
    (no activation stacked on a stronger one). *)
Fixpoint acts_idle (orig : Z) (s : cres) (h : Z) (ops : list cop) : Prop :=
  match ops with
  | [] => True
  | o :: r =>
      match o with
      | CFault e => if fe_on e then h = 0 /\ orig * fe_p e / 4 <= c_cap s else True
      | _ => True
      end /\
      let '(s', res) := cap_step orig s o in
      acts_idle orig s'
        (match o with
         | CTry a => if res =? 1 then h + a else h
         | CRel a => if res =? 0 then h - a else h
         | CFault _ => h
         end) r
  end.

Theorem conservation_partial orig : forall ops s h,
  conserved s h -> acts_idle orig s h ops ->
  conserved (cap_final orig s ops) (held_after orig s h ops).
Proof.
  unfold cap_final, conserved. induction ops as [|o r IH]; intros s h Hc Hi; cbn; [exact Hc|].
  cbn in Hi. destruct Hi as (Ho & Hr).
  destruct (cap_step orig s o) as (s', res) eqn:E. cbn.
  apply IH; [|exact Hr].
  destruct o as [e|a|a]; cbn in E.
  - destruct (fe_on e).
    + injection E as <- <-. cbn. destruct Ho as (-> & Hle).
      destruct (c_avail s >? orig * fe_p e / 4) eqn:G; lia.
    + injection E as <- <-. cbn. lia.
  - destruct (a <=? 0); [injection E as <- <-; exact Hc|].
    destruct (a >? c_cap s); [injection E as <- <-; exact Hc|].
    destruct (c_avail s >=? a); injection E as <- <-; cbn; lia.
  - destruct (c_avail s + a >? c_cap s); injection E as <- <-; cbn; lia.
Qed.

Example acts_idle_example :
  acts_idle 40 {| c_cap := 40; c_avail := 40 |} 0
    [CFault one_window_on; CTry 8; CRel 8; CFault one_window_off; CTry 24].
Proof. cbn. repeat split; lia. Qed.
