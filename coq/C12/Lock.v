(** C12 — DistributedLock: fencing tokens strictly increase across grants, for
    every sequence of acquire / try_acquire / release / lease-expiry calls. *)
From HS Require Import Base.Prelude C12.Model C12.PaxosNode C12.LockModel.
From Coq Require Import Sorted.
Local Open Scope Z_scope.

Definition tok (g : grant) : Z := snd (fst g).

Record linv (d : dlock) : Prop := {
  li_sorted : StronglySorted Z.lt (map tok (glog d));
  li_below : Forall (fun t => t < next_token d) (map tok (glog d));
  li_res : forall f g, In (f, Some g) (lresolved d) -> In g (glog d);
  li_hold : forall k l h, In (k, l) (locks d) -> holder l = Some h -> In (k, ltoken l, h) (glog d);
}.

Lemma linv_init : linv dinit.
Proof. split; cbn; try constructor; intros; contradiction. Qed.

Lemma sorted_snoc l t : StronglySorted Z.lt l -> Forall (fun x => x < t) l -> StronglySorted Z.lt (l ++ [t]).
Proof.
  induction 1; cbn; intros F.
  - constructor; constructor.
  - inversion F; subst. constructor; auto. apply Forall_app; split; auto.
Qed.

Lemma lget_In k d l : afind k (locks d) = Some l -> In (k, l) (locks d).
Proof. apply afind_In. Qed.

Lemma grant_lock_linv k req d :
  linv d -> linv (fst (grant_lock k req d)) /\ In (snd (grant_lock k req d)) (glog (fst (grant_lock k req d)))
            /\ snd (grant_lock k req d) = (k, next_token d, req).
Proof.
  intros [S B R H]. unfold grant_lock. cbn. split; [|split; auto; apply in_or_app; right; left; auto].
  split; cbn.
  - rewrite map_app. cbn. apply sorted_snoc; auto.
  - rewrite map_app. apply Forall_app; split.
    + eapply Forall_impl; [|exact B]. cbn; intros; lia.
    + constructor; [unfold tok; cbn; lia|constructor].
  - intros f g I. apply in_or_app; left; eauto.
  - intros k0 l h I E. apply In_aset in I as [I|I].
    + inversion I; subst. cbn in *. inversion E; subst. apply in_or_app; right; left; auto.
    + apply in_or_app; left; eauto.
Qed.

Lemma set_lock_linv k l d :
  linv d -> (forall h, holder l = Some h -> In (k, ltoken l, h) (glog d)) -> linv (set_lock k l d).
Proof.
  intros [S B R H] X. split; cbn; auto.
  intros k0 l0 h I E. apply In_aset in I as [I|I]; [inversion I; subst; auto|eauto].
Qed.

Lemma lget_hold k d h : linv d -> holder (lget k d) = Some h -> In (k, ltoken (lget k d), h) (glog d).
Proof.
  intros [S B R H]. unfold lget. destruct (afind k (locks d)) eqn:F; cbn; [|discriminate].
  apply afind_In in F. eauto.
Qed.

Lemma resolve_linv f v d : linv d -> (forall g, v = Some g -> In g (glog d)) -> linv (resolve f v d).
Proof.
  intros [S B R H] X. split; cbn; auto.
  intros f0 g I. apply in_app_or in I as [I|[I|[]]]; [eauto|inversion I; subst; auto].
Qed.

Lemma wake_linv k ws : forall d, linv d -> linv (wake k ws d).
Proof.
  induction ws as [|[req f] r IH]; intros d L.
  - cbn [wake]. apply set_lock_linv; auto. cbn. intros h E. apply lget_hold; auto.
  - cbn [wake]. set (d0 := set_lock k _ d). assert (L0 : linv d0).
    { apply set_lock_linv; auto. cbn. intros h E. apply lget_hold; auto. }
    destruct (is_resolved f d0); [apply IH; auto|].
    destruct (grant_lock_linv k req d0 L0) as [L1 [I1 E1]]. destruct (grant_lock k req d0) as [d1 g]. cbn [fst snd] in *.
    apply resolve_linv; auto. intros g0 E; inversion E; subst; auto.
Qed.

Lemma same_linv d d' : glog d' = glog d -> next_token d' = next_token d -> lresolved d' = lresolved d ->
  locks d' = locks d -> linv d -> linv d'.
Proof. intros E1 E2 E3 E4 [S B R H]. split; rewrite ?E1, ?E2, ?E3, ?E4; auto. Qed.

Lemma ensure_linv k d : linv d -> linv (ensure k d).
Proof.
  intros L. unfold ensure. destruct (amem k (locks d)); auto. destruct L as [S B R H]. split; cbn; auto.
  intros k0 l h I E. apply in_app_or in I as [I|[I|[]]]; [eauto|inversion I; subst; discriminate].
Qed.

Lemma clear_holder_linv k d : linv d -> linv (clear_holder k d).
Proof. intros L. unfold clear_holder. apply set_lock_linv; auto. cbn; discriminate. Qed.

Lemma lstep_linv maxw d o : linv d -> linv (fst (lstep maxw d o)).
Proof.
  intros L. destruct o; cbn [lstep].
  - unfold new_future. set (d0 := mkD _ _ _ _ _ _ _ _ _).
    assert (L0 : linv d0) by (apply (same_linv d); auto).
    pose proof (ensure_linv lock d0 L0) as L1. set (d1 := ensure lock d0) in *.
    destruct (holder (lget lock d1)) as [h|] eqn:Hh.
    + destruct (h =? req) eqn:E.
      * cbn. apply resolve_linv; auto. intros g X; inversion X; subst. assert (h = req) by lia; subst.
        apply lget_hold; auto.
      * destruct ((0 <? maxw) && _); cbn.
        -- apply resolve_linv; [|discriminate]. apply (same_linv d1); auto.
        -- apply set_lock_linv; auto. cbn. intros h0 X. apply lget_hold; auto. congruence.
    + destruct (grant_lock_linv lock req d1 L1) as [L2 [I2 E2]]. destruct (grant_lock lock req d1) as [d2 g]; cbn in *.
      apply resolve_linv; auto. intros g0 X; inversion X; subst; auto.
  - pose proof (ensure_linv lock d L) as L1. set (d1 := ensure lock d) in *.
    destruct (holder (lget lock d1)) as [h|] eqn:Hh.
    + destruct (h =? req); cbn; auto.
    + destruct (grant_lock_linv lock req d1 L1) as [L2 _]. destruct (grant_lock lock req d1); cbn in *; auto.
  - destruct (afind lock (locks d)); [|auto]. destruct (holder l); [|auto].
    destruct (negb (ltoken l =? tok0)); [auto|]. cbn. apply wake_linv, clear_holder_linv. apply (same_linv d); auto.
  - destruct (afind lock (locks d)); [|auto]. destruct (holder l); [|auto].
    destruct (negb (ltoken l =? tok0)); [auto|]. cbn. apply wake_linv, clear_holder_linv. apply (same_linv d); auto.
Qed.

Lemma lrun_linv maxw ops : forall d, linv d -> linv (lrun maxw d ops).
Proof. induction ops; cbn; auto. intros d L. apply IHops, lstep_linv, L. Qed.

(** FENCING: the tokens handed out by successive calls of [_grant_lock] are
    strictly increasing, whatever the calls. *)
Theorem tokens_strictly_increase maxw ops :
  StronglySorted Z.lt (map tok (glog (lrun maxw dinit ops))).
Proof. apply (lrun_linv maxw ops dinit linv_init). Qed.

(** Every grant a client ever receives through a future, and the grant of every
    current holder, is one of those calls (a re-entrant acquire returns the
    existing grant, it is not a new grant). *)
Theorem grants_are_logged maxw ops :
  (forall f g, In (f, Some g) (lresolved (lrun maxw dinit ops)) -> In g (glog (lrun maxw dinit ops))) /\
  (forall k l h, In (k, l) (locks (lrun maxw dinit ops)) -> holder l = Some h ->
     In (k, ltoken l, h) (glog (lrun maxw dinit ops))).
Proof. destruct (lrun_linv maxw ops dinit linv_init) as [_ _ R H]. split; auto. Qed.

(** Distinct grants carry distinct tokens (consequence of strict increase). *)
Lemma sorted_nodup l : StronglySorted Z.lt l -> NoDup l.
Proof.
  induction 1; constructor; auto. intros I. rewrite Forall_forall in H0. apply H0 in I. lia.
Qed.

Theorem tokens_distinct maxw ops : NoDup (map tok (glog (lrun maxw dinit ops))).
Proof. apply sorted_nodup, tokens_strictly_increase. Qed.

Example lock_demo :
  map tok (glog (lrun 0 dinit [LAcquire 0 1; LAcquire 0 2; LAcquire 0 1; LRelease 0 1; LTry 1 3; LExpire 0 2])) = [1; 2; 3].
Proof. vm_compute. reflexivity. Qed.
