(** C12 — node-level facts about [step] of PaxosNode: they hold for EVERY
    input a handler can be given (any message, well-formed or not), hence for
    every schedule. *)
From HS Require Import Base.Prelude C12.Model.
Local Open Scope Z_scope.

Ltac bal := unfold obal_leb, bal_leb, bal_ltb, bal_eqb in *; cbn [fst snd] in *; lia.

Lemma bal_leb_refl b : bal_leb b b = true.
Proof. destruct b; bal. Qed.
Lemma bal_leb_trans a b c : bal_leb a b = true -> bal_leb b c = true -> bal_leb a c = true.
Proof. destruct a, b, c; bal. Qed.
Lemma bal_leb_antisym a b : bal_leb a b = true -> bal_leb b a = true -> a = b.
Proof. destruct a, b; intros; f_equal; bal. Qed.
Lemma bal_leb_total a b : bal_leb a b = true \/ bal_leb b a = true.
Proof. destruct a, b; bal. Qed.
Lemma obal_leb_refl b : obal_leb b b = true.
Proof. destruct b as [b|]; cbn; [apply bal_leb_refl|reflexivity]. Qed.
Lemma obal_leb_trans a b c : obal_leb a b = true -> obal_leb b c = true -> obal_leb a c = true.
Proof.
  destruct a as [a|], b as [b|], c as [c|]; cbn; try congruence; apply bal_leb_trans.
Qed.

Lemma may_promise_leb s b : may_promise s b = true -> obal_leb (promised s) (Some b) = true.
Proof. unfold may_promise; destruct (promised s); cbn; auto. Qed.

(* ------------------------------------------------------------------ *)
(** * Association-list facts *)
Section AssocFacts.
  Context {V : Type}.
  Lemma afind_aset_same k (v : V) l : afind k (aset k v l) = Some v.
  Proof. induction l as [|[k' v'] r IH]; cbn; [rewrite Z.eqb_refl; auto|].
    destruct (k =? k') eqn:E; cbn; rewrite ?Z.eqb_refl, ?E; auto. Qed.
  Lemma afind_aset_other k k' (v : V) l : k <> k' -> afind k (aset k' v l) = afind k l.
  Proof. intros N; induction l as [|[k2 v2] r IH]; cbn.
    - destruct (k =? k') eqn:E; [lia|reflexivity].
    - destruct (k' =? k2) eqn:E; cbn.
      + assert (k' = k2) by lia; subst. destruct (k =? k2) eqn:E2; [lia|reflexivity].
      + destruct (k =? k2); auto. Qed.
  Lemma afind_adel_other k k' (l : list (Z * V)) : k <> k' -> afind k (adel k' l) = afind k l.
  Proof. intros N; induction l as [|[k2 v2] r IH]; cbn; auto.
    destruct (k' =? k2) eqn:E; cbn.
    - assert (k' = k2) by lia; subst. destruct (k =? k2) eqn:E2; [lia|reflexivity].
    - destruct (k =? k2); auto. Qed.
  Lemma afind_In k (l : list (Z * V)) v : afind k l = Some v -> In (k, v) l.
  Proof. induction l as [|[a b] r IH]; cbn; [discriminate|].
    destruct (k =? a) eqn:E; [intros H; left; inversion H; f_equal; lia|right; auto]. Qed.
  Lemma In_aset k (v : V) l x : In x (aset k v l) -> x = (k, v) \/ In x l.
  Proof. induction l as [|[a b] r IH]; cbn; [intros [H|[]]; auto|].
    destruct (k =? a); cbn; intros [H|H]; auto. destruct (IH H); auto. Qed.
  Lemma In_adel k (l : list (Z * V)) x : In x (adel k l) -> In x l.
  Proof. induction l as [|[a b] r IH]; cbn; auto.
    destruct (k =? a); cbn; auto. intros [H|H]; auto. Qed.
  Lemma amem_aset k k' (v : V) l : amem k (aset k' v l) = (k =? k') || amem k l.
  Proof. unfold amem. destruct (k =? k') eqn:E.
    - assert (k = k') by lia; subst. rewrite afind_aset_same; reflexivity.
    - rewrite afind_aset_other by lia. reflexivity. Qed.
End AssocFacts.

(* ------------------------------------------------------------------ *)
(** * Promise monotonicity *)
Definition pm (s s' : pstate) : Prop := obal_leb (promised s) (promised s') = true.

Lemma pm_refl s : pm s s. Proof. apply obal_leb_refl. Qed.
Ltac pmr := unfold pm; cbn; apply obal_leb_refl.

Lemma decide_promised c s bn v : promised (fst (decide c s bn v)) = promised s.
Proof. unfold decide. destruct (decided s); cbn; auto. destruct (afind bn (futs s)); reflexivity. Qed.

Lemma start_phase1_pm c s : pm s (fst (start_phase1 c s)).
Proof.
  unfold start_phase1, pm. destruct (may_promise s (cur s, me c)) eqn:E; cbn; [|apply obal_leb_refl].
  destruct (afind (cur s) (p1 s)); cbn; apply may_promise_leb; auto.
Qed.

Lemma start_phase2_promised c s bn : promised (fst (start_phase2 c s bn)) = promised s.
Proof.
  unfold start_phase2.
  set (v := choose _ _ _). set (s1 := set_pvals s _).
  set (s2 := if may_promise s1 (bn, me c) then _ else _).
  assert (H2 : promised s2 = promised s) by (unfold s2; destruct (may_promise s1 (bn, me c)); reflexivity).
  destruct (quorum c <=? _); cbn; auto.
  pose proof (decide_promised c s2 bn v) as D. destruct (decide c s2 bn v); cbn in *. congruence.
Qed.

Lemma step_promise_monotone c s i : pm s (fst (step c s i)).
Proof.
  destruct i; cbn [step].
  - destruct (decided s); [pmr|]. unfold pm. eapply obal_leb_trans; [|apply start_phase1_pm]. apply obal_leb_refl.
  - destruct (negb (is_peer c src)); [pmr|].
    destruct (may_promise s (bn, bnode)) eqn:E; [apply may_promise_leb; auto|].
    destruct (promised s); pmr.
  - destruct (afind bn (p1 s)); [|pmr].
    match goal with |- context [if ?b then _ else _] => destruct b end; [|pmr].
    unfold pm. rewrite start_phase2_promised. apply obal_leb_refl.
  - destruct (cur s <? hn); match goal with |- context [if ?b then _ else _] => destruct b end; pmr.
  - destruct (negb (is_peer c src)); [pmr|].
    destruct (may_promise s (bn, bnode)) eqn:E; [apply may_promise_leb; auto|].
    destruct (promised s); pmr.
  - match goal with |- context [if negb ?b then _ else _] => destruct b end; cbn; [|pmr].
    match goal with |- context [if ?b then _ else _] => destruct b end; [|pmr].
    unfold pm. rewrite decide_promised. apply obal_leb_refl.
  - destruct (decided s); pmr.
  - destruct (decided s); [pmr|]. destruct (afind orig (pvals s)); [|pmr].
    unfold pm. eapply obal_leb_trans; [|apply start_phase1_pm].
    destruct (afind orig (futs _)); apply obal_leb_refl.
Qed.

(* ------------------------------------------------------------------ *)
(** * A reported decision never changes *)
Definition stable (s s' : pstate) : Prop :=
  decided s = true -> decided s' = true /\ dec_v s' = dec_v s.

Lemma decide_stable c s bn v : stable s (fst (decide c s bn v)).
Proof. unfold decide, stable. intros H; rewrite H; cbn; auto. Qed.

Lemma start_phase1_dec c s : decided (fst (start_phase1 c s)) = decided s /\ dec_v (fst (start_phase1 c s)) = dec_v s.
Proof. unfold start_phase1. destruct (may_promise _ _); cbn; auto. destruct (afind _ _); cbn; auto. Qed.

Lemma start_phase2_stable c s bn : stable s (fst (start_phase2 c s bn)).
Proof.
  unfold start_phase2. set (v := choose _ _ _). set (s1 := set_pvals s _).
  set (s2 := if may_promise s1 (bn, me c) then _ else _).
  assert (H2 : decided s2 = decided s /\ dec_v s2 = dec_v s) by (unfold s2; destruct (may_promise s1 (bn, me c)); cbn; auto).
  destruct (quorum c <=? _); cbn.
  - pose proof (decide_stable c s2 bn v) as D. destruct (decide c s2 bn v); cbn in *.
    intros H. destruct H2 as [A B]. rewrite <- A in H. destruct (D H). split; congruence.
  - intros H; destruct H2; split; congruence.
Qed.

Lemma step_decision_stable c s i : stable s (fst (step c s i)).
Proof.
  destruct i; cbn [step]; intros D; rewrite ?D; cbn; auto.
  - destruct (negb (is_peer c src)); cbn; auto. destruct (may_promise _ _); cbn; auto. destruct (promised s); cbn; auto.
  - destruct (afind bn (p1 s)); cbn; auto.
    match goal with |- context [if ?b then _ else _] => destruct b end; cbn; auto.
    exact (start_phase2_stable c (set_p1 s (aset bn (l ++ [(from, ab, av)]) (p1 s))) bn D).
  - destruct (cur s <? hn); match goal with |- context [if ?b then _ else _] => destruct b end; cbn; auto.
  - destruct (negb (is_peer c src)); cbn; auto. destruct (may_promise _ _); cbn; auto. destruct (promised s); cbn; auto.
  - match goal with |- context [if negb ?b then _ else _] => destruct b end; cbn; auto.
    rewrite D; cbn. rewrite andb_false_r. cbn; auto.
Qed.

(* ------------------------------------------------------------------ *)
(** * accepted <= promised, and the proposer has promised each of its ballots *)
Record ninv (c : pcfg) (s : pstate) : Prop := {
  ni_acc : obal_leb (acc_b s) (promised s) = true;
  ni_p1 : forall k, amem k (p1 s) = true -> exists p, promised s = Some p /\ bal_leb (k, me c) p = true;
  ni_keys : forall k, amem k (p1 s) = true -> k <= cur s;
}.

Lemma ninv_init c : ninv c pinit.
Proof. split; cbn; auto; intros k H; discriminate. Qed.

Lemma decide_ninv c s bn v : ninv c s -> ninv c (fst (decide c s bn v)).
Proof. unfold decide. destruct (decided s); cbn; auto. destruct (afind bn (futs s)); intros [A B C]; split; cbn in *; auto. Qed.

Lemma start_phase1_ninv c s :
  obal_leb (acc_b s) (promised s) = true ->
  (forall k, k <> cur s -> amem k (p1 s) = true -> exists p, promised s = Some p /\ bal_leb (k, me c) p = true) ->
  (forall k, amem k (p1 s) = true -> k <= cur s) ->
  ninv c (fst (start_phase1 c s)).
Proof.
  intros A B C. unfold start_phase1. destruct (may_promise s (cur s, me c)) eqn:E.
  - assert (L := may_promise_leb _ _ E).
    assert (G : forall k, amem k (p1 s) = true -> bal_leb (k, me c) (cur s, me c) = true).
    { intros k H. apply C in H. bal. }
    destruct (afind (cur s) (p1 s)) eqn:F; cbn; split; cbn.
    + eapply obal_leb_trans; eauto.
    + intros k H. rewrite amem_aset in H. exists (cur s, me c). split; auto. apply orb_prop in H as [H|H].
      * assert (k = cur s) by lia; subst. apply bal_leb_refl.
      * auto.
    + intros k H. rewrite amem_aset in H. apply orb_prop in H as [H|H]; [lia|auto].
    + eapply obal_leb_trans; eauto.
    + intros k H. exists (cur s, me c); split; auto.
    + auto.
  - cbn. split; auto. intros k H.
    destruct (Z.eq_dec k (cur s)) as [->|N]; [|auto].
    unfold may_promise in E. destruct (promised s) as [p|]; [|discriminate]. exists p; split; auto.
    destruct p; bal.
Qed.

Lemma start_phase2_ninv c s bn : ninv c s -> amem bn (p1 s) = true -> ninv c (fst (start_phase2 c s bn)).
Proof.
  intros [A B C] M. unfold start_phase2. set (v := choose _ _ _). set (s1 := set_pvals s _).
  set (s2 := if may_promise s1 (bn, me c) then _ else _).
  assert (I2 : ninv c s2).
  { unfold s2. destruct (may_promise s1 (bn, me c)) eqn:E; [|split; cbn; auto].
    split; cbn; auto.
    destruct (B bn M) as [p [P L]]. rewrite P. cbn. exact L. }
  destruct (quorum c <=? _); cbn; auto.
  pose proof (decide_ninv c s2 bn v I2) as D. destruct (decide c s2 bn v); cbn in *; auto.
Qed.

Lemma step_ninv c s i : ninv c s -> ninv c (fst (step c s i)).
Proof.
  intros I. pose proof I as [A B C]. destruct i; cbn [step].
  - destruct (decided s); [split; cbn; auto|].
    apply start_phase1_ninv; cbn.
    + auto.
    + intros k N H. rewrite amem_aset in H. apply orb_prop in H as [H|H]; [lia|auto].
    + intros k H. rewrite amem_aset in H. apply orb_prop in H as [H|H]; [lia|].
      apply C in H. destruct (promised s); lia.
  - destruct (negb (is_peer c src)); [auto|].
    destruct (may_promise s (bn, bnode)) eqn:E; cbn.
    + assert (L := may_promise_leb _ _ E). split; cbn; auto.
      * eapply obal_leb_trans; eauto.
      * intros k H. destruct (B k H) as [p [P Q]]. exists (bn, bnode); split; auto.
        rewrite P in L. cbn in L. eapply bal_leb_trans; eauto.
    + destruct (promised s); auto.
  - destruct (afind bn (p1 s)) eqn:F; [|auto].
    assert (I1 : ninv c (set_p1 s (aset bn (l ++ [(from, ab, av)]) (p1 s)))).
    { split; cbn; auto; intros k H; rewrite amem_aset in H; apply orb_prop in H as [H|H]; auto;
      assert (k = bn) by lia; subst; [apply B|apply C]; unfold amem; rewrite F; auto. }
    match goal with |- context [if ?b then _ else _] => destruct b end; [|auto].
    apply start_phase2_ninv; auto. cbn. rewrite amem_aset, Z.eqb_refl. reflexivity.
  - assert (I1 : ninv c (if cur s <? hn then set_cur s hn else s)).
    { destruct (cur s <? hn) eqn:E; auto. split; cbn; auto. intros k H; apply C in H; lia. }
    match goal with |- context [if amem ?a ?b then _ else _] => destruct (amem a b) end; auto.
  - destruct (negb (is_peer c src)); [auto|].
    destruct (may_promise s (bn, bnode)) eqn:E; cbn.
    + assert (L := may_promise_leb _ _ E). split; cbn; auto.
      * apply bal_leb_refl.
      * intros k H. destruct (B k H) as [p [P Q]]. exists (bn, bnode); split; auto.
        rewrite P in L. cbn in L. eapply bal_leb_trans; eauto.
    + destruct (promised s); auto.
  - set (s1 := set_p2 s _).
    assert (I1 : ninv c s1) by (split; cbn; auto).
    destruct (negb (amem bn (pvals s1))); [auto|].
    match goal with |- context [if ?b then _ else _] => destruct b end; [|auto].
    apply decide_ninv; auto.
  - destruct (decided s); [auto|split; cbn; auto].
  - destruct (decided s); [auto|]. destruct (afind orig (pvals s)) eqn:F; [|auto].
    apply start_phase1_ninv.
    + destruct (afind orig (futs _)); cbn; auto.
    + destruct (afind orig (futs _)); cbn; intros k N H; rewrite amem_aset in H; apply orb_prop in H as [H|H]; try lia; auto.
    + destruct (afind orig (futs _)); cbn; intros k H; rewrite amem_aset in H; apply orb_prop in H as [H|H]; try lia; apply C in H; lia.
Qed.

Fixpoint nrun (c : pcfg) (s : pstate) (l : list pin) : pstate :=
  match l with [] => s | i :: r => nrun c (fst (step c s i)) r end.

Lemma nrun_ninv c l : forall s, ninv c s -> ninv c (nrun c s l).
Proof. induction l; cbn; auto. intros s H. apply IHl, step_ninv, H. Qed.

Theorem accepted_le_promised c l : obal_leb (acc_b (nrun c pinit l)) (promised (nrun c pinit l)) = true.
Proof. apply (nrun_ninv c l pinit (ninv_init c)). Qed.

Theorem promise_monotone_run c l i :
  obal_leb (promised (nrun c pinit l)) (promised (fst (step c (nrun c pinit l) i))) = true.
Proof. apply step_promise_monotone. Qed.

(* ------------------------------------------------------------------ *)
(** * A resolved propose-future carries the node's decided value *)
Definition finv (s : pstate) : Prop :=
  forall f v, In (f, v) (resolved s) -> decided s = true /\ v = dec_v s.

Lemma finv_init : finv pinit. Proof. intros f v []. Qed.

Lemma decide_finv c s bn v : finv s -> finv (fst (decide c s bn v)).
Proof.
  unfold decide, finv. destruct (decided s) eqn:D; cbn.
  - intros H f w I. rewrite D. destruct (H f w I); auto.
  - intros H. destruct (afind bn (futs s)); cbn; intros f w I.
    + apply in_app_or in I as [I|[I|[]]]; [apply H in I; destruct I; congruence|inversion I; auto].
    + apply H in I; destruct I; congruence.
Qed.

Lemma start_phase1_resolved c s : resolved (fst (start_phase1 c s)) = resolved s /\
  decided (fst (start_phase1 c s)) = decided s /\ dec_v (fst (start_phase1 c s)) = dec_v s.
Proof. unfold start_phase1. destruct (may_promise _ _); cbn; auto. destruct (afind _ _); cbn; auto. Qed.

Lemma start_phase2_finv c s bn : finv s -> finv (fst (start_phase2 c s bn)).
Proof.
  intros H. unfold start_phase2. set (v := choose _ _ _). set (s1 := set_pvals s _).
  set (s2 := if may_promise s1 (bn, me c) then _ else _).
  assert (I2 : finv s2) by (unfold s2; destruct (may_promise s1 (bn, me c)); exact H).
  destruct (quorum c <=? _); cbn; auto.
  pose proof (decide_finv c s2 bn v I2) as D. destruct (decide c s2 bn v); cbn in *; auto.
Qed.

Lemma step_finv c s i : finv s -> finv (fst (step c s i)).
Proof.
  intros H. destruct i; cbn [step].
  - destruct (decided s) eqn:D.
    + intros f w I; cbn in *. apply in_app_or in I as [I|[I|[]]]; [apply H in I; tauto|inversion I; auto].
    + set (s5 := set_p2 _ _). destruct (start_phase1_resolved c s5) as [R [E1 E2]].
      intros f w I. rewrite R in I. rewrite E1, E2. apply (H f w I).
  - destruct (negb (is_peer c src)); [auto|]. destruct (may_promise _ _); [exact H|destruct (promised s); auto].
  - destruct (afind bn (p1 s)); [|auto].
    match goal with |- context [if ?b then _ else _] => destruct b end; [|exact H].
    apply start_phase2_finv. exact H.
  - destruct (cur s <? hn); match goal with |- context [if ?b then _ else _] => destruct b end; exact H.
  - destruct (negb (is_peer c src)); [auto|]. destruct (may_promise _ _); [exact H|destruct (promised s); auto].
  - set (s1 := set_p2 s _). assert (H1 : finv s1) by exact H.
    destruct (negb (amem bn (pvals s1))); [auto|].
    match goal with |- context [if ?b then _ else _] => destruct b end; [|auto].
    apply decide_finv; auto.
  - destruct (decided s) eqn:D; [auto|]. intros f w I. cbn in *. apply H in I. destruct I; congruence.
  - destruct (decided s) eqn:D; [auto|]. destruct (afind orig (pvals s)); [|auto].
    set (s5 := set_p2 _ _). destruct (start_phase1_resolved c s5) as [R [E1 E2]].
    intros f w I. rewrite R in I. rewrite E1, E2.
    unfold s5 in *. destruct (afind orig (futs _)); cbn in *; apply (H f w I).
Qed.

Lemma nrun_finv c l : forall s, finv s -> finv (nrun c s l).
Proof. induction l; cbn; auto. intros s H. apply IHl, step_finv, H. Qed.

Theorem future_value c l f v :
  In (f, v) (resolved (nrun c pinit l)) ->
  decided (nrun c pinit l) = true /\ v = dec_v (nrun c pinit l).
Proof. apply (nrun_finv c l pinit finv_init). Qed.

Theorem decision_stable_run c l l' :
  decided (nrun c pinit l) = true ->
  decided (nrun c pinit (l ++ l')) = true /\ dec_v (nrun c pinit (l ++ l')) = dec_v (nrun c pinit l).
Proof.
  assert (G : forall l' s, decided s = true -> decided (nrun c s l') = true /\ dec_v (nrun c s l') = dec_v s).
  { clear l l'. intros l'; induction l' as [|i r IH]; cbn; auto. intros s D.
    destruct (step_decision_stable c s i D) as [D1 V1]. destruct (IH _ D1). split; congruence. }
  assert (E : forall l s, nrun c s (l ++ l') = nrun c (nrun c s l) l').
  { clear. intros l; induction l; cbn; auto. }
  intros D. rewrite E. apply G, D.
Qed.
