(** C12 — LeaderElection with the Bully / Ring / Randomized strategies: when all
    nodes have the same member map, every leader any node ever reports is the
    greatest member; hence no two different leaders are ever reported (for the
    same term or otherwise), under any delays, reordering, loss, timeout
    timing and random draws. *)
From HS Require Import Base.Prelude C12.Model C12.ElectionModel.
From Coq Require Import Sorted.
Local Open Scope Z_scope.

(* ------------------------------------------------------------------ *)
(** * Sorting facts (Python's sorted / index / successor in the ring) *)
Lemma insert_In x y l : In x (insert y l) <-> x = y \/ In x l.
Proof.
  induction l as [|z r IH]; cbn; [intuition|]. destruct (y <=? z); cbn; [intuition|]. rewrite IH. intuition.
Qed.

Lemma insert_sorted y l : StronglySorted Z.le l -> StronglySorted Z.le (insert y l).
Proof.
  induction 1 as [|z r S IH F]; cbn; [constructor; constructor|].
  destruct (y <=? z) eqn:E.
  - constructor; [constructor; auto|]. constructor; [lia|]. eapply Forall_impl; [|exact F]. cbn; intros; lia.
  - constructor; auto. apply Forall_forall. intros x H. apply insert_In in H as [->|H]; [lia|].
    rewrite Forall_forall in F. auto.
Qed.

Lemma isort_sorted l : StronglySorted Z.le (isort l).
Proof. induction l; cbn; [constructor|apply insert_sorted; auto]. Qed.

Lemma isort_In x l : In x (isort l) <-> In x l.
Proof. induction l; cbn; [tauto|]. rewrite insert_In, IHl. intuition. Qed.

Lemma count_insert x y l : count_occ Z.eq_dec (insert y l) x = count_occ Z.eq_dec (y :: l) x.
Proof.
  induction l as [|z r IH]; cbn; auto. destruct (y <=? z); cbn; auto.
  cbn in IH. rewrite IH. destruct (Z.eq_dec y x), (Z.eq_dec z x); auto.
Qed.

Lemma count_isort x l : count_occ Z.eq_dec (isort l) x = count_occ Z.eq_dec l x.
Proof. induction l; cbn [isort fold_right]; auto. fold (isort l). rewrite count_insert. cbn. rewrite IHl. auto. Qed.

(** In a sorted list in which [x] occurs exactly once, the element after [x]
    is greater than [x]; if there is none, [x] is the greatest element. *)
Lemma next_in_sorted l : forall x d, StronglySorted Z.le l -> count_occ Z.eq_dec l x = 1%nat ->
  (S (index_of x l) < length l)%nat /\ x < nth (S (index_of x l)) l d
  \/ (S (index_of x l) = length l /\ forall y, In y l -> y <= x).
Proof.
  induction l as [|z r IH]; intros x d S C; [discriminate|].
  inversion S as [|? ? S' F]; subst. cbn [index_of].
  destruct (x =? z) eqn:E.
  - assert (x = z) by lia; subst z. cbn in C. destruct (Z.eq_dec x x); [|contradiction].
    assert (C0 : count_occ Z.eq_dec r x = 0%nat) by lia.
    rewrite <- count_occ_not_In in C0.
    destruct r as [|y r'].
    + right. split; auto. intros y [<-|[]]; lia.
    + left. split; [cbn; lia|]. cbn. inversion F; subst.
      assert (x <> y) by (intros ->; apply C0; left; auto). lia.
  - cbn in C. destruct (Z.eq_dec z x); [lia|].
    destruct (IH x d S' C) as [[L G]|[L G]].
    + left. split; [cbn; lia|]. exact G.
    + right. split; [cbn; lia|]. intros y [<-|H]; auto.
      assert (In x r). { apply (count_occ_In Z.eq_dec). lia. }
      rewrite Forall_forall in F. auto.
Qed.

Lemma zmax_list_is l m : In m l -> (forall x, In x l -> x <= m) -> zmax_list l = m.
Proof.
  unfold zmax_list. intros I B.
  assert (G : forall d, d <= m -> forall l, (forall x, In x l -> x <= m) -> fold_right Z.max d l <= m).
  { intros d D l0. induction l0; cbn; intros H; auto. specialize (IHl0 (fun x Hx => H x (or_intror Hx))).
    specialize (H a (or_introl eq_refl)). lia. }
  assert (G2 : forall d l, In m l -> m <= fold_right Z.max d l).
  { intros d l0. induction l0; cbn; [tauto|]. intros [->|H]; [lia|]. specialize (IHl0 H). lia. }
  assert (hd 0 l <= m). { destruct l; [contradiction|]. cbn. apply B; left; auto. }
  specialize (G (hd 0 l) H l B). specialize (G2 (hd 0 l) l I). lia.
Qed.

(* ------------------------------------------------------------------ *)
Section Uniform.
  (** All nodes share the member list; [mx] is its greatest element. *)
  Variable members : list Z.
  Variable mx : Z.
  Hypothesis mx_in : In mx members.
  Hypothesis mx_max : forall m, In m members -> m <= mx.
  Variable strat : strategy.
  Variable tmo hb : Z.

  Definition cf (i : Z) : ecfg := mkEC i members strat tmo hb.

  Lemma ring_next_gt me : In me members -> me <> mx -> me < ring_next me members.
  Proof.
    intros I N. unfold ring_next. set (ring := ring_of me members).
    assert (S : StronglySorted Z.le ring) by apply isort_sorted.
    assert (C : count_occ Z.eq_dec ring me = 1%nat).
    { unfold ring, ring_of. rewrite count_isort, count_occ_app. cbn. destruct (Z.eq_dec me me); [|contradiction].
      assert (count_occ Z.eq_dec (filter (fun m => negb (m =? me)) members) me = 0%nat); [|lia].
      apply count_occ_not_In. intros H. apply filter_In in H as [_ H]. rewrite Z.eqb_refl in H. discriminate. }
    destruct (next_in_sorted ring me me S C) as [[L G]|[L G]].
    - rewrite Nat.mod_small by lia. exact G.
    - exfalso. assert (In mx ring).
      { unfold ring, ring_of. apply isort_In. apply in_or_app. left. apply filter_In. split; auto.
        destruct (mx =? me) eqn:E; [lia|reflexivity]. }
      apply G in H. specialize (mx_max me I). lia.
  Qed.

  Definition lgood (l : option Z) : Prop := l = None \/ l = Some mx.

  Definition good_msg (dst : Z) (m : emsg) : Prop :=
    match m with
    | KVictory l _ => l = mx
    | KToken init cands _ => (forall x, In x cands -> In x members) /\ (In mx cands \/ init < dst)
    | _ => True
    end.

  Definition good_out (o : eout) : Prop :=
    match o with
    | OEMsg d m => In d members /\ good_msg d m
    | OEHeartbeat d l _ => In d members /\ l = mx
    | OETimer _ => True
    end.

  Definition good_in (me : Z) (i : ein) : Prop :=
    match i with
    | EMsg _ _ m => good_msg me m
    | EHeartbeat _ l _ => l = mx
    | _ => True
    end.

  Lemma is_member_In c x : emembers c = members -> is_member c x = true -> In x members.
  Proof. intros E H. unfold is_member in H. rewrite E in H. apply existsb_exists in H as [y [I Q]]. assert (x = y) by lia; subst; auto. Qed.

  Lemma send_all_good me msgs :
    (forall d m, In (d, m) msgs -> good_msg d m) -> Forall good_out (send_all (cf me) msgs).
  Proof.
    intros H. apply Forall_forall. intros o I. unfold send_all in I.
    apply in_map_iff in I as [[d m] [<- I]]. apply filter_In in I as [I M]. cbn in *.
    split; [apply (is_member_In (cf me)); auto|auto].
  Qed.

  Lemma none_higher_is_max me : In me members -> filter (fun m => me <? m) members = [] -> me = mx.
  Proof.
    intros I F. specialize (mx_max me I).
    assert (~ In mx (filter (fun m => me <? m) members)) by (rewrite F; auto).
    destruct (Z.eq_dec me mx); auto. exfalso. apply H. apply filter_In. split; auto. lia.
  Qed.

  Lemma no_others_is_max me : In me members -> filter (fun m => negb (m =? me)) members = [] -> me = mx.
  Proof.
    intros I F. destruct (Z.eq_dec me mx); auto. exfalso.
    assert (In mx (filter (fun m => negb (m =? me)) members)).
    { apply filter_In; split; auto. destruct (mx =? me) eqn:E; [lia|reflexivity]. }
    rewrite F in H. contradiction.
  Qed.

  (** messages produced by [get_election_messages] are good, and when they are
      empty or all Victory announcements the node is the greatest member. *)
  Lemma get_msgs_good me term rnd : In me members ->
    (forall d m, In (d, m) (get_msgs (cf me) term rnd) -> good_msg d m) /\
    ((get_msgs (cf me) term rnd = [] \/ all_victory (get_msgs (cf me) term rnd) = true) -> me = mx).
  Proof.
    intros I. unfold get_msgs. cbn [eme emembers estrat cf]. destruct strat.
    - destruct (filter (fun m => me <? m) members) as [|h r] eqn:F.
      + pose proof (none_higher_is_max me I F) as ->. split; auto.
        intros d m H. apply in_map_iff in H as [x [E _]]. inversion E; subst. reflexivity.
      + split.
        * intros d m H. apply in_map_iff in H as [x [E _]]. inversion E; subst. exact Logic.I.
        * intros [H|H]; [discriminate|]. cbn in H. discriminate.
    - split.
      + intros d m [H|[]]. inversion H; subst. cbn. split.
        * intros x [<-|[]]; auto.
        * destruct (Z.eq_dec me mx) as [->|N]; [left; left; auto|right; apply ring_next_gt; auto].
      + intros [H|H]; [discriminate|cbn in H; discriminate].
    - split.
      + intros d m H. apply in_map_iff in H as [x [E _]]. inversion E; subst. exact Logic.I.
      + destruct (filter (fun m => negb (m =? me)) members) as [|h r] eqn:F.
        * intros _. apply no_others_is_max; auto.
        * intros [H|H]; [discriminate|cbn in H; discriminate].
  Qed.

  Lemma start_election_good me s rnd : In me members -> lgood (eleader s) ->
    lgood (eleader (fst (start_election (cf me) s rnd))) /\ Forall good_out (snd (start_election (cf me) s rnd)).
  Proof.
    intros I G. unfold start_election. cbn [fst snd].
    destruct (get_msgs_good me (eterm s + 1) rnd I) as [A B].
    split; [|apply send_all_good; auto].
    destruct (get_msgs (cf me) (eterm s + 1) rnd) as [|x r] eqn:E.
    - cbn. right. rewrite (B (or_introl eq_refl)). reflexivity.
    - destruct (all_victory (x :: r)) eqn:V; cbn; auto. right. rewrite (B (or_intror eq_refl)). reflexivity.
  Qed.

  Lemma handle_msg_good me rnd m : In me members -> good_msg me m ->
    let '(resp, ld, _, _) := handle_msg (cf me) rnd m in
    (forall d x, In (d, x) resp -> good_msg d x) /\ (forall l, ld = Some l -> l = mx).
  Proof.
    intros I G. unfold handle_msg. cbn [eme emembers estrat cf].
    destruct strat, m; cbn in G; try (split; [intros d x []|intros l H; discriminate]; fail).
    - destruct (challenger <? me); (split; [|intros l H; discriminate]).
      + intros d x [H|[]]. inversion H; subst. exact Logic.I.
      + intros d x [].
    - split; [intros d x []|]. intros l H; inversion H; subst; auto.
    - split; [intros d x []|]. intros l H; inversion H; subst; auto.
    - destruct G as [Sub Or]. destruct (initiator =? me) eqn:E.
      + assert (initiator = me) by lia; subst initiator.
        assert (In mx cands) by (destruct Or; [auto|lia]).
        assert (Z : zmax_list cands = mx) by (apply zmax_list_is; auto).
        split.
        * intros d x H0. apply in_map_iff in H0 as [y [Q _]]. inversion Q; subst. exact Z.
        * intros l Q. inversion Q; subst; auto.
      + split; [|intros l H; discriminate]. intros d x [H|[]]. inversion H; subst. cbn. split.
        * intros y Hy. apply in_app_or in Hy as [Hy|[<-|[]]]; auto.
        * destruct (Z.eq_dec me mx) as [->|N].
          -- left. apply in_or_app. right. left. auto.
          -- destruct Or as [Or|Or]; [left; apply in_or_app; auto|].
             right. pose proof (ring_next_gt me I N). lia.
    - split; [intros d x []|]. intros l H; inversion H; subst; auto.
    - split; [|intros l H; discriminate]. intros d x [H|[]]. inversion H; subst. exact Logic.I.
  Qed.

  Lemma estep_good me s i : In me members -> lgood (eleader s) -> good_in me i ->
    lgood (eleader (fst (estep (cf me) s i))) /\ Forall good_out (snd (estep (cf me) s i)).
  Proof.
    intros I G GI. destruct i; cbn [estep].
    - cbn. split; auto.
    - destruct (e_is_leader (cf me) s) eqn:L.
      + cbn [fst snd]. split; auto. apply Forall_app. split; [|repeat constructor].
        apply Forall_forall. intros o H. apply in_map_iff in H as [x [<- H]]. apply filter_In in H as [H _].
        cbn. split; auto. unfold e_is_leader in L. cbn in L. destruct (eleader s) as [l|]; [|discriminate].
        assert (l = me) by lia; subst. destruct G as [G|G]; [discriminate|]. inversion G; auto.
      + destruct (negb (einprog s) && (etimeout (cf me) <? now - elast s)).
        * destruct (start_election_good me s rnd I G) as [A B].
          destruct (start_election (cf me) s rnd) as [s1 evs]. cbn [fst snd] in *.
          split; auto. apply Forall_app; split; auto; try (repeat constructor).
        * cbn [fst snd]. split; auto; try (repeat constructor).
    - cbn in GI. subst. destruct (eterm s <=? term); cbn; auto. split; [right; auto|constructor].
    - cbn in GI. pose proof (handle_msg_good me rnd m I GI) as H.
      destruct (handle_msg (cf me) rnd m) as [[[resp ld] suppress] own]. destruct H as [HR HL].
      set (s0 := mkE _ _ _ _ _ _ (epart s + 1)).
      set (s1 := match ld with Some l => _ | None => s0 end).
      assert (G1 : lgood (eleader s1)).
      { unfold s1. destruct ld as [l|]; cbn; auto. right. rewrite (HL l eq_refl). reflexivity. }
      assert (R : Forall good_out (send_all (cf me) resp)) by (apply send_all_good; auto).
      destruct (own && negb (einprog s1)).
      + destruct (start_election_good me s1 rnd I G1) as [A B].
        destruct (start_election (cf me) s1 rnd) as [s2 evs2]. cbn [fst snd] in *.
        split; [destruct suppress; cbn; auto|apply Forall_app; auto].
      + cbn [fst snd]. split; [destruct suppress; cbn; auto|apply Forall_app; auto].
  Qed.

  (** System invariant: every node's leader is None or mx; every message in
      flight is good for its destination. *)
  Record einv (w : esys) : Prop := {
    ei_nodes : forall i, lgood (eleader (enodes w i));
    ei_net : Forall good_out (enet w);
  }.

  (** schedules whose timeout / start actions address members *)
  Definition act_ok (a : eaction) : Prop :=
    match a with EATimeout i _ _ | EAStart i _ => In i members | _ => True end.

  Lemma Forall_remove_nth {A} (P : A -> Prop) k l : Forall P l -> Forall P (remove_nth k l).
  Proof. revert l; induction k; intros [|x r] H; cbn; auto; inversion H; subst; auto. Qed.

  Lemma esys_handle_inv w i inp net' : einv w -> In i members -> good_in i inp -> Forall good_out net' ->
    einv (esys_handle cf w i inp net').
  Proof.
    intros [N M] I GI F. unfold esys_handle.
    destruct (estep_good i (enodes w i) inp I (N i) GI) as [A B].
    destruct (estep (cf i) (enodes w i) inp) as [s' outs]. cbn [fst snd] in *. split; cbn.
    - intros j. destruct (j =? i); auto.
    - apply Forall_app. split; auto. apply Forall_forall. intros o H. apply filter_In in H as [H _].
      rewrite Forall_forall in B. auto.
  Qed.

  Lemma esys_step_inv w a : einv w -> act_ok a -> einv (esys_step cf w a).
  Proof.
    intros I A. pose proof I as [N M]. destruct a; cbn [esys_step].
    - destruct (nth_error (enet w) k) as [o|] eqn:E; [|auto].
      assert (G : good_out o). { apply nth_error_In in E. rewrite Forall_forall in M. auto. }
      destruct o; auto; cbn in G; destruct G as [G1 G2].
      + apply esys_handle_inv; auto. apply Forall_remove_nth; auto.
      + apply esys_handle_inv; auto. apply Forall_remove_nth; auto.
    - split; cbn; auto. apply Forall_remove_nth; auto.
    - apply esys_handle_inv; auto. exact Logic.I.
    - apply esys_handle_inv; auto. exact Logic.I.
  Qed.

  Lemma esys_run_inv sch : Forall act_ok sch -> einv (esys_run cf sch).
  Proof.
    unfold esys_run. intros F.
    assert (G : forall l w, Forall act_ok l -> einv w -> einv (fold_left (esys_step cf) l w)).
    { induction l; cbn; auto. intros w H I. inversion H; subst. apply IHl; auto. apply esys_step_inv; auto. }
    apply G; auto. split; cbn; [left; reflexivity|constructor].
  Qed.

  (** ONE LEADER: at any two moments of any run (sch, then sch ++ ext), any two
      nodes that report a leader report the same one (whatever their terms). *)
  Theorem one_leader sch ext i j a b :
    Forall act_ok (sch ++ ext) ->
    eleader (enodes (esys_run cf sch) i) = Some a ->
    eleader (enodes (esys_run cf (sch ++ ext)) j) = Some b -> a = b.
  Proof.
    intros F A B. assert (F1 : Forall act_ok sch) by (apply Forall_app in F; tauto).
    destruct (esys_run_inv sch F1) as [N1 _]. destruct (esys_run_inv (sch ++ ext) F) as [N2 _].
    specialize (N1 i). specialize (N2 j). rewrite A in N1. rewrite B in N2.
    destruct N1 as [N1|N1], N2 as [N2|N2]; try discriminate. congruence.
  Qed.
End Uniform.

(** The hypotheses are satisfiable and a leader does get elected: Bully, three
    members, the greatest one times out and announces victory. *)
Example election_demo :
  let w := esys_run (cf [3; 1; 2] Bully 10 5) [EAStart 3 0; EATimeout 3 11 0; EADeliver 0 12 0; EADeliver 0 12 0] in
  eleader (enodes w 1) = Some 3 /\ eleader (enodes w 2) = Some 3 /\ eleader (enodes w 3) = Some 3.
Proof. vm_compute. auto. Qed.
