(** C12 — single-decree Paxos, cross-ballot safety on the faithful model:
    any two CHOSEN values are equal, for every schedule along which the lists
    of phase-1 responses have distinct senders (the network does not duplicate
    messages).  The argument is the classical one: the acceptor's promise and
    accept rules, the proposer's choice of the value of the highest accepted
    ballot among a quorum of promises, and quorum intersection. *)
From HS Require Import Base.Prelude C12.Model C12.PaxosNode C12.PaxosSys.
Local Open Scope Z_scope.

(* ------------------------------------------------------------------ *)
(** * Quorums *)
Lemma NoDup_app_disj {A} (l1 l2 : list A) :
  NoDup l1 -> NoDup l2 -> (forall x, In x l1 -> ~ In x l2) -> NoDup (l1 ++ l2).
Proof.
  induction 1 as [|x l N1 ND IH]; cbn; auto. intros N2 D. constructor.
  - intros H. apply in_app_or in H as [H|H]; [contradiction|]. exact (D x (or_introl eq_refl) H).
  - apply IH; auto; intros y Hy; apply D; right; auto.
Qed.

Definition zrange0 (n : Z) : list Z := map Z.of_nat (seq 0 (Z.to_nat n)).

Lemma zrange0_In n x : 0 <= x < n -> In x (zrange0 n).
Proof. intros H. unfold zrange0. apply in_map_iff. exists (Z.to_nat x). split; [lia|]. apply in_seq. lia. Qed.

Lemma zrange0_len n : length (zrange0 n) = Z.to_nat n.
Proof. unfold zrange0. rewrite map_length, seq_length. auto. Qed.

(** two duplicate-free lists of nodes of [0,n) whose lengths add up to more
    than n share a node *)
Lemma pigeon n (l1 l2 : list Z) : 0 <= n ->
  NoDup l1 -> NoDup l2 -> (forall x, In x l1 -> 0 <= x < n) -> (forall x, In x l2 -> 0 <= x < n) ->
  n < Z.of_nat (length l1) + Z.of_nat (length l2) -> exists x, In x l1 /\ In x l2.
Proof.
  intros N0 N1 N2 R1 R2 L.
  destruct (existsb (fun x => existsb (Z.eqb x) l2) l1) eqn:E.
  - apply existsb_exists in E as [x [I1 E]]. apply existsb_exists in E as [y [I2 E]].
    assert (x = y) by lia; subst. eauto.
  - exfalso. assert (D : forall x, In x l1 -> ~ In x l2).
    { intros x I1 I2. assert (existsb (fun x => existsb (Z.eqb x) l2) l1 = true); [|congruence].
      apply existsb_exists. exists x; split; auto. apply existsb_exists. exists x; split; auto. lia. }
    pose proof (NoDup_app_disj l1 l2 N1 N2 D) as ND.
    assert (I : incl (l1 ++ l2) (zrange0 n)).
    { intros x H. apply zrange0_In. apply in_app_or in H as [H|H]; auto. }
    pose proof (NoDup_incl_length ND I) as LE. rewrite app_length, zrange0_len in LE. lia.
Qed.

(* ------------------------------------------------------------------ *)
(** * What one handler call does to (promised, accepted, responses, outputs) *)

Lemma decide_eff c s bn v :
  promised (fst (decide c s bn v)) = promised s /\ acc_b (fst (decide c s bn v)) = acc_b s /\
  acc_v (fst (decide c s bn v)) = acc_v s /\ p1 (fst (decide c s bn v)) = p1 s /\
  forall o, In o (snd (decide c s bn v)) -> exists d x, o = ODecided d x.
Proof.
  unfold decide. destruct (decided s); cbn; [repeat split; auto; intros o []|].
  destruct (afind bn (futs s)); cbn; repeat split; auto; intros o H; apply in_map_iff in H as [p [<- _]]; eauto.
Qed.

Lemma start_phase1_eff c s :
  let s' := fst (start_phase1 c s) in
  acc_b s' = acc_b s /\ acc_v s' = acc_v s /\
  (forall o, In o (snd (start_phase1 c s)) -> exists d, o = OPrepare d (cur s) (me c)) /\
  (forall k rs' r, afind k (p1 s') = Some rs' -> In r rs' ->
     (exists rs, afind k (p1 s) = Some rs /\ In r rs) \/
     (r = (me c, acc_b s, acc_v s) /\ promised s' = Some (k, me c))).
Proof.
  unfold start_phase1.
  assert (O : forall o, In o (map (fun p : Z => OPrepare p (cur s) (me c)) (peers c)) -> exists d, o = OPrepare d (cur s) (me c)).
  { intros o H. apply in_map_iff in H as [p [<- _]]. eauto. }
  destruct (may_promise s (cur s, me c)); [|cbn; repeat split; auto; intros; left; eauto].
  destruct (afind (cur s) (p1 s)) eqn:F; cbn; repeat split; auto.
  - intros k rs' r H I. destruct (Z.eq_dec k (cur s)) as [->|N].
    + rewrite afind_aset_same in H. inversion H; subst. apply in_app_or in I as [I|[<-|[]]]; [left; eauto|right; auto].
    + rewrite afind_aset_other in H by auto. left; eauto.
  - intros; left; eauto.
Qed.

Lemma choose_spec rs : forall hi v,
  let r := choose rs hi v in
  ((forall f b x, In (f, Some b, x) rs -> exists h, hi = Some h /\ bal_ltb h b = false) /\ r = v)
  \/ (exists f h, In (f, Some h, r) rs /\ (forall f' b' x', In (f', Some b', x') rs -> bal_leb b' h = true)
        /\ match hi with Some h0 => bal_ltb h0 h = true | None => True end).
Proof.
  induction rs as [|[[f ab] av] r IH]; intros hi v; cbn.
  - left. split; auto. intros f b x [].
  - destruct ab as [a|].
    + destruct hi as [h|].
      * destruct (bal_ltb h a) eqn:E.
        -- destruct (IH (Some a) av) as [[A B]|[f0 [h0 [A [B C]]]]].
           ++ right. exists f, a. split; [left; rewrite B; auto|]. split; auto.
              intros f' b' x' [H|H]; [inversion H; subst; apply bal_leb_refl|].
              destruct (A _ _ _ H) as [h1 [Eh L]]. inversion Eh; subst. unfold bal_leb. rewrite L. auto.
           ++ right. exists f0, h0. split; [right; auto|]. split.
              ** intros f' b' x' [H|H]; [inversion H; subst|eauto]. bal.
              ** bal.
        -- destruct (IH (Some h) v) as [[A B]|[f0 [h0 [A [B C]]]]].
           ++ left. split; auto. intros f' b' x' [H|H]; [inversion H; subst; eauto|eauto].
           ++ right. exists f0, h0. split; [right; auto|]. split; auto.
              intros f' b' x' [H|H]; [inversion H; subst|eauto]. bal.
      * destruct (IH (Some a) av) as [[A B]|[f0 [h0 [A [B C]]]]].
        -- right. exists f, a. split; [left; rewrite B; auto|]. split; auto.
           intros f' b' x' [H|H]; [inversion H; subst; apply bal_leb_refl|].
           destruct (A _ _ _ H) as [h1 [Eh L]]. inversion Eh; subst. unfold bal_leb. rewrite L. auto.
        -- right. exists f0, h0. split; [right; auto|]. split; auto.
           intros f' b' x' [H|H]; [inversion H; subst|eauto]. bal.
    + destruct (IH hi v) as [[A B]|[f0 [h0 [A [B C]]]]].
      * left. split; auto. intros f' b' x' [H|H]; [inversion H|eauto].
      * right. exists f0, h0. split; [right; auto|]. split; auto.
        intros f' b' x' [H|H]; [inversion H|eauto].
Qed.

(** from [choose_spec] with no initial bound: the chosen value is the proposer's
    own when no response reports an accepted ballot, else the value of a
    response with the greatest accepted ballot. *)
Lemma choose_top rs v :
  ((forall f b x, ~ In (f, Some b, x) rs) /\ choose rs None v = v)
  \/ (exists f h, In (f, Some h, choose rs None v) rs /\ forall f' b' x', In (f', Some b', x') rs -> bal_leb b' h = true).
Proof.
  destruct (choose_spec rs None v) as [[A B]|[f [h [A [B _]]]]].
  - left. split; auto. intros f b x H. destruct (A _ _ _ H) as [h [E _]]. discriminate.
  - right. eauto.
Qed.

Lemma start_phase2_eff c s bn :
  let s' := fst (start_phase2 c s bn) in
  let v := choose (match afind bn (p1 s) with Some rs => rs | None => [] end) None (oget bn (pvals s)) in
  promised s' = promised s /\ p1 s' = p1 s /\
  ((acc_b s' = acc_b s /\ acc_v s' = acc_v s) \/
   (may_promise s (bn, me c) = true /\ acc_b s' = Some (bn, me c) /\ acc_v s' = v)) /\
  (forall d, In d (peers c) -> In (OAccept d bn (me c) v) (snd (start_phase2 c s bn))) /\
  (forall o, In o (snd (start_phase2 c s bn)) -> (exists d, o = OAccept d bn (me c) v) \/ exists d x, o = ODecided d x).
Proof.
  unfold start_phase2. set (v := choose _ _ _). set (s1 := set_pvals s _).
  set (s2 := if may_promise s1 (bn, me c) then _ else _).
  assert (P2 : promised s2 = promised s /\ p1 s2 = p1 s /\
     ((acc_b s2 = acc_b s /\ acc_v s2 = acc_v s) \/ (may_promise s (bn, me c) = true /\ acc_b s2 = Some (bn, me c) /\ acc_v s2 = v))).
  { unfold s2. destruct (may_promise s1 (bn, me c)) eqn:E; cbn; repeat split; auto; right; repeat split; auto. }
  assert (OA : forall d, In d (peers c) -> In (OAccept d bn (me c) v) (map (fun p : Z => OAccept p bn (me c) v) (peers c))).
  { intros d H. apply in_map_iff. eauto. }
  assert (OB : forall o, In o (map (fun p : Z => OAccept p bn (me c) v) (peers c)) -> exists d, o = OAccept d bn (me c) v).
  { intros o H. apply in_map_iff in H as [p [<- _]]. eauto. }
  destruct P2 as [A [B C]].
  destruct (quorum c <=? _); cbn [fst snd].
  - destruct (decide_eff c s2 bn v) as [D1 [D2 [D3 [D4 D5]]]]. destruct (decide c s2 bn v) as [s3 o3]; cbn [fst snd] in *.
    assert (C' : (acc_b s3 = acc_b s /\ acc_v s3 = acc_v s) \/ (may_promise s (bn, me c) = true /\ acc_b s3 = Some (bn, me c) /\ acc_v s3 = v)).
    { destruct C as [[C1 C2]|[C1 [C2 C3]]]; [left; split; congruence|right; repeat split; congruence]. }
    split; [congruence|]. split; [congruence|]. split; [exact C'|]. split.
    + intros d H. apply in_or_app; left; auto.
    + intros o H. apply in_app_or in H as [H|H]; [left; auto|right; auto].
  - repeat split; auto.
Qed.

(** effects of one step *)
Definition acc_same (s s' : pstate) : Prop := acc_b s' = acc_b s /\ acc_v s' = acc_v s.

Lemma step_acc c s i : ninv c s ->
  let s' := fst (step c s i) in
  acc_same s s' \/
  exists b, acc_b s' = Some b /\ may_promise s b = true /\ obal_leb (Some b) (promised s') = true /\
    ((exists src, i = IAccept src (fst b) (snd b) (acc_v s') /\ is_peer c src = true) \/
     (snd b = me c /\ forall d, In d (peers c) -> In (OAccept d (fst b) (me c) (acc_v s')) (snd (step c s i)))).
Proof.
  intros NI. destruct i; cbn [step].
  - destruct (decided s); [left; split; reflexivity|]. set (s5 := set_p2 _ _).
    destruct (start_phase1_eff c s5) as [A [B _]]. left. split; [rewrite A|rewrite B]; reflexivity.
  - left. destruct (negb _); [split; reflexivity|]. destruct (may_promise _ _); [split; reflexivity|].
    destruct (promised s); split; reflexivity.
  - destruct (afind bn (p1 s)) eqn:F; [|left; split; reflexivity].
    set (s1 := set_p1 s _).
    match goal with |- context [if ?b then _ else _] => destruct b end; [|left; split; reflexivity].
    destruct (start_phase2_eff c s1 bn) as [A [B [C [D E]]]].
    destruct C as [[C1 C2]|[C1 [C2 C3]]]; [left; split; auto|].
    right. exists (bn, me c). split; auto. split; auto. split.
    + rewrite A. cbn [promised s1 set_p1]. destruct NI as [_ NB _].
      destruct (NB bn) as [p [P L]]; [unfold amem; rewrite F; auto|].
      change (promised s1) with (promised s). rewrite P. cbn. exact L.
    + right. split; auto. intros d Hd. rewrite C3. apply D; auto.
  - left. destruct (cur s <? hn); match goal with |- context [if ?b then _ else _] => destruct b end; split; reflexivity.
  - destruct (negb (is_peer c src)) eqn:P; [left; split; reflexivity|].
    destruct (may_promise s (bn, bnode)) eqn:M.
    + right. exists (bn, bnode). cbn. repeat split; auto; try apply bal_leb_refl.
      left. exists src. split; auto. destruct (is_peer c src); auto; discriminate.
    + left. destruct (promised s); split; reflexivity.
  - left. match goal with |- context [if negb ?b then _ else _] => destruct b end; cbn [negb]; [|split; reflexivity].
    match goal with |- context [if ?b then _ else _] => destruct b end; [|split; reflexivity].
    set (s1 := set_p2 s _). destruct (decide_eff c s1 bn (oget bn (pvals s1))) as [_ [A [B _]]]. split; auto.
  - left. destruct (decided s); split; reflexivity.
  - destruct (decided s); [left; split; reflexivity|]. destruct (afind orig (pvals s)); [|left; split; reflexivity].
    set (s5 := set_p2 _ _). destruct (start_phase1_eff c s5) as [A [B _]]. left.
    split; [rewrite A|rewrite B]; unfold s5; destruct (afind orig (futs _)); reflexivity.
Qed.

Lemma not_promise_of_prepare c s d k bn f ab av : ~ In (OPromise d k bn f ab av) (snd (start_phase1 c s)).
Proof. intros H. destruct (start_phase1_eff c s) as [_ [_ [O _]]]. destruct (O _ H) as [x E]. discriminate. Qed.

Lemma not_promise_of_phase2 c s bn0 d k bn f ab av : ~ In (OPromise d k bn f ab av) (snd (start_phase2 c s bn0)).
Proof. intros H. destruct (start_phase2_eff c s bn0) as [_ [_ [_ [_ O]]]]. destruct (O _ H) as [[x E]|[x [y E]]]; discriminate. Qed.

Lemma not_promise_of_decide c s bn0 v d k bn f ab av : ~ In (OPromise d k bn f ab av) (snd (decide c s bn0 v)).
Proof. intros H. destruct (decide_eff c s bn0 v) as [_ [_ [_ [_ O]]]]. destruct (O _ H) as [x [y E]]. discriminate. Qed.

(** a Promise is only produced by the Prepare handler and reports the
    acceptor's accepted (ballot, value) at that moment *)
Lemma step_promise_out c s i d k bn f ab av :
  In (OPromise d k bn f ab av) (snd (step c s i)) ->
  i = IPrepare d k bn /\ f = me c /\ ab = acc_b s /\ av = acc_v s /\
  promised (fst (step c s i)) = Some (k, bn) /\ acc_same s (fst (step c s i)).
Proof.
  destruct i; cbn [step].
  - destruct (decided s); cbn; [tauto|]. intros H. apply not_promise_of_prepare in H. contradiction.
  - destruct (negb (is_peer c src)); cbn; [tauto|]. destruct (may_promise s (bn0, bnode)); cbn.
    + intros [H|[]]. inversion H; subst. repeat split; auto.
    + destruct (promised s); cbn; [intros [H|[]]; discriminate|tauto].
  - destruct (afind bn0 (p1 s)); cbn; [|tauto].
    match goal with |- context [if ?b then _ else _] => destruct b end; [|cbn; tauto].
    intros H. apply not_promise_of_phase2 in H. contradiction.
  - destruct (cur s <? hn); match goal with |- context [if ?b then _ else _] => destruct b end; cbn; try tauto; intros [H|[]]; discriminate.
  - destruct (negb (is_peer c src)); cbn; [tauto|]. destruct (may_promise s (bn0, bnode)); cbn; [intros [H|[]]; discriminate|].
    destruct (promised s); cbn; [intros [H|[]]; discriminate|tauto].
  - match goal with |- context [if negb ?b then _ else _] => destruct b end; cbn [negb]; [|cbn; tauto].
    match goal with |- context [if ?b then _ else _] => destruct b end; [|cbn; tauto].
    intros H. apply not_promise_of_decide in H. contradiction.
  - destruct (decided s); cbn; tauto.
  - destruct (decided s); cbn; [tauto|]. destruct (afind orig (pvals s)); cbn; [|tauto].
    intros H. apply not_promise_of_prepare in H. contradiction.
Qed.

(** where the responses stored in [_phase1_responses] come from *)
Lemma fresh_then_phase1 c s0 s5 n k rs' r :
  p1 s5 = aset n [] (p1 s0) -> acc_b s5 = acc_b s0 -> acc_v s5 = acc_v s0 -> cur s5 = n ->
  afind k (p1 (fst (start_phase1 c s5))) = Some rs' -> In r rs' ->
  (exists rs, afind k (p1 s0) = Some rs /\ In r rs) \/
  (r = (me c, acc_b s0, acc_v s0) /\ promised (fst (start_phase1 c s5)) = Some (k, me c) /\ acc_same s0 (fst (start_phase1 c s5))).
Proof.
  intros E1 E2 E3 E4 F I. destruct (start_phase1_eff c s5) as [A [B [_ D]]].
  destruct (D _ _ _ F I) as [[rs [F1 I1]]|[E P]].
  - left. rewrite E1 in F1. destruct (Z.eq_dec k n) as [->|N].
    + rewrite afind_aset_same in F1. inversion F1; subst. contradiction.
    + rewrite afind_aset_other in F1 by auto. eauto.
  - right. rewrite E2, E3 in E. split; auto. split; auto. split; congruence.
Qed.

Lemma step_p1_resp c s i k rs' r :
  afind k (p1 (fst (step c s i))) = Some rs' -> In r rs' ->
  (exists rs, afind k (p1 s) = Some rs /\ In r rs) \/
  (exists f ab av, i = IPromise k f ab av /\ r = (f, ab, av)) \/
  (r = (me c, acc_b s, acc_v s) /\ promised (fst (step c s i)) = Some (k, me c) /\ acc_same s (fst (step c s i))).
Proof.
  destruct i; cbn [step].
  - destruct (decided s); [cbn; intros; left; eauto|]. set (s5 := set_p2 _ _). intros F I.
    destruct (fresh_then_phase1 c s s5 (cur s5) k rs' r eq_refl eq_refl eq_refl eq_refl F I) as [H|H]; auto.
  - destruct (negb _); [cbn; intros; left; eauto|]. destruct (may_promise _ _); [cbn; intros; left; eauto|].
    destruct (promised s); cbn; intros; left; eauto.
  - destruct (afind bn (p1 s)) eqn:F0; [|cbn; intros; left; eauto].
    set (s1 := set_p1 s _).
    assert (G : afind k (p1 s1) = Some rs' -> In r rs' ->
      (exists rs, afind k (p1 s) = Some rs /\ In r rs) \/ (exists f ab0 av0, IPromise bn from ab av = IPromise k f ab0 av0 /\ r = (f, ab0, av0))).
    { unfold s1. cbn. intros F I. destruct (Z.eq_dec k bn) as [->|N].
      - rewrite afind_aset_same in F. inversion F; subst. apply in_app_or in I as [I|[<-|[]]]; [left; eauto|right; eauto].
      - rewrite afind_aset_other in F by auto. left; eauto. }
    match goal with |- context [if ?b then _ else _] => destruct b end.
    + rewrite start_phase2_p1. intros F I. destruct (G F I) as [H|H]; auto.
    + cbn [fst]. intros F I. destruct (G F I) as [H|H]; auto.
  - destruct (cur s <? hn); match goal with |- context [if ?b then _ else _] => destruct b end; cbn; intros; left; eauto.
  - destruct (negb _); [cbn; intros; left; eauto|]. destruct (may_promise _ _); [cbn; intros; left; eauto|].
    destruct (promised s); cbn; intros; left; eauto.
  - match goal with |- context [if negb ?b then _ else _] => destruct b end; cbn [negb]; [|cbn; intros; left; eauto].
    match goal with |- context [if ?b then _ else _] => destruct b end; [|cbn; intros; left; eauto].
    rewrite decide_p1. cbn. intros; left; eauto.
  - destruct (decided s); cbn; intros; left; eauto.
  - destruct (decided s); [cbn; intros; left; eauto|]. destruct (afind orig (pvals s)); [|cbn; intros; left; eauto].
    set (s5 := set_p2 _ _). intros F I.
    assert (E1 : p1 s5 = aset (cur s + 1) [] (p1 s)) by (unfold s5; destruct (afind orig (futs _)); reflexivity).
    assert (E2 : acc_b s5 = acc_b s) by (unfold s5; destruct (afind orig (futs _)); reflexivity).
    assert (E3 : acc_v s5 = acc_v s) by (unfold s5; destruct (afind orig (futs _)); reflexivity).
    assert (E4 : cur s5 = cur s + 1) by (unfold s5; destruct (afind orig (futs _)); reflexivity).
    destruct (fresh_then_phase1 c s s5 (cur s + 1) k rs' r E1 E2 E3 E4 F I) as [H|H]; auto.
Qed.

(** the value carried by the Accept messages of a handler call *)
Lemma step_accept_val c s i d k b x :
  In (OAccept d k b x) (snd (step c s i)) ->
  b = me c /\ exists rs', afind k (p1 (fst (step c s i))) = Some rs' /\ Z.of_nat (length rs') = quorum c /\
    ((forall f b0 x0, ~ In (f, Some b0, x0) rs') \/
     (exists f h, In (f, Some h, x) rs' /\ forall f' b' x', In (f', Some b', x') rs' -> bal_leb b' h = true)).
Proof.
  destruct i; cbn [step].
  - destruct (decided s); cbn; [tauto|]. intros H. apply start_phase1_no_accept in H. contradiction.
  - destruct (negb (is_peer c src)); cbn; [tauto|]. destruct (may_promise _ _); cbn; [intros [H|[]]; discriminate|].
    destruct (promised s); cbn; [intros [H|[]]; discriminate|tauto].
  - destruct (afind bn (p1 s)) eqn:F; cbn; [|tauto].
    destruct (Z.of_nat (length (l ++ [(from, ab, av)])) =? quorum c) eqn:Q; cbn [andb]; [|cbn; tauto].
    match goal with |- context [if ?b then _ else _] => destruct b end; [|cbn; tauto].
    set (s1 := set_p1 s _). intros H. pose proof (start_phase2_accepts c s1 bn d k b x H) as [-> [-> ->]].
    split; auto. exists (l ++ [(from, ab, av)]). rewrite start_phase2_p1.
    assert (F1 : afind bn (p1 s1) = Some (l ++ [(from, ab, av)])) by (cbn; apply afind_aset_same).
    split; auto. split; [lia|]. rewrite F1.
    destruct (choose_top (l ++ [(from, ab, av)]) (oget bn (pvals s1))) as [[A _]|B]; [left; exact A|right; exact B].
  - destruct (cur s <? hn); match goal with |- context [if ?b then _ else _] => destruct b end; cbn; try tauto; intros [H|[]]; discriminate.
  - destruct (negb (is_peer c src)); cbn; [tauto|]. destruct (may_promise _ _); cbn; [intros [H|[]]; discriminate|].
    destruct (promised s); cbn; [intros [H|[]]; discriminate|tauto].
  - match goal with |- context [if negb ?b then _ else _] => destruct b end; cbn [negb]; [|cbn; tauto].
    match goal with |- context [if ?b then _ else _] => destruct b end; [|cbn; tauto].
    intros H. apply decide_no_accept in H. contradiction.
  - destruct (decided s); cbn; tauto.
  - destruct (decided s); cbn; [tauto|]. destruct (afind orig (pvals s)); cbn; [|tauto].
    intros H. apply start_phase1_no_accept in H. contradiction.
Qed.

(* ------------------------------------------------------------------ *)
(** * Destinations and ranges *)
From Coq Require Import FinFun.

Lemma others_In n i j : In j (others n i) -> 0 <= j < n /\ j <> i.
Proof.
  unfold others. intros H. apply filter_In in H as [H E]. apply in_map_iff in H as [k [<- K]].
  apply in_seq in K. split; [lia|]. destruct (Z.of_nat k =? i) eqn:X; [discriminate|lia].
Qed.

Lemma others_In_rev n i j : 0 <= j < n -> j <> i -> In j (others n i).
Proof.
  intros R N. unfold others. apply filter_In. split.
  - apply in_map_iff. exists (Z.to_nat j). split; [lia|]. apply in_seq. lia.
  - destruct (j =? i) eqn:X; [lia|reflexivity].
Qed.

Lemma filter_ne_length (l : list Z) i : NoDup l -> In i l ->
  S (length (filter (fun j => negb (j =? i)) l)) = length l.
Proof.
  induction 1 as [|x l N ND IH]; cbn; [tauto|]. intros [->|H].
  - rewrite Z.eqb_refl. cbn. f_equal.
    assert (G : forall l0, ~ In i l0 -> filter (fun j => negb (j =? i)) l0 = l0).
    { induction l0; cbn; auto. intros NI. destruct (a =? i) eqn:E; cbn.
      - exfalso. apply NI. left. lia.
      - f_equal. apply IHl0. tauto. }
    rewrite G; auto.
  - destruct (x =? i) eqn:E; cbn.
    + exfalso. assert (x = i) by lia; subst. contradiction.
    + f_equal. apply IH; auto.
Qed.

Lemma others_length n i : 0 <= i < n -> Z.of_nat (length (others n i)) = n - 1.
Proof.
  intros R. unfold others.
  assert (ND : NoDup (map Z.of_nat (seq 0 (Z.to_nat n)))).
  { apply Injective_map_NoDup; [intros a b; lia|apply seq_NoDup]. }
  assert (I : In i (map Z.of_nat (seq 0 (Z.to_nat n)))).
  { apply in_map_iff. exists (Z.to_nat i). split; [lia|]. apply in_seq. lia. }
  pose proof (filter_ne_length _ i ND I) as L. rewrite map_length, seq_length in L. lia.
Qed.

Lemma quorum_cfg n i : 0 <= i < n -> quorum (cfg_of n i) = n / 2 + 1.
Proof. intros R. unfold quorum. cbn [peers cfg_of]. rewrite others_length by auto. f_equal. f_equal. lia. Qed.

(** every message a handler produces goes to a peer *)
Lemma step_dst c s i o : In o (snd (step c s i)) -> is_retry o = false -> In (dst_of o) (peers c).
Proof.
  assert (PE : forall src, negb (is_peer c src) = false -> In src (peers c)).
  { intros src H. unfold is_peer in H. destruct (existsb (Z.eqb src) (peers c)) eqn:E; [|discriminate].
    apply existsb_exists in E as [y [I Q]]. assert (src = y) by lia; subst; auto. }
  assert (P1 : forall s0 o0, In o0 (snd (start_phase1 c s0)) -> In (dst_of o0) (peers c)).
  { intros s0 o0 H. unfold start_phase1 in H.
    assert (G : In o0 (map (fun p : Z => OPrepare p (cur s0) (me c)) (peers c)) -> In (dst_of o0) (peers c)).
    { intros X. apply in_map_iff in X as [p [<- X]]. exact X. }
    destruct (may_promise _ _); [destruct (afind _ _)|]; auto. }
  assert (DE : forall s0 bn v o0, In o0 (snd (decide c s0 bn v)) -> In (dst_of o0) (peers c)).
  { intros s0 bn v o0 H. unfold decide in H. destruct (decided s0); cbn in H; [contradiction|].
    apply in_map_iff in H as [p [<- X]]. exact X. }
  assert (P2 : forall s0 bn o0, In o0 (snd (start_phase2 c s0 bn)) -> In (dst_of o0) (peers c)).
  { intros s0 bn o0. unfold start_phase2. set (v := choose _ _ _). set (s1 := set_pvals s0 _).
    set (s2 := if may_promise s1 (bn, me c) then _ else _).
    assert (G : In o0 (map (fun p : Z => OAccept p bn (me c) v) (peers c)) -> In (dst_of o0) (peers c)).
    { intros X. apply in_map_iff in X as [p [<- X]]. exact X. }
    destruct (quorum c <=? _); cbn [snd]; auto.
    pose proof (DE s2 bn v o0) as D. destruct (decide c s2 bn v); cbn [snd] in *.
    intros H. apply in_app_or in H as [H|H]; auto. }
  destruct i; cbn [step]; intros H R.
  - destruct (decided s); cbn in H; [contradiction|]. eapply P1; eauto.
  - destruct (negb (is_peer c src)) eqn:E; cbn in H; [contradiction|].
    destruct (may_promise _ _); cbn in H; [destruct H as [<-|[]]; cbn; auto|].
    destruct (promised s); cbn in H; [destruct H as [<-|[]]; cbn; auto|contradiction].
  - destruct (afind bn (p1 s)); cbn in H; [|contradiction].
    match goal with H : context [if ?b then _ else _] |- _ => destruct b end; [eapply P2; eauto|cbn in H; contradiction].
  - destruct (cur s <? hn); match goal with H : context [if ?b then _ else _] |- _ => destruct b end; cbn in H;
      try contradiction; destruct H as [<-|[]]; discriminate.
  - destruct (negb (is_peer c src)) eqn:E; cbn in H; [contradiction|].
    destruct (may_promise _ _); cbn in H; [destruct H as [<-|[]]; cbn; auto|].
    destruct (promised s); cbn in H; [destruct H as [<-|[]]; cbn; auto|contradiction].
  - match goal with H : context [if negb ?b then _ else _] |- _ => destruct b end; cbn [negb] in H; [|cbn in H; contradiction].
    match goal with H : context [if ?b then _ else _] |- _ => destruct b end; [eapply DE; eauto|cbn in H; contradiction].
  - destruct (decided s); cbn in H; contradiction.
  - destruct (decided s); cbn in H; [contradiction|]. destruct (afind orig (pvals s)); cbn in H; [|contradiction].
    eapply P1; eauto.
Qed.

(** Prepare messages carry the sender's own ballot *)
Lemma step_prepare_out c s i d k b : In (OPrepare d k b) (snd (step c s i)) -> b = me c.
Proof.
  assert (P1 : forall s0, In (OPrepare d k b) (snd (start_phase1 c s0)) -> b = me c).
  { intros s0 H. destruct (start_phase1_eff c s0) as [_ [_ [O _]]]. destruct (O _ H) as [x E]. inversion E; auto. }
  assert (P2 : forall s0 bn, ~ In (OPrepare d k b) (snd (start_phase2 c s0 bn))).
  { intros s0 bn H. destruct (start_phase2_eff c s0 bn) as [_ [_ [_ [_ O]]]]. destruct (O _ H) as [[x E]|[x [y E]]]; discriminate. }
  assert (DE : forall s0 bn v, ~ In (OPrepare d k b) (snd (decide c s0 bn v))).
  { intros s0 bn v H. destruct (decide_eff c s0 bn v) as [_ [_ [_ [_ O]]]]. destruct (O _ H) as [x [y E]]. discriminate. }
  destruct i; cbn [step]; intros H.
  - destruct (decided s); cbn in H; [contradiction|eauto].
  - destruct (negb _); cbn in H; [contradiction|]. destruct (may_promise _ _); cbn in H; [destruct H as [H|[]]; discriminate|].
    destruct (promised s); cbn in H; [destruct H as [H|[]]; discriminate|contradiction].
  - destruct (afind bn (p1 s)); cbn in H; [|contradiction].
    match goal with H : context [if ?b then _ else _] |- _ => destruct b end; [apply P2 in H; contradiction|cbn in H; contradiction].
  - destruct (cur s <? hn); match goal with H : context [if ?b then _ else _] |- _ => destruct b end; cbn in H;
      try contradiction; destruct H as [H|[]]; discriminate.
  - destruct (negb _); cbn in H; [contradiction|]. destruct (may_promise _ _); cbn in H; [destruct H as [H|[]]; discriminate|].
    destruct (promised s); cbn in H; [destruct H as [H|[]]; discriminate|contradiction].
  - match goal with H : context [if negb ?b then _ else _] |- _ => destruct b end; cbn [negb] in H; [|cbn in H; contradiction].
    match goal with H : context [if ?b then _ else _] |- _ => destruct b end; [apply DE in H; contradiction|cbn in H; contradiction].
  - destruct (decided s); cbn in H; contradiction.
  - destruct (decided s); cbn in H; [contradiction|]. destruct (afind orig (pvals s)); cbn in H; [contradiction || eauto|contradiction].
Qed.

(* ------------------------------------------------------------------ *)
(** * The invariant *)
Section Agree.
  Variable n : Z.
  Hypothesis n2 : 2 <= n.

  Definition voted (w : sys) (a : Z) (b : ballot) (v : option Z) : Prop := In (a, b, v) (votes w).
  Definition prop (w : sys) (b : ballot) (v : option Z) : Prop :=
    exists src d, In (src, OAccept d (fst b) (snd b) v) (sent w).
  Definition leftb (w : sys) (a : Z) (c : ballot) : Prop :=
    exists p, promised (nodes w a) = Some p /\ bal_ltb c p = true.
  Definition isq (Q : list Z) : Prop :=
    NoDup Q /\ (forall a, In a Q -> 0 <= a < n) /\ n / 2 + 1 <= Z.of_nat (length Q).
  Definition chosen (w : sys) (b : ballot) (v : option Z) : Prop :=
    exists Q, isq Q /\ forall a, In a Q -> voted w a b v.

  (** acceptor [a] promised ballot [b] while its accepted (ballot, value) was (ab, av) *)
  Definition pfact (w : sys) (a : Z) (b : ballot) (ab : option ballot) (av : option Z) : Prop :=
    obal_leb (Some b) (promised (nodes w a)) = true /\
    (forall b' v', voted w a b' v' -> bal_ltb b' b = true -> exists b0, ab = Some b0 /\ bal_leb b' b0 = true) /\
    (forall b0, ab = Some b0 -> voted w a b0 av).

  (** the hypothesis of the partial theorem: phase-1 response lists have distinct senders *)
  Definition distinct_responders (w : sys) : Prop :=
    forall p k rs, afind k (p1 (nodes w p)) = Some rs -> NoDup (map (fun r : resp => fst (fst r)) rs).

  Record ainv (w : sys) : Prop := {
    a_u : uinv n w;
    a_net : forall x, In x (net w) -> In x (sent w);
    a_noretry : forall src m, In (src, m) (sent w) -> is_retry m = false /\ 0 <= dst_of m < n /\ 0 <= src < n;
    a_tm : forall i b, In (i, b) (timers w) -> 0 <= i < n;
    a_vprop : forall a b v, voted w a b v -> prop w b v;
    a_vmax : forall a b v, voted w a b v -> exists b', acc_b (nodes w a) = Some b' /\ bal_leb b b' = true;
    a_acc : forall a b, acc_b (nodes w a) = Some b -> voted w a b (acc_v (nodes w a));
    a_prep : forall src d k bn, In (src, OPrepare d k bn) (sent w) -> src = bn;
    a_pmsg : forall src d k bn f ab av, In (src, OPromise d k bn f ab av) (sent w) ->
               d = bn /\ pfact w f (k, bn) ab av /\ 0 <= f < n;
    a_resp : forall p k rs f ab av, afind k (p1 (nodes w p)) = Some rs -> In (f, ab, av) rs ->
               pfact w f (k, p) ab av /\ 0 <= f < n;
    a_safe : forall b v, prop w b v -> forall c v1 Q, bal_ltb c b = true -> v1 <> v -> isq Q ->
               exists a, In a Q /\ leftb w a c /\ ~ voted w a c v1;
  }.

  Lemma ainv_init : ainv sys_init.
  Proof.
    split; cbn; try (intros; contradiction); try (intros; discriminate).
    - apply uinv_init.
    - intros b v [src [d []]].
  Qed.

  Lemma to_input_accept src m s0 bn bnode v : to_input src m = IAccept s0 bn bnode v ->
    exists d, m = OAccept d bn bnode v /\ s0 = src.
  Proof. destruct m; cbn; intros H; inversion H; subst; eauto. Qed.
  Lemma to_input_prepare src m s0 bn bnode : to_input src m = IPrepare s0 bn bnode ->
    exists d, m = OPrepare d bn bnode /\ s0 = src.
  Proof. destruct m; cbn; intros H; inversion H; subst; eauto. Qed.
  Lemma to_input_promise src m k f ab av : to_input src m = IPromise k f ab av ->
    exists d bn, m = OPromise d k bn f ab av.
  Proof. destruct m; cbn; intros H; inversion H; subst; eauto. Qed.

  Lemma others_nonempty i : 0 <= i < n -> exists d, In d (others n i).
  Proof.
    intros R. destruct (Z.eq_dec i 0).
    - exists 1. apply others_In_rev; lia.
    - exists 0. apply others_In_rev; lia.
  Qed.

  Lemma ainv_step w a : ainv w -> distinct_responders (sys_step n w a) -> ainv (sys_step n w a).
  Proof.
    intros AI HD. pose proof AI as [U NT NR TM VP VM AC PR PM RS SF].
    destruct (sys_step_cases n w a) as [E|[[E1 [E2 [E3 [E4 [E5 E6]]]]]|[i [inp [O Hd]]]]].
    { rewrite E; auto. }
    { (* a message was dropped: only the network shrinks *)
      assert (U' : uinv n (sys_step n w a)) by (apply uinv_step; auto).
      split; auto; unfold voted, prop, leftb, pfact, voted in *; rewrite ?E1, ?E2, ?E6; auto.
      - intros i b H. rewrite E5 in H. eauto. }
    (* one handler call at node i *)
    set (w' := sys_step n w a) in *.
    assert (U' : uinv n w') by (apply uinv_step; auto).
    unfold handled in Hd.
    pose proof (step_acc (cfg_of n i) (nodes w i) inp (ui_ninv n w U i)) as SA.
    pose proof (step_promise_monotone (cfg_of n i) (nodes w i) inp) as PMON.
    pose proof (step_promise_out (cfg_of n i) (nodes w i) inp) as SPO.
    pose proof (step_p1_resp (cfg_of n i) (nodes w i) inp) as SPR.
    pose proof (step_accept_val (cfg_of n i) (nodes w i) inp) as SAV.
    pose proof (step_accepts (cfg_of n i) (nodes w i) inp) as SAC.
    pose proof (step_dst (cfg_of n i) (nodes w i) inp) as SD.
    pose proof (step_prepare_out (cfg_of n i) (nodes w i) inp) as SPP.
    destruct (step (cfg_of n i) (nodes w i) inp) as [s' outs] eqn:ST. cbn [fst snd] in *.
    destruct Hd as [H1 [H2 [H3 [H4 [H5 [H6 H7]]]]]].
    set (s := nodes w i) in *.
    (* the stepping node is a node of the cluster *)
    assert (RI : 0 <= i < n).
    { destruct O as [v R| b Hb | src m Hm Hdst Hr | src b Hm Hi]; auto.
      - eauto.
      - apply NT in Hm. destruct (NR _ _ Hm) as [_ [R _]]. lia.
      - apply NT in Hm. destruct (NR _ _ Hm) as [R _]. discriminate. }
    assert (ME : me (cfg_of n i) = i) by reflexivity.
    assert (NODE : forall j, nodes w' j = if j =? i then s' else nodes w j) by (intros j; rewrite H1; reflexivity).
    assert (NI : nodes w' i = s') by (rewrite NODE, Z.eqb_refl; auto).
    assert (NO : forall j, j <> i -> nodes w' j = nodes w j).
    { intros j N. rewrite NODE. destruct (j =? i) eqn:X; [lia|auto]. }
    set (msgs := map (fun o => (i, o)) (filter (fun o => negb (is_retry o)) outs)) in *.
    assert (MS : forall src m, In (src, m) msgs -> src = i /\ In m outs /\ is_retry m = false).
    { intros src m H. apply in_map_iff in H as [o [Eo Ho]]. inversion Eo; subst. apply filter_In in Ho as [Ho R].
      repeat split; auto. destruct (is_retry m); auto; discriminate. }
    assert (MSI : forall m, In m outs -> is_retry m = false -> In (i, m) msgs).
    { intros m H R. apply in_map_iff. exists m. split; auto. apply filter_In. split; auto. rewrite R. auto. }
    assert (SENT : forall x, In x (sent w') <-> In x (sent w) \/ In x msgs).
    { intros x. rewrite H4. rewrite in_app_iff. tauto. }
    assert (VOT : forall a0 b v, voted w' a0 b v <-> voted w a0 b v \/ (a0 = i /\ acc_b s' = Some b /\ acc_v s' = v)).
    { intros a0 b v. unfold voted. rewrite H7, in_app_iff. destruct (acc_b s') as [b0|]; cbn.
      - split; [intros [H|[H|[]]]; auto; inversion H; subst; auto|].
        intros [H|[-> [Eb <-]]]; auto. inversion Eb; subst. auto.
      - split; [intros [H|[]]; auto|]. intros [H|[_ [X _]]]; auto. discriminate. }
    assert (VMONO : forall a0 b v, voted w a0 b v -> voted w' a0 b v) by (intros; apply VOT; auto).
    assert (PMONO : forall b v, prop w b v -> prop w' b v).
    { intros b v [src [d H]]. exists src, d. apply SENT; auto. }
    (* a vote that is new in this step *)
    assert (NEWV : forall a0 b v, voted w' a0 b v -> voted w a0 b v \/
              (a0 = i /\ acc_b s' = Some b /\ acc_v s' = v /\ may_promise s b = true /\ obal_leb (Some b) (promised s') = true /\ prop w' b v)).
    { intros a0 b v H. apply VOT in H as [H|[-> [Eb Ev]]]; auto.
      destruct SA as [[S1 S2]|[b0 [Eb0 [MP [LE SRC]]]]].
      - left. rewrite S1 in Eb. rewrite S2 in Ev. subst v. apply AC. exact Eb.
      - rewrite Eb in Eb0. inversion Eb0; subst b0. right. repeat split; auto.
        destruct SRC as [[src [EI PEER]]|[SB OUT]].
        + (* accepted an Accept message *)
          destruct O as [v0 R| b1 Hb | src0 m Hm Hdst Hr | src0 b1 Hm Hi]; try discriminate.
          apply to_input_accept in EI as [d [-> ->]]. apply NT in Hm.
          apply PMONO. exists src0, d. rewrite Ev in Hm. exact Hm.
        + (* the proposer accepted its own ballot: Accept messages went out *)
          destruct (others_nonempty i RI) as [d Hd0]. specialize (OUT d Hd0).
          exists i, d. apply SENT. right. apply MSI; auto. rewrite ME in OUT. rewrite <- SB in OUT at 1.
          assert (Eq : b = (fst b, snd b)) by (destruct b; reflexivity). rewrite Ev in OUT. exact OUT. }
    (* promised only grows, for every node *)
    assert (PRM : forall j, obal_leb (promised (nodes w j)) (promised (nodes w' j)) = true).
    { intros j. destruct (Z.eq_dec j i) as [->|N]; [rewrite NI; exact PMON|rewrite NO by auto; apply obal_leb_refl]. }
    (* a new vote of the stepping node is at or above what it had promised *)
    assert (NEWGE : forall b v, voted w' i b v -> ~ voted w i b v -> obal_leb (promised s) (Some b) = true).
    { intros b v H N. destruct (NEWV _ _ _ H) as [H0|[_ [_ [_ [MP _]]]]]; [contradiction|]. apply may_promise_leb; auto. }
    (* pfact is stable *)
    assert (PFS : forall f b ab av, pfact w f b ab av -> pfact w' f b ab av).
    { intros f b ab av [P1 [P2 P3]]. split; [|split].
      - eapply obal_leb_trans; [exact P1|apply PRM].
      - intros b' v' V L. destruct (NEWV _ _ _ V) as [V0|[-> [_ [_ [MP _]]]]]; [eauto|].
        exfalso. apply may_promise_leb in MP. fold s in MP.
        assert (X : obal_leb (Some b) (Some b') = true) by (eapply obal_leb_trans; eauto).
        cbn in X. destruct b, b'; bal.
      - intros b0 Eb. apply VMONO. auto. }
    (* a response reporting the node's current accepted pair, made while promising b *)
    assert (PFN : forall b, acc_same s s' -> promised s' = Some b -> pfact w' i b (acc_b s) (acc_v s)).
    { intros b [S1 S2] PS. split; [|split].
      - rewrite NI, PS. cbn. apply bal_leb_refl.
      - intros b' v' V L. assert (V0 : voted w i b' v').
        { apply VOT in V as [V|[_ [Eb Ev]]]; auto. rewrite S1 in Eb. rewrite S2 in Ev. subst v'. apply AC. exact Eb. }
        destruct (VM _ _ _ V0) as [b0 [Eb0 L0]]. fold s in Eb0. exists b0. split; auto.
      - intros b0 Eb. apply VMONO. apply AC in Eb. exact Eb. }
    split.
    - exact U'.
    - intros x H. apply SENT. destruct (H2 x H); auto.
    - intros src m H. apply SENT in H as [H|H]; [auto|]. destruct (MS _ _ H) as [-> [Ho R]].
      split; [exact R|]. split; [|exact RI]. specialize (SD m Ho R). cbn [peers cfg_of] in SD. apply others_In in SD. lia.
    - intros j b H. destruct (H3 _ H) as [H0|[b0 [_ E]]]; [eauto|]. inversion E; subst; auto.
    - (* votes come from proposals *)
      intros a0 b v H. destruct (NEWV _ _ _ H) as [H0|[_ [_ [_ [_ [_ P]]]]]]; [apply PMONO; exact (VP _ _ _ H0)|exact P].
    - (* accepted ballot is the greatest vote *)
      intros a0 b v H. destruct (NEWV _ _ _ H) as [H0|[-> [Eb _]]].
      + destruct (VM _ _ _ H0) as [b' [Eb' L]]. destruct (Z.eq_dec a0 i) as [->|N]; [|rewrite NO by auto; eauto].
        rewrite NI. fold s in Eb'. destruct SA as [[S1 S2]|[b0 [Eb0 [MP _]]]].
        * rewrite S1. eauto.
        * exists b0. split; auto. apply may_promise_leb in MP.
          pose proof (ni_acc _ _ (ui_ninv n w U i)) as NA. fold s in NA. rewrite Eb' in NA.
          assert (X : obal_leb (Some b') (Some b0) = true) by (eapply obal_leb_trans; eauto).
          cbn in X. eapply bal_leb_trans; eauto.
      + rewrite NI. exists b. split; auto. apply bal_leb_refl.
    - intros a0 b H. apply VOT. destruct (Z.eq_dec a0 i) as [->|N].
      + rewrite NI in *. right. auto.
      + rewrite NO in * by auto. left. auto.
    - intros src d k bn H. apply SENT in H as [H|H]; [eauto|]. destruct (MS _ _ H) as [-> [Ho _]].
      rewrite (SPP _ _ _ Ho). reflexivity.
    - (* promise messages *)
      intros src d k bn f ab av H. apply SENT in H as [H|H].
      + destruct (PM _ _ _ _ _ _ _ H) as [A [B C]]. auto.
      + destruct (MS _ _ H) as [-> [Ho _]]. destruct (SPO _ _ _ _ _ _ Ho) as [EI [-> [-> [-> [PS SAME]]]]].
        destruct O as [v0 R| b1 Hb | src0 m Hm Hdst Hr | src0 b1 Hm Hi]; try discriminate.
        apply to_input_prepare in EI as [d0 [-> ->]]. apply NT in Hm. apply PR in Hm. subst src0.
        split; [reflexivity|]. split; [|exact RI]. apply PFN; auto.
    - (* stored responses *)
      intros p k rs f ab av F I.
      destruct (Z.eq_dec p i) as [->|N]; [|rewrite NO in F by auto; destruct (RS _ _ _ _ _ _ F I); auto].
      rewrite NI in F. destruct (SPR _ _ _ F I) as [[rs0 [F0 I0]]|[[f0 [ab0 [av0 [EI ER]]]]|[ER [PS SAME]]]].
      + destruct (RS _ _ _ _ _ _ F0 I0); auto.
      + inversion ER; subst f0 ab0 av0.
        destruct O as [v0 R| b1 Hb | src0 m Hm Hdst Hr | src0 b1 Hm Hi]; try discriminate.
        apply to_input_promise in EI as [d [bn ->]]. cbn in Hdst. subst d. apply NT in Hm.
        destruct (PM _ _ _ _ _ _ _ Hm) as [A [B C]]. subst bn. auto.
      + inversion ER; subst. split; [|exact RI]. apply PFN; auto.
    - (* the safety invariant *)
      intros b v P c v1 Q L NE IQ.
      assert (KEEP : forall a0, In a0 Q -> leftb w a0 c -> ~ voted w a0 c v1 -> leftb w' a0 c /\ ~ voted w' a0 c v1).
      { intros a0 _ [p [Pp Lp]] NV. split.
        - specialize (PRM a0). rewrite Pp in PRM. destruct (promised (nodes w' a0)) as [p'|] eqn:X; [|discriminate].
          exists p'. split; auto. cbn in PRM. destruct c, p, p'; bal.
        - intros V. destruct (NEWV _ _ _ V) as [V0|[-> [_ [_ [MP _]]]]]; [contradiction|].
          apply may_promise_leb in MP. fold s in MP. unfold s in MP. rewrite Pp in MP. cbn in MP. destruct c, p; bal. }
      destruct P as [src [d P]]. apply SENT in P as [P|P].
      + (* an old proposal: the old witness still works *)
        destruct (SF b v (ex_intro _ src (ex_intro _ d P)) c v1 Q L NE IQ) as [a0 [IA [LF NV]]].
        exists a0. split; [exact IA|]. apply KEEP; auto.
      + (* phase 2 of ballot b starts in this step *)
        destruct (MS _ _ P) as [-> [Ho _]].
        destruct (SAV _ _ _ _ Ho) as [SB [rs' [F' [LEN CH]]]]. rewrite ME in SB.
        assert (Bk : b = (fst b, i)) by (destruct b; cbn in *; subst; reflexivity).
        rewrite <- NI in F'.
        assert (RSP : forall f ab av, In (f, ab, av) rs' -> pfact w' f b ab av /\ 0 <= f < n).
        { intros f ab av I. rewrite Bk. assert (AI' : forall p k rs f ab av, afind k (p1 (nodes w' p)) = Some rs -> In (f, ab, av) rs -> pfact w' f (k, p) ab av /\ 0 <= f < n).
          { intros p k rs f1 ab1 av1 F I1.
            destruct (Z.eq_dec p i) as [->|N]; [|rewrite NO in F by auto; destruct (RS _ _ _ _ _ _ F I1); auto].
            rewrite NI in F. destruct (SPR _ _ _ F I1) as [[rs0 [F0 I0]]|[[f0 [ab0 [av0 [EI ER]]]]|[ER [PS SAME]]]].
            + destruct (RS _ _ _ _ _ _ F0 I0); auto.
            + inversion ER; subst f0 ab0 av0.
              destruct O as [v0 R| b1 Hb | src0 m Hm Hdst Hr | src0 b1 Hm Hi]; try discriminate.
              apply to_input_promise in EI as [d1 [bn ->]]. cbn in Hdst. subst d1. apply NT in Hm.
              destruct (PM _ _ _ _ _ _ _ Hm) as [A [B C]]. subst bn. auto.
            + inversion ER; subst. split; [|exact RI]. apply PFN; auto. }
          eapply AI'; eauto. }
        (* in the OLD world the reported accepted pairs were voted *)
        assert (OLDV : forall f h x, In (f, Some h, x) rs' -> voted w f h x).
        { intros f h x I. rewrite NI in F'. destruct (SPR _ _ _ F' I) as [[rs0 [F0 I0]]|[[f0 [ab0 [av0 [EI ER]]]]|[ER [PS SAME]]]].
          - destruct (RS _ _ _ _ _ _ F0 I0) as [[_ [_ P3]] _]. apply P3; auto.
          - inversion ER; subst f0 ab0 av0.
            destruct O as [v0 R| b1 Hb | src0 m Hm Hdst Hr | src0 b1 Hm Hi]; try discriminate.
            apply to_input_promise in EI as [d1 [bn ->]]. apply NT in Hm.
            destruct (PM _ _ _ _ _ _ _ Hm) as [_ [[_ [_ P3]] _]]. apply P3; auto.
          - inversion ER; subst. apply AC. symmetry; auto. }
        set (Q1 := map (fun r : resp => fst (fst r)) rs').
        assert (ND1 : NoDup Q1) by (apply (HD i (fst b) rs'); auto).
        assert (RG1 : forall x, In x Q1 -> 0 <= x < n).
        { intros x Hx. apply in_map_iff in Hx as [[[f ab] av] [<- I]]. cbn. apply (RSP f ab av I). }
        assert (LN1 : Z.of_nat (length Q1) = n / 2 + 1).
        { unfold Q1. rewrite map_length, LEN. apply quorum_cfg; auto. }
        destruct IQ as [NDQ [RGQ LNQ]].
        assert (COMMON : exists N, In N Q /\ In N Q1).
        { apply (pigeon n Q Q1); auto; try lia. }
        destruct COMMON as [N [INQ INQ1]].
        apply in_map_iff in INQ1 as [[[fN abN] avN] [EN IN1]]. cbn in EN. subst fN.
        destruct (RSP _ _ _ IN1) as [[PN1 [PN2 PN3]] _].
        assert (LEFTN : leftb w' N c).
        { destruct (promised (nodes w' N)) as [p|] eqn:X; [|discriminate]. exists p. split; auto. cbn in PN1. destruct c, b, p; bal. }
        destruct CH as [NONE|[fM [h [IM MAX]]]].
        * (* no response reports an accepted ballot *)
          exists N. split; auto. split; auto. intros V. destruct (PN2 _ _ V L) as [b0 [E _]].
          subst abN. exact (NONE _ _ _ IN1).
        * pose proof (OLDV _ _ _ IM) as VM0.
          destruct (bal_ltb c h) eqn:CH1.
          -- (* c below the greatest reported ballot h: (h, v) is an older proposal *)
             destruct (SF h v (VP _ _ _ VM0) c v1 Q CH1 NE (conj NDQ (conj RGQ LNQ))) as [a0 [IA [LF NV]]].
             exists a0. split; [exact IA|]. apply KEEP; auto.
          -- destruct (bal_ltb h c) eqn:CH2.
             ++ (* every reported ballot is below c: N never voted in c *)
                exists N. split; auto. split; auto. intros V. destruct (PN2 _ _ V L) as [b0 [E LE0]].
                subst abN. specialize (MAX _ _ _ IN1). destruct c, b0, h; bal.
             ++ (* h = c: all votes in c are for v *)
                assert (h = c) by (destruct h, c; f_equal; bal). subst h.
                exists N. split; auto. split; auto. intros V.
                assert (P1 : prop w' c v1).
                { destruct (NEWV _ _ _ V) as [V0|[_ [_ [_ [_ [_ PP]]]]]]; [apply PMONO; exact (VP _ _ _ V0)|exact PP]. }
                assert (P2 : prop w' c v) by (apply PMONO; exact (VP _ _ _ VM0)).
                destruct P1 as [s1 [d1 P1]]. destruct P2 as [s2 [d2 P2]].
                apply NE. exact (ui_one n w' U' _ _ _ _ _ _ _ _ P1 P2).
  Qed.
End Agree.

(* ------------------------------------------------------------------ *)
(** * Chosen values are unique *)
Section Final.
  Variable n : Z.
  Hypothesis n2 : 2 <= n.

  (** the hypothesis holds after every step of the schedule *)
  Fixpoint dr_along (w : sys) (sch : list action) : Prop :=
    match sch with
    | [] => True
    | a :: r => distinct_responders (sys_step n w a) /\ dr_along (sys_step n w a) r
    end.

  Lemma ainv_run sch : forall w, ainv n w -> dr_along w sch -> ainv n (fold_left (sys_step n) sch w).
  Proof.
    induction sch as [|a r IH]; cbn; auto. intros w AI [D R]. apply IH; auto. apply ainv_step; auto.
  Qed.

  Lemma isq_inhabited Q : isq n Q -> exists a, In a Q.
  Proof. intros [_ [_ L]]. destruct Q as [|a r]; [cbn in L; lia|exists a; left; auto]. Qed.

  Lemma chosen_unique w b v b' v' : ainv n w -> chosen n w b v -> chosen n w b' v' -> v = v'.
  Proof.
    intros AI [Q [IQ VQ]] [Q' [IQ' VQ']].
    destruct (isq_inhabited Q IQ) as [a Ha]. destruct (isq_inhabited Q' IQ') as [a' Ha'].
    pose proof (a_vprop n w AI _ _ _ (VQ a Ha)) as P. pose proof (a_vprop n w AI _ _ _ (VQ' a' Ha')) as P'.
    destruct (bal_ltb b' b) eqn:L1.
    - destruct (option_eqb Z.eqb v' v) eqn:E.
      + destruct v, v'; cbn in E; try discriminate; auto. f_equal. lia.
      + exfalso. assert (NE : v' <> v).
        { intros ->. destruct v; cbn in E; [rewrite Z.eqb_refl in E|]; discriminate. }
        destruct (a_safe n w AI b v P b' v' Q' L1 NE IQ') as [x [Ix [_ NV]]]. apply NV. apply VQ'; auto.
    - destruct (bal_ltb b b') eqn:L2.
      + destruct (option_eqb Z.eqb v v') eqn:E.
        * destruct v, v'; cbn in E; try discriminate; auto. f_equal. lia.
        * exfalso. assert (NE : v <> v').
          { intros ->. destruct v'; cbn in E; [rewrite Z.eqb_refl in E|]; discriminate. }
          destruct (a_safe n w AI b' v' P' b v Q L2 NE IQ) as [x [Ix [_ NV]]]. apply NV. apply VQ; auto.
      + assert (b = b') by (destruct b, b'; f_equal; bal). subst b'.
        destruct P as [s1 [d1 P]]. destruct P' as [s2 [d2 P']].
        exact (ui_one n w (a_u n w AI) _ _ _ _ _ _ _ _ P P').
  Qed.

  (** AGREEMENT, partial: for every schedule (any delivery order, loss, retry
      timing, proposers, cluster size >= 2) along which phase-1 response lists
      have distinct senders, two values that are each accepted by a majority
      under some ballot are equal. *)
  Theorem chosen_unique_partial sch b v b' v' :
    dr_along sys_init sch ->
    chosen n (sys_run n sys_init sch) b v -> chosen n (sys_run n sys_init sch) b' v' -> v = v'.
  Proof.
    intros D. apply chosen_unique. unfold sys_run. apply ainv_run; auto. apply ainv_init.
  Qed.
End Final.

(** The notion is inhabited: in the demo schedule value 7 is chosen under
    ballot (1, 0) by the majority {0, 1}. *)
Example demo_chosen : chosen 3 (sys_run 3 sys_init demo_sch) (1, 0) (Some 7).
Proof.
  exists [0; 1]. split.
  - split; [repeat constructor; cbn; intuition lia|]. split; [cbn; intros a [<-|[<-|[]]]; lia|vm_compute; discriminate].
  - intros a [<-|[<-|[]]]; unfold voted; vm_compute; intuition.
Qed.
