(** C12 — the ballot order, tied to the code: the [__lt__] that
    [@dataclass(frozen=True, order=True)] generates for [Ballot] in
    consensus/paxos.py — lexicographic on the compared fields in declaration
    order, as REGENERATED from the class body on every run ([Gen/PaxosGen.v],
    py2coq) — is the model's [bal_ltb] on (number, node id), a strict total
    order.  (Node ids are strings in the code and integers in the models: the
    harness names nodes so that both orders agree.) *)
From HS Require Import Base.Prelude Base.PyLib C12.Model Gen.PaxosGen.
Local Open Scope Z_scope.

Definition bal_of (b : Ballot) : ballot := (Ballot_number b, Ballot_node_id b).

Lemma ballot_lt_spec (a b : Ballot) :
  Ballot___lt__ a b = true <->
  Ballot_number a < Ballot_number b \/ (Ballot_number a = Ballot_number b /\ Ballot_node_id a < Ballot_node_id b).
Proof. unfold Ballot___lt__. tie_split; cbn; lia. Qed.

Lemma tie_ballot_lt (a b : Ballot) : Ballot___lt__ a b = bal_ltb (bal_of a) (bal_of b).
Proof.
  apply Bool.eq_true_iff_eq. rewrite ballot_lt_spec. unfold bal_ltb, bal_of; cbn.
  destruct (Ballot_number a =? Ballot_number b) eqn:E; lia.
Qed.

Lemma ballot_lt_strict_total (a b c : Ballot) :
  Ballot___lt__ a a = false
  /\ (Ballot___lt__ a b = true -> Ballot___lt__ b c = true -> Ballot___lt__ a c = true)
  /\ (Ballot___lt__ a b = true \/ Ballot___lt__ b a = true \/ bal_of a = bal_of b).
Proof.
  pose proof (ballot_lt_spec a a) as Haa. pose proof (ballot_lt_spec a b) as Hab. pose proof (ballot_lt_spec b c) as Hbc.
  pose proof (ballot_lt_spec a c) as Hac. pose proof (ballot_lt_spec b a) as Hba.
  repeat split.
  - destruct (Ballot___lt__ a a); [|reflexivity]. exfalso. destruct Haa as [Haa _]. specialize (Haa eq_refl). lia.
  - intros H1 H2. apply Hac. apply Hab in H1. apply Hbc in H2. lia.
  - destruct (Ballot___lt__ a b); [left; reflexivity|]. destruct (Ballot___lt__ b a); [right; left; reflexivity|].
    right; right. destruct Hab as [_ Hab], Hba as [_ Hba].
    assert (~ (Ballot_number a < Ballot_number b \/ Ballot_number a = Ballot_number b /\ Ballot_node_id a < Ballot_node_id b)) by (intros X; specialize (Hab X); discriminate).
    assert (~ (Ballot_number b < Ballot_number a \/ Ballot_number b = Ballot_number a /\ Ballot_node_id b < Ballot_node_id a)) by (intros X; specialize (Hba X); discriminate).
    unfold bal_of. f_equal; lia.
Qed.

(** [PaxosNode.quorum_size] as regenerated is the model's [quorum], and it is a strict
    majority of the cluster (the node and its peers): two quorums always intersect. *)
Lemma tie_paxos_quorum (n : PaxosNode) (c : pcfg) :
  length (peers c) = length (PaxosNode__peers n) -> PaxosNode_quorum_size n = quorum c.
Proof. intros H. unfold PaxosNode_quorum_size, quorum. rewrite H. reflexivity. Qed.

Lemma paxos_quorum_majority (n : PaxosNode) :
  let total := Z.of_nat (length (PaxosNode__peers n)) + 1 in
  2 * PaxosNode_quorum_size n > total /\ PaxosNode_quorum_size n <= total.
Proof. unfold PaxosNode_quorum_size. cbn zeta. split; lia. Qed.
