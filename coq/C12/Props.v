(** Property C12 — the theorems the check counts as obligations.  Nothing but
    statements closed by [exact] and [Print Assumptions]. *)
From HS Require Import Base.Prelude Base.PyLib C12.Model C12.PaxosNode C12.PaxosSys C12.PaxosAgree C12.PaxosFull C12.PaxosDecide C12.LockModel C12.Lock C12.MultiModel C12.Multi C12.ElectionModel C12.Election Gen.PaxosGen C12.GenTie.
From Coq Require Import Sorted.
Local Open Scope Z_scope.

(** Acceptor: the promised ballot never decreases, whatever the handler is given. *)
Theorem c12_paxos_promise_monotone : forall c s i,
  obal_leb (promised s) (promised (fst (step c s i))) = true.
Proof. exact step_promise_monotone. Qed.
Print Assumptions c12_paxos_promise_monotone.

(** Acceptor: after any sequence of handler calls the accepted ballot is at
    most the promised ballot. *)
Theorem c12_paxos_accepted_le_promised : forall c l,
  obal_leb (acc_b (nrun c pinit l)) (promised (nrun c pinit l)) = true.
Proof. exact accepted_le_promised. Qed.
Print Assumptions c12_paxos_accepted_le_promised.

(** A reported decision never changes: once [is_decided], every later
    sequence of handler calls leaves [is_decided] and [decided_value] as they are. *)
Theorem c12_paxos_decision_stable : forall c l l',
  decided (nrun c pinit l) = true ->
  decided (nrun c pinit (l ++ l')) = true /\ dec_v (nrun c pinit (l ++ l')) = dec_v (nrun c pinit l).
Proof. exact decision_stable_run. Qed.
Print Assumptions c12_paxos_decision_stable.

(** A proposer's future, when resolved, carries the node's decided value. *)
Theorem c12_paxos_future_value : forall c l f v,
  In (f, v) (resolved (nrun c pinit l)) ->
  decided (nrun c pinit l) = true /\ v = dec_v (nrun c pinit l).
Proof. exact future_value. Qed.
Print Assumptions c12_paxos_future_value.

(** VALIDITY, every schedule (any delivery order, loss, retry timing, client
    proposals, cluster size): a node that reports a decision reports a value
    that some client proposed — never Python's None. *)
Theorem c12_paxos_validity : forall n sch i ov,
  report (sys_run n sys_init sch) i = Some ov ->
  exists v, ov = Some v /\ In v (proposed (sys_run n sys_init sch)).
Proof. exact validity. Qed.
Print Assumptions c12_paxos_validity.

(** ... and so does every Promise / Accept / Decided message ever sent. *)
Theorem c12_paxos_validity_messages : forall n sch src o,
  In (src, o) (sent (sys_run n sys_init sch)) ->
  out_ok (fun v => In v (proposed (sys_run n sys_init sch))) o.
Proof. exact validity_messages. Qed.
Print Assumptions c12_paxos_validity_messages.

(** Every schedule: all Accept messages ever sent for one ballot carry one
    value (phase 2 starts once per ballot) — the invariant whose failure was
    finding C12-paxos-phase2-rerun. *)
Theorem c12_paxos_one_value_per_ballot : forall n sch s1 d1 s2 d2 k b x1 x2,
  In (s1, OAccept d1 k b x1) (sent (sys_run n sys_init sch)) ->
  In (s2, OAccept d2 k b x2) (sent (sys_run n sys_init sch)) -> x1 = x2.
Proof. exact one_value_per_ballot. Qed.
Print Assumptions c12_paxos_one_value_per_ballot.

(** The network never duplicates a message: whatever the schedule, the
    phase-1 responses a proposer holds for a ballot come from distinct nodes. *)
Theorem c12_paxos_distinct_responders : forall n sch, distinct_responders (sys_run n sys_init sch).
Proof. exact distinct_responders_always. Qed.
Print Assumptions c12_paxos_distinct_responders.

(** Classical Paxos consistency on the faithful model, every schedule of a
    cluster of at least 2 nodes: two values each accepted by a majority under
    some ballot are equal. *)
Theorem c12_paxos_chosen_unique : forall n, 2 <= n -> forall sch b v b' v',
  chosen n (sys_run n sys_init sch) b v -> chosen n (sys_run n sys_init sch) b' v' -> v = v'.
Proof. exact chosen_unique_always. Qed.
Print Assumptions c12_paxos_chosen_unique.

(** A node that reports a decision reports a chosen value (the proposer's
    Accepted tally counts distinct voters of its ballot; Decided messages carry
    chosen values). *)
Theorem c12_paxos_decided_is_chosen : forall n, 2 <= n -> forall sch i x,
  report (sys_run n sys_init sch) i = Some x -> exists b, chosen n (sys_run n sys_init sch) b x.
Proof. exact decided_is_chosen. Qed.
Print Assumptions c12_paxos_decided_is_chosen.

(** AGREEMENT (full statement for single-decree Paxos, on the repaired code):
    under any message delays, reordering, loss, partitions, retry timings and
    competing proposers, for every cluster size >= 2, any two nodes that report
    a decided value report the same value — also at two different moments of
    the run. *)
Theorem c12_paxos_agreement : forall n, 2 <= n -> forall sch ext i j x y,
  report (sys_run n sys_init sch) i = Some x -> report (sys_run n sys_init (sch ++ ext)) j = Some y -> x = y.
Proof. exact agreement_over_time. Qed.
Print Assumptions c12_paxos_agreement.

(** FENCING TOKENS: for every sequence of acquire / try_acquire / release /
    lease-expiry calls (any lock names, requesters, tokens, waiter limit), the
    tokens handed out by successive grants are strictly increasing. *)
Theorem c12_lock_tokens_strictly_increase : forall maxw ops,
  StronglySorted Z.lt (map tok (glog (lrun maxw dinit ops))).
Proof. exact tokens_strictly_increase. Qed.
Print Assumptions c12_lock_tokens_strictly_increase.

(** Every grant a client receives through a future and the grant of every
    current holder is one of those grants (a re-entrant acquire returns the
    existing grant). *)
Theorem c12_lock_grants_are_logged : forall maxw ops,
  (forall f g, In (f, Some g) (lresolved (lrun maxw dinit ops)) -> In g (glog (lrun maxw dinit ops))) /\
  (forall k l h, In (k, l) (locks (lrun maxw dinit ops)) -> holder l = Some h ->
     In (k, ltoken l, h) (glog (lrun maxw dinit ops))).
Proof. exact grants_are_logged. Qed.
Print Assumptions c12_lock_grants_are_logged.

(** Multi-Paxos / Flexible Paxos, any quorum sizes, any sequence of handler
    calls: the state machine is given entries 1, 2, ..., _last_applied in that
    order, once each; the commit index stays inside the log. *)
Theorem c12_mpaxos_apply_in_order : forall c me l,
  let s := mrun c (minit me) l in
  consecutive 1 (mapp s) /\ mapplied s = zlen (mapp s) /\ 0 <= mcommit s <= zlen (mlog s) /\ mcommit s <= mapplied s.
Proof. exact multi_apply_in_order. Qed.
Print Assumptions c12_mpaxos_apply_in_order.

(** Per-slot agreement is REFUTED on the faithful model of MultiPaxosNode
    (leader takeover; known finding C12-mpaxos-takeover-overwrites-slot) ... *)
Theorem c12_multipaxos_slot_agreement_refuted : ~ slot_agreement_statement false.
Proof. exact multipaxos_slot_agreement_refuted. Qed.
Print Assumptions c12_multipaxos_slot_agreement_refuted.

(** ... and of FlexiblePaxosNode with intersecting quorums, even with a single
    leader and no loss (reordered Accepts; C12-mpaxos-accept-appended-at-wrong-slot). *)
Theorem c12_flexpaxos_slot_agreement_refuted : ~ slot_agreement_statement true.
Proof. exact flexpaxos_slot_agreement_refuted. Qed.
Print Assumptions c12_flexpaxos_slot_agreement_refuted.

(** Leader liveness is REFUTED for both (C12-mpaxos-submit-not-replicated):
    a fault-free run ends with a quiet network, a leader holding the command in
    its log, and a node that never applied it. *)
Theorem c12_flexpaxos_leader_liveness_refuted : ~ leader_liveness_statement true.
Proof. exact flexpaxos_leader_liveness_refuted. Qed.
Print Assumptions c12_flexpaxos_leader_liveness_refuted.

Theorem c12_multipaxos_leader_liveness_refuted : ~ leader_liveness_statement false.
Proof. exact multipaxos_leader_liveness_refuted. Qed.
Print Assumptions c12_multipaxos_leader_liveness_refuted.

(** The two mechanisms behind it, for every state: submit() sends nothing, and
    MultiPaxosNode steps down on its own heartbeat tick. *)
Theorem c12_mpaxos_submit_sends_nothing : forall c s cmd, snd (mstep c s (MSubmit cmd)) = [].
Proof. exact submit_sends_nothing. Qed.
Print Assumptions c12_mpaxos_submit_sends_nothing.

Theorem c12_multipaxos_own_tick_demotes : forall c s bn bnode commit,
  mflex c = false -> bal_leb (mbal s) (bn, bnode) = true ->
  misl (fst (mstep c s (MHeartbeat bn bnode commit true))) = false.
Proof. exact multipaxos_own_tick_demotes. Qed.
Print Assumptions c12_multipaxos_own_tick_demotes.

(** LEADER ELECTION (Bully, Ring, Randomized), all nodes configured with the
    same member map: under any delays, reordering, loss, timeout timing and
    random draws, any two nodes that ever report a leader — at any two moments
    of the run, for the same term or not — report the same one. *)
Theorem c12_election_one_leader : forall members mx, In mx members -> (forall m, In m members -> m <= mx) ->
  forall strat tmo hb sch ext i j a b,
  Forall (act_ok members) (sch ++ ext) ->
  eleader (enodes (esys_run (cf members strat tmo hb) sch) i) = Some a ->
  eleader (enodes (esys_run (cf members strat tmo hb) (sch ++ ext)) j) = Some b -> a = b.
Proof. exact one_leader. Qed.
Print Assumptions c12_election_one_leader.

(* ---------------- code level: the ballot order as regenerated by py2coq ---------------- *)

(** The order of the CODE's ballots: the comparison [@dataclass(frozen=True, order=True)] generates
    for [Ballot] (lexicographic on the compared fields in declaration order; regenerated from the
    class body of consensus/paxos.py on every run, Gen/PaxosGen.v) is the model's [bal_ltb] on
    (number, node id), and a strict total order — what "one value per ballot" and the promise /
    accept comparisons of every Paxos theorem above rest on.  (dataclass derives <=, >, >= from
    the same field tuple.) *)
Theorem c12_code_ballot_order : forall a b c : Ballot,
  Ballot___lt__ a b = bal_ltb (bal_of a) (bal_of b)
  /\ Ballot___lt__ a a = false
  /\ (Ballot___lt__ a b = true -> Ballot___lt__ b c = true -> Ballot___lt__ a c = true)
  /\ (Ballot___lt__ a b = true \/ Ballot___lt__ b a = true \/ bal_of a = bal_of b).
Proof. intros a b c. exact (conj (tie_ballot_lt a b) (ballot_lt_strict_total a b c)). Qed.
Print Assumptions c12_code_ballot_order.

(** The quorum of the CODE: PaxosNode.quorum_size, regenerated from consensus/paxos.py on every run, is
    the model's [quorum] for a configuration with as many peers, and a strict majority of the cluster
    (node + peers), so any two quorums intersect — what "chosen unique" and agreement rest on. *)
Theorem c12_code_quorum_is_majority : forall (n : PaxosNode) (c : pcfg),
  (length (peers c) = length (PaxosNode__peers n) -> PaxosNode_quorum_size n = quorum c)
  /\ (let total := Z.of_nat (length (PaxosNode__peers n)) + 1 in
      2 * PaxosNode_quorum_size n > total /\ PaxosNode_quorum_size n <= total).
Proof. intros n c. exact (conj (tie_paxos_quorum n c) (paxos_quorum_majority n)). Qed.
Print Assumptions c12_code_quorum_is_majority.
