(** Property C12 — the theorems the check counts as obligations.  Nothing but
    statements closed by [exact] and [Print Assumptions]. *)
From HS Require Import Base.Prelude C12.Model C12.PaxosNode.
Local Open Scope Z_scope.

(** Acceptor: the promised ballot never decreases, whatever the handler is given. *)
Theorem c12_paxos_promise_monotone : forall c s i,
  obal_leb (promised s) (promised (fst (step c s i))) = true.
Proof. exact step_promise_monotone. Qed.
Print Assumptions c12_paxos_promise_monotone.

(** Acceptor: after any sequence of handler calls the accepted ballot is at
    most the promised ballot. *)
Theorem c12_paxos_accepted_le_promised : forall c l,
  obal_leb (acc_b (nrun c pinit l)) (promised (nrun c pinit l)) = true.
Proof. exact accepted_le_promised. Qed.
Print Assumptions c12_paxos_accepted_le_promised.

(** A reported decision never changes: once [is_decided], every later
    sequence of handler calls leaves [is_decided] and [decided_value] as they are. *)
Theorem c12_paxos_decision_stable : forall c l l',
  decided (nrun c pinit l) = true ->
  decided (nrun c pinit (l ++ l')) = true /\ dec_v (nrun c pinit (l ++ l')) = dec_v (nrun c pinit l).
Proof. exact decision_stable_run. Qed.
Print Assumptions c12_paxos_decision_stable.

(** A proposer's future, when resolved, carries the node's decided value. *)
Theorem c12_paxos_future_value : forall c l f v,
  In (f, v) (resolved (nrun c pinit l)) ->
  decided (nrun c pinit l) = true /\ v = dec_v (nrun c pinit l).
Proof. exact future_value. Qed.
Print Assumptions c12_paxos_future_value.
