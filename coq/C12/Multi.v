(** C12 — Multi-Paxos / Flexible Paxos: what holds of the code as written
    (commands are applied in slot order without gaps, the commit index stays
    inside the log) and concrete schedules on which per-slot agreement and the
    leader-liveness clause fail. *)
From HS Require Import Base.Prelude C12.Model C12.PaxosNode C12.MultiModel.
Local Open Scope Z_scope.

(* ------------------------------------------------------------------ *)
(** * Applied in order, without gaps *)

(** indices of the applied list are 1, 2, ..., _last_applied *)
Fixpoint consecutive (from : Z) (l : list (Z * Z)) : Prop :=
  match l with
  | [] => True
  | (i, _) :: r => i = from /\ consecutive (from + 1) r
  end.

Lemma consecutive_snoc l : forall from i c, consecutive from l -> i = from + zlen l -> consecutive from (l ++ [(i, c)]).
Proof.
  induction l as [|[j d] r IH]; cbn; intros from i c H E.
  - unfold zlen in E; cbn in E. split; auto; lia.
  - destruct H as [-> H]. split; auto. apply IH; auto. unfold zlen in *. cbn [length] in E. lia.
Qed.

Record minv (s : mstate) : Prop := {
  mi_commit_lo : 0 <= mcommit s;
  mi_commit_hi : mcommit s <= zlen (mlog s);
  mi_commit_app : mcommit s <= mapplied s;
  mi_app_len : mapplied s = zlen (mapp s);
  mi_app : consecutive 1 (mapp s);
}.

Lemma minv_init me : minv (minit me).
Proof. split; cbn; unfold zlen; cbn; auto; lia. Qed.

(** Everything but log / commit / applied / mapp is irrelevant to [minv]. *)
Lemma minv_same s s' : mlog s' = mlog s -> mcommit s' = mcommit s -> mapplied s' = mapplied s -> mapp s' = mapp s -> minv s -> minv s'.
Proof. intros E1 E2 E3 E4 [A B C D E]. split; rewrite ?E1, ?E2, ?E3, ?E4; auto. Qed.

Lemma minv_grow s s' ext : mlog s' = mlog s ++ ext -> mcommit s' = mcommit s -> mapplied s' = mapplied s -> mapp s' = mapp s -> minv s -> minv s'.
Proof. intros E1 E2 E3 E4 [A B C D E]. split; rewrite ?E1, ?E2, ?E3, ?E4; auto. unfold zlen in *. rewrite app_length. lia. Qed.

(** [apply_range] starting at an index not beyond _last_applied + 1 keeps the
    applied list gap-free; it leaves log and commit alone. *)
Lemma apply_range_spec es : forall s idx,
  mapplied s = zlen (mapp s) -> consecutive 1 (mapp s) -> idx <= mapplied s + 1 ->
  let s' := apply_range s idx es in
  mlog s' = mlog s /\ mcommit s' = mcommit s /\ mapplied s' = zlen (mapp s') /\ consecutive 1 (mapp s') /\
  mapplied s <= mapplied s' /\ (idx + zlen es - 1 <= mapplied s').
Proof.
  induction es as [|[t cmd] r IH]; intros s idx L C I; cbn [apply_range].
  - cbn. repeat split; auto; unfold zlen; cbn; lia.
  - destruct (mapplied s <? idx) eqn:E.
    + assert (idx = mapplied s + 1) by lia. subst idx.
      set (s1 := mkM _ _ _ _ _ _ _ _ _ _ _ _ _).
      assert (L1 : mapplied s1 = zlen (mapp s1)).
      { cbn. unfold zlen in *. rewrite app_length. cbn. lia. }
      assert (C1 : consecutive 1 (mapp s1)).
      { cbn. apply consecutive_snoc; auto. lia. }
      destruct (IH s1 (mapplied s + 1 + 1) L1 C1 ltac:(cbn; lia)) as [A [B [D [F [G H]]]]].
      cbn in *. repeat split; auto; try lia. unfold zlen in *. cbn [length]. lia.
    + destruct (IH s (idx + 1) L C ltac:(lia)) as [A [B [D [F [G H]]]]].
      repeat split; auto. unfold zlen in *. cbn [length]. lia.
Qed.

Lemma firstn_skipn_len {A} (l : list A) a b : (a + b <= length l)%nat -> length (firstn b (skipn a l)) = b.
Proof. intros H. rewrite firstn_length, skipn_length. lia. Qed.

Lemma advance_minv s new : minv s -> minv (advance s new).
Proof.
  intros [A B C D E]. unfold advance. destruct (new <=? mcommit s) eqn:N; [split; auto|].
  set (c := Z.min new (zlen (mlog s))).
  set (s1 := mkM _ c _ _ _ _ _ _ _ _ _ _ _).
  set (es := firstn _ _).
  assert (Les : zlen es = c - mcommit s).
  { unfold es, zlen. rewrite firstn_skipn_len; [lia|]. unfold zlen in *. lia. }
  destruct (apply_range_spec es s1 (mcommit s + 1) D E ltac:(cbn; lia)) as [A1 [B1 [D1 [F1 [G1 H1]]]]].
  split; rewrite ?A1, ?B1; cbn; auto; try lia.
Qed.

Lemma assign_slot_minv s cmd f : minv s -> minv (assign_slot s cmd f).
Proof. apply (minv_grow s _ [(fst (mbal s), cmd)]); reflexivity. Qed.

Lemma become_leader_minv c s : minv s -> minv (fst (become_leader c s)).
Proof.
  intros I. unfold become_leader. cbn [fst].
  set (s1 := mkM _ _ _ _ (Some (mme c)) true _ _ _ _ _ _ _).
  assert (I1 : minv s1) by (apply (minv_same s); auto).
  assert (G : forall l st, minv st -> minv (fold_left (fun st cf => assign_slot st (fst cf) (snd cf)) l st)).
  { induction l; cbn; auto. intros st H. apply IHl, assign_slot_minv, H. }
  specialize (G (mpend s1) s1 I1). revert G. generalize (fold_left (fun st cf => assign_slot st (fst cf) (snd cf)) (mpend s1) s1).
  intros s2 I2. apply (minv_same s2); auto.
Qed.

Lemma truncate_minv s idx : minv s -> minv (truncate s idx).
Proof.
  intros [A B C D E]. unfold truncate. destruct ((idx <? 1) || (zlen (mlog s) <? idx)) eqn:G; [split; auto|].
  apply orb_false_elim in G as [G1 G2].
  split; cbn; auto.
  - destruct (idx <=? mcommit s) eqn:X; lia.
  - unfold zlen in *. rewrite firstn_length. destruct (idx <=? mcommit s) eqn:X; lia.
  - destruct (idx <=? mcommit s) eqn:X; lia.
Qed.

Lemma mstep_minv c s i : minv s -> minv (fst (mstep c s i)).
Proof.
  intros I. destruct i; cbn [mstep].
  - set (s1 := mkM _ _ _ _ _ _ _ _ _ _ _ _ _). assert (I1 : minv s1) by (apply (minv_same s); auto).
    destruct (mq1 c <=? 1); [|auto].
    pose proof (become_leader_minv c s1 I1). destruct (become_leader c s1); auto.
  - set (s1 := mkM _ _ _ _ _ _ _ _ _ _ _ _ _). assert (I1 : minv s1) by (apply (minv_same s); auto).
    destruct (misl s); cbn [fst]; [apply assign_slot_minv; auto|apply (minv_same s1); auto].
  - destruct (negb _); [auto|]. destruct (bal_ltb _ _); [auto|]. apply (minv_same s); auto.
  - destruct (afind bn (mp1 s)); [|auto].
    set (s1 := mkM _ _ _ _ _ _ _ _ _ _ _ _ _). assert (I1 : minv s1) by (apply (minv_same s); auto).
    destruct (mq1 c <=? z + 1); [|auto]. apply become_leader_minv; auto.
  - destruct (negb _); [auto|]. destruct (bal_ltb _ _); [auto|]. cbn [fst].
    set (s1 := set_bal s _ _ _). assert (I1 : minv s1) by (apply (minv_same s); auto).
    set (s2 := if zlen (mlog s1) <? slot then _ else _).
    assert (I2 : minv s2).
    { unfold s2. destruct (zlen (mlog s1) <? slot).
      - apply (minv_grow s1 _ [(bn, cmd)]); auto.
      - destruct (lget1 (mlog s1) slot) as [[t x]|]; auto. destruct (negb (t =? bn)); auto.
        apply (minv_grow (truncate s1 slot) _ [(bn, cmd)]); auto. apply truncate_minv; auto. }
    destruct (mcommit s2 <? commit); auto. apply advance_minv; auto.
  - set (s1 := mkM _ _ _ _ _ _ _ _ _ _ _ _ _). assert (I1 : minv s1) by (apply (minv_same s); auto).
    destruct ((mq2 c <=? _) && _); cbn [fst]; auto. apply advance_minv; auto.
  - destruct (mflex c && self); [destruct (misl s); auto|].
    destruct (bal_leb _ _); [|auto]. cbn [fst].
    set (s1 := set_bal s _ _ _). assert (I1 : minv s1) by (apply (minv_same s); auto).
    destruct (mcommit s1 <? commit); auto. apply advance_minv; auto.
  - destruct (bal_ltb _ _); [|auto]. apply (minv_same s); auto.
Qed.

Fixpoint mrun (c : mcfg) (s : mstate) (l : list min) : mstate :=
  match l with [] => s | i :: r => mrun c (fst (mstep c s i)) r end.

Lemma mrun_minv c l : forall s, minv s -> minv (mrun c s l).
Proof. induction l; cbn; auto. intros s H. apply IHl, mstep_minv, H. Qed.

(** APPLY IN ORDER (both MultiPaxosNode and FlexiblePaxosNode, any quorum
    sizes, any sequence of handler calls): the state machine has been given
    the entries 1, 2, ..., _last_applied, once each, in that order; the commit
    index is inside the log and never ahead of what was applied. *)
Theorem multi_apply_in_order c me l :
  let s := mrun c (minit me) l in
  consecutive 1 (mapp s) /\ mapplied s = zlen (mapp s) /\ 0 <= mcommit s <= zlen (mlog s) /\ mcommit s <= mapplied s.
Proof. destruct (mrun_minv c l (minit me) (minv_init me)) as [A B C D E]. cbn. repeat split; auto. Qed.

(* ------------------------------------------------------------------ *)
(** * Per-slot agreement: refuted *)

(** The C12 statement for the slots of Multi-Paxos / Flexible Paxos: whatever
    the schedule, two nodes that report a decided command for the same slot
    report the same command. *)
Definition slot_agreement_statement (flex : bool) : Prop :=
  forall n q1 q2 sch i j s x y, 3 <= n <= 5 -> q1 + q2 > n ->
  decided_slot (msys_run n q1 q2 flex sch) i s = Some x ->
  decided_slot (msys_run n q1 q2 flex sch) j s = Some y -> x = y.

(** Witness 1 (takeover, MultiPaxosNode, 3 nodes): node 0 leads ballot (1,0),
    commits command 10 in slot 1 with node 1; node 2 then wins ballot (1,2)
    with node 1's promise — [_become_leader] ignores the promised log — and
    commits its own command 20 in slot 1. *)
Definition takeover_sch : list maction :=
  [MAStart 0; MASubmit 0 10; MADeliver 0; MADeliver 1; MADeliver 3; MADeliver 4;
   MASubmit 2 20; MAStart 2; MADeliver 5; MADeliver 5; MADeliver 8; MADeliver 8].

Lemma takeover_witness :
  decided_slot (msys_run 3 2 2 false takeover_sch) 0 1 = Some 10 /\
  decided_slot (msys_run 3 2 2 false takeover_sch) 2 1 = Some 20.
Proof. vm_compute. auto. Qed.

Theorem multipaxos_slot_agreement_refuted : ~ slot_agreement_statement false.
Proof.
  intros H. destruct takeover_witness as [A B].
  specialize (H 3 2 2 takeover_sch 0 2 1 10 20 ltac:(lia) ltac:(lia) A B). clear - H. lia.
Qed.

(** Witness 2 (reordering, FlexiblePaxosNode, 3 nodes, ONE leader, no loss):
    the Accept for slot 2 overtakes the Accept for slot 1; [_handle_accept]
    appends it at index 1; after the commit index spreads, node 1 reports
    command 20 for slot 1 while the leader reports 10. *)
Definition reorder_sch : list maction :=
  [MAStart 0; MASubmit 0 10; MASubmit 0 20; MADeliver 0; MADeliver 1; MADeliver 5; MADeliver 6; MATick 0; MADeliver 6].

Lemma reorder_witness :
  decided_slot (msys_run 3 2 2 true reorder_sch) 0 1 = Some 10 /\
  decided_slot (msys_run 3 2 2 true reorder_sch) 1 1 = Some 20.
Proof. vm_compute. auto. Qed.

Theorem flexpaxos_slot_agreement_refuted : ~ slot_agreement_statement true.
Proof.
  intros H. destruct reorder_witness as [A B].
  specialize (H 3 2 2 reorder_sch 0 1 1 10 20 ltac:(lia) ltac:(lia) A B). clear - H. lia.
Qed.

(* ------------------------------------------------------------------ *)
(** * Leader liveness: refuted *)

(** [submit] on a node that believes it is the leader sends nothing. *)
Theorem submit_sends_nothing c s cmd : snd (mstep c s (MSubmit cmd)) = [].
Proof. cbn. destruct (misl s); reflexivity. Qed.

(** The liveness clause: once the network is quiet, a command in the log of a
    node that is leader has been applied at every node. *)
Definition leader_liveness_statement (flex : bool) : Prop :=
  forall n q1 q2 sch i cmd t, 3 <= n <= 5 -> q1 + q2 > n ->
  let w := msys_run n q1 q2 flex sch in
  mnet w = [] -> misl (mnodes w i) = true -> In (t, cmd) (mlog (mnodes w i)) ->
  forall j, 0 <= j < n -> In cmd (map snd (mapp (mnodes w j))).

(** Witness: 3 nodes, fault-free, every message delivered; node 0 is the
    established leader, then a client submits 10; two heartbeat rounds later
    the network is quiet and nobody has applied (or even received) it. *)
Definition quiet_sch : list maction :=
  [MAStart 0; MADeliver 0; MADeliver 0; MADeliver 0; MADeliver 0; MADeliver 0; MADeliver 0; MADeliver 0; MADeliver 0;
   MASubmit 0 10; MATick 0; MADeliver 0; MADeliver 0; MATick 0; MADeliver 0; MADeliver 0].

Lemma quiet_witness :
  let w := msys_run 3 2 2 true quiet_sch in
  mnet w = [] /\ misl (mnodes w 0) = true /\ mlog (mnodes w 0) = [(1, 10)] /\ mapp (mnodes w 1) = [].
Proof. vm_compute. auto. Qed.

Theorem flexpaxos_leader_liveness_refuted : ~ leader_liveness_statement true.
Proof.
  intros H. destruct quiet_witness as [A [B [C D]]].
  specialize (H 3 2 2 quiet_sch 0 10 1 ltac:(lia) ltac:(lia) A B).
  rewrite C in H. specialize (H ltac:(left; reflexivity) 1 ltac:(lia)). rewrite D in H. exact H.
Qed.

(** MultiPaxosNode: the leader's own heartbeat tick makes it step down. *)
Theorem multipaxos_own_tick_demotes c s bn bnode commit :
  mflex c = false -> bal_leb (mbal s) (bn, bnode) = true ->
  misl (fst (mstep c s (MHeartbeat bn bnode commit true))) = false.
Proof.
  intros F L. cbn [mstep]. rewrite F. cbn [andb]. rewrite L. cbn [fst].
  destruct (mcommit _ <? commit); [|reflexivity].
  unfold advance. destruct (commit <=? _); [reflexivity|].
  assert (G : forall es s i, misl (apply_range s i es) = misl s).
  { induction es as [|[t x] r IH]; cbn; auto. intros s0 i0. rewrite IH. destruct (mapplied s0 <? i0); reflexivity. }
  rewrite G. reflexivity.
Qed.

Definition multi_quiet_sch : list maction :=
  [MAStart 0; MADeliver 0; MADeliver 0; MADeliver 0; MADeliver 0; MADeliver 0; MADeliver 0; MADeliver 0; MADeliver 0;
   MASubmit 0 10].

Lemma multi_quiet_witness :
  let w := msys_run 3 2 2 false multi_quiet_sch in
  mnet w = [] /\ misl (mnodes w 0) = true /\ mlog (mnodes w 0) = [(1, 10)] /\ mapp (mnodes w 1) = [].
Proof. vm_compute. auto. Qed.

Theorem multipaxos_leader_liveness_refuted : ~ leader_liveness_statement false.
Proof.
  intros H. destruct multi_quiet_witness as [A [B [C D]]].
  specialize (H 3 2 2 multi_quiet_sch 0 10 1 ltac:(lia) ltac:(lia) A B).
  rewrite C in H. specialize (H ltac:(left; reflexivity) 1 ltac:(lia)). rewrite D in H. exact H.
Qed.
