(** C12 — facts about the whole Paxos cluster (message soup): invariants of
    [sys_step] that hold after EVERY schedule (any delivery order, any loss,
    any retry timing, any client proposals, any cluster size). *)
From HS Require Import Base.Prelude C12.Model C12.PaxosNode.
Local Open Scope Z_scope.

(* ------------------------------------------------------------------ *)
(** * Induction principle over schedules *)

Lemma sys_run_app n w a b : sys_run n w (a ++ b) = sys_run n (sys_run n w a) b.
Proof. unfold sys_run. apply fold_left_app. Qed.

Lemma sys_run_inv n (P : sys -> Prop) :
  P sys_init -> (forall w a, P w -> P (sys_step n w a)) -> forall sch, P (sys_run n sys_init sch).
Proof.
  intros H0 HS sch. unfold sys_run.
  assert (G : forall l w, P w -> P (fold_left (sys_step n) l w)).
  { induction l; cbn; auto. }
  apply G, H0.
Qed.

Lemma In_remove_nth {A} k (l : list A) x : In x (remove_nth k l) -> In x l.
Proof. revert l; induction k; intros [|y r]; cbn; auto. intros [H|H]; auto. Qed.

(** Every step is the identity, a removal of a message, or one handler call
    whose input is a client proposal, a pending timer, or a message in flight. *)
Inductive origin (n : Z) (w : sys) (i : Z) : pin -> Prop :=
| or_client v : 0 <= i < n -> origin n w i (IPropose v)
| or_timer b : In (i, b) (timers w) -> origin n w i (IRetry b)
| or_msg src m : In (src, m) (net w) -> dst_of m = i -> is_retry m = false -> origin n w i (to_input src m)
| or_timer_as_msg src b : In (src, ORetry b) (net w) -> i = -1 -> origin n w i (IRetry b).

Definition handled (n : Z) (w : sys) (i : Z) (inp : pin) (w' : sys) : Prop :=
  let '(s', outs) := step (cfg_of n i) (nodes w i) inp in
  let msgs := map (fun o => (i, o)) (filter (fun o => negb (is_retry o)) outs) in
  nodes w' = upd_node (nodes w) i s' /\
  (forall x, In x (net w') -> In x (net w) \/ In x msgs) /\
  (forall x, In x (timers w') -> In x (timers w) \/ exists b, In (ORetry b) outs /\ x = (i, b)) /\
  sent w' = sent w ++ msgs /\
  (proposed w' = proposed w \/ exists v, inp = IPropose v /\ proposed w' = v :: proposed w) /\
  (forall v, inp = IPropose v -> In v (proposed w')) /\
  votes w' = votes w ++ match acc_b s' with Some b => [(i, b, acc_v s')] | None => [] end.

Lemma sys_handle_handled n w i inp net' timers' proposed' :
  (forall x, In x net' -> In x (net w)) -> (forall x, In x timers' -> In x (timers w)) ->
  (proposed' = proposed w \/ exists v, inp = IPropose v /\ proposed' = v :: proposed w) ->
  (forall v, inp = IPropose v -> In v proposed') ->
  handled n w i inp (sys_handle n w i inp net' timers' proposed').
Proof.
  intros Hn Ht Hp Hv. unfold handled, sys_handle. destruct (step (cfg_of n i) (nodes w i) inp) as [s' outs]. cbn.
  repeat split; auto.
  - intros x H. apply in_app_or in H as [H|H]; auto.
  - intros x H. apply in_app_or in H as [H|H]; auto. right.
    apply in_flat_map in H as [o [Ho Hx]]. destruct o; cbn in Hx; try contradiction.
    destruct Hx as [<-|[]]. eauto.
Qed.

Lemma sys_step_cases n w a :
  sys_step n w a = w \/
  (nodes (sys_step n w a) = nodes w /\ sent (sys_step n w a) = sent w /\ proposed (sys_step n w a) = proposed w /\
   (forall x, In x (net (sys_step n w a)) -> In x (net w)) /\ timers (sys_step n w a) = timers w /\
   votes (sys_step n w a) = votes w) \/
  exists i inp, origin n w i inp /\ handled n w i inp (sys_step n w a).
Proof.
  destruct a; cbn.
  - destruct (nth_error (net w) k) as [[src m]|] eqn:E; [|auto]. right; right.
    apply nth_error_In in E.
    exists (dst_of m), (to_input src m). split.
    + destruct (is_retry m) eqn:R.
      * destruct m; try discriminate. cbn. eapply or_timer_as_msg; eauto.
      * eapply or_msg; eauto.
    + apply sys_handle_handled; auto.
      * intros x; apply In_remove_nth.
      * intros v H. destruct m; discriminate.
  - right; left. cbn. repeat split; auto. intros x; apply In_remove_nth.
  - destruct (nth_error (timers w) k) as [[i b]|] eqn:E; [|auto]. right; right.
    apply nth_error_In in E. exists i, (IRetry b). split; [constructor; auto|].
    apply sys_handle_handled; auto.
    + intros x; apply In_remove_nth.
    + intros v H; discriminate.
  - destruct ((0 <=? i) && (i <? n)) eqn:RG; [|auto]. right; right.
    exists i, (IPropose v). split; [constructor; lia|].
    apply sys_handle_handled; auto.
    + right; eauto.
    + intros v' H; inversion H; left; auto.
Qed.

(* ------------------------------------------------------------------ *)
(** * Validity: every value in the system was proposed by a client *)

Local Hint Constructors Forall : core.
Section Validity.
  Variable P : Z -> Prop.

  Definition okv (ov : option Z) : Prop := exists v, ov = Some v /\ P v.

  Definition resp_ok (r : resp) : Prop := let '(_, ab, av) := r in ab <> None -> okv av.

  Record nvalid (s : pstate) : Prop := {
    nv_acc : acc_b s <> None -> okv (acc_v s);
    nv_pvals : forall k ov, In (k, ov) (pvals s) -> okv ov;
    nv_p1 : forall k rs r, In (k, rs) (p1 s) -> In r rs -> resp_ok r;
    nv_dec : decided s = true -> okv (dec_v s);
  }.

  Definition in_ok (i : pin) : Prop :=
    match i with
    | IPropose v => P v
    | IPromise _ _ ab av => ab <> None -> okv av
    | IAccept _ _ _ v => okv v
    | IDecided v => okv v
    | _ => True
    end.

  Definition out_ok (o : pout) : Prop :=
    match o with
    | OPromise _ _ _ _ ab av => ab <> None -> okv av
    | OAccept _ _ _ v => okv v
    | ODecided _ v => okv v
    | _ => True
    end.

  Lemma nvalid_init : nvalid pinit.
  Proof. split; cbn; try congruence; intros; contradiction. Qed.

  Lemma choose_ok rs : forall hi v, Forall resp_ok rs -> okv v -> okv (choose rs hi v).
  Proof.
    induction rs as [|[[f ab] av] r IH]; cbn; auto. intros hi v F V. inversion F; subst.
    destruct ab as [a|]; [|auto]. assert (okv av) by (apply H1; congruence).
    destruct hi as [h|]; [destruct (bal_ltb h a)|]; auto.
  Qed.

  Lemma decide_valid c s bn v : nvalid s -> okv v ->
    nvalid (fst (decide c s bn v)) /\ Forall out_ok (snd (decide c s bn v)).
  Proof.
    intros [A B C D] V. unfold decide. destruct (decided s) eqn:E; cbn; [split; [split; auto|constructor]|].
    split.
    - destruct (afind bn (futs s)); split; cbn; auto.
    - apply Forall_forall. intros o H. apply in_map_iff in H as [p [<- _]]. exact V.
  Qed.

  Lemma start_phase1_valid c s : nvalid s ->
    nvalid (fst (start_phase1 c s)) /\ Forall out_ok (snd (start_phase1 c s)).
  Proof.
    intros [A B C D]. unfold start_phase1.
    assert (O : Forall out_ok (map (fun p : Z => OPrepare p (cur s) (me c)) (peers c))).
    { apply Forall_forall. intros o H. apply in_map_iff in H as [p [<- _]]. exact I. }
    destruct (may_promise s (cur s, me c)); [|split; [split; auto|auto]].
    destruct (afind (cur s) (p1 s)) eqn:F; cbn; (split; [split; cbn; auto|auto]).
    intros k rs r H1 H2. apply In_aset in H1 as [H1|H1]; [|eauto].
    inversion H1; subst. apply in_app_or in H2 as [H2|[<-|[]]].
    - apply afind_In in F. eauto.
    - exact A.
  Qed.

  Lemma start_phase2_valid c s bn : nvalid s -> amem bn (pvals s) = true ->
    nvalid (fst (start_phase2 c s bn)) /\ Forall out_ok (snd (start_phase2 c s bn)).
  Proof.
    intros NV M. pose proof NV as [A B C D]. unfold start_phase2.
    set (rs := match afind bn (p1 s) with Some rs => rs | None => [] end).
    assert (V : okv (choose rs None (oget bn (pvals s)))).
    { apply choose_ok.
      - unfold rs. destruct (afind bn (p1 s)) eqn:F; [|constructor]. apply afind_In in F.
        apply Forall_forall. intros r Hr. eapply C; eauto.
      - unfold oget, amem in *. destruct (afind bn (pvals s)) eqn:F; [|discriminate]. apply afind_In in F. eauto. }
    set (v := choose rs None (oget bn (pvals s))) in *.
    set (s1 := set_pvals s _). set (s2 := if may_promise s1 (bn, me c) then _ else _).
    assert (N1 : nvalid s1).
    { split; cbn; auto. intros k ov H. apply In_aset in H as [H|H]; [inversion H; subst; auto|eauto]. }
    assert (N2 : nvalid s2).
    { unfold s2. destruct (may_promise s1 (bn, me c)); auto. destruct N1 as [A1 B1 C1 D1]. split; cbn; auto. }
    assert (O : Forall out_ok (map (fun p : Z => OAccept p bn (me c) v) (peers c))).
    { apply Forall_forall. intros o H. apply in_map_iff in H as [p [<- _]]. exact V. }
    destruct (quorum c <=? _); cbn; auto.
    destruct (decide_valid c s2 bn v N2 V) as [X Y]. destruct (decide c s2 bn v); cbn in *.
    split; auto. apply Forall_app; auto.
  Qed.

  Lemma step_valid c s i : nvalid s -> in_ok i ->
    nvalid (fst (step c s i)) /\ Forall out_ok (snd (step c s i)).
  Proof.
    intros NV IO. pose proof NV as [A B C D]. destruct i; cbn [step]; cbn in IO.
    - destruct (decided s) eqn:DD; [split; [split; cbn; auto|constructor]|].
      apply start_phase1_valid. split; cbn; auto.
      + intros k ov H. apply In_aset in H as [H|H]; [inversion H; subst; exists v; auto|eauto].
      + intros k rs r H H2. apply In_aset in H as [H|H]; [inversion H; subst; contradiction|eauto].
      + congruence.
    - destruct (negb (is_peer c src)); [cbn; split; auto|].
      destruct (may_promise s (bn, bnode)); cbn.
      + split; [split; cbn; auto|constructor; auto].
      + destruct (promised s); cbn; split; auto; constructor; cbn; auto.
    - destruct (afind bn (p1 s)) eqn:F; [|cbn; split; auto].
      set (s1 := set_p1 s _).
      assert (N1 : nvalid s1).
      { split; cbn; auto. intros k rs r H H2. apply In_aset in H as [H|H]; [|eauto].
        inversion H; subst. apply in_app_or in H2 as [H2|[<-|[]]]; [|exact IO].
        apply afind_In in F; eauto. }
      match goal with |- context [if ?b && ?d then _ else _] => destruct b; cbn [andb]; [destruct d eqn:M|] end; try (cbn; split; auto; fail).
      apply start_phase2_valid; auto.
    - set (s1 := if cur s <? hn then set_cur s hn else s).
      assert (N1 : nvalid s1) by (unfold s1; destruct (cur s <? hn); [split; cbn; auto|auto]).
      destruct (amem bn (pvals s1)); cbn; split; auto.
    - destruct (negb (is_peer c src)); [cbn; split; auto|].
      destruct (may_promise s (bn, bnode)); cbn.
      + split; [split; cbn; auto|constructor; cbn; auto].
      + destruct (promised s); cbn; split; auto; constructor; cbn; auto.
    - set (s1 := set_p2 s _). assert (N1 : nvalid s1) by (split; cbn; auto).
      destruct (amem bn (pvals s1)) eqn:M; cbn [negb]; [|cbn; split; auto].
      match goal with |- context [if ?b then _ else _] => destruct b end; [|cbn; split; auto].
      apply decide_valid; auto.
      unfold oget, amem in *. destruct (afind bn (pvals s1)) eqn:F; [|discriminate]. apply afind_In in F.
      destruct N1 as [_ B1 _ _]. eauto.
    - destruct (decided s); [cbn; split; auto|]. split; [split; cbn; auto|constructor].
    - destruct (decided s) eqn:DD; [cbn; split; auto|]. destruct (afind orig (pvals s)) eqn:F; [|cbn; split; auto].
      apply afind_In in F. assert (okv o) by eauto.
      apply start_phase1_valid.
      destruct (afind orig (futs _)); split; cbn; auto; try congruence.
      all: try (intros k ov H1; apply In_adel in H1; apply In_aset in H1 as [H1|H1]; [inversion H1; subst; auto|eauto]; fail).
      all: intros k rs r H1 H2; apply In_aset in H1 as [H1|H1]; [inversion H1; subst; contradiction|eauto].
  Qed.
End Validity.

Lemma okv_mono (P Q : Z -> Prop) ov : (forall v, P v -> Q v) -> okv P ov -> okv Q ov.
Proof. intros H [v [E p]]. exists v; auto. Qed.

Lemma nvalid_mono (P Q : Z -> Prop) s : (forall v, P v -> Q v) -> nvalid P s -> nvalid Q s.
Proof.
  intros H [A B C D]. split; intros; eauto using okv_mono.
  specialize (C _ _ _ H0 H1). destruct r as [[f ab] av]. cbn in *. intros X; eauto using okv_mono.
Qed.

Definition msg_ok (P : Z -> Prop) (x : Z * pout) : Prop := out_ok P (snd x).

Record vinv (w : sys) : Prop := {
  vi_nodes : forall i, nvalid (fun v => In v (proposed w)) (nodes w i);
  vi_sent : forall x, In x (sent w) -> msg_ok (fun v => In v (proposed w)) x;
  vi_net : forall x, In x (net w) -> In x (sent w);
}.

Lemma out_ok_mono (P Q : Z -> Prop) o : (forall v, P v -> Q v) -> out_ok P o -> out_ok Q o.
Proof. intros H. destruct o; cbn; auto; intros; eauto using okv_mono. Qed.

Lemma vinv_step n w a : vinv w -> vinv (sys_step n w a).
Proof.
  intros [N S T]. destruct (sys_step_cases n w a) as [E|[[E1 [E2 [E3 [E4 [E5 E6]]]]]|[i [inp [O Hd]]]]].
  - rewrite E; split; auto.
  - split; rewrite ?E1, ?E2, ?E3; auto.
  - unfold handled in Hd. destruct (step (cfg_of n i) (nodes w i) inp) as [s' outs] eqn:ST.
    destruct Hd as [H1 [H2 [H3 [H4 [H5 [H6 H7]]]]]].
    set (P := fun v => In v (proposed w)). set (Q := fun v => In v (proposed (sys_step n w a))).
    assert (PQ : forall v, P v -> Q v).
    { unfold P, Q. destruct H5 as [->|[v0 [_ ->]]]; cbn; auto. }
    assert (IO : in_ok Q inp).
    { destruct O as [v| |src m Hm Hd Hr|]; cbn; auto.
      - apply H6; auto.
      - apply T, S in Hm. unfold msg_ok in Hm. cbn in Hm.
        destruct m; cbn in *; auto; try discriminate; intros; eauto using okv_mono. }
    destruct (step_valid Q (cfg_of n i) (nodes w i) inp (nvalid_mono P Q _ PQ (N i)) IO) as [NV OV].
    rewrite ST in NV, OV; cbn in NV, OV.
    assert (MS : forall x, In x (map (fun o => (i, o)) (filter (fun o => negb (is_retry o)) outs)) -> msg_ok Q x).
    { intros x Hx. apply in_map_iff in Hx as [o [<- Ho]]. apply filter_In in Ho as [Ho _].
      unfold msg_ok; cbn. eapply Forall_forall in OV; eauto. }
    split.
    + intros j. rewrite H1. unfold upd_node. destruct (j =? i); auto. apply (nvalid_mono P Q); auto.
    + intros x Hx. rewrite H4 in Hx. apply in_app_or in Hx as [Hx|Hx]; auto.
      apply S in Hx. unfold msg_ok in *. eapply out_ok_mono; eauto.
    + intros x Hx. rewrite H4. apply in_or_app. destruct (H2 x Hx); auto.
Qed.

Lemma vinv_init : vinv sys_init.
Proof. split; cbn; try contradiction. intros i. apply nvalid_init. Qed.

(** VALIDITY: whatever the schedule, a node that reports a decision reports a
    value some client proposed (in particular never Python's None). *)
Theorem validity n sch i ov :
  report (sys_run n sys_init sch) i = Some ov ->
  exists v, ov = Some v /\ In v (proposed (sys_run n sys_init sch)).
Proof.
  pose proof (sys_run_inv n vinv vinv_init (vinv_step n) sch) as [N _ _].
  unfold report. specialize (N i). destruct (decided (nodes _ i)) eqn:D; [|discriminate].
  intros E; inversion E; subst. destruct N as [_ _ _ ND]. apply (ND D).
Qed.

(** Same for accepted values and for every Accept / Decided message ever sent. *)
Theorem validity_messages n sch src o :
  In (src, o) (sent (sys_run n sys_init sch)) ->
  out_ok (fun v => In v (proposed (sys_run n sys_init sch))) o.
Proof.
  pose proof (sys_run_inv n vinv vinv_init (vinv_step n) sch) as [_ S _]. intros H. apply (S _ H).
Qed.

(* ------------------------------------------------------------------ *)
(** * One value per ballot

    Phase 2 of a ballot starts exactly when its list of phase-1 responses
    reaches the quorum size, so it starts at most once; every Accept message
    ever sent for one ballot carries the same value. *)

(** [_phase1_responses] only grows: keys are never removed, lists only extended. *)
Definition p1_le (s s' : pstate) : Prop :=
  forall k rs, afind k (p1 s) = Some rs -> exists ext, afind k (p1 s') = Some (rs ++ ext).

Lemma p1_le_refl s : p1_le s s.
Proof. intros k rs H. exists []. rewrite app_nil_r. auto. Qed.

Lemma p1_le_same s s' : p1 s' = p1 s -> p1_le s s'.
Proof. intros E k rs H. exists []. rewrite app_nil_r, E. auto. Qed.

Lemma p1_le_trans a b c : p1_le a b -> p1_le b c -> p1_le a c.
Proof. intros H1 H2 k rs H. destruct (H1 k rs H) as [e1 E1]. destruct (H2 _ _ E1) as [e2 E2].
  exists (e1 ++ e2). rewrite app_assoc. auto. Qed.

Lemma decide_p1 c s bn v : p1 (fst (decide c s bn v)) = p1 s.
Proof. unfold decide. destruct (decided s); cbn; auto. destruct (afind bn (futs s)); reflexivity. Qed.

Lemma start_phase1_p1_le c s : p1_le s (fst (start_phase1 c s)).
Proof.
  unfold start_phase1. destruct (may_promise _ _); [|apply p1_le_refl].
  destruct (afind (cur s) (p1 s)) eqn:F; cbn; [|apply p1_le_same; reflexivity].
  intros k rs H. cbn. destruct (Z.eq_dec k (cur s)) as [->|N].
  - rewrite afind_aset_same. rewrite F in H. inversion H; subst. eauto.
  - rewrite afind_aset_other by auto. exists []. rewrite app_nil_r; auto.
Qed.

Lemma start_phase2_p1 c s bn : p1 (fst (start_phase2 c s bn)) = p1 s.
Proof.
  unfold start_phase2. set (v := choose _ _ _). set (s1 := set_pvals s _).
  set (s2 := if may_promise s1 (bn, me c) then _ else _).
  assert (H2 : p1 s2 = p1 s) by (unfold s2; destruct (may_promise s1 (bn, me c)); reflexivity).
  destruct (quorum c <=? _); cbn; auto.
  pose proof (decide_p1 c s2 bn v) as D. destruct (decide c s2 bn v); cbn in *. congruence.
Qed.

Lemma aset_fresh_p1_le s k (l : list resp) s' :
  (forall j, amem j (p1 s) = true -> j < k) -> p1 s' = aset k l (p1 s) -> p1_le s s'.
Proof.
  intros Fr E j rs H. exists []. rewrite app_nil_r, E. rewrite afind_aset_other; auto.
  assert (amem j (p1 s) = true) by (unfold amem; rewrite H; auto). apply Fr in H0. lia.
Qed.

Lemma step_p1_le c s i : ninv c s -> p1_le s (fst (step c s i)).
Proof.
  intros [A B C]. destruct i; cbn [step].
  - destruct (decided s); [apply p1_le_same; reflexivity|].
    eapply p1_le_trans; [|apply start_phase1_p1_le].
    eapply aset_fresh_p1_le; [|reflexivity]. intros j H. apply C in H. destruct (promised s); lia.
  - destruct (negb (is_peer c src)); [apply p1_le_refl|]. destruct (may_promise _ _); [apply p1_le_same; reflexivity|].
    destruct (promised s); apply p1_le_refl.
  - destruct (afind bn (p1 s)) eqn:F; [|apply p1_le_refl].
    assert (L : p1_le s (set_p1 s (aset bn (l ++ [(from, ab, av)]) (p1 s)))).
    { intros k rs H. cbn. destruct (Z.eq_dec k bn) as [->|N].
      - rewrite afind_aset_same. rewrite F in H; inversion H; subst; eauto.
      - rewrite afind_aset_other by auto. exists []; rewrite app_nil_r; auto. }
    match goal with |- context [if ?b then _ else _] => destruct b end; [|exact L].
    eapply p1_le_trans; [exact L|]. apply p1_le_same. apply start_phase2_p1.
  - destruct (cur s <? hn); match goal with |- context [if ?b then _ else _] => destruct b end; apply p1_le_same; reflexivity.
  - destruct (negb (is_peer c src)); [apply p1_le_refl|]. destruct (may_promise _ _); [apply p1_le_same; reflexivity|].
    destruct (promised s); apply p1_le_refl.
  - match goal with |- context [if negb ?b then _ else _] => destruct b end; cbn [negb]; [|apply p1_le_same; reflexivity].
    match goal with |- context [if ?b then _ else _] => destruct b end; [|apply p1_le_same; reflexivity].
    apply p1_le_same. rewrite decide_p1. reflexivity.
  - destruct (decided s); [apply p1_le_refl|apply p1_le_same; reflexivity].
  - destruct (decided s); [apply p1_le_refl|]. destruct (afind orig (pvals s)); [|apply p1_le_refl].
    eapply p1_le_trans; [|apply start_phase1_p1_le].
    eapply aset_fresh_p1_le; [|destruct (afind orig (futs _)); reflexivity].
    intros j H. apply C in H. lia.
Qed.

(** Accept messages produced by one handler call: only by the proposer of the
    ballot, only at the moment the response list reaches the quorum, all with
    one value. *)
Lemma decide_no_accept c s bn v d k b x : ~ In (OAccept d k b x) (snd (decide c s bn v)).
Proof. unfold decide. destruct (decided s); cbn; auto. intros H. apply in_map_iff in H as [p [E _]]. discriminate. Qed.

Lemma start_phase1_no_accept c s d k b x : ~ In (OAccept d k b x) (snd (start_phase1 c s)).
Proof.
  unfold start_phase1. assert (G : ~ In (OAccept d k b x) (map (fun p : Z => OPrepare p (cur s) (me c)) (peers c))).
  { intros H. apply in_map_iff in H as [p [E _]]. discriminate. }
  destruct (may_promise _ _); auto. destruct (afind _ _); auto.
Qed.

Lemma start_phase2_accepts c s bn d k b x :
  In (OAccept d k b x) (snd (start_phase2 c s bn)) ->
  k = bn /\ b = me c /\ x = choose (match afind bn (p1 s) with Some rs => rs | None => [] end) None (oget bn (pvals s)).
Proof.
  unfold start_phase2. set (v := choose _ _ _). set (s1 := set_pvals s _).
  set (s2 := if may_promise s1 (bn, me c) then _ else _).
  assert (G : In (OAccept d k b x) (map (fun p : Z => OAccept p bn (me c) v) (peers c)) -> k = bn /\ b = me c /\ x = v).
  { intros H. apply in_map_iff in H as [p [E _]]. inversion E; auto. }
  destruct (quorum c <=? _); cbn; auto.
  pose proof (decide_no_accept c s2 bn v d k b x) as D. destruct (decide c s2 bn v); cbn in *.
  intros H. apply in_app_or in H as [H|H]; auto. contradiction.
Qed.

Lemma step_accepts c s i d k b x :
  In (OAccept d k b x) (snd (step c s i)) ->
  b = me c /\
  exists rs r, afind k (p1 s) = Some rs /\ Z.of_nat (length rs) + 1 = quorum c /\
    afind k (p1 (fst (step c s i))) = Some (rs ++ [r]) /\
    forall d' k' b' x', In (OAccept d' k' b' x') (snd (step c s i)) -> k' = k /\ x' = x.
Proof.
  destruct i; cbn [step].
  - destruct (decided s); cbn; [tauto|]. intros H. apply start_phase1_no_accept in H. contradiction.
  - destruct (negb (is_peer c src)); cbn; [tauto|]. destruct (may_promise _ _); cbn; [intros [H|[]]; discriminate|].
    destruct (promised s); cbn; [intros [H|[]]; discriminate|tauto].
  - destruct (afind bn (p1 s)) eqn:F; cbn; [|tauto].
    destruct (Z.of_nat (length (l ++ [(from, ab, av)])) =? quorum c) eqn:Q; cbn [andb]; [|cbn; tauto].
    match goal with |- context [if ?b then _ else _] => destruct b end; [|cbn; tauto].
    set (s1 := set_p1 s _). intros H. pose proof (start_phase2_accepts c s1 bn d k b x H) as [-> [-> ->]].
    split; auto. exists l, (from, ab, av). repeat split; auto.
    + rewrite app_length in Q. cbn in Q. lia.
    + rewrite start_phase2_p1. cbn. apply afind_aset_same.
    + apply (start_phase2_accepts c s1 bn d' k' b' x' H0).
    + pose proof (start_phase2_accepts c s1 bn d' k' b' x' H0) as [_ [_ ->]]. reflexivity.
  - destruct (cur s <? hn); match goal with |- context [if ?b then _ else _] => destruct b end; cbn; try tauto; intros [H|[]]; discriminate.
  - destruct (negb (is_peer c src)); cbn; [tauto|]. destruct (may_promise _ _); cbn; [intros [H|[]]; discriminate|].
    destruct (promised s); cbn; [intros [H|[]]; discriminate|tauto].
  - match goal with |- context [if negb ?b then _ else _] => destruct b end; cbn [negb]; [|cbn; tauto].
    match goal with |- context [if ?b then _ else _] => destruct b end; [|cbn; tauto].
    intros H. apply decide_no_accept in H. contradiction.
  - destruct (decided s); cbn; tauto.
  - destruct (decided s); cbn; [tauto|]. destruct (afind orig (pvals s)); cbn; [|tauto].
    intros H. apply start_phase1_no_accept in H. contradiction.
Qed.

Record uinv (n : Z) (w : sys) : Prop := {
  ui_ninv : forall i, ninv (cfg_of n i) (nodes w i);
  ui_src : forall src d k b x, In (src, OAccept d k b x) (sent w) ->
    src = b /\ exists rs, afind k (p1 (nodes w b)) = Some rs /\ quorum (cfg_of n b) <= Z.of_nat (length rs);
  ui_one : forall s1 d1 s2 d2 k b x1 x2,
    In (s1, OAccept d1 k b x1) (sent w) -> In (s2, OAccept d2 k b x2) (sent w) -> x1 = x2;
}.

Lemma uinv_init n : uinv n sys_init.
Proof. split; cbn; try contradiction. intros i; apply ninv_init. Qed.

Lemma uinv_step n w a : uinv n w -> uinv n (sys_step n w a).
Proof.
  intros [N S U]. destruct (sys_step_cases n w a) as [E|[[E1 [E2 [E3 [E4 [E5 E6]]]]]|[i [inp [O Hd]]]]].
  - rewrite E; split; auto.
  - split; rewrite ?E1, ?E2; auto.
  - unfold handled in Hd. pose proof (step_ninv (cfg_of n i) (nodes w i) inp (N i)) as NI.
    pose proof (step_p1_le (cfg_of n i) (nodes w i) inp (N i)) as PL.
    pose proof (step_accepts (cfg_of n i) (nodes w i) inp) as SA.
    destruct (step (cfg_of n i) (nodes w i) inp) as [s' outs] eqn:ST. cbn in NI, PL, SA.
    destruct Hd as [H1 [H2 [H3 [H4 [H5 [H6 H7]]]]]].
    assert (NEW : forall src d k b x, In (src, OAccept d k b x) (map (fun o => (i, o)) (filter (fun o => negb (is_retry o)) outs)) ->
                  src = i /\ In (OAccept d k b x) outs).
    { intros src d k b x H. apply in_map_iff in H as [o [Eo Ho]]. inversion Eo; subst. apply filter_In in Ho as [Ho _]. auto. }
    assert (OLD : forall src d k b x, In (src, OAccept d k b x) (sent w) ->
       src = b /\ exists rs, afind k (p1 (nodes (sys_step n w a) b)) = Some rs /\ quorum (cfg_of n b) <= Z.of_nat (length rs)).
    { intros src d k b x H. destruct (S _ _ _ _ _ H) as [-> [rs [F L]]]. split; auto.
      rewrite H1. unfold upd_node. destruct (b =? i) eqn:Eb; [|eauto].
      assert (b = i) by lia; subst. destruct (PL _ _ F) as [ext Fx]. exists (rs ++ ext). split; auto.
      rewrite app_length. lia. }
    split.
    + intros j. rewrite H1. unfold upd_node. destruct (j =? i) eqn:Ej; auto. assert (j = i) by lia; subst; auto.
    + intros src d k b x H. rewrite H4 in H. apply in_app_or in H as [H|H]; [eauto|].
      apply NEW in H as [-> H]. destruct (SA _ _ _ _ H) as [-> [rs [r [F [L [F' _]]]]]]. cbn. split; auto.
      exists (rs ++ [r]). rewrite H1. unfold upd_node. rewrite Z.eqb_refl. split; auto.
      rewrite app_length. cbn. cbn in L. lia.
    + intros s1 d1 s2 d2 k b x1 x2 A1 A2. rewrite H4 in A1, A2.
      apply in_app_or in A1 as [A1|A1]; apply in_app_or in A2 as [A2|A2].
      * eauto.
      * apply NEW in A2 as [-> A2]. destruct (SA _ _ _ _ A2) as [-> [rs [r [F [L _]]]]]. cbn in *.
        destruct (S _ _ _ _ _ A1) as [_ [rs' [F' L']]]. rewrite F in F'. inversion F'; subst. lia.
      * apply NEW in A1 as [-> A1]. destruct (SA _ _ _ _ A1) as [-> [rs [r [F [L _]]]]]. cbn in *.
        destruct (S _ _ _ _ _ A2) as [_ [rs' [F' L']]]. rewrite F in F'. inversion F'; subst. lia.
      * apply NEW in A1 as [-> A1]. apply NEW in A2 as [_ A2].
        destruct (SA _ _ _ _ A1) as [_ [rs [r [_ [_ [_ X]]]]]]. destruct (X _ _ _ _ A2); auto.
Qed.

(** ONE VALUE PER BALLOT: whatever the schedule, any two Accept messages ever
    sent for the same ballot carry the same value. *)
Theorem one_value_per_ballot n sch s1 d1 s2 d2 k b x1 x2 :
  In (s1, OAccept d1 k b x1) (sent (sys_run n sys_init sch)) ->
  In (s2, OAccept d2 k b x2) (sent (sys_run n sys_init sch)) -> x1 = x2.
Proof. apply (sys_run_inv n (uinv n) (uinv_init n) (uinv_step n) sch). Qed.

(** The hypotheses are satisfiable: a 3-node schedule in which node 0 decides
    the proposed value, its future resolves with it, and Accept messages exist. *)
Definition demo_sch : list action :=
  [AClient 0 7; ADeliver 0; ADeliver 1; ADeliver 1; ADeliver 2; ADeliver 0; ADeliver 0; ADeliver 0; ADeliver 0].

Example demo_decides :
  report (sys_run 3 sys_init demo_sch) 0 = Some (Some 7) /\
  report (sys_run 3 sys_init demo_sch) 1 = Some (Some 7) /\
  resolved (nodes (sys_run 3 sys_init demo_sch) 0) = [(0, Some 7)] /\
  In (0, OAccept 1 1 0 (Some 7)) (sent (sys_run 3 sys_init demo_sch)).
Proof. vm_compute. intuition. Qed.
