(** C12 — executable model of happysimulator/components/consensus/paxos.py
    (PaxosNode: proposer + acceptor + learner), one [step] per handler call,
    and of the network of such nodes as a message soup.

    No proofs here.  Node ids are [Z] (the harness names node i "p<i>", so the
    string order of names is the order of ids), values are [option Z]
    ([None] is Python's None, which the code can put into messages), ballots
    are pairs (number, node id) ordered lexicographically like the
    [@dataclass(order=True)] Ballot.  Python dicts are association lists in
    insertion order. *)
From HS Require Import Base.Prelude.
Local Open Scope Z_scope.

(* ------------------------------------------------------------------ *)
(** * Ballots *)
Definition ballot := (Z * Z)%type.

Definition bal_ltb (a b : ballot) : bool :=
  (fst a <? fst b) || ((fst a =? fst b) && (snd a <? snd b)).
Definition bal_leb (a b : ballot) : bool := negb (bal_ltb b a).
Definition bal_eqb (a b : ballot) : bool := (fst a =? fst b) && (snd a =? snd b).

(** [None] is below every ballot (the code tests [is None] first). *)
Definition obal_leb (a b : option ballot) : bool :=
  match a, b with
  | None, _ => true
  | Some _, None => false
  | Some x, Some y => bal_leb x y
  end.

(* ------------------------------------------------------------------ *)
(** * Association lists (dict with insertion order) *)
Section Assoc.
  Context {V : Type}.
  Fixpoint afind (k : Z) (l : list (Z * V)) : option V :=
    match l with
    | [] => None
    | (k', v) :: r => if k =? k' then Some v else afind k r
    end.
  Definition amem (k : Z) (l : list (Z * V)) : bool :=
    match afind k l with Some _ => true | None => false end.
  (** [d[k] = v]: in place when the key exists, appended otherwise. *)
  Fixpoint aset (k : Z) (v : V) (l : list (Z * V)) : list (Z * V) :=
    match l with
    | [] => [(k, v)]
    | (k', v') :: r => if k =? k' then (k, v) :: r else (k', v') :: aset k v r
    end.
  Fixpoint adel (k : Z) (l : list (Z * V)) : list (Z * V) :=
    match l with
    | [] => []
    | (k', v') :: r => if k =? k' then r else (k', v') :: adel k r
    end.
End Assoc.

(* ------------------------------------------------------------------ *)
(** * Node state, inputs, outputs *)

(** One phase-1 response as stored in [_phase1_responses]:
    (from, accepted_ballot, accepted_value). *)
Definition resp := (Z * option ballot * option Z)%type.

Record pstate := mkP {
  promised : option ballot;          (* _promised_ballot *)
  acc_b : option ballot;             (* _accepted_ballot *)
  acc_v : option Z;                  (* _accepted_value *)
  cur : Z;                           (* _current_ballot.number (node is always self) *)
  futs : list (Z * Z);               (* _proposal_futures: ballot number -> future id *)
  p1 : list (Z * list resp);         (* _phase1_responses *)
  p2 : list (Z * Z);                 (* _phase2_responses *)
  pvals : list (Z * option Z);       (* _proposed_values *)
  decided : bool;                    (* _decided *)
  dec_v : option Z;                  (* _decided_value *)
  nfid : Z;                          (* futures created so far (id of the next one) *)
  resolved : list (Z * option Z)     (* resolved futures: id, value *)
}.

Definition pinit : pstate :=
  mkP None None None 0 [] [] [] [] false None 0 [].

Record pcfg := mkC { me : Z; peers : list Z }.

Definition quorum (c : pcfg) : Z := (Z.of_nat (length (peers c)) + 1) / 2 + 1.

Inductive pin :=
| IPropose (v : Z)                                   (* client: propose(v); start_phase1() unless already decided *)
| IPrepare (src bn bnode : Z)
| IPromise (bn from : Z) (ab : option ballot) (av : option Z)
| INack (bn hn : Z)
| IAccept (src bn bnode : Z) (v : option Z)
| IAccepted (bn : Z)
| IDecided (v : option Z)
| IRetry (orig : Z).

Inductive pout :=
| OPrepare (dst bn bnode : Z)
| OPromise (dst bn bnode from : Z) (ab : option ballot) (av : option Z)
| ONack (dst bn bnode hn hnode : Z)
| OAccept (dst bn bnode : Z) (v : option Z)
| OAccepted (dst bn bnode from : Z)
| ODecided (dst : Z) (v : option Z)
| ORetry (orig : Z).

Definition set_promised s x := mkP x (acc_b s) (acc_v s) (cur s) (futs s) (p1 s) (p2 s) (pvals s) (decided s) (dec_v s) (nfid s) (resolved s).
Definition set_acc s b v := mkP (promised s) b v (cur s) (futs s) (p1 s) (p2 s) (pvals s) (decided s) (dec_v s) (nfid s) (resolved s).
Definition set_cur s x := mkP (promised s) (acc_b s) (acc_v s) x (futs s) (p1 s) (p2 s) (pvals s) (decided s) (dec_v s) (nfid s) (resolved s).
Definition set_futs s x := mkP (promised s) (acc_b s) (acc_v s) (cur s) x (p1 s) (p2 s) (pvals s) (decided s) (dec_v s) (nfid s) (resolved s).
Definition set_p1 s x := mkP (promised s) (acc_b s) (acc_v s) (cur s) (futs s) x (p2 s) (pvals s) (decided s) (dec_v s) (nfid s) (resolved s).
Definition set_p2 s x := mkP (promised s) (acc_b s) (acc_v s) (cur s) (futs s) (p1 s) x (pvals s) (decided s) (dec_v s) (nfid s) (resolved s).
Definition set_pvals s x := mkP (promised s) (acc_b s) (acc_v s) (cur s) (futs s) (p1 s) (p2 s) x (decided s) (dec_v s) (nfid s) (resolved s).
Definition set_dec s v := mkP (promised s) (acc_b s) (acc_v s) (cur s) (futs s) (p1 s) (p2 s) (pvals s) true v (nfid s) (resolved s).
Definition add_resolved s f v := mkP (promised s) (acc_b s) (acc_v s) (cur s) (futs s) (p1 s) (p2 s) (pvals s) (decided s) (dec_v s) (nfid s) (resolved s ++ [(f, v)]).
Definition bump_fid s := mkP (promised s) (acc_b s) (acc_v s) (cur s) (futs s) (p1 s) (p2 s) (pvals s) (decided s) (dec_v s) (nfid s + 1) (resolved s).

(** [ballot >= promised] with [promised is None] accepted. *)
Definition may_promise (s : pstate) (b : ballot) : bool :=
  match promised s with None => true | Some p => bal_leb p b end.

(** [_find_peer] *)
Definition is_peer (c : pcfg) (src : Z) : bool := existsb (Z.eqb src) (peers c).

(** [_decide] *)
Definition decide (c : pcfg) (s : pstate) (bn : Z) (v : option Z) : pstate * list pout :=
  if decided s then (s, [])
  else
    let s1 := set_dec s v in
    let s2 := match afind bn (futs s1) with Some f => add_resolved s1 f v | None => s1 end in
    (s2, map (fun p => ODecided p v) (peers c)).

(** [start_phase1]: Prepare to every peer, then the self-promise
    [_handle_prepare_internal]. *)
Definition start_phase1 (c : pcfg) (s : pstate) : pstate * list pout :=
  let b := (cur s, me c) in
  let outs := map (fun p => OPrepare p (cur s) (me c)) (peers c) in
  if may_promise s b then
    let s1 := set_promised s (Some b) in
    match afind (cur s) (p1 s) with
    | Some rs => (set_p1 s1 (aset (cur s) (rs ++ [(me c, acc_b s, acc_v s)]) (p1 s)), outs)
    | None => (s1, outs)
    end
  else (s, outs).

(** The value choice of [_start_phase2]: the accepted value with the highest
    accepted ballot among the responses, else the proposer's own value. *)
Fixpoint choose (rs : list resp) (hi : option ballot) (v : option Z) : option Z :=
  match rs with
  | [] => v
  | (_, ab, av) :: r =>
      match ab with
      | None => choose r hi v
      | Some a =>
          match hi with
          | None => choose r (Some a) av
          | Some h => if bal_ltb h a then choose r (Some a) av else choose r hi v
          end
      end
  end.

Definition oget {V} (k : Z) (l : list (Z * option V)) : option V :=
  match afind k l with Some v => v | None => None end.

(** [_start_phase2] *)
Definition start_phase2 (c : pcfg) (s : pstate) (bn : Z) : pstate * list pout :=
  let rs := match afind bn (p1 s) with Some rs => rs | None => [] end in
  let v := choose rs None (oget bn (pvals s)) in
  let b := (bn, me c) in
  let s1 := set_pvals s (aset bn v (pvals s)) in
  let s2 := if may_promise s1 b then set_p2 (set_acc s1 (Some b) v) (aset bn 1 (p2 s1)) else s1 in
  let outs := map (fun p => OAccept p bn (me c) v) (peers c) in
  if quorum c <=? (match afind bn (p2 s2) with Some n => n | None => 0 end) then
    let '(s3, o3) := decide c s2 bn v in (s3, outs ++ o3)
  else (s2, outs).

Definition step (c : pcfg) (s : pstate) (i : pin) : pstate * list pout :=
  match i with
  | IPropose v =>
      if decided s then
        (* propose() returns an already resolved future; the client does not start phase 1 *)
        (bump_fid (add_resolved s (nfid s) (dec_v s)), [])
      else
        let mx := match promised s with Some p => Z.max (cur s) (fst p) | None => cur s end in
        let n := mx + 1 in
        let s1 := set_cur s n in
        let s2 := bump_fid (set_futs s1 (aset n (nfid s) (futs s1))) in
        let s3 := set_pvals s2 (aset n (Some v) (pvals s2)) in
        let s4 := set_p1 s3 (aset n [] (p1 s3)) in
        let s5 := set_p2 s4 (aset n 0 (p2 s4)) in
        start_phase1 c s5
  | IPrepare src bn bnode =>
      if negb (is_peer c src) then (s, [])
      else if may_promise s (bn, bnode) then
        (set_promised s (Some (bn, bnode)), [OPromise src bn bnode (me c) (acc_b s) (acc_v s)])
      else
        match promised s with
        | Some p => (s, [ONack src bn bnode (fst p) (snd p)])
        | None => (s, [])
        end
  | IPromise bn from ab av =>
      match afind bn (p1 s) with
      | None => (s, [])
      | Some rs =>
          let rs' := rs ++ [(from, ab, av)] in
          let s1 := set_p1 s (aset bn rs' (p1 s)) in
          if (Z.of_nat (length rs') =? quorum c) && amem bn (pvals s1) then start_phase2 c s1 bn
          else (s1, [])
      end
  | INack bn hn =>
      let s1 := if cur s <? hn then set_cur s hn else s in
      if amem bn (pvals s1) then (s1, [ORetry bn]) else (s1, [])
  | IRetry orig =>
      if decided s then (s, [])
      else
        match afind orig (pvals s) with
        | None => (s, [])
        | Some v =>
            let n := cur s + 1 in
            let s1 := set_cur s n in
            let s2 := match afind orig (futs s1) with
                      | Some f => set_futs s1 (adel orig (aset n f (futs s1)))
                      | None => s1
                      end in
            let s3 := set_pvals s2 (adel orig (aset n v (pvals s2))) in
            let s4 := set_p1 s3 (aset n [] (p1 s3)) in
            let s5 := set_p2 s4 (aset n 0 (p2 s4)) in
            start_phase1 c s5
        end
  | IAccept src bn bnode v =>
      if negb (is_peer c src) then (s, [])
      else if may_promise s (bn, bnode) then
        (set_acc (set_promised s (Some (bn, bnode))) (Some (bn, bnode)) v, [OAccepted src bn bnode (me c)])
      else
        match promised s with
        | Some p => (s, [ONack src bn bnode (fst p) (snd p)])
        | None => (s, [])
        end
  | IAccepted bn =>
      let n := (match afind bn (p2 s) with Some n => n | None => 0 end) + 1 in
      let s1 := set_p2 s (aset bn n (p2 s)) in
      if negb (amem bn (pvals s1)) then (s1, [])
      else if (quorum c <=? n) && negb (decided s1) then decide c s1 bn (oget bn (pvals s1))
      else (s1, [])
  | IDecided v =>
      if decided s then (s, []) else (set_dec s v, [])
  end.

(* ------------------------------------------------------------------ *)
(** * Trace replay (the tie to the implementation)

    A recorded step: node, input, outputs, and the node's state afterwards as
    observed on the real object.  [ok_paxos] replays the inputs through [step]
    from the initial states and compares outputs and state after EVERY step. *)

Definition oz_eqb := option_eqb Z.eqb.
Definition obal_eqb := option_eqb bal_eqb.
Definition resp_eqb (a b : resp) : bool :=
  let '(f1, b1, v1) := a in let '(f2, b2, v2) := b in
  (f1 =? f2) && obal_eqb b1 b2 && oz_eqb v1 v2.

Definition pout_eqb (a b : pout) : bool :=
  match a, b with
  | OPrepare d n m, OPrepare d' n' m' => (d =? d') && (n =? n') && (m =? m')
  | OPromise d n m f ab av, OPromise d' n' m' f' ab' av' =>
      (d =? d') && (n =? n') && (m =? m') && (f =? f') && obal_eqb ab ab' && oz_eqb av av'
  | ONack d n m h hm, ONack d' n' m' h' hm' => (d =? d') && (n =? n') && (m =? m') && (h =? h') && (hm =? hm')
  | OAccept d n m v, OAccept d' n' m' v' => (d =? d') && (n =? n') && (m =? m') && oz_eqb v v'
  | OAccepted d n m f, OAccepted d' n' m' f' => (d =? d') && (n =? n') && (m =? m') && (f =? f')
  | ODecided d v, ODecided d' v' => (d =? d') && oz_eqb v v'
  | ORetry o, ORetry o' => o =? o'
  | _, _ => false
  end.

(** Observed state: everything but the future counter; resolved futures as a
    list sorted by id on the Python side, compared as sets. *)
Record pobs := mkO {
  o_promised : option ballot; o_acc_b : option ballot; o_acc_v : option Z; o_cur : Z;
  o_futs : list (Z * Z); o_p1 : list (Z * list resp); o_p2 : list (Z * Z);
  o_pvals : list (Z * option Z); o_decided : bool; o_dec_v : option Z;
  o_resolved : list (Z * option Z)
}.

Definition zz_eqb (a b : Z * Z) := (fst a =? fst b) && (snd a =? snd b).
Definition zoz_eqb (a b : Z * option Z) := (fst a =? fst b) && oz_eqb (snd a) (snd b).
Definition subset {A} (eqb : A -> A -> bool) (a b : list A) := forallb (fun x => existsb (eqb x) b) a.

Definition state_matches (s : pstate) (o : pobs) : bool :=
  obal_eqb (promised s) (o_promised o) && obal_eqb (acc_b s) (o_acc_b o) && oz_eqb (acc_v s) (o_acc_v o)
  && (cur s =? o_cur o)
  && list_eqb zz_eqb (futs s) (o_futs o)
  && list_eqb (fun a b => (fst a =? fst b) && list_eqb resp_eqb (snd a) (snd b)) (p1 s) (o_p1 o)
  && list_eqb zz_eqb (p2 s) (o_p2 o)
  && list_eqb zoz_eqb (pvals s) (o_pvals o)
  && Bool.eqb (decided s) (o_decided o) && oz_eqb (dec_v s) (o_dec_v o)
  && subset zoz_eqb (resolved s) (o_resolved o) && subset zoz_eqb (o_resolved o) (resolved s).

Definition rec_step := (Z * pin * list pout * pobs)%type.

Definition others (n me : Z) : list Z :=
  filter (fun j => negb (j =? me)) (map Z.of_nat (seq 0 (Z.to_nat n))).
Definition cfg_of (n i : Z) : pcfg := mkC i (others n i).

Fixpoint replay (n : Z) (st : Z -> pstate) (tr : list rec_step) : bool :=
  match tr with
  | [] => true
  | (i, inp, outs, o) :: r =>
      let '(s', outs') := step (cfg_of n i) (st i) inp in
      list_eqb pout_eqb outs' outs && state_matches s' o
      && replay n (fun j => if j =? i then s' else st j) r
  end.

Definition ok_paxos (c : Z * list rec_step) : bool :=
  replay (fst c) (fun _ => pinit) (snd c).

(* ------------------------------------------------------------------ *)
(** * The cluster as a message soup

    [net] is the multiset of messages in flight (each carries its destination);
    timers are the pending PaxosRetry events.  A schedule is a list of
    actions: deliver the k-th message in flight (any order = any delays and
    reordering), drop it (loss, partition), fire the k-th pending retry timer
    (any retry timing), or a client proposal at a node.  [sent] is the ghost
    history of every message ever handed to the network, [proposed] the ghost
    set of values ever proposed by clients. *)

Definition dst_of (o : pout) : Z :=
  match o with
  | OPrepare d _ _ | OPromise d _ _ _ _ _ | ONack d _ _ _ _ | OAccept d _ _ _
  | OAccepted d _ _ _ | ODecided d _ => d
  | ORetry _ => -1
  end.

(** The input the destination's handler sees for a message sent by [src]. *)
Definition to_input (src : Z) (o : pout) : pin :=
  match o with
  | OPrepare _ n m => IPrepare src n m
  | OPromise _ n _ f ab av => IPromise n f ab av
  | ONack _ n _ h _ => INack n h
  | OAccept _ n m v => IAccept src n m v
  | OAccepted _ n _ _ => IAccepted n
  | ODecided _ v => IDecided v
  | ORetry o => IRetry o
  end.

Definition is_retry (o : pout) : bool := match o with ORetry _ => true | _ => false end.

Record sys := mkS {
  nodes : Z -> pstate;
  net : list (Z * pout);          (* (sender, message) in flight *)
  timers : list (Z * Z);          (* (node, original ballot) pending PaxosRetry *)
  sent : list (Z * pout);         (* ghost: every message ever sent *)
  proposed : list Z;              (* ghost: every value a client proposed *)
  votes : list (Z * ballot * option Z)   (* ghost: (node, accepted ballot, accepted value) after every handler call *)
}.

Inductive action :=
| ADeliver (k : nat)
| ADrop (k : nat)
| AFire (k : nat)
| AClient (i v : Z).

Fixpoint remove_nth {A} (k : nat) (l : list A) : list A :=
  match k, l with
  | _, [] => []
  | O, _ :: r => r
  | S k', x :: r => x :: remove_nth k' r
  end.

Definition sys_init : sys := mkS (fun _ => pinit) [] [] [] [] [].

Definition upd_node (f : Z -> pstate) (i : Z) (s : pstate) : Z -> pstate :=
  fun j => if j =? i then s else f j.

(** Run node [i]'s handler on [inp] and put its outputs on the network. *)
Definition sys_handle (n : Z) (w : sys) (i : Z) (inp : pin) (net' : list (Z * pout)) (timers' : list (Z * Z)) (proposed' : list Z) : sys :=
  let '(s', outs) := step (cfg_of n i) (nodes w i) inp in
  let msgs := map (fun o => (i, o)) (filter (fun o => negb (is_retry o)) outs) in
  let tms := flat_map (fun o => match o with ORetry b => [(i, b)] | _ => [] end) outs in
  mkS (upd_node (nodes w) i s') (net' ++ msgs) (timers' ++ tms) (sent w ++ msgs) proposed'
      (votes w ++ match acc_b s' with Some b => [(i, b, acc_v s')] | None => [] end).

Definition sys_step (n : Z) (w : sys) (a : action) : sys :=
  match a with
  | ADeliver k =>
      match nth_error (net w) k with
      | Some (src, m) => sys_handle n w (dst_of m) (to_input src m) (remove_nth k (net w)) (timers w) (proposed w)
      | None => w
      end
  | ADrop k => mkS (nodes w) (remove_nth k (net w)) (timers w) (sent w) (proposed w) (votes w)
  | AFire k =>
      match nth_error (timers w) k with
      | Some (i, b) => sys_handle n w i (IRetry b) (net w) (remove_nth k (timers w)) (proposed w)
      | None => w
      end
  | AClient i v =>
      if (0 <=? i) && (i <? n) then sys_handle n w i (IPropose v) (net w) (timers w) (v :: proposed w)
      else w
  end.

Definition sys_run (n : Z) (w : sys) (sch : list action) : sys := fold_left (sys_step n) sch w.

(** What node [i] reports: [Some v] when [is_decided], where [v] is
    [decided_value] (itself possibly Python's None). *)
Definition report (w : sys) (i : Z) : option (option Z) :=
  if decided (nodes w i) then Some (dec_v (nodes w i)) else None.

(** Monomorphic constructors used by the harness when it writes case files
    (they spare Coq the inference of implicit type arguments). *)
Definition SZ (z : Z) : option Z := Some z.
Definition NZ : option Z := None.
Definition SB (n m : Z) : option ballot := Some (n, m).
Definition NB : option ballot := None.
Definition RSP (f : Z) (b : option ballot) (v : option Z) : resp := (f, b, v).
Definition ZZ (a b : Z) : Z * Z := (a, b).
Definition ZOZ (a : Z) (b : option Z) : Z * option Z := (a, b).
Definition P1E (k : Z) (rs : list resp) : Z * list resp := (k, rs).
Definition RS (i : Z) (inp : pin) (outs : list pout) (o : pobs) : rec_step := (i, inp, outs, o).
