(** C12 — a reported decision is a chosen value: the proposer's Accepted tally
    counts distinct voters of its ballot, and Decided messages carry chosen
    values.  With [chosen_unique_always] this gives agreement between any two
    nodes that report a decision. *)
From HS Require Import Base.Prelude C12.Model C12.PaxosNode C12.PaxosSys C12.PaxosAgree C12.PaxosFull.
Local Open Scope Z_scope.

Definition p2v (s : pstate) (k : Z) : Z := match afind k (p2 s) with Some c => c | None => 0 end.

(* ------------------------------------------------------------------ *)
(** * Node-level effects on the tally, the decision and the proposed values *)

Lemma decide_eff2 c s bn v :
  p2 (fst (decide c s bn v)) = p2 s /\ pvals (fst (decide c s bn v)) = pvals s /\
  (decided s = true -> fst (decide c s bn v) = s /\ snd (decide c s bn v) = []) /\
  (decided s = false -> decided (fst (decide c s bn v)) = true /\ dec_v (fst (decide c s bn v)) = v /\
     forall o, In o (snd (decide c s bn v)) -> exists d, o = ODecided d v).
Proof.
  unfold decide. destruct (decided s); cbn.
  - repeat split; auto; intros; discriminate.
  - destruct (afind bn (futs s)); cbn; repeat split; auto; try discriminate;
      intros o HH; apply in_map_iff in HH as [p [<- _]]; eauto.
Qed.

Lemma start_phase1_eff2 c s :
  p2 (fst (start_phase1 c s)) = p2 s /\ pvals (fst (start_phase1 c s)) = pvals s /\
  decided (fst (start_phase1 c s)) = decided s /\ dec_v (fst (start_phase1 c s)) = dec_v s.
Proof. unfold start_phase1. destruct (may_promise _ _); [destruct (afind _ _)|]; cbn; auto. Qed.

(** phase 2: outputs are the Accepts to the peers followed by Decided messages *)
Lemma start_phase2_shape c s bn :
  let v := choose (match afind bn (p1 s) with Some rs => rs | None => [] end) None (oget bn (pvals s)) in
  let s' := fst (start_phase2 c s bn) in
  exists o3, snd (start_phase2 c s bn) = map (fun p => OAccept p bn (me c) v) (peers c) ++ o3 /\
    (forall o, In o o3 -> exists d, o = ODecided d v) /\
    amem bn (pvals s') = true /\ oget bn (pvals s') = v /\
    (forall k, k <> bn -> afind k (pvals s') = afind k (pvals s)) /\
    (forall k, k <> bn -> p2v s' k = p2v s k) /\
    (p2v s' bn = p2v s bn \/ (p2v s' bn = 1 /\ acc_b s' = Some (bn, me c))) /\
    (decided s' = true -> decided s = true \/ (dec_v s' = v /\ quorum c <= p2v s' bn)) /\
    (decided s = true -> decided s' = true /\ dec_v s' = dec_v s) /\
    (o3 <> [] -> decided s = false /\ decided s' = true /\ dec_v s' = v).
Proof.
  unfold start_phase2. set (v := choose _ _ _). set (s1 := set_pvals s _).
  set (s2 := if may_promise s1 (bn, me c) then _ else _).
  assert (PV : pvals s2 = aset bn v (pvals s)) by (unfold s2; destruct (may_promise s1 (bn, me c)); reflexivity).
  assert (DE : decided s2 = decided s /\ dec_v s2 = dec_v s) by (unfold s2; destruct (may_promise s1 (bn, me c)); cbn; auto).
  assert (P2 : (forall k, k <> bn -> p2v s2 k = p2v s k) /\ (p2v s2 bn = p2v s bn \/ (p2v s2 bn = 1 /\ acc_b s2 = Some (bn, me c)))).
  { unfold s2. destruct (may_promise s1 (bn, me c)); cbn; [|split; auto].
    split.
    - intros k N. unfold p2v. cbn. rewrite afind_aset_other by auto. reflexivity.
    - right. unfold p2v. cbn. rewrite afind_aset_same. auto. }
  assert (AM : amem bn (aset bn v (pvals s)) = true) by (unfold amem; rewrite afind_aset_same; auto).
  assert (OG : oget bn (aset bn v (pvals s)) = v) by (unfold oget; rewrite afind_aset_same; auto).
  assert (OT : forall k, k <> bn -> afind k (aset bn v (pvals s)) = afind k (pvals s)) by (intros; apply afind_aset_other; auto).
  destruct DE as [DE1 DE2]. destruct P2 as [P2a P2b].
  fold (p2v s2 bn).
  destruct (quorum c <=? p2v s2 bn) eqn:Q.
  - destruct (decide_eff2 c s2 bn v) as [X1 [X2 [X3 X4]]].
    destruct (decide c s2 bn v) as [s3 o3] eqn:DD. cbn [fst snd] in *.
    exists o3. split; auto.
    assert (P3 : forall k, p2v s3 k = p2v s2 k) by (intros k; unfold p2v; rewrite X1; auto).
    destruct (decided s2) eqn:D2.
    + destruct (X3 eq_refl) as [-> ->].
      split; [intros o []|]. split; [rewrite PV; exact AM|]. split; [rewrite PV; exact OG|].
      split; [rewrite PV; exact OT|]. split; [exact P2a|]. split; [exact P2b|].
      split; [intros _; left; congruence|]. split; [intros _; split; congruence|]. intros H; contradiction.
    + destruct (X4 eq_refl) as [Y1 [Y2 Y3]].
      assert (AB3 : acc_b s3 = acc_b s2).
      { destruct (decide_eff c s2 bn v) as [_ [AB _]]. rewrite DD in AB. exact AB. }
      split; [exact Y3|]. split; [rewrite X2, PV; exact AM|]. split; [rewrite X2, PV; exact OG|].
      split; [rewrite X2, PV; exact OT|]. split; [intros k N; rewrite P3; auto|].
      split; [rewrite P3; destruct P2b as [E|[E1 E2]]; [left; auto|right; split; congruence]|].
      split; [intros _; right; split; [exact Y2|rewrite P3; lia]|].
      split; [intros H; congruence|]. intros _. repeat split; congruence.
  - exists []. rewrite app_nil_r. cbn [fst snd].
    split; [reflexivity|]. split; [intros o []|]. split; [rewrite PV; exact AM|]. split; [rewrite PV; exact OG|].
    split; [rewrite PV; exact OT|]. split; [exact P2a|]. split; [exact P2b|].
    split; [intros H; left; congruence|]. split; [intros H; split; congruence|]. intros H; contradiction.
Qed.

(* ---- keys of _proposed_values are unique (dict) ---- *)
Definition keys {V} (l : list (Z * V)) : list Z := map fst l.

Lemma keys_aset {V} k (v : V) l : NoDup (keys l) -> NoDup (keys (aset k v l)) /\ (forall x, In x (keys (aset k v l)) -> x = k \/ In x (keys l)).
Proof.
  induction l as [|[a b] r IH]; cbn; intros N.
  - split; [repeat constructor; auto|intros x [H|[]]; auto].
  - inversion N; subst. destruct (IH H2) as [I1 I2]. destruct (k =? a) eqn:E; cbn.
    + assert (k = a) by lia; subst. split; [constructor; auto|intros x [H|H]; auto].
    + split; [constructor; auto|intros x [H|H]; auto].
      * intros H. destruct (I2 _ H) as [->|H']; [lia|contradiction].
      * destruct (I2 _ H); auto.
Qed.

Lemma keys_adel {V} k (l : list (Z * V)) : NoDup (keys l) -> NoDup (keys (adel k l)) /\ afind k (adel k l) = None /\
  (forall x, In x (keys (adel k l)) -> In x (keys l)).
Proof.
  induction l as [|[a b] r IH]; cbn; intros N; [repeat split; auto; constructor|].
  inversion N; subst. destruct (IH H2) as [I1 [I2 I3]]. destruct (k =? a) eqn:E; cbn.
  - assert (k = a) by lia; subst. split; auto. split; auto.
    destruct (afind a r) eqn:F; auto. exfalso. apply H1. apply afind_In in F. apply in_map_iff. exists (a, v); auto.
  - rewrite E. split; [constructor; auto|split; auto]. intros x [H|H]; auto.
Qed.

Definition pvinv (s : pstate) : Prop := NoDup (keys (pvals s)).

Lemma pvinv_step c s i : pvinv s -> pvinv (fst (step c s i)).
Proof.
  unfold pvinv. intros N.
  assert (P1 : forall s0, pvals (fst (start_phase1 c s0)) = pvals s0) by (intros s0; apply start_phase1_eff2).
  assert (DE : forall s0 bn v, pvals (fst (decide c s0 bn v)) = pvals s0) by (intros; apply decide_eff2).
  assert (P2 : forall s0 bn, NoDup (keys (pvals s0)) -> NoDup (keys (pvals (fst (start_phase2 c s0 bn))))).
  { intros s0 bn N0. unfold start_phase2. set (v := choose _ _ _). set (s1 := set_pvals s0 _).
    set (s2 := if may_promise s1 (bn, me c) then _ else _).
    assert (PV : pvals s2 = aset bn v (pvals s0)) by (unfold s2; destruct (may_promise s1 (bn, me c)); reflexivity).
    destruct (quorum c <=? _); cbn [fst].
    - specialize (DE s2 bn v). destruct (decide c s2 bn v); cbn in *. rewrite DE, PV. apply keys_aset; auto.
    - rewrite PV. apply keys_aset; auto. }
  destruct i; cbn [step].
  - destruct (decided s); [exact N|]. rewrite P1. cbn. apply keys_aset; auto.
  - destruct (negb _); [auto|]. destruct (may_promise _ _); [exact N|]. destruct (promised s); exact N.
  - destruct (afind bn (p1 s)); [|auto]. match goal with |- context [if ?b then _ else _] => destruct b end; [apply P2|]; exact N.
  - destruct (cur s <? hn); match goal with |- context [if ?b then _ else _] => destruct b end; exact N.
  - destruct (negb _); [auto|]. destruct (may_promise _ _); [exact N|]. destruct (promised s); exact N.
  - match goal with |- context [if negb ?b then _ else _] => destruct b end; cbn [negb]; [|exact N].
    match goal with |- context [if ?b then _ else _] => destruct b end; [rewrite DE|]; exact N.
  - destruct (decided s); exact N.
  - destruct (decided s); [exact N|]. destruct (afind orig (pvals s)); [|exact N]. rewrite P1.
    destruct (afind orig (futs _)); cbn; apply keys_adel; apply keys_aset; auto.
Qed.

(** the tally, the decision and the proposed values, by kind of input *)
Definition quiet_out (o : pout) : Prop :=
  match o with OAccept _ _ _ _ | OAccepted _ _ _ _ | ODecided _ _ => False | _ => True end.

Lemma step_dec c s i : ninv c s -> pvinv s ->
  let s' := fst (step c s i) in let outs := snd (step c s i) in
  match i with
  | IPromise k f ab av =>
      (pvals s' = pvals s /\ p2 s' = p2 s /\ decided s' = decided s /\ dec_v s' = dec_v s /\ outs = [])
      \/
      (exists rs v o3, afind k (p1 s) = Some rs /\ Z.of_nat (length rs) + 1 = quorum c /\
         outs = map (fun p => OAccept p k (me c) v) (peers c) ++ o3 /\ (forall o, In o o3 -> exists d, o = ODecided d v) /\
         amem k (pvals s') = true /\ oget k (pvals s') = v /\ (forall j, j <> k -> afind j (pvals s') = afind j (pvals s)) /\
         (forall j, j <> k -> p2v s' j = p2v s j) /\ (p2v s' k = p2v s k \/ (p2v s' k = 1 /\ acc_b s' = Some (k, me c))) /\
         (decided s' = true -> decided s = true \/ (dec_v s' = v /\ quorum c <= p2v s' k)) /\
         (decided s = true -> decided s' = true /\ dec_v s' = dec_v s) /\
         (o3 <> [] -> decided s = false /\ decided s' = true /\ dec_v s' = v))
  | IAccepted k =>
      pvals s' = pvals s /\ (forall j, j <> k -> p2v s' j = p2v s j) /\ p2v s' k = p2v s k + 1 /\
      (decided s = true -> decided s' = true /\ dec_v s' = dec_v s /\ outs = []) /\
      (decided s = false -> (decided s' = false /\ outs = []) \/
          (decided s' = true /\ amem k (pvals s) = true /\ dec_v s' = oget k (pvals s) /\ quorum c <= p2v s' k /\
           forall o, In o outs -> exists d, o = ODecided d (dec_v s')))
  | IDecided v => pvals s' = pvals s /\ p2 s' = p2 s /\ outs = [] /\ decided s' = true /\
                  (decided s = true -> dec_v s' = dec_v s) /\ (decided s = false -> dec_v s' = v)
  | IAccept src bn bnode v =>
      pvals s' = pvals s /\ p2 s' = p2 s /\ decided s' = decided s /\ dec_v s' = dec_v s /\
      ((forall o, In o outs -> quiet_out o) \/ (outs = [OAccepted src bn bnode (me c)] /\ acc_b s' = Some (bn, bnode) /\ acc_v s' = v))
  | IPrepare _ _ _ | INack _ _ =>
      pvals s' = pvals s /\ p2 s' = p2 s /\ decided s' = decided s /\ dec_v s' = dec_v s /\ (forall o, In o outs -> quiet_out o)
  | IPropose _ | IRetry _ =>
      (forall j, p2v s' j = p2v s j \/ p2v s' j = 0) /\ decided s' = decided s /\ dec_v s' = dec_v s /\
      (forall o, In o outs -> quiet_out o) /\
      (forall j, amem j (p1 s) = true -> amem j (pvals s') = true -> amem j (pvals s) = true /\ oget j (pvals s') = oget j (pvals s))
  end.
Proof.
  intros [A B C] PV.
  assert (QP : forall s0 o, In o (snd (start_phase1 c s0)) -> quiet_out o).
  { intros s0 o H. destruct (start_phase1_eff c s0) as [_ [_ [O _]]]. destruct (O _ H) as [d ->]. exact I. }
  destruct i; cbn [step].
  - (* IPropose *)
    destruct (decided s) eqn:D; cbn.
    + repeat split; auto; intros; contradiction.
    + set (s5 := set_p2 _ _). destruct (start_phase1_eff2 c s5) as [E1 [E2 [E3 E4]]].
      set (n0 := cur s5) in *.
      assert (FR : forall j, amem j (p1 s) = true -> j <> n0).
      { intros j H. apply C in H. unfold n0, s5. cbn. destruct (promised s); lia. }
      split; [|split; [rewrite E3; exact D|split; [rewrite E4; reflexivity|split; [apply QP|]]]].
      * intros j. unfold p2v. rewrite E1. unfold s5. cbn. fold n0. destruct (Z.eq_dec j n0) as [->|N].
        -- right. rewrite afind_aset_same. reflexivity.
        -- left. rewrite afind_aset_other by auto. reflexivity.
      * intros j H1 H2. specialize (FR j H1). rewrite E2 in H2. unfold amem, oget in *. rewrite E2.
        unfold s5 in *. cbn in *. fold n0 in H2 |- *. rewrite afind_aset_other in * by auto. split; auto.
  - (* IPrepare *)
    destruct (negb _); cbn; [repeat split; auto; intros o []|].
    destruct (may_promise _ _); cbn; [repeat split; auto; intros o [<-|[]]; exact I|].
    destruct (promised s); cbn; repeat split; auto; intros o H; [destruct H as [<-|[]]; exact I|contradiction].
  - (* IPromise *)
    destruct (afind bn (p1 s)) eqn:F; [|left; repeat split; reflexivity].
    set (s1 := set_p1 s _).
    destruct (Z.of_nat (length (l ++ [(from, ab, av)])) =? quorum c) eqn:Q; cbn [andb]; [|left; repeat split; reflexivity].
    destruct (amem bn (pvals s1)) eqn:M; [|left; repeat split; reflexivity].
    right. destruct (start_phase2_shape c s1 bn) as [o3 [S1 [S2 [S3 [S4 [S5 [S6 [S7 [S8 [S9 S10]]]]]]]]]].
    exists l. eexists. exists o3. split; [reflexivity|]. split; [rewrite app_length in Q; cbn in Q; lia|].
    split; [exact S1|]. split; [exact S2|]. split; [exact S3|]. split; [exact S4|]. split; [exact S5|].
    split; [exact S6|]. split; [exact S7|]. split; [exact S8|]. split; [exact S9|]. exact S10.
  - (* INack *)
    destruct (cur s <? hn); match goal with |- context [if ?b then _ else _] => destruct b end; cbn;
      repeat split; auto; intros o H; try contradiction; destruct H as [<-|[]]; exact I.
  - (* IAccept *)
    destruct (negb _); cbn; [repeat split; auto; left; intros o []|].
    destruct (may_promise _ _); cbn; [repeat split; auto|].
    destruct (promised s); cbn; repeat split; auto; left; intros o H; [destruct H as [<-|[]]; exact I|contradiction].
  - (* IAccepted *)
    set (s1 := set_p2 s _).
    assert (T1 : forall j, j <> bn -> p2v s1 j = p2v s j) by (intros j N; unfold p2v, s1; cbn; rewrite afind_aset_other by auto; reflexivity).
    assert (T2 : p2v s1 bn = p2v s bn + 1) by (unfold p2v, s1; cbn; rewrite afind_aset_same; reflexivity).
    destruct (amem bn (pvals s1)) eqn:M; cbn [negb].
    + destruct ((quorum c <=? _) && negb (decided s1)) eqn:Q.
      * apply andb_prop in Q as [Q1 Q2]. assert (D : decided s = false) by (unfold s1 in Q2; cbn in Q2; destruct (decided s); auto; discriminate).
        destruct (decide_eff2 c s1 bn (oget bn (pvals s1))) as [X1 [X2 [_ X4]]]. destruct (X4 D) as [Y1 [Y2 Y3]].
        split; [rewrite X2; reflexivity|]. split; [intros j N; unfold p2v; rewrite X1; apply T1; auto|].
        split; [unfold p2v; rewrite X1; exact T2|]. split; [intros H; congruence|]. intros _. right.
        split; auto. split; [exact M|]. split; [exact Y2|]. split; [assert (QQ : quorum c <= p2v s bn + 1) by (unfold p2v; lia); unfold p2v; rewrite X1; fold (p2v s1 bn); rewrite T2; exact QQ|].
        rewrite Y2. exact Y3.
      * cbn [fst snd]. split; [reflexivity|]. split; [exact T1|]. split; [exact T2|].
        split; [intros H; repeat split; auto|]. intros H. left. split; auto.
    + cbn [fst snd]. split; [reflexivity|]. split; [exact T1|]. split; [exact T2|].
      split; [intros H; repeat split; auto|]. intros H. left. split; auto.
  - (* IDecided *)
    destruct (decided s) eqn:D; cbn; repeat split; auto; intros; congruence.
  - (* IRetry *)
    destruct (decided s) eqn:D; cbn; [repeat split; auto; intros; contradiction|].
    destruct (afind orig (pvals s)) eqn:FO; cbn; [|repeat split; auto; intros; contradiction].
    set (s5 := set_p2 _ _). destruct (start_phase1_eff2 c s5) as [E1 [E2 [E3 E4]]].
    assert (P5 : p2 s5 = aset (cur s + 1) 0 (p2 s)) by (unfold s5; destruct (afind orig (futs _)); reflexivity).
    assert (V5 : pvals s5 = adel orig (aset (cur s + 1) o (pvals s))) by (unfold s5; destruct (afind orig (futs _)); reflexivity).
    assert (D5 : decided s5 = decided s /\ dec_v s5 = dec_v s) by (unfold s5; destruct (afind orig (futs _)); cbn; auto).
    destruct D5 as [D5a D5b].
    split; [|split; [rewrite E3, D5a; exact D|split; [rewrite E4; exact D5b|split; [apply QP|]]]].
    + intros j. unfold p2v. rewrite E1, P5. destruct (Z.eq_dec j (cur s + 1)) as [->|N].
      * right. rewrite afind_aset_same. reflexivity.
      * left. rewrite afind_aset_other by auto. reflexivity.
    + intros j H1 H2. rewrite E2, V5 in *. assert (JN : j <> cur s + 1) by (apply C in H1; lia).
      destruct (keys_aset (cur s + 1) o (pvals s) PV) as [ND _].
      destruct (keys_adel orig (aset (cur s + 1) o (pvals s)) ND) as [_ [NONE _]].
      destruct (Z.eq_dec j orig) as [->|NJ].
      * unfold amem in H2. rewrite NONE in H2. discriminate.
      * unfold amem, oget in *. rewrite afind_adel_other in * by auto. rewrite afind_aset_other in * by auto. split; auto.
Qed.

(* ------------------------------------------------------------------ *)
(** * Which inputs produce Accepted / Decided / Accept messages *)
Lemma quiet_not_acd o d k b f : quiet_out o -> o <> OAccepted d k b f.
Proof. intros Q E; subst; exact Q. Qed.

Lemma step_accepted_out c s i d k b f : ninv c s -> pvinv s ->
  In (OAccepted d k b f) (snd (step c s i)) ->
  exists v, i = IAccept d k b v /\ f = me c /\ acc_b (fst (step c s i)) = Some (k, b) /\ acc_v (fst (step c s i)) = v.
Proof.
  intros NI PV H. pose proof (step_dec c s i NI PV) as SD. cbn zeta in SD.
  destruct i.
  - destruct SD as [_ [_ [_ [Q _]]]]. apply Q in H. contradiction.
  - destruct SD as [_ [_ [_ [_ Q]]]]. apply Q in H. contradiction.
  - destruct SD as [[_ [_ [_ [_ E]]]]|[rs [v [o3 [_ [_ [E [O3 _]]]]]]]]; rewrite E in H; [contradiction|].
    apply in_app_or in H as [H|H]; [apply in_map_iff in H as [p [X _]]; discriminate|].
    destruct (O3 _ H) as [x X]. discriminate.
  - destruct SD as [_ [_ [_ [_ Q]]]]. apply Q in H. contradiction.
  - destruct SD as [_ [_ [_ [_ [Q|[E [A1 A2]]]]]]]; [apply Q in H; contradiction|].
    rewrite E in H. destruct H as [H|[]]. inversion H; subst. eauto.
  - destruct SD as [_ [_ [_ [D1 D2]]]]. destruct (decided s) eqn:D.
    + destruct (D1 eq_refl) as [_ [_ E]]. rewrite E in H. contradiction.
    + destruct (D2 eq_refl) as [[_ E]|[_ [_ [_ [_ O]]]]]; [rewrite E in H; contradiction|].
      destruct (O _ H) as [x X]. discriminate.
  - destruct SD as [_ [_ [E _]]]. rewrite E in H. contradiction.
  - destruct SD as [_ [_ [_ [Q _]]]]. apply Q in H. contradiction.
Qed.

Lemma step_decided_out c s i d v : ninv c s -> pvinv s ->
  In (ODecided d v) (snd (step c s i)) ->
  decided s = false /\ decided (fst (step c s i)) = true /\ dec_v (fst (step c s i)) = v.
Proof.
  intros NI PV H. pose proof (step_dec c s i NI PV) as SD. cbn zeta in SD.
  destruct i.
  - destruct SD as [_ [_ [_ [Q _]]]]. apply Q in H. contradiction.
  - destruct SD as [_ [_ [_ [_ Q]]]]. apply Q in H. contradiction.
  - destruct SD as [[_ [_ [_ [_ E]]]]|[rs [v0 [o3 [_ [_ [E [O3 [_ [_ [_ [_ [_ [_ [_ S10]]]]]]]]]]]]]]]; rewrite E in H; [contradiction|].
    apply in_app_or in H as [H|H]; [apply in_map_iff in H as [p [X _]]; discriminate|].
    destruct (O3 _ H) as [x X]. inversion X; subst. apply S10. intros Z. rewrite Z in H. contradiction.
  - destruct SD as [_ [_ [_ [_ Q]]]]. apply Q in H. contradiction.
  - destruct SD as [_ [_ [_ [_ [Q|[E _]]]]]]; [apply Q in H; contradiction|].
    rewrite E in H. destruct H as [H|[]]. discriminate.
  - destruct SD as [_ [_ [_ [D1 D2]]]]. destruct (decided s) eqn:D.
    + destruct (D1 eq_refl) as [_ [_ E]]. rewrite E in H. contradiction.
    + destruct (D2 eq_refl) as [[_ E]|[Y1 [_ [_ [_ O]]]]]; [rewrite E in H; contradiction|].
      destruct (O _ H) as [x X]. inversion X; subst. auto.
  - destruct SD as [_ [_ [E _]]]. rewrite E in H. contradiction.
  - destruct SD as [_ [_ [_ [Q _]]]]. apply Q in H. contradiction.
Qed.

Definition isacc (a k p : Z) (m : Z * pout) : bool :=
  match snd m with OAccept d k' b _ => (d =? a) && (k' =? k) && (b =? p) | _ => false end.
Definition isacd (a k p : Z) (m : Z * pout) : bool :=
  match snd m with OAccepted d k' b f => (d =? p) && (k' =? k) && (b =? p) && (f =? a) | _ => false end.

Lemma cnt_map_acc (ps : list Z) i kk v a k p : NoDup ps ->
  cnt (isacc a k p) (map (fun o => (i, o)) (map (fun d => OAccept d kk i v) ps)) =
  if (kk =? k) && (i =? p) && existsb (Z.eqb a) ps then 1%nat else 0%nat.
Proof.
  intros ND. rewrite !cnt_map. unfold isacc. cbn.
  destruct ((kk =? k) && (i =? p)) eqn:E; cbn.
  - rewrite <- (cnt_eq_NoDup ps a ND). apply cnt_ext. intros x. rewrite <- andb_assoc, E, andb_true_r. reflexivity.
  - apply cnt_zero. intros x _. rewrite <- andb_assoc, E, andb_false_r. reflexivity.
Qed.

Lemma filter_accepts (ps : list Z) bn i v :
  filter (fun o => negb (is_retry o)) (map (fun d : Z => OAccept d bn i v) ps) = map (fun d : Z => OAccept d bn i v) ps.
Proof. induction ps; cbn; auto. f_equal; auto. Qed.

Lemma votes_mono n w a x : In x (votes w) -> In x (votes (sys_step n w a)).
Proof.
  intros H. destruct a; cbn; auto.
  - destruct (nth_error (net w) k) as [[src m]|]; auto. unfold sys_handle. destruct (step _ _ _). cbn. apply in_or_app; auto.
  - destruct (nth_error (timers w) k) as [[i b]|]; auto. unfold sys_handle. destruct (step _ _ _). cbn. apply in_or_app; auto.
  - destruct ((0 <=? i) && (i <? n)); auto. unfold sys_handle. destruct (step _ _ _). cbn. apply in_or_app; auto.
Qed.

(* ------------------------------------------------------------------ *)
(** * The invariant *)
Section Decide.
  Variable n : Z.
  Hypothesis n2 : 2 <= n.

  Record dinv (w : sys) : Prop := {
    d_pv : forall i, pvinv (nodes w i);
    d_acd : forall src d k b f, In (src, OAccepted d k b f) (sent w) -> d = b /\ src = f /\ exists v, voted w f (k, b) v;
    d_ack : forall p k, exists Qc, NoDup Qc /\ Z.of_nat (length Qc) = p2v (nodes w p) k /\
              (forall a, In a Qc -> (exists v, voted w a (k, p) v) /\ 0 <= a < n /\
                                    cnt (isacc a k p) (net w) = 0%nat /\ cnt (isacd a k p) (net w) = 0%nat) /\
              (forall a, (cnt (isacc a k p) (net w) + cnt (isacd a k p) (net w) <= 1)%nat);
    d_pvl : forall p k x, prop w (k, p) x -> amem k (pvals (nodes w p)) = true -> oget k (pvals (nodes w p)) = x;
    d_dec : forall i, decided (nodes w i) = true -> exists b, chosen n w b (dec_v (nodes w i));
    d_dmsg : forall src d v, In (src, ODecided d v) (sent w) -> exists b, chosen n w b v;
  }.

  Lemma dinv_init : dinv sys_init.
  Proof.
    split; cbn; try (intros; contradiction); try (intros; discriminate).
    - intros i. constructor.
    - intros p k. exists []. repeat split; auto; try constructor; intros; contradiction.
  Qed.

  Lemma dinv_step w a : ainv n w -> ainv n (sys_step n w a) -> dinv w -> dinv (sys_step n w a).
  Proof.
    intros AI AI' DI. pose proof DI as [PVI ACD ACK PVL DEC DMSG].
    pose proof (votes_mono n w a) as VMONO.
    assert (CMONO : forall b v, chosen n w b v -> chosen n (sys_step n w a) b v).
    { intros b v [Q [IQ VQ]]. exists Q. split; auto. intros x Hx. apply VMONO. apply VQ; auto. }
    destruct (sys_step_net n w a) as [E|[[k0 [E1 [E2 E3]]]|[i [inp [net0 [H1 [H2 [H3 H4]]]]]]]].
    { rewrite E; auto. }
    { (* drop *)
      split; rewrite ?E2, ?E3; auto.
      - intros src d k b f H. destruct (ACD _ _ _ _ _ H) as [A [B [v V]]]. repeat split; auto. exists v. apply VMONO; auto.
      - intros p k. destruct (ACK p k) as [Qc [ND [LN [MEM ALL]]]]. exists Qc. rewrite E1. repeat split; auto.
        + destruct (MEM a0 H) as [[v V] _]. exists v. apply VMONO; auto.
        + apply (MEM a0 H).
        + apply (MEM a0 H).
        + destruct (MEM a0 H) as [_ [_ [Z1 _]]]. pose proof (cnt_remove_nth_le (isacc a0 k p) k0 (net w)). lia.
        + destruct (MEM a0 H) as [_ [_ [_ Z2]]]. pose proof (cnt_remove_nth_le (isacd a0 k p) k0 (net w)). lia.
        + intros a0. specialize (ALL a0). pose proof (cnt_remove_nth_le (isacc a0 k p) k0 (net w)).
          pose proof (cnt_remove_nth_le (isacd a0 k p) k0 (net w)). lia.
      - intros p k x [src [d P]]. rewrite E3 in P. apply PVL. exists src, d; auto.
      - intros i D. destruct (DEC i D) as [b C]. eauto.
      - intros src d v H. destruct (DMSG _ _ _ H) as [b C]. eauto. }
    (* a handler call at node i *)
    set (w' := sys_step n w a) in *. set (s := nodes w i) in *.
    pose proof (a_u n w AI) as U. pose proof (a_u n w' AI') as U'.
    pose proof (ui_ninv n w U i) as NIi. fold s in NIi. pose proof (PVI i) as PVi. fold s in PVi.
    pose proof (step_dec (cfg_of n i) s inp NIi PVi) as SD.
    pose proof (step_accepted_out (cfg_of n i) s inp) as SAO.
    pose proof (step_decided_out (cfg_of n i) s inp) as SDO.
    pose proof (step_accepts (cfg_of n i) s inp) as SAC.
    pose proof (pvinv_step (cfg_of n i) s inp PVi) as PV'.
    destruct (step (cfg_of n i) s inp) as [s' outs] eqn:ST. cbn [fst snd] in *. cbn zeta in SD.
    assert (NODE : forall j, nodes w' j = if j =? i then s' else nodes w j) by (intros j; rewrite H1; reflexivity).
    assert (NIs : nodes w' i = s') by (rewrite NODE, Z.eqb_refl; auto).
    assert (NO : forall j, j <> i -> nodes w' j = nodes w j).
    { intros j N. rewrite NODE. destruct (j =? i) eqn:X; [lia|auto]. }
    assert (SENT : forall x, In x (sent w') <-> In x (sent w) \/ In x (msgs_of i outs)).
    { intros x. rewrite H3, in_app_iff. tauto. }
    assert (PMONO : forall b v, prop w b v -> prop w' b v).
    { intros b v [src [d H]]. exists src, d. apply SENT; auto. }
    (* provenance of the input *)
    assert (PROV : ((exists v, inp = IPropose v) \/ (exists b, inp = IRetry b)) /\ net0 = net w \/
                   exists k0 src m, nth_error (net w) k0 = Some (src, m) /\ net0 = remove_nth k0 (net w) /\
                     inp = to_input src m /\ i = dst_of m /\ In (src, m) (sent w) /\ is_retry m = false /\ 0 <= i < n /\ 0 <= src < n).
    { destruct H4 as [K|[k1 [src [m [HN [EN [EI Ei]]]]]]]; [left; auto|right].
      exists k1, src, m. assert (IS : In (src, m) (sent w)) by (apply (a_net n w AI); eapply nth_error_In; eauto).
      destruct (a_noretry n w AI _ _ IS) as [R1 [R2 R3]]. repeat split; auto; subst i; lia. }
    (* Accepted / Accept / Decided messages produced now *)
    assert (NEWACD : forall src d k b f, In (src, OAccepted d k b f) (msgs_of i outs) ->
              src = i /\ f = i /\ d = b /\ acc_b s' = Some (k, b) /\ exists v, inp = IAccept d k b v /\ acc_v s' = v).
    { intros src d k b f H. apply msgs_of_In in H as [-> [Ho _]].
      destruct (SAO d k b f NIi PVi Ho) as [v [EI [EF [AB AV]]]]. cbn in EF. subst f.
      destruct PROV as [[[[x X]|[x X]] _]|[k1 [src [m [_ [_ [EI2 [_ [IS _]]]]]]]]]; try (rewrite X in EI; discriminate).
      rewrite EI in EI2. destruct m; try discriminate. cbn in EI2. inversion EI2; subst.
      destruct (ui_src n w U _ _ _ _ _ IS) as [-> _]. repeat split; auto. eauto. }
    (* d_acd *)
    assert (D_ACD : forall src d k b f, In (src, OAccepted d k b f) (sent w') -> d = b /\ src = f /\ exists v, voted w' f (k, b) v).
    { intros src d k b f H. apply SENT in H as [H|H].
      - destruct (ACD _ _ _ _ _ H) as [A [B [v V]]]. repeat split; auto. exists v. apply VMONO; auto.
      - destruct (NEWACD _ _ _ _ _ H) as [-> [-> [-> [AB _]]]]. repeat split; auto.
        exists (acc_v s'). pose proof (a_acc n w' AI' i (k, b)) as V. rewrite NIs in V. apply V; auto. }
    (* no Accept message of a ballot before its phase 2; after it, votes only *)
    assert (NOACC : forall p k rs, afind k (p1 (nodes w p)) = Some rs -> Z.of_nat (length rs) < quorum (cfg_of n p) ->
              (forall a0, cnt (isacc a0 k p) (net w) = 0%nat /\ cnt (isacd a0 k p) (net w) = 0%nat) /\
              (forall a0 v, ~ voted w a0 (k, p) v) /\ (forall x, ~ prop w (k, p) x)).
    { intros p k rs F L.
      assert (NP : forall x, ~ prop w (k, p) x).
      { intros x [src [d P]]. cbn in P. destruct (ui_src n w U _ _ _ _ _ P) as [_ [rs0 [F0 L0]]]. rewrite F in F0. inversion F0; subst. lia. }
      assert (NV : forall a0 v, ~ voted w a0 (k, p) v) by (intros a0 v V; apply (NP v); exact (a_vprop n w AI _ _ _ V)).
      repeat split; auto.
      - apply cnt_zero. intros [sr mm] I. unfold isacc. cbn. destruct mm; auto.
        destruct ((dst =? a0) && (bn =? k) && (bnode =? p)) eqn:Q; auto. exfalso.
        assert (bn = k /\ bnode = p) as [-> ->] by lia. apply (a_net n w AI) in I. apply (NP v). exists sr, dst. exact I.
      - apply cnt_zero. intros [sr mm] I. unfold isacd. cbn. destruct mm; auto.
        destruct ((dst =? p) && (bn =? k) && (bnode =? p) && (from =? a0)) eqn:Q; auto. exfalso.
        assert (bn = k /\ bnode = p) as [-> ->] by lia. apply (a_net n w AI) in I.
        destruct (ACD _ _ _ _ _ I) as [_ [_ [v V]]]. apply (NV _ _ V). }
    (* counts over the messages produced now *)
    assert (CNT' : forall (P : Z * pout -> bool), cnt P (net w') = (cnt P net0 + cnt P (msgs_of i outs))%nat).
    { intros P. rewrite H2, cnt_app. reflexivity. }
    assert (QZ : (forall o, In o outs -> quiet_out o \/ exists d v, o = ODecided d v) ->
                 forall a0 k p, cnt (isacc a0 k p) (msgs_of i outs) = 0%nat /\ cnt (isacd a0 k p) (msgs_of i outs) = 0%nat).
    { intros Q a0 k p. split; apply cnt_zero; intros [sr mm] I; apply msgs_of_In in I as [_ [Io _]];
        destruct (Q _ Io) as [Qo|[d [v ->]]]; auto; destruct mm; auto; contradiction. }
    (* the old witness of the tally still works when the tally is unchanged and tokens do not appear *)
    assert (KEEP : forall p k, p2v (nodes w' p) k = p2v (nodes w p) k ->
       (forall a0, (cnt (isacc a0 k p) (net w') + cnt (isacd a0 k p) (net w') <= cnt (isacc a0 k p) (net w) + cnt (isacd a0 k p) (net w))%nat) ->
       (forall a0, cnt (isacc a0 k p) (net w) = 0%nat -> cnt (isacd a0 k p) (net w) = 0%nat ->
                   cnt (isacc a0 k p) (net w') = 0%nat /\ cnt (isacd a0 k p) (net w') = 0%nat) ->
       exists Qc, NoDup Qc /\ Z.of_nat (length Qc) = p2v (nodes w' p) k /\
              (forall a0, In a0 Qc -> (exists v, voted w' a0 (k, p) v) /\ 0 <= a0 < n /\
                                    cnt (isacc a0 k p) (net w') = 0%nat /\ cnt (isacd a0 k p) (net w') = 0%nat) /\
              (forall a0, (cnt (isacc a0 k p) (net w') + cnt (isacd a0 k p) (net w') <= 1)%nat)).
    { intros p k EP LE ZZ. destruct (ACK p k) as [Qc [ND [LN [MEM ALL]]]]. exists Qc. split; auto. split; [congruence|]. split.
      - intros a0 Ha. destruct (MEM a0 Ha) as [[v V] [R [Z1 Z2]]]. destruct (ZZ a0 Z1 Z2) as [Y1 Y2]. split; [exists v; apply VMONO; exact V|]. split; [exact R|]. split; assumption.
      - intros a0. specialize (LE a0). specialize (ALL a0). lia. }
    (* d_ack *)
    assert (D_ACK : forall p k, exists Qc, NoDup Qc /\ Z.of_nat (length Qc) = p2v (nodes w' p) k /\
              (forall a0, In a0 Qc -> (exists v, voted w' a0 (k, p) v) /\ 0 <= a0 < n /\
                                    cnt (isacc a0 k p) (net w') = 0%nat /\ cnt (isacd a0 k p) (net w') = 0%nat) /\
              (forall a0, (cnt (isacc a0 k p) (net w') + cnt (isacd a0 k p) (net w') <= 1)%nat)).
    { intros p k.
      destruct PROV as [[K EN0]|[k1 [src [m [HN [EN0 [EI [Ei [IS [NRm [RI RS]]]]]]]]]]].
      - (* client / timer *)
        assert (SDF : (forall j, p2v s' j = p2v s j \/ p2v s' j = 0) /\ (forall o, In o outs -> quiet_out o)).
        { destruct K as [[v ->]|[b ->]]; destruct SD as [A [_ [_ [Q _]]]]; auto. }
        destruct SDF as [P2F QF].
        assert (CZ : forall a0, cnt (isacc a0 k p) (net w') = cnt (isacc a0 k p) (net w) /\ cnt (isacd a0 k p) (net w') = cnt (isacd a0 k p) (net w)).
        { intros a0. rewrite !CNT', EN0. destruct (QZ (fun o H => or_introl (QF o H)) a0 k p) as [-> ->]. lia. }
        destruct (Z.eq_dec p i) as [->|NP].
        + rewrite NIs. fold s. destruct (P2F k) as [E|E].
          * rewrite <- NIs. apply KEEP; [rewrite NIs; exact E| |]; intros a0; destruct (CZ a0); lia.
          * exists []. rewrite E. split; [constructor|]. split; [reflexivity|]. split; [intros a0 []|].
            intros a0. destruct (ACK i k) as [_ [_ [_ [_ ALL]]]]. specialize (ALL a0). destruct (CZ a0). lia.
        + apply KEEP; [rewrite NO by auto; reflexivity| |]; intros a0; destruct (CZ a0); lia.
      - (* a message was delivered *)
        pose proof (fun P => cnt_remove_nth P k1 (net w) (src, m) HN) as CR. rewrite <- EN0 in CR.
        destruct m; cbn in EI, Ei; try discriminate; rewrite EI in SD.
        + (* Prepare *)
          destruct SD as [_ [P2E [_ [_ Q]]]].
          assert (CZ := QZ (fun o H => or_introl (Q o H))).
          apply KEEP.
          * unfold p2v. rewrite NODE. destruct (p =? i) eqn:X; auto. assert (p = i) by lia; subst p. rewrite P2E. reflexivity.
          * intros a0. rewrite !CNT'. destruct (CZ a0 k p) as [-> ->]. pose proof (CR (isacc a0 k p)). pose proof (CR (isacd a0 k p)). cbn in *. lia.
          * intros a0 Z1 Z2. rewrite !CNT'. destruct (CZ a0 k p) as [-> ->]. pose proof (CR (isacc a0 k p)). pose proof (CR (isacd a0 k p)). cbn in *. lia.
        + (* Promise *)
          destruct SD as [[_ [P2E [_ [_ OE]]]]|[rs [v [o3 [F [LQ [OE [O3 [AMk [OGk [PVo [P2o [P2k _]]]]]]]]]]]]].
          * assert (CZ : forall a0, cnt (isacc a0 k p) (msgs_of i outs) = 0%nat /\ cnt (isacd a0 k p) (msgs_of i outs) = 0%nat).
            { intros a0. rewrite OE. unfold msgs_of, cnt. cbn. auto. }
            apply KEEP.
            -- unfold p2v. rewrite NODE. destruct (p =? i) eqn:X; auto. assert (p = i) by lia; subst p. rewrite P2E. reflexivity.
            -- intros a0. rewrite !CNT'. destruct (CZ a0) as [-> ->]. pose proof (CR (isacc a0 k p)). pose proof (CR (isacd a0 k p)). cbn in *. lia.
            -- intros a0 Z1 Z2. rewrite !CNT'. destruct (CZ a0) as [-> ->]. pose proof (CR (isacc a0 k p)). pose proof (CR (isacd a0 k p)). cbn in *. lia.
          * (* phase 2 of ballot (bn, i) starts *)
            subst i. cbn [me peers cfg_of] in *.
            assert (MSGS : forall a0 k0 p0, cnt (isacc a0 k0 p0) (msgs_of dst outs) = (if Z.eqb bn k0 && Z.eqb dst p0 && existsb (Z.eqb a0) (others n dst) then 1%nat else 0%nat)
                                          /\ cnt (isacd a0 k0 p0) (msgs_of dst outs) = 0%nat).
            { intros a0 k0 p0. rewrite OE. unfold msgs_of. rewrite filter_app, map_app, !cnt_app.
              rewrite filter_accepts, (cnt_map_acc (others n dst) dst bn v a0 k0 p0 (others_NoDup n dst)).
              assert (Z3 : forall P, (forall d0 x, P (dst, ODecided d0 x) = false) -> cnt P (map (fun o => (dst, o)) (filter (fun o => negb (is_retry o)) o3)) = 0%nat).
              { intros P HP. apply cnt_zero. intros [sr mm] I. apply in_map_iff in I as [o [Eo Io]]. inversion Eo; subst.
                apply filter_In in Io as [Io _]. destruct (O3 _ Io) as [d0 ->]. apply HP. }
              rewrite (Z3 (isacc a0 k0 p0)) by reflexivity. rewrite (Z3 (isacd a0 k0 p0)) by reflexivity.
              split; [lia|]. rewrite Nat.add_0_r. apply cnt_zero. intros [sr mm] I. apply in_map_iff in I as [o [Eo Io]]. inversion Eo; subst.
              apply in_map_iff in Io as [d0 [<- _]]. reflexivity. }
            destruct (Z.eq_dec p dst) as [->|NP]; [destruct (Z.eq_dec k bn) as [->|NK]|].
            -- (* the ballot whose phase 2 starts *)
               fold s in F. assert (LT : Z.of_nat (length rs) < quorum (cfg_of n dst)) by (cbn [peers cfg_of quorum] in *; unfold quorum in *; cbn in *; lia).
               destruct (NOACC dst bn rs F LT) as [ZERO [NV _]].
               destruct (ACK dst bn) as [Qc [ND [LN [MEM _]]]].
               assert (Qc = []).
               { destruct Qc as [|q r]; auto. destruct (MEM q (or_introl eq_refl)) as [[v0 V0] _]. exfalso. eapply NV; eauto. }
               subst Qc. cbn in LN. fold s in LN.
               assert (NETZ : forall a0, cnt (isacc a0 bn dst) net0 = 0%nat /\ cnt (isacd a0 bn dst) net0 = 0%nat).
               { intros a0. destruct (ZERO a0). pose proof (CR (isacc a0 bn dst)). pose proof (CR (isacd a0 bn dst)). lia. }
               assert (ALL' : forall a0, (cnt (isacc a0 bn dst) (net w') + cnt (isacd a0 bn dst) (net w') <= 1)%nat).
               { intros a0. rewrite !CNT'. destruct (NETZ a0) as [-> ->]. destruct (MSGS a0 bn dst) as [-> ->].
                 destruct (_ && _); lia. }
               rewrite NIs. destruct P2k as [E|[E AB]].
               ++ exists []. rewrite E, <- LN. split; [constructor|]. split; [reflexivity|]. split; [intros a0 []|exact ALL'].
               ++ exists [dst]. rewrite E. split; [repeat constructor; auto|]. split; [reflexivity|]. split; [|exact ALL'].
                  intros a0 [<-|[]]. split.
                  ** exists (acc_v s'). pose proof (a_acc n w' AI' dst (bn, dst)) as V. rewrite NIs in V. apply V; auto.
                  ** split; auto. rewrite !CNT'. destruct (NETZ dst) as [-> ->]. destruct (MSGS dst bn dst) as [-> ->].
                     assert (existsb (Z.eqb dst) (others n dst) = false).
                     { destruct (existsb (Z.eqb dst) (others n dst)) eqn:X; auto. apply existsb_exists in X as [y [Iy Qy]].
                       assert (dst = y) by lia; subst y. apply others_In in Iy. lia. }
                     rewrite H, andb_false_r. auto.
            -- (* another ballot of the same proposer *)
               assert (CZ : forall a0, cnt (isacc a0 k dst) (msgs_of dst outs) = 0%nat /\ cnt (isacd a0 k dst) (msgs_of dst outs) = 0%nat).
               { intros a0. destruct (MSGS a0 k dst) as [-> ->]. assert ((bn =? k) = false) by lia. rewrite H. auto. }
               apply KEEP.
               ++ rewrite NIs. fold s. apply P2o; auto.
               ++ intros a0. rewrite !CNT'. destruct (CZ a0) as [-> ->]. pose proof (CR (isacc a0 k dst)). pose proof (CR (isacd a0 k dst)). cbn in *. lia.
               ++ intros a0 Z1 Z2. rewrite !CNT'. destruct (CZ a0) as [-> ->]. pose proof (CR (isacc a0 k dst)). pose proof (CR (isacd a0 k dst)). cbn in *. lia.
            -- assert (CZ : forall a0, cnt (isacc a0 k p) (msgs_of dst outs) = 0%nat /\ cnt (isacd a0 k p) (msgs_of dst outs) = 0%nat).
               { intros a0. destruct (MSGS a0 k p) as [-> ->]. assert ((dst =? p) = false) by lia. rewrite H, andb_false_r. auto. }
               apply KEEP.
               ++ rewrite NO by auto. reflexivity.
               ++ intros a0. rewrite !CNT'. destruct (CZ a0) as [-> ->]. pose proof (CR (isacc a0 k p)). pose proof (CR (isacd a0 k p)). cbn in *. lia.
               ++ intros a0 Z1 Z2. rewrite !CNT'. destruct (CZ a0) as [-> ->]. pose proof (CR (isacc a0 k p)). pose proof (CR (isacd a0 k p)). cbn in *. lia.
        + (* Nack *)
          destruct SD as [_ [P2E [_ [_ Q]]]].
          assert (CZ := QZ (fun o H => or_introl (Q o H))).
          apply KEEP.
          * unfold p2v. rewrite NODE. destruct (p =? i) eqn:X; auto. assert (p = i) by lia; subst p. rewrite P2E. reflexivity.
          * intros a0. rewrite !CNT'. destruct (CZ a0 k p) as [-> ->]. pose proof (CR (isacc a0 k p)). pose proof (CR (isacd a0 k p)). cbn in *. lia.
          * intros a0 Z1 Z2. rewrite !CNT'. destruct (CZ a0 k p) as [-> ->]. pose proof (CR (isacc a0 k p)). pose proof (CR (isacd a0 k p)). cbn in *. lia.
        + (* Accept *)
          destruct SD as [_ [P2E [_ [_ OUT]]]].
          destruct (ui_src n w U _ _ _ _ _ IS) as [ESRC _]. subst src.
          assert (P2S : p2v (nodes w' p) k = p2v (nodes w p) k).
          { unfold p2v. rewrite NODE. destruct (p =? i) eqn:X; auto. assert (p = i) by lia; subst p. rewrite P2E. reflexivity. }
          assert (MS : forall a0, cnt (isacc a0 k p) (msgs_of i outs) = 0%nat /\
                                 (cnt (isacd a0 k p) (msgs_of i outs) <= (if isacc a0 k p (bnode, OAccept dst bn bnode v) then 1 else 0))%nat).
          { intros a0. destruct OUT as [Q|[OE _]].
            - destruct (QZ (fun o H => or_introl (Q o H)) a0 k p) as [-> ->]. split; auto. lia.
            - rewrite OE. unfold msgs_of, cnt. cbn. unfold isacc, isacd. cbn. split; auto. subst i.
              destruct ((bnode =? p) && (bn =? k) && (bnode =? p) && (dst =? a0)) eqn:Q; cbn; [|lia].
              assert ((dst =? a0) && (bn =? k) && (bnode =? p) = true) by lia. rewrite H. lia. }
          apply KEEP; auto.
          * intros a0. rewrite !CNT'. destruct (MS a0) as [-> LE]. pose proof (CR (isacc a0 k p)). pose proof (CR (isacd a0 k p)). cbn in H0. lia.
          * intros a0 Z1 Z2. rewrite !CNT'. destruct (MS a0) as [-> LE]. pose proof (CR (isacc a0 k p)). pose proof (CR (isacd a0 k p)). cbn in H0.
            destruct (isacc a0 k p (bnode, OAccept dst bn bnode v)); lia.
        + (* Accepted *)
          destruct SD as [_ [P2o [P2k [D1 D2]]]].
          destruct (ACD _ _ _ _ _ IS) as [EDB [ESF [v0 V0]]]. subst bnode src. subst i.
          assert (OUTD : forall o, In o outs -> quiet_out o \/ exists d v, o = ODecided d v).
          { intros o Ho. destruct (decided s) eqn:D.
            - destruct (D1 eq_refl) as [_ [_ E]]. rewrite E in Ho. contradiction.
            - destruct (D2 eq_refl) as [[_ E]|[_ [_ [_ [_ O]]]]]; [rewrite E in Ho; contradiction|]. destruct (O _ Ho) as [d ->]. right; eauto. }
          assert (CZ := QZ OUTD).
          destruct (Z.eq_dec p dst) as [->|NP]; [destruct (Z.eq_dec k bn) as [->|NK]|].
          * (* the tally of this ballot grows by the sender *)
            destruct (ACK dst bn) as [Qc [ND [LN [MEM ALL]]]].
            pose proof (CR (isacd from bn dst)) as C1. unfold isacd at 2 in C1. cbn in C1. rewrite !Z.eqb_refl in C1. cbn in C1.
            pose proof (CR (isacc from bn dst)) as C2. unfold isacc at 2 in C2. cbn in C2.
            pose proof (ALL from) as AF.
            assert (NIN : ~ In from Qc). { intros Hq. destruct (MEM from Hq) as [_ [_ [_ Z2]]]. lia. }
            exists (from :: Qc). split; [constructor; auto|]. split.
            { rewrite NIs, P2k. cbn [length]. fold s in LN. lia. }
            split.
            -- intros a0 [<-|Ha].
               ++ split; [exists v0; apply VMONO; exact V0|]. split; [exact RS|]. rewrite !CNT'. destruct (CZ from bn dst) as [-> ->]. lia.
               ++ destruct (MEM a0 Ha) as [[v1 V1] [R [Z1 Z2]]]. split; [exists v1; apply VMONO; exact V1|]. split; auto.
                  rewrite !CNT'. destruct (CZ a0 bn dst) as [-> ->]. pose proof (CR (isacc a0 bn dst)). pose proof (CR (isacd a0 bn dst)). cbn in *. lia.
            -- intros a0. rewrite !CNT'. destruct (CZ a0 bn dst) as [-> ->]. specialize (ALL a0).
               pose proof (CR (isacc a0 bn dst)). pose proof (CR (isacd a0 bn dst)). cbn in *. lia.
          * apply KEEP.
            -- rewrite NIs. fold s. apply P2o; auto.
            -- intros a0. rewrite !CNT'. destruct (CZ a0 k dst) as [-> ->]. pose proof (CR (isacc a0 k dst)). pose proof (CR (isacd a0 k dst)). cbn in *. lia.
            -- intros a0 Z1 Z2. rewrite !CNT'. destruct (CZ a0 k dst) as [-> ->]. pose proof (CR (isacc a0 k dst)). pose proof (CR (isacd a0 k dst)). cbn in *. lia.
          * apply KEEP.
            -- rewrite NO by auto. reflexivity.
            -- intros a0. rewrite !CNT'. destruct (CZ a0 k p) as [-> ->]. pose proof (CR (isacc a0 k p)). pose proof (CR (isacd a0 k p)). cbn in *. lia.
            -- intros a0 Z1 Z2. rewrite !CNT'. destruct (CZ a0 k p) as [-> ->]. pose proof (CR (isacc a0 k p)). pose proof (CR (isacd a0 k p)). cbn in *. lia.
        + (* Decided *)
          destruct SD as [_ [P2E [OE _]]].
          assert (CZ : forall a0, cnt (isacc a0 k p) (msgs_of i outs) = 0%nat /\ cnt (isacd a0 k p) (msgs_of i outs) = 0%nat).
          { intros a0. rewrite OE. unfold msgs_of, cnt. cbn. auto. }
          apply KEEP.
          * unfold p2v. rewrite NODE. destruct (p =? i) eqn:X; auto. assert (p = i) by lia; subst p. rewrite P2E. reflexivity.
          * intros a0. rewrite !CNT'. destruct (CZ a0) as [-> ->]. pose proof (CR (isacc a0 k p)). pose proof (CR (isacd a0 k p)). cbn in *. lia.
          * intros a0 Z1 Z2. rewrite !CNT'. destruct (CZ a0) as [-> ->]. pose proof (CR (isacc a0 k p)). pose proof (CR (isacd a0 k p)). cbn in *. lia. }
    (* Accept messages produced now belong to the stepping proposer *)
    assert (NEWACC : forall src d k b x, In (src, OAccept d k b x) (msgs_of i outs) -> src = i /\ b = i /\ In (OAccept d k b x) outs).
    { intros src d k b x H. apply msgs_of_In in H as [-> [Ho _]]. destruct (SAC _ _ _ _ Ho) as [EB _]. cbn in EB. auto. }
    (* d_pvl *)
    assert (D_PVL : forall p k x, prop w' (k, p) x -> amem k (pvals (nodes w' p)) = true -> oget k (pvals (nodes w' p)) = x).
    { intros p k x [src [d P]] AM. cbn [fst snd] in P. apply SENT in P as [P|P].
      - (* an older proposal *)
        destruct (Z.eq_dec p i) as [->|NP]; [|rewrite NO in * by auto; apply PVL; [exists src, d; exact P|exact AM]].
        rewrite NIs in *. destruct (ui_src n w U _ _ _ _ _ P) as [_ [rs [F L]]]. fold s in F.
        assert (AMP1 : amem k (p1 s) = true) by (unfold amem; rewrite F; auto).
        assert (OLD : amem k (pvals s) = true /\ oget k (pvals s') = oget k (pvals s)).
        { destruct inp.
          - destruct SD as [_ [_ [_ [_ PVF]]]]. destruct (PVF k AMP1 AM); auto.
          - destruct SD as [E _]. rewrite E in *. auto.
          - destruct SD as [[E _]|[rs0 [v [o3 [F0 [LQ [_ [_ [_ [_ [PVo _]]]]]]]]]]].
            + rewrite E in *. auto.
            + destruct (Z.eq_dec k bn) as [->|NK].
              * exfalso. rewrite F in F0. inversion F0; subst. cbn [peers cfg_of quorum] in *. unfold quorum in *. cbn in *. lia.
              * unfold amem, oget in *. rewrite PVo in * by auto. auto.
          - destruct SD as [E _]. rewrite E in *. auto.
          - destruct SD as [E _]. rewrite E in *. auto.
          - destruct SD as [E _]. rewrite E in *. auto.
          - destruct SD as [E _]. rewrite E in *. auto.
          - destruct SD as [_ [_ [_ [_ PVF]]]]. destruct (PVF k AMP1 AM); auto. }
        destruct OLD as [O1 O2]. rewrite O2. apply (PVL i k x); [exists src, d; exact P|exact O1].
      - (* phase 2 of this ballot starts now *)
        destruct (NEWACC _ _ _ _ _ P) as [-> [-> Ho]]. rewrite NIs in *.
        destruct inp.
        + exfalso. destruct SD as [_ [_ [_ [Q _]]]]. apply Q in Ho. exact Ho.
        + exfalso. destruct SD as [_ [_ [_ [_ Q]]]]. apply Q in Ho. exact Ho.
        + destruct SD as [[_ [_ [_ [_ OE]]]]|[rs0 [v [o3 [F0 [LQ [OE [O3 [AMk [OGk _]]]]]]]]]].
          * rewrite OE in Ho. contradiction.
          * rewrite OE in Ho. apply in_app_or in Ho as [Ho|Ho].
            -- apply in_map_iff in Ho as [d0 [Eo _]]. injection Eo as E1 E2 E3. rewrite <- E3, <- E2. exact OGk.
            -- destruct (O3 _ Ho) as [d0 X]. discriminate.
        + exfalso. destruct SD as [_ [_ [_ [_ Q]]]]. apply Q in Ho. exact Ho.
        + exfalso. destruct SD as [_ [_ [_ [_ [Q|[OE _]]]]]]; [apply Q in Ho; exact Ho|]. rewrite OE in Ho. destruct Ho as [Ho|[]]. discriminate.
        + exfalso. destruct SD as [_ [_ [_ [D1 D2]]]]. destruct (decided s) eqn:D.
          * destruct (D1 eq_refl) as [_ [_ E]]. rewrite E in Ho. contradiction.
          * destruct (D2 eq_refl) as [[_ E]|[_ [_ [_ [_ O]]]]]; [rewrite E in Ho; contradiction|]. destruct (O _ Ho) as [d0 X]. discriminate.
        + exfalso. destruct SD as [_ [_ [OE _]]]. rewrite OE in Ho. contradiction.
        + exfalso. destruct SD as [_ [_ [_ [Q _]]]]. apply Q in Ho. exact Ho. }
    (* d_dec *)
    assert (D_DEC : forall j, decided (nodes w' j) = true -> exists b, chosen n w' b (dec_v (nodes w' j))).
    { intros j D. destruct (Z.eq_dec j i) as [->|NJ]; [|rewrite NO in * by auto; destruct (DEC j D) as [b C]; eauto].
      rewrite NIs in *. destruct (decided s) eqn:D0.
      - destruct (step_decision_stable (cfg_of n i) s inp D0) as [_ EV]. rewrite ST in EV. cbn in EV. rewrite EV.
        destruct (DEC i D0) as [b C]. fold s in C. eauto.
      - destruct PROV as [[K _]|[k1 [src [m [HN [EN0 [EI [Ei [IS [NRm [RI RS]]]]]]]]]]].
        + exfalso. destruct K as [[v ->]|[b ->]]; destruct SD as [_ [E _]]; congruence.
        + destruct m; cbn in EI, Ei; try discriminate; rewrite EI in SD.
          * exfalso. destruct SD as [_ [_ [E _]]]. congruence.
          * destruct SD as [[_ [_ [E _]]]|[rs0 [v [o3 [F0 [LQ [_ [_ [_ [_ [_ [_ [P2k [S8 _]]]]]]]]]]]]]]; [congruence|].
            exfalso. destruct (S8 D) as [X|[_ QL]]; [congruence|].
            subst i. rewrite quorum_cfg in QL by auto. destruct P2k as [E|[E _]]; rewrite E in QL.
            -- destruct (ACK dst bn) as [Qc [_ [LN [MEM _]]]]. fold s in F0, LN.
               assert (LT : Z.of_nat (length rs0) < quorum (cfg_of n dst)) by (rewrite quorum_cfg in * by auto; lia).
               destruct (NOACC dst bn rs0 F0 LT) as [_ [NV _]].
               destruct Qc as [|q r]; [cbn in LN; lia|]. destruct (MEM q (or_introl eq_refl)) as [[v0 V0] _]. eapply NV; eauto.
            -- lia.
          * exfalso. destruct SD as [_ [_ [E _]]]. congruence.
          * exfalso. destruct SD as [_ [_ [E _]]]. congruence.
          * (* the proposer's tally reaches the quorum *)
            destruct SD as [_ [_ [_ [_ D2]]]]. destruct (D2 eq_refl) as [[X _]|[_ [AMk [EV [QL OUT]]]]]; [congruence|].
            subst i. destruct (ACD _ _ _ _ _ IS) as [EDB _]. subst bnode.
            destruct (D_ACK dst bn) as [Qc [ND [LN [MEM _]]]]. rewrite NIs in LN.
            exists (bn, dst), Qc. split.
            -- split; auto. split; [intros a0 Ha; apply (MEM a0 Ha)|]. rewrite quorum_cfg in QL by auto. lia.
            -- intros a0 Ha. destruct (MEM a0 Ha) as [[v0 V0] _].
               assert (v0 = dec_v s'); [|subst; exact V0].
               rewrite EV. symmetry. apply (PVL dst bn v0); auto.
               destruct (a_vprop n w' AI' _ _ _ V0) as [sr [d0 P]]. cbn [fst snd] in P. apply SENT in P as [P|P]; [exists sr, d0; exact P|].
               exfalso. apply msgs_of_In in P as [_ [Ho _]]. destruct (OUT _ Ho) as [d1 X]. discriminate.
          * (* learned from a Decided message *)
            destruct SD as [_ [_ [_ [_ [_ EV]]]]]. rewrite (EV eq_refl). destruct (DMSG _ _ _ IS) as [b C]. eauto. }
    (* d_dmsg *)
    assert (D_DMSG : forall src d v, In (src, ODecided d v) (sent w') -> exists b, chosen n w' b v).
    { intros src d v H. apply SENT in H as [H|H]; [destruct (DMSG _ _ _ H) as [b C]; eauto|].
      apply msgs_of_In in H as [-> [Ho _]]. destruct (SDO d v NIi PVi Ho) as [_ [D EV]].
      specialize (D_DEC i). rewrite NIs in D_DEC. rewrite <- EV. apply D_DEC; auto. }
    split; auto.
    intros j. rewrite NODE. destruct (j =? i) eqn:X; auto.
  Qed.
End Decide.

(* ------------------------------------------------------------------ *)
(** * Agreement *)
Lemma ainv_always n : 2 <= n -> forall sch, ainv n (sys_run n sys_init sch).
Proof.
  intros N sch. unfold sys_run. apply ainv_run; auto; [apply ainv_init|]. apply (dr_along_always n sch []).
Qed.

Lemma dinv_always n : 2 <= n -> forall sch, dinv n (sys_run n sys_init sch).
Proof.
  intros N sch. induction sch as [|a pre IH] using rev_ind.
  - apply dinv_init.
  - assert (E : sys_run n sys_init (pre ++ [a]) = sys_step n (sys_run n sys_init pre) a).
    { unfold sys_run. rewrite fold_left_app. reflexivity. }
    rewrite E. apply dinv_step; auto; [apply ainv_always; auto|]. rewrite <- E. apply ainv_always; auto.
Qed.

(** a node that reports a decision reports a chosen value *)
Theorem decided_is_chosen n : 2 <= n -> forall sch i x,
  report (sys_run n sys_init sch) i = Some x -> exists b, chosen n (sys_run n sys_init sch) b x.
Proof.
  intros N sch i x R. unfold report in R. destruct (decided (nodes (sys_run n sys_init sch) i)) eqn:D; [|discriminate].
  inversion R; subst. apply (d_dec n _ (dinv_always n N sch) i D).
Qed.

(** AGREEMENT: under any message delays, reordering, loss, partitions, retry
    timings and competing proposers, any two nodes that report a decided value
    report the same value. *)
Theorem agreement n : 2 <= n -> forall sch i j x y,
  report (sys_run n sys_init sch) i = Some x -> report (sys_run n sys_init sch) j = Some y -> x = y.
Proof.
  intros N sch i j x y RI RJ.
  destruct (decided_is_chosen n N sch i x RI) as [b C]. destruct (decided_is_chosen n N sch j y RJ) as [b' C'].
  exact (chosen_unique_always n N sch b x b' y C C').
Qed.

Lemma voted_run_mono n ext : forall w a b v, voted w a b v -> voted (sys_run n w ext) a b v.
Proof.
  induction ext as [|e r IH]; cbn; auto. intros w a b v V. apply IH. unfold voted. apply votes_mono. exact V.
Qed.

(** ... also across time: a decision reported after [sch] and one reported
    after any continuation [sch ++ ext] agree (with stability, a node's own
    report never changes, and different nodes never disagree at any two moments). *)
Theorem agreement_over_time n : 2 <= n -> forall sch ext i j x y,
  report (sys_run n sys_init sch) i = Some x -> report (sys_run n sys_init (sch ++ ext)) j = Some y -> x = y.
Proof.
  intros N sch ext i j x y RI RJ.
  destruct (decided_is_chosen n N sch i x RI) as [b [Q [IQ VQ]]].
  assert (C : chosen n (sys_run n sys_init (sch ++ ext)) b x).
  { exists Q. split; auto. intros a0 Ha. rewrite sys_run_app. apply voted_run_mono. apply VQ; auto. }
  destruct (decided_is_chosen n N (sch ++ ext) j y RJ) as [b' C'].
  exact (chosen_unique_always n N (sch ++ ext) b x b' y C C').
Qed.
