(** C12 — the network does not duplicate messages, hence the phase-1 response
    list of a ballot never holds two responses of the same sender.  This
    discharges the hypothesis of [chosen_unique_partial]. *)
From HS Require Import Base.Prelude C12.Model C12.PaxosNode C12.PaxosSys C12.PaxosAgree.
Local Open Scope Z_scope.

(* ------------------------------------------------------------------ *)
(** * Counting *)
Definition cnt {A} (P : A -> bool) (l : list A) : nat := length (filter P l).

Lemma cnt_app {A} (P : A -> bool) l1 l2 : cnt P (l1 ++ l2) = (cnt P l1 + cnt P l2)%nat.
Proof. unfold cnt. rewrite filter_app, app_length. auto. Qed.

Lemma cnt_remove_nth {A} (P : A -> bool) k : forall l x, nth_error l k = Some x ->
  (cnt P (remove_nth k l) + (if P x then 1 else 0) = cnt P l)%nat.
Proof.
  induction k; intros [|y r] x H; cbn in H; try discriminate.
  - inversion H; subst. unfold cnt. cbn. destruct (P x); cbn; lia.
  - specialize (IHk r x H). unfold cnt in *. cbn. destruct (P y); cbn; lia.
Qed.

Lemma cnt_remove_nth_le {A} (P : A -> bool) k l : (cnt P (remove_nth k l) <= cnt P l)%nat.
Proof.
  revert l; induction k; intros [|y r]; cbn; auto. unfold cnt; cbn. destruct (P y); cbn; lia.
  specialize (IHk r). unfold cnt in *. cbn. destruct (P y); cbn; lia.
Qed.

Lemma cnt_zero {A} (P : A -> bool) l : (forall x, In x l -> P x = false) -> cnt P l = 0%nat.
Proof. unfold cnt. induction l; cbn; auto. intros H. rewrite (H a) by auto. apply IHl. auto. Qed.

Lemma cnt_pos_In {A} (P : A -> bool) l : (0 < cnt P l)%nat -> exists x, In x l /\ P x = true.
Proof.
  unfold cnt. induction l; cbn; [lia|]. destruct (P a) eqn:E; [eauto|]. intros H. destruct (IHl H) as [x [I Q]]. eauto.
Qed.

(** messages of ballot (k, p) concerning acceptor a *)
Definition isprep (a k p : Z) (m : Z * pout) : bool :=
  match snd m with OPrepare d k' b => (d =? a) && (k' =? k) && (b =? p) | _ => false end.
Definition isprom (a k p : Z) (m : Z * pout) : bool :=
  match snd m with OPromise d k' b f _ _ => (d =? p) && (k' =? k) && (b =? p) && (f =? a) | _ => false end.
Definition froms (rs : list resp) : list Z := map (fun r : resp => fst (fst r)) rs.
Definition resp_cnt (a : Z) (w : sys) (p k : Z) : nat :=
  match afind k (p1 (nodes w p)) with Some rs => count_occ Z.eq_dec (froms rs) a | None => 0%nat end.

Definition tok (w : sys) (p k a : Z) : nat :=
  (cnt (isprep a k p) (net w) + cnt (isprom a k p) (net w) + resp_cnt a w p k)%nat.

(* ------------------------------------------------------------------ *)
(** * What a handler call emits, by kind of input *)

Lemma others_NoDup n i : NoDup (others n i).
Proof.
  unfold others. apply NoDup_filter. apply FinFun.Injective_map_NoDup; [intros a b; lia|apply seq_NoDup].
Qed.

Lemma cnt_map {A B} (P : B -> bool) (g : A -> B) l : cnt P (map g l) = cnt (fun x => P (g x)) l.
Proof. unfold cnt. induction l; cbn; auto. destruct (P (g a)); cbn; rewrite IHl; auto. Qed.

Lemma cnt_ext {A} (P Q : A -> bool) l : (forall x, P x = Q x) -> cnt P l = cnt Q l.
Proof. intros H. unfold cnt. induction l; cbn; auto. rewrite H. destruct (Q a); cbn; rewrite IHl; auto. Qed.

Lemma cnt_eq_NoDup (ps : list Z) a : NoDup ps ->
  cnt (fun d => d =? a) ps = if existsb (Z.eqb a) ps then 1%nat else 0%nat.
Proof.
  induction 1 as [|x l N ND IH]; cbn; auto. unfold cnt in *. cbn.
  destruct (x =? a) eqn:E; cbn.
  - assert (x = a) by lia; subst x. rewrite Z.eqb_refl. cbn.
    assert (existsb (Z.eqb a) l = false).
    { destruct (existsb (Z.eqb a) l) eqn:X; auto. apply existsb_exists in X as [y [I Q]]. assert (a = y) by lia; subst; contradiction. }
    rewrite H in IH. rewrite IH. reflexivity.
  - assert ((a =? x) = false) by lia. rewrite H. cbn. exact IH.
Qed.

Lemma cnt_map_prep (ps : list Z) i kk a k p :
  NoDup ps ->
  cnt (isprep a k p) (map (fun o => (i, o)) (map (fun d => OPrepare d kk i) ps)) =
  if (kk =? k) && (i =? p) && existsb (Z.eqb a) ps then 1%nat else 0%nat.
Proof.
  intros ND. rewrite !cnt_map. unfold isprep. cbn.
  destruct ((kk =? k) && (i =? p)) eqn:E; cbn.
  - rewrite <- (cnt_eq_NoDup ps a ND). apply cnt_ext. intros x. rewrite <- andb_assoc, E, andb_true_r. reflexivity.
  - apply cnt_zero. intros x _. rewrite <- andb_assoc, E, andb_false_r. reflexivity.
Qed.

(** a client proposal or a retry: either nothing, or Prepares of a fresh ballot *)
Lemma step_fresh c s i : ninv c s -> (exists v, i = IPropose v) \/ (exists b, i = IRetry b) ->
  let s' := fst (step c s i) in
  (p1 s' = p1 s /\ snd (step c s i) = []) \/
  (exists n0 rs0, afind n0 (p1 s) = None /\ (forall k, amem k (p1 s) = true -> k < n0) /\
     snd (step c s i) = map (fun d => OPrepare d n0 (me c)) (peers c) /\
     afind n0 (p1 s') = Some rs0 /\ (rs0 = [] \/ exists ab av, rs0 = [(me c, ab, av)]) /\
     forall k, k <> n0 -> afind k (p1 s') = afind k (p1 s)).
Proof.
  intros [A B C] K.
  assert (G : forall s5 n0, p1 s5 = aset n0 [] (p1 s) -> cur s5 = n0 -> (forall k, amem k (p1 s) = true -> k < n0) ->
     exists rs0, afind n0 (p1 s) = None /\ snd (start_phase1 c s5) = map (fun d => OPrepare d n0 (me c)) (peers c) /\
     afind n0 (p1 (fst (start_phase1 c s5))) = Some rs0 /\ (rs0 = [] \/ exists ab av, rs0 = [(me c, ab, av)]) /\
     forall k, k <> n0 -> afind k (p1 (fst (start_phase1 c s5))) = afind k (p1 s)).
  { intros s5 n0 E1 E2 FR.
    assert (NN : afind n0 (p1 s) = None).
    { destruct (afind n0 (p1 s)) eqn:X; auto. assert (amem n0 (p1 s) = true) by (unfold amem; rewrite X; auto). apply FR in H. lia. }
    unfold start_phase1. rewrite E2. destruct (may_promise s5 (n0, me c)).
    - rewrite E1, afind_aset_same. cbn. exists ([] ++ [(me c, acc_b s5, acc_v s5)]).
      rewrite afind_aset_same. split; [exact NN|]. split; [reflexivity|]. split; [reflexivity|]. split; [right; cbn; eauto|].
      intros k N. rewrite !afind_aset_other by auto. reflexivity.
    - cbn. rewrite E1, afind_aset_same. exists []. split; [exact NN|]. split; [reflexivity|]. split; [reflexivity|]. split; [left; reflexivity|].
      intros k N. rewrite afind_aset_other by auto. reflexivity. }
  destruct K as [[v ->]|[b ->]]; cbn [step].
  - destruct (decided s); [left; split; reflexivity|]. right.
    set (s5 := set_p2 _ _). set (n0 := cur s5).
    assert (FR : forall k, amem k (p1 s) = true -> k < n0).
    { intros k H. apply C in H. unfold n0, s5. cbn. destruct (promised s); lia. }
    destruct (G s5 n0 eq_refl eq_refl FR) as [rs0 [X1 [X2 [X3 [X4 X5]]]]]. exists n0, rs0. repeat split; auto.
  - destruct (decided s); [left; split; reflexivity|]. destruct (afind b (pvals s)); [|left; split; reflexivity]. right.
    set (s5 := set_p2 _ _).
    assert (E1 : p1 s5 = aset (cur s + 1) [] (p1 s)) by (unfold s5; destruct (afind b (futs _)); reflexivity).
    assert (E2 : cur s5 = cur s + 1) by (unfold s5; destruct (afind b (futs _)); reflexivity).
    assert (FR : forall k, amem k (p1 s) = true -> k < cur s + 1) by (intros k H; apply C in H; lia).
    destruct (G s5 (cur s + 1) E1 E2 FR) as [rs0 [X1 [X2 [X3 [X4 X5]]]]]. exists (cur s + 1), rs0. repeat split; auto.
Qed.

(** a delivered message: effect on responses and emitted Prepare / Promise *)
Lemma step_msg c s i : (forall v, i <> IPropose v) -> (forall b, i <> IRetry b) ->
  let s' := fst (step c s i) in let outs := snd (step c s i) in
  (forall d k b, ~ In (OPrepare d k b) outs) /\
  (match i with
   | IPrepare src k bn => outs = [] \/ (exists ab av, outs = [OPromise src k bn (me c) ab av]) \/ (exists h hm, outs = [ONack src k bn h hm])
   | _ => forall d k b f ab av, ~ In (OPromise d k b f ab av) outs
   end) /\
  (match i with
   | IPromise k f ab av =>
       (forall k', k' <> k -> afind k' (p1 s') = afind k' (p1 s)) /\
       match afind k (p1 s) with
       | Some rs => afind k (p1 s') = Some (rs ++ [(f, ab, av)])
       | None => afind k (p1 s') = None
       end
   | _ => p1 s' = p1 s
   end).
Proof.
  intros NP NR. split; [|split].
  - intros d k b H. pose proof (step_prepare_out c s i d k b H) as _.
    destruct i; cbn [step] in H.
    + exfalso; eapply NP; eauto.
    + destruct (negb _); cbn in H; [contradiction|]. destruct (may_promise _ _); cbn in H; [destruct H as [H|[]]; discriminate|].
      destruct (promised s); cbn in H; [destruct H as [H|[]]; discriminate|contradiction].
    + destruct (afind bn (p1 s)); cbn in H; [|contradiction].
      match goal with H : context [if ?b then _ else _] |- _ => destruct b end; [|cbn in H; contradiction].
      destruct (start_phase2_eff c (set_p1 s (aset bn (l ++ [(from, ab, av)]) (p1 s))) bn) as [_ [_ [_ [_ O]]]].
      destruct (O _ H) as [[x E]|[x [y E]]]; discriminate.
    + destruct (cur s <? hn); match goal with H : context [if ?b then _ else _] |- _ => destruct b end; cbn in H;
        try contradiction; destruct H as [H|[]]; discriminate.
    + destruct (negb _); cbn in H; [contradiction|]. destruct (may_promise _ _); cbn in H; [destruct H as [H|[]]; discriminate|].
      destruct (promised s); cbn in H; [destruct H as [H|[]]; discriminate|contradiction].
    + match goal with H : context [if negb ?b then _ else _] |- _ => destruct b end; cbn [negb] in H; [|cbn in H; contradiction].
      match goal with H : context [if ?b then _ else _] |- _ => destruct b end; [|cbn in H; contradiction].
      destruct (decide_eff c (set_p2 s (aset bn ((match afind bn (p2 s) with Some n => n | None => 0 end) + 1) (p2 s))) bn
                  (oget bn (pvals (set_p2 s (aset bn ((match afind bn (p2 s) with Some n => n | None => 0 end) + 1) (p2 s)))))) as [_ [_ [_ [_ O]]]].
      destruct (O _ H) as [x [y E]]. discriminate.
    + destruct (decided s); cbn in H; contradiction.
    + exfalso; eapply NR; eauto.
  - destruct i; try (intros d k b f ab0 av0 H; apply step_promise_out in H as [E _]; discriminate).
    cbn [step]. destruct (negb _); [left; reflexivity|]. destruct (may_promise _ _); [right; left; cbn; eauto|].
    destruct (promised s); [right; right; cbn; eauto|left; reflexivity].
  - destruct i; cbn [step].
    + exfalso; eapply NP; eauto.
    + destruct (negb _); [reflexivity|]. destruct (may_promise _ _); [reflexivity|]. destruct (promised s); reflexivity.
    + destruct (afind bn (p1 s)) eqn:F.
      * assert (G : (forall k', k' <> bn -> afind k' (aset bn (l ++ [(from, ab, av)]) (p1 s)) = afind k' (p1 s)) /\
                    afind bn (aset bn (l ++ [(from, ab, av)]) (p1 s)) = Some (l ++ [(from, ab, av)])).
        { split; [intros k' N; apply afind_aset_other; auto|apply afind_aset_same]. }
        match goal with |- context [if ?b then _ else _] => destruct b end; [rewrite start_phase2_p1|]; exact G.
      * cbn. split; auto.
    + destruct (cur s <? hn); match goal with |- context [if ?b then _ else _] => destruct b end; reflexivity.
    + destruct (negb _); [reflexivity|]. destruct (may_promise _ _); [reflexivity|]. destruct (promised s); reflexivity.
    + match goal with |- context [if negb ?b then _ else _] => destruct b end; cbn [negb]; [|reflexivity].
      match goal with |- context [if ?b then _ else _] => destruct b end; [|reflexivity].
      rewrite decide_p1. reflexivity.
    + destruct (decided s); reflexivity.
    + exfalso; eapply NR; eauto.
Qed.

(* ------------------------------------------------------------------ *)
(** * Exact shape of the network after a step *)
Definition msgs_of (i : Z) (outs : list pout) : list (Z * pout) :=
  map (fun o => (i, o)) (filter (fun o => negb (is_retry o)) outs).

Lemma sys_step_net n w a :
  let w' := sys_step n w a in
  w' = w \/
  (exists k, net w' = remove_nth k (net w) /\ nodes w' = nodes w /\ sent w' = sent w) \/
  (exists i inp net0,
     nodes w' = upd_node (nodes w) i (fst (step (cfg_of n i) (nodes w i) inp)) /\
     net w' = net0 ++ msgs_of i (snd (step (cfg_of n i) (nodes w i) inp)) /\
     sent w' = sent w ++ msgs_of i (snd (step (cfg_of n i) (nodes w i) inp)) /\
     ((((exists v, inp = IPropose v) \/ (exists b, inp = IRetry b)) /\ net0 = net w)
      \/ exists k src m, nth_error (net w) k = Some (src, m) /\ net0 = remove_nth k (net w) /\
                         inp = to_input src m /\ i = dst_of m)).
Proof.
  destruct a; cbn.
  - destruct (nth_error (net w) k) as [[src m]|] eqn:E; [|auto]. right; right.
    exists (dst_of m), (to_input src m), (remove_nth k (net w)). unfold sys_handle.
    destruct (step (cfg_of n (dst_of m)) (nodes w (dst_of m)) (to_input src m)) as [s' outs]. cbn.
    repeat split; auto. right. exists k, src, m. auto.
  - right; left. exists k. cbn. auto.
  - destruct (nth_error (timers w) k) as [[i b]|] eqn:E; [|auto]. right; right.
    exists i, (IRetry b), (net w). unfold sys_handle.
    destruct (step (cfg_of n i) (nodes w i) (IRetry b)) as [s' outs]. cbn.
    repeat split; auto. left. split; eauto.
  - destruct ((0 <=? i) && (i <? n)) eqn:R; [|auto]. right; right.
    exists i, (IPropose v), (net w). unfold sys_handle.
    destruct (step (cfg_of n i) (nodes w i) (IPropose v)) as [s' outs]. cbn.
    repeat split; auto. left. split; eauto.
Qed.

(* ------------------------------------------------------------------ *)
(** * The token invariant *)
Record tinv (n : Z) (w : sys) : Prop := {
  t_ninv : forall i, ninv (cfg_of n i) (nodes w i);
  t_net : forall x, In x (net w) -> In x (sent w);
  t_nr : forall src m, In (src, m) (sent w) -> is_retry m = false;
  t_prep : forall src d k bn, In (src, OPrepare d k bn) (sent w) -> src = bn /\ amem k (p1 (nodes w bn)) = true;
  t_prom : forall src d k bn f ab av, In (src, OPromise d k bn f ab av) (sent w) -> d = bn /\ amem k (p1 (nodes w bn)) = true;
  t_tok : forall p k a, (tok w p k a <= 1)%nat;
}.

Lemma tinv_init n : tinv n sys_init.
Proof. split; cbn; try (intros; contradiction). intros i; apply ninv_init. intros; unfold tok, resp_cnt; cbn; lia. Qed.

Lemma msgs_of_In i outs src m : In (src, m) (msgs_of i outs) -> src = i /\ In m outs /\ is_retry m = false.
Proof.
  unfold msgs_of. intros H. apply in_map_iff in H as [o [E Ho]]. inversion E; subst. apply filter_In in Ho as [Ho R].
  repeat split; auto. destruct (is_retry m); auto; discriminate.
Qed.

Lemma msgs_of_prepares i kk (ps : list Z) :
  msgs_of i (map (fun d => OPrepare d kk i) ps) = map (fun o => (i, o)) (map (fun d => OPrepare d kk i) ps).
Proof. unfold msgs_of. f_equal. induction ps; cbn; auto. f_equal; auto. Qed.

Lemma amem_mono s s' k : p1_le s s' -> amem k (p1 s) = true -> amem k (p1 s') = true.
Proof. unfold amem. intros L H. destruct (afind k (p1 s)) eqn:F; [|discriminate]. destruct (L _ _ F) as [e E]. rewrite E. auto. Qed.

Lemma count_froms_app rs r a :
  count_occ Z.eq_dec (froms (rs ++ [r])) a = (count_occ Z.eq_dec (froms rs) a + (if Z.eqb (fst (fst r)) a then 1 else 0))%nat.
Proof.
  unfold froms. rewrite map_app, count_occ_app. cbn. destruct (Z.eq_dec (fst (fst r)) a), (fst (fst r) =? a) eqn:E; lia.
Qed.

Lemma tinv_step n w a : tinv n w -> tinv n (sys_step n w a).
Proof.
  intros TI. pose proof TI as [NI NT NR TP TM TK].
  destruct (sys_step_net n w a) as [E|[[k0 [E1 [E2 E3]]]|[i [inp [net0 [H1 [H2 [H3 H4]]]]]]]].
  { rewrite E; auto. }
  { (* drop *)
    split; rewrite ?E2, ?E3; auto.
    - intros x H. rewrite E1 in H. apply In_remove_nth in H. auto.
    - intros p k a0. unfold tok, resp_cnt. rewrite E1, E2.
      pose proof (cnt_remove_nth_le (isprep a0 k p) k0 (net w)). pose proof (cnt_remove_nth_le (isprom a0 k p) k0 (net w)).
      specialize (TK p k a0). unfold tok, resp_cnt in TK. lia. }
  set (w' := sys_step n w a) in *. set (s := nodes w i) in *.
  pose proof (step_ninv (cfg_of n i) s inp (NI i)) as NI'.
  pose proof (step_p1_le (cfg_of n i) s inp (NI i)) as PL.
  pose proof (step_prepare_out (cfg_of n i) s inp) as SPP.
  pose proof (step_promise_out (cfg_of n i) s inp) as SPO.
  destruct (step (cfg_of n i) s inp) as [s' outs] eqn:ST. cbn [fst snd] in *.
  assert (NODE : forall j, nodes w' j = if j =? i then s' else nodes w j) by (intros j; rewrite H1; reflexivity).
  assert (NIi : nodes w' i = s') by (rewrite NODE, Z.eqb_refl; auto).
  assert (NO : forall j, j <> i -> nodes w' j = nodes w j).
  { intros j N. rewrite NODE. destruct (j =? i) eqn:X; [lia|auto]. }
  assert (AM : forall j k, amem k (p1 (nodes w j)) = true -> amem k (p1 (nodes w' j)) = true).
  { intros j k H. destruct (Z.eq_dec j i) as [->|N]; [rewrite NIi; eapply amem_mono; eauto|rewrite NO; auto]. }
  assert (NET0 : forall x, In x net0 -> In x (net w)).
  { intros x H. destruct H4 as [[_ ->]|[k0 [src [m [_ [-> _]]]]]]; auto. apply In_remove_nth in H. auto. }
  (* the delivered message, if any, is not a retry, so the input is a message input *)
  assert (BASE : tinv n w' -> tinv n w') by auto.
  (* common parts *)
  assert (C_ninv : forall j, ninv (cfg_of n j) (nodes w' j)).
  { intros j. rewrite NODE. destruct (j =? i) eqn:X; auto. assert (j = i) by lia; subst; auto. }
  assert (C_net : forall x, In x (net w') -> In x (sent w')).
  { intros x H. rewrite H2 in H. rewrite H3. apply in_app_or in H as [H|H]; apply in_or_app; auto. }
  assert (C_nr : forall src m, In (src, m) (sent w') -> is_retry m = false).
  { intros src m H. rewrite H3 in H. apply in_app_or in H as [H|H]; [eauto|]. apply msgs_of_In in H. tauto. }
  assert (C_prep : forall src d k bn, In (src, OPrepare d k bn) (sent w') -> src = bn /\ amem k (p1 (nodes w' bn)) = true).
  { intros src d k bn H. rewrite H3 in H. apply in_app_or in H as [H|H].
    - destruct (TP _ _ _ _ H). split; auto.
    - apply msgs_of_In in H as [-> [Ho _]]. pose proof (SPP _ _ _ Ho) as Eb. cbn in Eb. subst bn. split; auto.
      rewrite NIi.
      (* the Prepare's ballot number is a key of the proposer's response table *)
      destruct H4 as [[K _]|[k0 [src [m [HN [_ [EI _]]]]]]].
      + destruct (step_fresh (cfg_of n i) s inp (NI i) K) as [[_ OE]|[n0 [rs0 [_ [_ [OE [F0 _]]]]]]]; rewrite ST in *; cbn [fst snd] in *.
        * rewrite OE in Ho. contradiction.
        * rewrite OE in Ho. apply in_map_iff in Ho as [x [Ex _]]. inversion Ex; subst. unfold amem. rewrite F0. auto.
      + exfalso. assert (NP : forall v, inp <> IPropose v) by (intros v X; rewrite EI in X; destruct m; discriminate).
        assert (NRr : forall b, inp <> IRetry b).
        { intros b X. rewrite EI in X. destruct m; try discriminate. apply nth_error_In in HN. apply NT, NR in HN. discriminate. }
        destruct (step_msg (cfg_of n i) s inp NP NRr) as [NOP _]. rewrite ST in NOP. cbn in NOP. eapply NOP; eauto. }
  assert (C_prom : forall src d k bn f ab av, In (src, OPromise d k bn f ab av) (sent w') -> d = bn /\ amem k (p1 (nodes w' bn)) = true).
  { intros src d k bn f ab av H. rewrite H3 in H. apply in_app_or in H as [H|H].
    - destruct (TM _ _ _ _ _ _ _ H). split; auto.
    - apply msgs_of_In in H as [-> [Ho _]]. destruct (SPO _ _ _ _ _ _ Ho) as [EI _].
      destruct H4 as [[[[v X]|[b X]] _]|[k0 [src [m [HN [_ [EI2 _]]]]]]]; try (rewrite X in EI; discriminate).
      rewrite EI in EI2. destruct m; try discriminate. cbn in EI2. inversion EI2; subst.
      apply nth_error_In in HN. apply NT in HN. destruct (TP _ _ _ _ HN) as [-> AMk]. split; auto. }
  split; auto.
  (* the tokens *)
  intros p k a0. specialize (TK p k a0). unfold tok in *. rewrite H2, !cnt_app.
  destruct H4 as [[K ->]|[k0 [src [m [HN [-> [EI Ei]]]]]]].
  - (* client proposal or retry timer *)
    destruct (step_fresh (cfg_of n i) s inp (NI i) K) as [[PE OE]|[n0 [rs0 [F0 [FR [OE [F1 [R0 OTH]]]]]]]]; rewrite ST in *; cbn [fst snd] in *.
    + rewrite OE. unfold msgs_of; cbn. unfold resp_cnt in *. rewrite NODE. destruct (p =? i) eqn:X.
      * assert (p = i) by lia; subst p. rewrite PE. unfold s in *. lia.
      * lia.
    + rewrite OE, msgs_of_prepares. cbn [me peers cfg_of].
      rewrite (cnt_map_prep (others n i) i n0 a0 k p (others_NoDup n i)).
      assert (Z0 : cnt (isprom a0 k p) (map (fun o : pout => (i, o)) (map (fun d : Z => OPrepare d n0 i) (others n i))) = 0%nat).
      { apply cnt_zero. intros x Hx. apply in_map_iff in Hx as [o [<- Ho]]. apply in_map_iff in Ho as [d [<- _]]. reflexivity. }
      rewrite Z0.
      destruct ((n0 =? k) && (i =? p)) eqn:KP.
      * assert (n0 = k /\ i = p) as [-> ->] by lia.
        assert (NOKEY : amem k (p1 (nodes w p)) = false) by (unfold amem; fold s; rewrite F0; auto).
        assert (P0 : cnt (isprep a0 k p) (net w) = 0%nat).
        { apply cnt_zero. intros [sr mm] I. unfold isprep. cbn. destruct mm; auto.
          destruct ((dst =? a0) && (bn =? k) && (bnode =? p)) eqn:Q; auto. exfalso.
          assert (bn = k /\ bnode = p) as [-> ->] by lia. apply NT in I. destruct (TP _ _ _ _ I) as [_ AMk]. congruence. }
        assert (P1 : cnt (isprom a0 k p) (net w) = 0%nat).
        { apply cnt_zero. intros [sr mm] I. unfold isprom. cbn. destruct mm; auto.
          destruct ((dst =? p) && (bn =? k) && (bnode =? p) && (from =? a0)) eqn:Q; auto. exfalso.
          assert (bn = k /\ bnode = p) as [-> ->] by lia. apply NT in I. destruct (TM _ _ _ _ _ _ _ I) as [_ AMk]. congruence. }
        rewrite P0, P1. unfold resp_cnt. rewrite NIi, F1. cbn [andb].
        destruct (existsb (Z.eqb a0) (others n p)) eqn:EX.
        -- apply existsb_exists in EX as [y [Iy Qy]]. assert (a0 = y) by lia; subst y. apply others_In in Iy as [_ NEQ].
           destruct R0 as [->|[ab [av ->]]]; cbn; [lia|]. destruct (Z.eq_dec p a0); [congruence|lia].
        -- destruct R0 as [->|[ab [av ->]]]; cbn; [lia|]. destruct (Z.eq_dec p a0); lia.
      * cbn [andb]. unfold resp_cnt in *. rewrite NODE. destruct (p =? i) eqn:X.
        -- assert (p = i) by lia; subst p. assert (k <> n0) by lia. rewrite OTH by auto. unfold s in *. lia.
        -- lia.
  - (* a message is delivered to node i *)
    assert (NRm : is_retry m = false) by (apply nth_error_In in HN; apply NT in HN; eapply NR; eauto).
    assert (NP : forall v, inp <> IPropose v) by (intros v X; rewrite EI in X; destruct m; discriminate).
    assert (NRr : forall b, inp <> IRetry b) by (intros b X; rewrite EI in X; destruct m; discriminate).
    destruct (step_msg (cfg_of n i) s inp NP NRr) as [NOP [PROM P1S]]. rewrite ST in *. cbn [fst snd] in *.
    pose proof (cnt_remove_nth (isprep a0 k p) k0 (net w) (src, m) HN) as A2.
    pose proof (cnt_remove_nth (isprom a0 k p) k0 (net w) (src, m) HN) as A3.
    assert (A1 : cnt (isprep a0 k p) (msgs_of i outs) = 0%nat).
    { apply cnt_zero. intros [sr mm] I. apply msgs_of_In in I as [_ [Io _]]. unfold isprep. cbn. destruct mm; auto.
      exfalso. eapply NOP; eauto. }
    assert (MSG : In (src, m) (sent w)) by (apply nth_error_In in HN; auto).
    assert (G1 : (cnt (isprom a0 k p) (msgs_of i outs) <= (if isprep a0 k p (src, m) then 1 else 0))%nat).
    { assert (ZERO : (forall d k1 b f ab av, ~ In (OPromise d k1 b f ab av) outs) -> cnt (isprom a0 k p) (msgs_of i outs) = 0%nat).
      { intros H. apply cnt_zero. intros [sr mm] I. apply msgs_of_In in I as [_ [Io _]]. unfold isprom. cbn. destruct mm; auto.
        exfalso. eapply H; eauto. }
      rewrite EI in PROM. destruct m; cbn in PROM; try (rewrite (ZERO PROM); lia).
      destruct (TP _ _ _ _ MSG) as [-> _]. cbn in Ei. subst i.
      destruct PROM as [->|[[ab [av ->]]|[h [hm ->]]]]; unfold msgs_of, cnt; cbn; try lia.
      unfold isprom, isprep. cbn.
      destruct ((bnode =? p) && (bn =? k) && (bnode =? p) && (dst =? a0)) eqn:Q; cbn; [|lia].
      assert ((dst =? a0) && (bn =? k) && (bnode =? p) = true) by lia. rewrite H. lia. }
    assert (G2 : (resp_cnt a0 w' p k <= resp_cnt a0 w p k + (if isprom a0 k p (src, m) then 1 else 0))%nat).
    { unfold resp_cnt. rewrite NODE. destruct (p =? i) eqn:X; [|lia]. assert (p = i) by lia; subst p. fold s.
      rewrite EI in P1S. destruct m; cbn in P1S; try (rewrite P1S; lia).
      destruct P1S as [OTH AT]. destruct (TM _ _ _ _ _ _ _ MSG) as [-> _]. cbn in Ei. subst i.
      unfold isprom. cbn. destruct (Z.eq_dec k bn) as [->|NK].
      - destruct (afind bn (p1 s)) eqn:F; rewrite AT; [|lia]. rewrite count_froms_app. cbn.
        rewrite !Z.eqb_refl. cbn. destruct (from =? a0); lia.
      - rewrite OTH by auto. lia. }
    lia.
Qed.

(** NO DUPLICATE RESPONDERS, every schedule. *)
Theorem distinct_responders_always n sch : distinct_responders (sys_run n sys_init sch).
Proof.
  pose proof (sys_run_inv n (tinv n) (tinv_init n) (tinv_step n) sch) as [_ _ _ _ _ TK].
  intros p k rs F. apply (NoDup_count_occ Z.eq_dec). intros a.
  specialize (TK p k a). unfold tok, resp_cnt in TK. rewrite F in TK. unfold froms in TK. lia.
Qed.

Lemma dr_along_always n sch : forall pre, dr_along n (sys_run n sys_init pre) sch.
Proof.
  induction sch as [|a r IH]; cbn; auto. intros pre.
  assert (E : sys_step n (sys_run n sys_init pre) a = sys_run n sys_init (pre ++ [a])).
  { unfold sys_run. rewrite fold_left_app. reflexivity. }
  rewrite E. split; [apply distinct_responders_always|apply IH].
Qed.

(** AGREEMENT ON CHOSEN VALUES, unconditional: every schedule of a cluster of
    at least two nodes — two values each accepted by a majority under some
    ballot are equal. *)
Theorem chosen_unique_always n : 2 <= n -> forall sch b v b' v',
  chosen n (sys_run n sys_init sch) b v -> chosen n (sys_run n sys_init sch) b' v' -> v = v'.
Proof.
  intros N sch b v b' v'. apply chosen_unique_partial; auto. apply (dr_along_always n sch []).
Qed.
