(** C12 — executable model of happysimulator/components/consensus/distributed_lock.py
    (DistributedLock: fencing tokens, re-entrant acquire, FIFO waiters, lease
    expiry).  Definitions only.  Lock names and requester names are [Z];
    futures are numbered in creation order. *)
From HS Require Import Base.Prelude C12.Model.
Local Open Scope Z_scope.

(** A LockGrant as far as the property is concerned: (lock, fencing token, holder). *)
Definition grant := (Z * Z * Z)%type.

Record lockst := mkL {
  holder : option Z;
  ltoken : Z;
  waiters : list (Z * Z)            (* (requester, future id), FIFO *)
}.

Record dlock := mkD {
  next_token : Z;                   (* _next_token *)
  locks : list (Z * lockst);        (* _locks, insertion order *)
  lnfid : Z;                        (* futures created so far *)
  lresolved : list (Z * option grant);   (* resolved futures, in resolution order *)
  glog : list grant;                (* ghost: every call of _grant_lock, oldest first *)
  n_acq : Z; n_rel : Z; n_exp : Z; n_rej : Z   (* stats counters *)
}.

Definition dinit : dlock := mkD 1 [] 0 [] [] 0 0 0 0.

Inductive lop :=
| LAcquire (lock req : Z)
| LTry (lock req : Z)
| LRelease (lock tok : Z)
| LExpire (lock tok : Z).

(** What the call returned, as observed: a future id (acquire), a grant or
    None (try_acquire), a bool (release), nothing (expiry handler). *)
Inductive lres :=
| RFuture (f : Z)
| RGrant (g : option grant)
| RBool (b : bool)
| RNone.

Definition lget (k : Z) (d : dlock) : lockst :=
  match afind k (locks d) with Some l => l | None => mkL None 0 [] end.

(** [_get_or_create]: the dict gains the key on first use. *)
Definition ensure (k : Z) (d : dlock) : dlock :=
  if amem k (locks d) then d
  else mkD (next_token d) (locks d ++ [(k, mkL None 0 [])]) (lnfid d) (lresolved d) (glog d) (n_acq d) (n_rel d) (n_exp d) (n_rej d).

Definition set_lock (k : Z) (l : lockst) (d : dlock) : dlock :=
  mkD (next_token d) (aset k l (locks d)) (lnfid d) (lresolved d) (glog d) (n_acq d) (n_rel d) (n_exp d) (n_rej d).

(** [_grant_lock] *)
Definition grant_lock (k req : Z) (d : dlock) : dlock * grant :=
  let t := next_token d in
  let l := lget k d in
  let g := (k, t, req) in
  (mkD (t + 1) (aset k (mkL (Some req) t (waiters l)) (locks d)) (lnfid d) (lresolved d) (glog d ++ [g])
       (n_acq d + 1) (n_rel d) (n_exp d) (n_rej d), g).

Definition resolve (f : Z) (v : option grant) (d : dlock) : dlock :=
  mkD (next_token d) (locks d) (lnfid d) (lresolved d ++ [(f, v)]) (glog d) (n_acq d) (n_rel d) (n_exp d) (n_rej d).

Definition is_resolved (f : Z) (d : dlock) : bool := existsb (fun x => fst x =? f) (lresolved d).

(** [_wake_next_waiter]: pop waiters until one whose future is unresolved. *)
Fixpoint wake (k : Z) (ws : list (Z * Z)) (d : dlock) : dlock :=
  match ws with
  | [] => set_lock k (mkL (holder (lget k d)) (ltoken (lget k d)) []) d
  | (req, f) :: r =>
      let d0 := set_lock k (mkL (holder (lget k d)) (ltoken (lget k d)) r) d in
      if is_resolved f d0 then wake k r d0
      else let '(d1, g) := grant_lock k req d0 in resolve f (Some g) d1
  end.

Definition clear_holder (k : Z) (d : dlock) : dlock :=
  let l := lget k d in set_lock k (mkL None (ltoken l) (waiters l)) d.

Definition bump (d : dlock) (da dr de dj : Z) : dlock :=
  mkD (next_token d) (locks d) (lnfid d) (lresolved d) (glog d) (n_acq d + da) (n_rel d + dr) (n_exp d + de) (n_rej d + dj).

Definition new_future (d : dlock) : dlock * Z :=
  (mkD (next_token d) (locks d) (lnfid d + 1) (lresolved d) (glog d) (n_acq d) (n_rel d) (n_exp d) (n_rej d), lnfid d).

Definition lstep (maxw : Z) (d : dlock) (o : lop) : dlock * lres :=
  match o with
  | LAcquire k req =>
      let '(d0, f) := new_future d in
      let d1 := ensure k d0 in
      let l := lget k d1 in
      match holder l with
      | None => let '(d2, g) := grant_lock k req d1 in (resolve f (Some g) d2, RFuture f)
      | Some h =>
          if h =? req then (resolve f (Some (k, ltoken l, req)) d1, RFuture f)
          else if (0 <? maxw) && (maxw <=? Z.of_nat (length (waiters l))) then
            (resolve f None (bump d1 0 0 0 1), RFuture f)
          else (set_lock k (mkL (holder l) (ltoken l) (waiters l ++ [(req, f)])) d1, RFuture f)
      end
  | LTry k req =>
      let d1 := ensure k d in
      let l := lget k d1 in
      match holder l with
      | None => let '(d2, g) := grant_lock k req d1 in (d2, RGrant (Some g))
      | Some h => if h =? req then (d1, RGrant (Some (k, ltoken l, req))) else (d1, RGrant None)
      end
  | LRelease k tok =>
      match afind k (locks d) with
      | None => (d, RBool false)
      | Some l =>
          match holder l with
          | None => (d, RBool false)
          | Some _ =>
              if negb (ltoken l =? tok) then (d, RBool false)
              else let d1 := clear_holder k (bump d 0 1 0 0) in (wake k (waiters (lget k d1)) d1, RBool true)
          end
      end
  | LExpire k tok =>
      match afind k (locks d) with
      | None => (d, RNone)
      | Some l =>
          match holder l with
          | None => (d, RNone)
          | Some _ =>
              if negb (ltoken l =? tok) then (d, RNone)
              else let d1 := clear_holder k (bump d 0 0 1 0) in (wake k (waiters (lget k d1)) d1, RNone)
          end
      end
  end.

Fixpoint lrun (maxw : Z) (d : dlock) (ops : list lop) : dlock :=
  match ops with [] => d | o :: r => lrun maxw (fst (lstep maxw d o)) r end.

(* ------------------------------------------------------------------ *)
(** * Comparison with the implementation, after every operation *)
Definition grant_eqb (a b : grant) : bool :=
  let '(l1, t1, h1) := a in let '(l2, t2, h2) := b in (l1 =? l2) && (t1 =? t2) && (h1 =? h2).

Definition lres_eqb (a b : lres) : bool :=
  match a, b with
  | RFuture f, RFuture g => f =? g
  | RGrant x, RGrant y => option_eqb grant_eqb x y
  | RBool x, RBool y => Bool.eqb x y
  | RNone, RNone => true
  | _, _ => false
  end.

(** Observed: next token, locks (name, holder, token, waiters), resolved
    futures sorted by id, counters. *)
Definition lobs := (Z * list (Z * (option Z * Z * list (Z * Z))) * list (Z * option grant) * (Z * Z * Z * Z))%type.

Definition lock_matches (d : dlock) (o : lobs) : bool :=
  let '(nt, ls, rs, (a, r, e, j)) := o in
  (next_token d =? nt)
  && forallb2 (fun (x : Z * lockst) (y : Z * (option Z * Z * list (Z * Z))) => (fst x =? fst y) &&
        (let '(h, t, ws) := snd y in
         option_eqb Z.eqb (holder (snd x)) h && (ltoken (snd x) =? t) && list_eqb zz_eqb (waiters (snd x)) ws))
      (locks d) ls
  && subset (fun x y => (fst x =? fst y) && option_eqb grant_eqb (snd x) (snd y)) (lresolved d) rs
  && subset (fun x y => (fst x =? fst y) && option_eqb grant_eqb (snd x) (snd y)) rs (lresolved d)
  && (n_acq d =? a) && (n_rel d =? r) && (n_exp d =? e) && (n_rej d =? j).

Fixpoint lreplay (maxw : Z) (d : dlock) (tr : list (lop * lres * lobs)) : bool :=
  match tr with
  | [] => true
  | (o, r, ob) :: rest =>
      let '(d', r') := lstep maxw d o in
      lres_eqb r' r && lock_matches d' ob && lreplay maxw d' rest
  end.

Definition ok_lock (c : Z * list (lop * lres * lobs)) : bool := lreplay (fst c) dinit (snd c).
