(** C12 — executable model of leader_election.py (LeaderElection) with the three
    strategies of election_strategies.py (Bully, Ring, Randomized).
    Definitions only.  Member names are [Z] (the harness uses "e0".."e9", whose
    string order is the integer order); times are integer ticks of 1/128 s (on
    that grid the float arithmetic [now_s - last > timeout] of the code is
    exact); the draws of [random.randint] are an input ([rnd]). *)
From HS Require Import Base.Prelude C12.Model.
Local Open Scope Z_scope.

Inductive strategy := Bully | Ring | Randomized.

Record ecfg := mkEC { eme : Z; emembers : list Z; estrat : strategy; etimeout : Z; ehb : Z }.

Record estate := mkE {
  eleader : option Z;          (* _current_leader *)
  eterm : Z;                   (* _current_term *)
  einprog : bool;              (* _election_in_progress *)
  elast : Z;                   (* _last_leader_heartbeat, ticks *)
  estarted : Z; ewon : Z; epart : Z   (* stats *)
}.

Definition einit : estate := mkE None 0 false 0 0 0 0.

(** Election messages (payloads as the strategies build them). *)
Inductive emsg :=
| KChallenge (challenger term : Z)
| KSuppress (from : Z)
| KVictory (leader term : Z)
| KToken (initiator : Z) (cands : list Z) (term : Z)
| KBallot (from ballot term : Z)
| KBallotResp (from ballot term : Z).

Inductive ein :=
| EStart (now : Z)                       (* start(): arm the first timeout check *)
| ETimeout (now rnd : Z)
| EHeartbeat (now leader term : Z)
| EMsg (now rnd : Z) (m : emsg).

Inductive eout :=
| OEMsg (dst : Z) (m : emsg)
| OEHeartbeat (dst leader term : Z)
| OETimer (at_ : Z).

(* ---- sorted ring (Python's sorted / list.index / modular successor) ---- *)
Fixpoint insert (x : Z) (l : list Z) : list Z :=
  match l with
  | [] => [x]
  | y :: r => if x <=? y then x :: l else y :: insert x r
  end.
Definition isort (l : list Z) : list Z := fold_right insert [] l.

Fixpoint index_of (x : Z) (l : list Z) : nat :=
  match l with
  | [] => O
  | y :: r => if x =? y then O else S (index_of x r)
  end.

Definition ring_of (me : Z) (members : list Z) : list Z :=
  isort (filter (fun m => negb (m =? me)) members ++ [me]).

Definition ring_next (me : Z) (members : list Z) : Z :=
  let ring := ring_of me members in
  nth (Nat.modulo (S (index_of me ring)) (length ring)) ring me.

Definition zmax_list (l : list Z) : Z := fold_right Z.max (hd 0 l) l.

(** [get_election_messages]: (target, message) list *)
Definition get_msgs (c : ecfg) (term rnd : Z) : list (Z * emsg) :=
  let me := eme c in
  match estrat c with
  | Bully =>
      match filter (fun m => me <? m) (emembers c) with
      | [] => map (fun m => (m, KVictory me term)) (filter (fun m => negb (m =? me)) (emembers c))
      | higher => map (fun m => (m, KChallenge me term)) higher
      end
  | Ring => [(ring_next me (emembers c), KToken me [me] term)]
  | Randomized => map (fun m => (m, KBallot me rnd term)) (filter (fun m => negb (m =? me)) (emembers c))
  end.

(** result of [handle_election_message]: responses, leader, suppress, start_own *)
Definition handle_msg (c : ecfg) (rnd : Z) (m : emsg) : list (Z * emsg) * option Z * bool * bool :=
  let me := eme c in
  match estrat c, m with
  | Bully, KChallenge ch _ =>
      if ch <? me then ([(ch, KSuppress me)], None, false, true) else ([], None, false, false)
  | Bully, KSuppress _ => ([], None, true, false)
  | Bully, KVictory l _ => ([], Some l, true, false)
  | Ring, KToken init cands term =>
      if init =? me then
        let l := zmax_list cands in
        (map (fun x => (x, KVictory l term)) (filter (fun x => negb (x =? me)) (emembers c)), Some l, true, false)
      else ([(ring_next me (emembers c), KToken init (cands ++ [me]) term)], None, false, false)
  | Ring, KVictory l _ => ([], Some l, true, false)
  | Randomized, KBallot from _ term => ([(from, KBallotResp me rnd term)], None, false, false)
  | Randomized, KVictory l _ => ([], Some l, true, false)
  | _, _ => ([], None, false, false)
  end.

Definition is_member (c : ecfg) (x : Z) : bool := existsb (Z.eqb x) (emembers c).

Definition send_all (c : ecfg) (msgs : list (Z * emsg)) : list eout :=
  map (fun tm => OEMsg (fst tm) (snd tm)) (filter (fun tm => is_member c (fst tm)) msgs).

Definition all_victory (msgs : list (Z * emsg)) : bool :=
  forallb (fun tm => match snd tm with KVictory _ _ => true | _ => false end) msgs.

(** [_start_election] *)
Definition start_election (c : ecfg) (s : estate) (rnd : Z) : estate * list eout :=
  let term := eterm s + 1 in
  let msgs := get_msgs c term rnd in
  let s1 := mkE (eleader s) term true (elast s) (estarted s + 1) (ewon s) (epart s) in
  let s2 := match msgs with
            | [] => mkE (Some (eme c)) (eterm s1) false (elast s1) (estarted s1) (ewon s1 + 1) (epart s1)
            | _ => if all_victory msgs
                   then mkE (Some (eme c)) (eterm s1) false (elast s1) (estarted s1) (ewon s1 + 1) (epart s1)
                   else s1
            end in
  (s2, send_all c msgs).

Definition e_is_leader (c : ecfg) (s : estate) : bool :=
  match eleader s with Some l => l =? eme c | None => false end.

Definition estep (c : ecfg) (s : estate) (i : ein) : estate * list eout :=
  match i with
  | EStart now =>
      (mkE (eleader s) (eterm s) (einprog s) now (estarted s) (ewon s) (epart s), [OETimer (now + etimeout c)])
  | ETimeout now rnd =>
      let '(s1, evs) :=
        if e_is_leader c s then
          (s, map (fun m => OEHeartbeat m (eme c) (eterm s)) (filter (fun m => negb (m =? eme c)) (emembers c)))
        else if negb (einprog s) && (etimeout c <? now - elast s) then start_election c s rnd
        else (s, []) in
      let interval := if e_is_leader c s1 then ehb c else etimeout c in
      (s1, evs ++ [OETimer (now + interval)])
  | EHeartbeat now l t =>
      if eterm s <=? t then (mkE (Some l) t false now (estarted s) (ewon s) (epart s), []) else (s, [])
  | EMsg now rnd m =>
      let '(resp, ld, suppress, own) := handle_msg c rnd m in
      let s0 := mkE (eleader s) (eterm s) (einprog s) (elast s) (estarted s) (ewon s) (epart s + 1) in
      let evs := send_all c resp in
      let s1 := match ld with
                | Some l => mkE (Some l) (eterm s0 + 1) false now (estarted s0)
                                (if l =? eme c then ewon s0 + 1 else ewon s0) (epart s0)
                | None => s0
                end in
      let '(s2, evs2) := if own && negb (einprog s1) then start_election c s1 rnd else (s1, []) in
      let s3 := if suppress then mkE (eleader s2) (eterm s2) false (elast s2) (estarted s2) (ewon s2) (epart s2) else s2 in
      (s3, evs ++ evs2)
  end.

(* ------------------------------------------------------------------ *)
(** * Trace replay *)
Definition emsg_eqb (a b : emsg) : bool :=
  match a, b with
  | KChallenge x t, KChallenge x' t' => (x =? x') && (t =? t')
  | KSuppress x, KSuppress x' => x =? x'
  | KVictory x t, KVictory x' t' => (x =? x') && (t =? t')
  | KToken i cs t, KToken i' cs' t' => (i =? i') && list_eqb Z.eqb cs cs' && (t =? t')
  | KBallot f b t, KBallot f' b' t' => (f =? f') && (b =? b') && (t =? t')
  | KBallotResp f b t, KBallotResp f' b' t' => (f =? f') && (b =? b') && (t =? t')
  | _, _ => false
  end.

Definition eout_eqb (a b : eout) : bool :=
  match a, b with
  | OEMsg d m, OEMsg d' m' => (d =? d') && emsg_eqb m m'
  | OEHeartbeat d l t, OEHeartbeat d' l' t' => (d =? d') && (l =? l') && (t =? t')
  | OETimer t, OETimer t' => t =? t'
  | _, _ => false
  end.

(** observed: current_leader, current_term, _election_in_progress, last heartbeat (ticks), stats *)
Definition eobs := (option Z * Z * bool * Z * (Z * Z * Z))%type.

Definition estate_matches (s : estate) (o : eobs) : bool :=
  let '(l, t, p, h, (a, w, q)) := o in
  option_eqb Z.eqb (eleader s) l && (eterm s =? t) && Bool.eqb (einprog s) p && (elast s =? h)
  && (estarted s =? a) && (ewon s =? w) && (epart s =? q).

Definition erec := (Z * ein * list eout * eobs)%type.
Definition ERS (i : Z) (inp : ein) (outs : list eout) (o : eobs) : erec := (i, inp, outs, o).

Fixpoint ereplay (cf : Z -> ecfg) (st : Z -> estate) (tr : list erec) : bool :=
  match tr with
  | [] => true
  | (i, inp, outs, o) :: r =>
      let '(s', outs') := estep (cf i) (st i) inp in
      list_eqb eout_eqb outs' outs && estate_matches s' o
      && ereplay cf (fun j => if j =? i then s' else st j) r
  end.

Definition strat_of (k : Z) : strategy := if k =? 0 then Bully else if k =? 1 then Ring else Randomized.

(** case = (members, strategy code, timeout, hb, initial last-heartbeat per node = 0, trace) *)
Definition ok_election (c : list Z * Z * Z * Z * list erec) : bool :=
  let '(members, k, tmo, hb, tr) := c in
  ereplay (fun i => mkEC i members (strat_of k) tmo hb) (fun _ => einit) tr.

(* ------------------------------------------------------------------ *)
(** * The group as a message soup; times and random draws are arbitrary *)
Record esys := mkES { enodes : Z -> estate; enet : list eout }.

Inductive eaction :=
| EADeliver (k : nat) (now rnd : Z)
| EADrop (k : nat)
| EATimeout (i now rnd : Z)
| EAStart (i now : Z).

Definition esys_init : esys := mkES (fun _ => einit) [].

Definition is_timer (o : eout) : bool := match o with OETimer _ => true | _ => false end.

Definition esys_handle (cf : Z -> ecfg) (w : esys) (i : Z) (inp : ein) (net' : list eout) : esys :=
  let '(s', outs) := estep (cf i) (enodes w i) inp in
  mkES (fun j => if j =? i then s' else enodes w j) (net' ++ filter (fun o => negb (is_timer o)) outs).

Definition esys_step (cf : Z -> ecfg) (w : esys) (a : eaction) : esys :=
  match a with
  | EADeliver k now rnd =>
      match nth_error (enet w) k with
      | Some (OEMsg d m) => esys_handle cf w d (EMsg now rnd m) (remove_nth k (enet w))
      | Some (OEHeartbeat d l t) => esys_handle cf w d (EHeartbeat now l t) (remove_nth k (enet w))
      | _ => w
      end
  | EADrop k => mkES (enodes w) (remove_nth k (enet w))
  | EATimeout i now rnd => esys_handle cf w i (ETimeout now rnd) (enet w)
  | EAStart i now => esys_handle cf w i (EStart now) (enet w)
  end.

Definition esys_run (cf : Z -> ecfg) (sch : list eaction) : esys := fold_left (esys_step cf) sch esys_init.
