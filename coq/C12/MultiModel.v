(** C12 — executable model of multi_paxos.py (MultiPaxosNode) and
    flexible_paxos.py (FlexiblePaxosNode), one [mstep] per handler call, as
    written: [_become_leader] ignores the log entries carried by promises and
    runs on every promise at or beyond the quorum, [_slot_acks] is keyed by slot
    only, [submit] on a leader sends nothing, and MultiPaxosNode treats its own
    heartbeat tick like a peer's heartbeat.  Definitions only.

    Commands are [Z]; a log entry is (term, command), its index is its
    position + 1 ([Log.append] re-indexes).  The MultiPaxosForward handler is
    not modelled (nothing in the library sends that event). *)
From HS Require Import Base.Prelude C12.Model.
Local Open Scope Z_scope.

Record mstate := mkM {
  mlog : list (Z * Z);             (* Log._entries: (term, command) *)
  mcommit : Z;                     (* Log.commit_index *)
  mapplied : Z;                    (* _last_applied *)
  mbal : ballot;                   (* _current_ballot *)
  mleader : option Z;              (* _leader *)
  misl : bool;                     (* _is_leader *)
  macks : list (Z * Z);            (* _slot_acks *)
  mpend : list (Z * Z);            (* _pending_commands: (command, future id) *)
  mp1 : list (Z * Z);              (* _phase1_responses: ballot number -> number of responses *)
  mfuts : list (Z * Z);            (* _slot_futures: slot -> future id *)
  mnfid : Z;                       (* futures created by submit() so far *)
  mres : list (Z * Z);             (* resolved futures: (future id, index) *)
  mapp : list (Z * Z)              (* ghost: (index, command) applied to the state machine, oldest first *)
}.

Record mcfg := mkMC { mme : Z; mpeers : list Z; mq1 : Z; mq2 : Z; mflex : bool }.

Definition minit (me : Z) : mstate := mkM [] 0 0 (0, me) None false [] [] [] [] 0 [] [].

Inductive min :=
| MStart
| MSubmit (cmd : Z)
| MPrepare (src bn bnode : Z)
| MPromise (bn : Z)
| MAccept (src bn bnode slot cmd commit : Z)
| MAccepted (slot : Z)
| MHeartbeat (bn bnode commit : Z) (self : bool)
| MNack (bn bnode : Z).

Inductive mout :=
| OMPrepare (dst bn bnode : Z)
| OMPromise (dst bn bnode from : Z)
| OMNack (dst bn bnode : Z)
| OMAccept (dst bn bnode slot cmd commit : Z)
| OMAccepted (dst bn slot from : Z)
| OMHeartbeat (dst bn bnode commit : Z)
| OMTick (bn bnode commit : Z).

Definition zlen {A} (l : list A) : Z := Z.of_nat (length l).

(** [Log.get]: 1-based. *)
Definition lget1 (l : list (Z * Z)) (i : Z) : option (Z * Z) :=
  if (i <? 1) || (zlen l <? i) then None else nth_error l (Z.to_nat (i - 1)).

(** [_apply_committed] over the entries with indices old+1 .. new (taken from
    the log as it is now). *)
Fixpoint apply_range (s : mstate) (idx : Z) (es : list (Z * Z)) : mstate :=
  match es with
  | [] => s
  | (_, cmd) :: r =>
      let s' :=
        if mapplied s <? idx then
          let s1 := mkM (mlog s) (mcommit s) idx (mbal s) (mleader s) (misl s) (macks s) (mpend s) (mp1 s)
                        (adel idx (mfuts s)) (mnfid s)
                        (match afind idx (mfuts s) with Some f => mres s ++ [(f, idx)] | None => mres s end)
                        (mapp s ++ [(idx, cmd)]) in s1
        else s in
      apply_range s' (idx + 1) r
  end.

(** [Log.advance_commit] followed by [_apply_committed]. *)
Definition advance (s : mstate) (new : Z) : mstate :=
  if new <=? mcommit s then s
  else
    let old := mcommit s in
    let c := Z.min new (zlen (mlog s)) in
    let s1 := mkM (mlog s) c (mapplied s) (mbal s) (mleader s) (misl s) (macks s) (mpend s) (mp1 s) (mfuts s) (mnfid s) (mres s) (mapp s) in
    apply_range s1 (old + 1) (firstn (Z.to_nat (c - old)) (skipn (Z.to_nat old) (mlog s))).

(** [_assign_slot] *)
Definition assign_slot (s : mstate) (cmd f : Z) : mstate :=
  let slot := zlen (mlog s) + 1 in
  mkM (mlog s ++ [(fst (mbal s), cmd)]) (mcommit s) (mapplied s) (mbal s) (mleader s) (misl s)
      (aset slot 1 (macks s)) (mpend s) (mp1 s) (aset slot f (mfuts s)) (mnfid s) (mres s) (mapp s).

(** [_send_heartbeat] *)
Definition send_heartbeat (c : mcfg) (s : mstate) : list mout :=
  map (fun p => OMHeartbeat p (fst (mbal s)) (snd (mbal s)) (mcommit s)) (mpeers c)
  ++ [OMTick (fst (mbal s)) (snd (mbal s)) (mcommit s)].

(** [_replicate_slot] *)
Definition replicate_slot (c : mcfg) (s : mstate) (slot : Z) : list mout :=
  match lget1 (mlog s) slot with
  | None => []
  | Some (_, cmd) => map (fun p => OMAccept p (fst (mbal s)) (snd (mbal s)) slot cmd (mcommit s)) (mpeers c)
  end.

Definition zrange (lo n : Z) : list Z := map (fun k => lo + Z.of_nat k) (seq 0 (Z.to_nat n)).

(** [_become_leader] *)
Definition become_leader (c : mcfg) (s : mstate) : mstate * list mout :=
  let s1 := mkM (mlog s) (mcommit s) (mapplied s) (mbal s) (Some (mme c)) true (macks s) (mpend s) (mp1 s) (mfuts s) (mnfid s) (mres s) (mapp s) in
  let s2 := fold_left (fun st cf => assign_slot st (fst cf) (snd cf)) (mpend s1) s1 in
  let s3 := mkM (mlog s2) (mcommit s2) (mapplied s2) (mbal s2) (mleader s2) (misl s2) (macks s2) [] (mp1 s2) (mfuts s2) (mnfid s2) (mres s2) (mapp s2) in
  (s3, send_heartbeat c s3
       ++ flat_map (replicate_slot c s3) (zrange (mcommit s3 + 1) (zlen (mlog s3) - mcommit s3))).

Definition m_is_peer (c : mcfg) (src : Z) : bool := existsb (Z.eqb src) (mpeers c).

(** [Log.truncate_from] *)
Definition truncate (s : mstate) (idx : Z) : mstate :=
  if (idx <? 1) || (zlen (mlog s) <? idx) then s
  else mkM (firstn (Z.to_nat (idx - 1)) (mlog s)) (if idx <=? mcommit s then idx - 1 else mcommit s)
           (mapplied s) (mbal s) (mleader s) (misl s) (macks s) (mpend s) (mp1 s) (mfuts s) (mnfid s) (mres s) (mapp s).

Definition append_entry (s : mstate) (term cmd : Z) : mstate :=
  mkM (mlog s ++ [(term, cmd)]) (mcommit s) (mapplied s) (mbal s) (mleader s) (misl s) (macks s) (mpend s) (mp1 s) (mfuts s) (mnfid s) (mres s) (mapp s).

Definition set_bal (s : mstate) (b : ballot) (ld : option Z) (isl : bool) : mstate :=
  mkM (mlog s) (mcommit s) (mapplied s) b ld isl (macks s) (mpend s) (mp1 s) (mfuts s) (mnfid s) (mres s) (mapp s).

Definition mstep (c : mcfg) (s : mstate) (i : min) : mstate * list mout :=
  match i with
  | MStart =>
      let bn := fst (mbal s) + 1 in
      let s1 := mkM (mlog s) (mcommit s) (mapplied s) (bn, mme c) (mleader s) (misl s) (macks s) (mpend s)
                    (aset bn 1 (mp1 s)) (mfuts s) (mnfid s) (mres s) (mapp s) in
      let outs := map (fun p => OMPrepare p bn (mme c)) (mpeers c) in
      if mq1 c <=? 1 then let '(s2, o2) := become_leader c s1 in (s2, outs ++ o2) else (s1, outs)
  | MSubmit cmd =>
      let f := mnfid s in
      let s1 := mkM (mlog s) (mcommit s) (mapplied s) (mbal s) (mleader s) (misl s) (macks s) (mpend s) (mp1 s) (mfuts s) (f + 1) (mres s) (mapp s) in
      if misl s then (assign_slot s1 cmd f, [])
      else (mkM (mlog s1) (mcommit s1) (mapplied s1) (mbal s1) (mleader s1) (misl s1) (macks s1) (mpend s1 ++ [(cmd, f)]) (mp1 s1) (mfuts s1) (mnfid s1) (mres s1) (mapp s1), [])
  | MPrepare src bn bnode =>
      if negb (m_is_peer c src) then (s, [])
      else if bal_ltb (bn, bnode) (mbal s) then (s, [OMNack src (fst (mbal s)) (snd (mbal s))])
      else (set_bal s (bn, bnode) (mleader s) false, [OMPromise src bn bnode (mme c)])
  | MPromise bn =>
      match afind bn (mp1 s) with
      | None => (s, [])
      | Some k =>
          let s1 := mkM (mlog s) (mcommit s) (mapplied s) (mbal s) (mleader s) (misl s) (macks s) (mpend s)
                        (aset bn (k + 1) (mp1 s)) (mfuts s) (mnfid s) (mres s) (mapp s) in
          if mq1 c <=? k + 1 then become_leader c s1 else (s1, [])
      end
  | MAccept src bn bnode slot cmd commit =>
      if negb (m_is_peer c src) then (s, [])
      else if bal_ltb (bn, bnode) (mbal s) then (s, [OMNack src (fst (mbal s)) (snd (mbal s))])
      else
        let s1 := set_bal s (bn, bnode) (Some bnode) (misl s) in
        let s2 :=
          if zlen (mlog s1) <? slot then append_entry s1 bn cmd
          else match lget1 (mlog s1) slot with
               | Some (t, _) => if negb (t =? bn) then append_entry (truncate s1 slot) bn cmd else s1
               | None => s1
               end in
        let s3 := if mcommit s2 <? commit then advance s2 commit else s2 in
        (s3, [OMAccepted src bn slot (mme c)])
  | MAccepted slot =>
      let k := (match afind slot (macks s) with Some k => k | None => 0 end) + 1 in
      let s1 := mkM (mlog s) (mcommit s) (mapplied s) (mbal s) (mleader s) (misl s) (aset slot k (macks s)) (mpend s) (mp1 s) (mfuts s) (mnfid s) (mres s) (mapp s) in
      if (mq2 c <=? k) && (mcommit s1 <? slot) then (advance s1 slot, []) else (s1, [])
  | MHeartbeat bn bnode commit self =>
      if mflex c && self then
        (if misl s then (s, send_heartbeat c s) else (s, []))
      else if bal_leb (mbal s) (bn, bnode) then
        let s1 := set_bal s (bn, bnode) (Some bnode) false in
        ((if mcommit s1 <? commit then advance s1 commit else s1), [])
      else (s, [])
  | MNack bn bnode =>
      if bal_ltb (mbal s) (bn, bnode) then (set_bal s (bn, bnode) (mleader s) false, []) else (s, [])
  end.

(* ------------------------------------------------------------------ *)
(** * Trace replay *)
Definition mout_eqb (a b : mout) : bool :=
  match a, b with
  | OMPrepare d n m, OMPrepare d' n' m' => (d =? d') && (n =? n') && (m =? m')
  | OMPromise d n m f, OMPromise d' n' m' f' => (d =? d') && (n =? n') && (m =? m') && (f =? f')
  | OMNack d n m, OMNack d' n' m' => (d =? d') && (n =? n') && (m =? m')
  | OMAccept d n m s c k, OMAccept d' n' m' s' c' k' => (d =? d') && (n =? n') && (m =? m') && (s =? s') && (c =? c') && (k =? k')
  | OMAccepted d n s f, OMAccepted d' n' s' f' => (d =? d') && (n =? n') && (s =? s') && (f =? f')
  | OMHeartbeat d n m k, OMHeartbeat d' n' m' k' => (d =? d') && (n =? n') && (m =? m') && (k =? k')
  | OMTick n m k, OMTick n' m' k' => (n =? n') && (m =? m') && (k =? k')
  | _, _ => false
  end.

(** Observed state (public where possible: log entries, commit_index, is_leader,
    leader, stats; private: _last_applied, _current_ballot, _slot_acks,
    _pending_commands, _phase1_responses lengths, _slot_futures). *)
Record mobs := mkMO {
  mo_log : list (Z * Z); mo_commit : Z; mo_applied : Z; mo_bal : ballot; mo_leader : option Z; mo_isl : bool;
  mo_acks : list (Z * Z); mo_pend : list (Z * Z); mo_p1 : list (Z * Z); mo_futs : list (Z * Z);
  mo_res : list (Z * Z); mo_app : list (Z * Z)
}.

Definition mstate_matches (s : mstate) (o : mobs) : bool :=
  list_eqb zz_eqb (mlog s) (mo_log o) && (mcommit s =? mo_commit o) && (mapplied s =? mo_applied o)
  && bal_eqb (mbal s) (mo_bal o) && option_eqb Z.eqb (mleader s) (mo_leader o) && Bool.eqb (misl s) (mo_isl o)
  && list_eqb zz_eqb (macks s) (mo_acks o) && list_eqb zz_eqb (mpend s) (mo_pend o)
  && list_eqb zz_eqb (mp1 s) (mo_p1 o) && list_eqb zz_eqb (mfuts s) (mo_futs o)
  && subset zz_eqb (mres s) (mo_res o) && subset zz_eqb (mo_res o) (mres s)
  && list_eqb zz_eqb (mapp s) (mo_app o).

Definition mrec := (Z * min * list mout * mobs)%type.
Definition MRS (i : Z) (inp : min) (outs : list mout) (o : mobs) : mrec := (i, inp, outs, o).

(** Cluster configuration: n nodes 0..n-1, quorums, flexible or multi. *)
Definition mcfg_of (n q1 q2 : Z) (flex : bool) (i : Z) : mcfg := mkMC i (others n i) q1 q2 flex.

Fixpoint mreplay (cf : Z -> mcfg) (st : Z -> mstate) (tr : list mrec) : bool :=
  match tr with
  | [] => true
  | (i, inp, outs, o) :: r =>
      let '(s', outs') := mstep (cf i) (st i) inp in
      list_eqb mout_eqb outs' outs && mstate_matches s' o
      && mreplay cf (fun j => if j =? i then s' else st j) r
  end.

(** case = (n, q1, q2, flex, trace) *)
Definition ok_multi (c : Z * Z * Z * bool * list mrec) : bool :=
  let '(n, q1, q2, flex, tr) := c in mreplay (mcfg_of n q1 q2 flex) minit tr.

(* ------------------------------------------------------------------ *)
(** * The cluster as a message soup (as for single-decree Paxos) *)
Definition mdst (o : mout) : Z :=
  match o with
  | OMPrepare d _ _ | OMPromise d _ _ _ | OMNack d _ _ | OMAccept d _ _ _ _ _
  | OMAccepted d _ _ _ | OMHeartbeat d _ _ _ => d
  | OMTick _ _ _ => -1
  end.

Definition m_to_input (src : Z) (o : mout) : min :=
  match o with
  | OMPrepare _ n m => MPrepare src n m
  | OMPromise _ n _ _ => MPromise n
  | OMNack _ n m => MNack n m
  | OMAccept _ n m s c k => MAccept src n m s c k
  | OMAccepted _ _ s _ => MAccepted s
  | OMHeartbeat _ n m k => MHeartbeat n m k false
  | OMTick n m k => MHeartbeat n m k true
  end.

Definition is_tick (o : mout) : bool := match o with OMTick _ _ _ => true | _ => false end.

Record msys := mkMS {
  mnodes : Z -> mstate;
  mnet : list (Z * mout);
  mticks : list (Z * mout)      (* pending heartbeat ticks (node, tick); a new tick of a node cancels its old one *)
}.

Inductive maction :=
| MADeliver (k : nat)
| MADrop (k : nat)
| MATick (k : nat)
| MAStart (i : Z)
| MASubmit (i cmd : Z).

Definition msys_init : msys := mkMS minit [] [].

Definition msys_handle (cf : Z -> mcfg) (w : msys) (i : Z) (inp : min) (net' : list (Z * mout)) (ticks' : list (Z * mout)) : msys :=
  let '(s', outs) := mstep (cf i) (mnodes w i) inp in
  let msgs := map (fun o => (i, o)) (filter (fun o => negb (is_tick o)) outs) in
  let tks := map (fun o => (i, o)) (filter is_tick outs) in
  let ticks'' := match tks with [] => ticks' | _ => filter (fun x => negb (fst x =? i)) ticks' ++ tks end in
  mkMS (fun j => if j =? i then s' else mnodes w j) (net' ++ msgs) ticks''.

Definition msys_step (n : Z) (cf : Z -> mcfg) (w : msys) (a : maction) : msys :=
  match a with
  | MADeliver k =>
      match nth_error (mnet w) k with
      | Some (src, m) => msys_handle cf w (mdst m) (m_to_input src m) (remove_nth k (mnet w)) (mticks w)
      | None => w
      end
  | MADrop k => mkMS (mnodes w) (remove_nth k (mnet w)) (mticks w)
  | MATick k =>
      match nth_error (mticks w) k with
      | Some (i, m) => msys_handle cf w i (m_to_input i m) (mnet w) (remove_nth k (mticks w))
      | None => w
      end
  | MAStart i => if (0 <=? i) && (i <? n) then msys_handle cf w i MStart (mnet w) (mticks w) else w
  | MASubmit i cmd => if (0 <=? i) && (i <? n) then msys_handle cf w i (MSubmit cmd) (mnet w) (mticks w) else w
  end.

Definition msys_run (n q1 q2 : Z) (flex : bool) (sch : list maction) : msys :=
  fold_left (msys_step n (mcfg_of n q1 q2 flex)) sch msys_init.

(** The value node [i] reports as decided for slot [s]: the command of its
    log entry [s] when [s <= commit_index]. *)
Definition decided_slot (w : msys) (i s : Z) : option Z :=
  if (1 <=? s) && (s <=? mcommit (mnodes w i)) then
    match lget1 (mlog (mnodes w i)) s with Some (_, cmd) => Some cmd | None => None end
  else None.
