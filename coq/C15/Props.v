(** Property C15 — the theorems the check counts as obligations. *)
From HS Require Import Base.Prelude C14.Model C14.LsmProofs C15.Model C15.Proofs C15.RestProofs.
Local Open Scope Z_scope.

(** After a crash the log is exactly the entries with seq <= synced_up_to. *)
Theorem c15_wal_prefix_durable : forall w e,
  In e (w_entries (wal_crash w)) <-> In e (w_entries w) /\ e_seq e <= w_synced w.
Proof. exact wal_prefix_durable. Qed.
Print Assumptions c15_wal_prefix_durable.

(** Recovering twice gives the same state as recovering once (any state whose
    memtable is a sorted dict; in particular right after a crash). *)
Theorem c15_recover_idempotent : forall d, ssorted (c_mem (d_lsm d)) -> d_recover (d_recover d) = d_recover d.
Proof. exact recover_idempotent. Qed.
Print Assumptions c15_recover_idempotent.

Theorem c15_recover_after_crash_idempotent : forall d, d_recover (d_recover (d_crash d)) = d_recover (d_crash d).
Proof. exact recover_after_crash_idempotent. Qed.
Print Assumptions c15_recover_after_crash_idempotent.

(** Durability at rest (crash between operations of a sequential workload
    through the generator API, SyncEveryWrite): the recovered tree reads exactly
    the reference map, for every configuration and compaction strategy. *)
Theorem c15_durable_at_rest : forall bl, (forall ks x, In x ks -> bl ks x = true) ->
  forall c fuel nows ws d', (nlev c >= 1)%nat ->
  d_seq_exec fuel c SyncEvery bl nows (d_init c) ws = Some d' ->
  forall k, d_get bl (d_recover (d_crash d')) k = spec_of (map to_op ws) k.
Proof. exact durable_at_rest. Qed.
Print Assumptions c15_durable_at_rest.

(** Crash at rest, ANY sync policy (every write, batch, periodic), any clock:
    the recovered tree is exactly the tree after a prefix of the workload that
    contains every write with sequence number <= synced_up_to: synced writes
    are readable with their latest durable value, nothing is resurrected,
    nothing unwritten appears. *)
Theorem c15_durable_at_rest_prefix : forall bl, (forall ks x, In x ks -> bl ks x = true) ->
  forall c p fuel nows ws d', (nlev c >= 1)%nat ->
  d_seq_exec fuel c p bl nows (d_init c) ws = Some d' ->
  exists j : nat, w_synced (d_wal d') <= Z.of_nat j /\ (j <= length ws)%nat /\
    forall k, d_get bl (d_recover (d_crash d')) k = spec_of (firstn j (map to_op ws)) k.
Proof. exact durable_at_rest_prefix. Qed.
Print Assumptions c15_durable_at_rest_prefix.

(** Durability at ANY crash point: REFUTED on the faithful model (known finding
    C15-wal-truncated-past-unflushed). *)
Theorem c15_durable_any_crash_point_refuted : ~ durable_statement.
Proof. exact durable_any_crash_point_refuted. Qed.
Print Assumptions c15_durable_any_crash_point_refuted.
