(** C15 — proofs about the WAL + LSM crash/recovery model. *)
From HS Require Import Base.Prelude C14.Model C14.LsmProofs C15.Model.
Local Open Scope Z_scope.

(* ------------------------------------------------------------------ *)
(** * The WAL after a crash is exactly the synced prefix *)

Theorem wal_prefix_durable : forall w e,
  In e (w_entries (wal_crash w)) <-> In e (w_entries w) /\ e_seq e <= w_synced w.
Proof.
  intros w e. unfold wal_crash. cbn. rewrite filter_In. split; intros [A B]; (split; [assumption|lia]).
Qed.

Lemma wal_crash_idem w : wal_crash (wal_crash w) = wal_crash w.
Proof.
  unfold wal_crash. cbn. f_equal.
  induction (w_entries w) as [|e r IH]; cbn; [reflexivity|].
  destruct (e_seq e <=? w_synced w) eqn:E; cbn; [rewrite E; f_equal; exact IH|exact IH].
Qed.

(* ------------------------------------------------------------------ *)
(** * Recovery is idempotent *)

(** two strictly sorted tables with the same lookups are equal *)
Lemma ssorted_ext a : forall b, ssorted a -> ssorted b -> (forall k, assoc k a = assoc k b) -> a = b.
Proof.
  induction a as [|[ka va] ra IH]; intros b Ha Hb H.
  - destruct b as [|[kb vb] rb]; [reflexivity|]. specialize (H kb). cbn in H. rewrite Z.eqb_refl in H. discriminate.
  - destruct b as [|[kb vb] rb].
    + specialize (H ka). cbn in H. rewrite Z.eqb_refl in H. discriminate.
    + destruct Ha as [Ha1 Ha2], Hb as [Hb1 Hb2].
      assert (ka = kb) as ->.
      { pose proof (H ka) as H1. pose proof (H kb) as H2. cbn in H1, H2. rewrite Z.eqb_refl in H1, H2.
        destruct (Z.lt_trichotomy ka kb) as [L|[E|L]]; [|assumption|].
        - assert (ka =? kb = false) as E1 by lia. rewrite E1 in H1. symmetry in H1. apply assoc_some_keys in H1.
          specialize (Hb1 _ H1). lia.
        - assert (kb =? ka = false) as E1 by lia. rewrite E1 in H2. apply assoc_some_keys in H2.
          specialize (Ha1 _ H2). lia. }
      pose proof (H kb) as H0. cbn in H0. rewrite Z.eqb_refl in H0. inversion H0; subst.
      f_equal. apply IH; [assumption|assumption|]. intros k. specialize (H k). cbn in H.
      destruct (k =? kb) eqn:E; [|assumption].
      assert (k = kb) by lia. subst.
      destruct (assoc kb ra) eqn:E1; [apply assoc_some_keys in E1; specialize (Ha1 _ E1); lia|].
      destruct (assoc kb rb) eqn:E2; [apply assoc_some_keys in E2; specialize (Hb1 _ E2); lia|reflexivity].
Qed.

(** the value replay leaves for a key: the last entry for it, else the old one *)
Fixpoint last_for (k : Z) (es : list wentry) : option sval :=
  match es with
  | [] => None
  | e :: r => match last_for k r with Some v => Some v | None => if k =? e_key e then Some (e_val e) else None end
  end.

Lemma assoc_replay es : forall m k,
  assoc k (replay m es) = match last_for k es with Some v => Some v | None => assoc k m end.
Proof.
  unfold replay. induction es as [|e r IH]; intros m k; cbn [fold_left last_for]; [reflexivity|].
  rewrite IH. destruct (last_for k r); [reflexivity|]. rewrite assoc_sset. destruct (k =? e_key e); reflexivity.
Qed.

Lemma ssorted_replay es : forall m, ssorted m -> ssorted (replay m es).
Proof. unfold replay. induction es as [|e r IH]; intros m Hm; cbn; [assumption|]. apply IH, ssorted_sset, Hm. Qed.

Lemma replay_idem es m : ssorted m -> replay (replay m es) es = replay m es.
Proof.
  intros Hm. apply ssorted_ext; [apply ssorted_replay, ssorted_replay, Hm|apply ssorted_replay, Hm|].
  intros k. rewrite !assoc_replay. destruct (last_for k es); reflexivity.
Qed.

(** recover_from_crash executed twice = once (whole state), whenever the memtable is a sorted dict *)
Theorem recover_idempotent : forall d, ssorted (c_mem (d_lsm d)) -> d_recover (d_recover d) = d_recover d.
Proof.
  intros d H. unfold d_recover. cbn. f_equal. f_equal. apply replay_idem. assumption.
Qed.

(** in particular right after a crash (empty memtable) *)
Corollary recover_after_crash_idempotent : forall d, d_recover (d_recover (d_crash d)) = d_recover (d_crash d).
Proof. intros d. apply recover_idempotent. exact I. Qed.

(* ------------------------------------------------------------------ *)
(** * Durability at ANY crash point: refuted *)

(** the writes a schedule starts, with the sequence numbers the WAL gives them *)
Fixpoint sched_writes (seq : Z) (sch : list dstep) : list wentry :=
  match sch with
  | [] => []
  | DStart _ k v :: r => (seq, k, v) :: sched_writes (seq + 1) r
  | DResume _ _ :: r => sched_writes seq r
  end.

Definition latest_write (k : Z) (sch : list dstep) : option wentry :=
  last (map Some (filter (fun e => e_key e =? k) (sched_writes 1 sch))) None.

(** Special case of the C15 statement in which the answer is determined: if
    the LATEST write to a key is durable at the crash instant (its sequence
    number is covered by synced_up_to), crash + recovery reads its value. *)
Definition durable_statement : Prop :=
  forall c p sch k e, (nlev c >= 1)%nat ->
    latest_write k sch = Some e ->
    e_seq e <= w_synced (d_wal (fst (dw_run c p bl_exact sch))) ->
    crash_read c p bl_exact sch k = ext (Some (e_val e)).

Definition w_cfg := mkCfg 2 2 (SizeTiered 4).
Definition w_sched : list dstep :=
  [DStart 1 0 (Val 10); DResume 1 100000; DResume 1 1100000; DResume 1 1110000;          (* put 0: logged, synced, in memtable *)
   DStart 2 1 (Val 20); DResume 2 2100000; DResume 2 3100000; DResume 2 3110000;          (* put 1: memtable full -> flush starts *)
   DStart 3 2 (Val 30); DResume 3 3300000; DResume 3 4300000; DResume 3 4310000;          (* put 2 during the flush: synced, in the NEW memtable *)
   DResume 2 5110000].                                                                    (* flush ends: WAL truncated at next_sequence-1 = 3 *)

Lemma w_synced_3 : w_synced (d_wal (fst (dw_run w_cfg SyncEvery bl_exact w_sched))) = 3.
Proof. vm_compute. reflexivity. Qed.

Lemma w_entry_gone : w_entries (d_wal (fst (dw_run w_cfg SyncEvery bl_exact w_sched))) = [].
Proof. vm_compute. reflexivity. Qed.

Lemma w_before_crash_present : d_get bl_exact (fst (dw_run w_cfg SyncEvery bl_exact w_sched)) 2 = Some 30.
Proof. vm_compute. reflexivity. Qed.

Lemma w_lost : crash_read w_cfg SyncEvery bl_exact w_sched 2 = None.
Proof. vm_compute. reflexivity. Qed.

Theorem durable_any_crash_point_refuted : ~ durable_statement.
Proof.
  intros H. specialize (H w_cfg SyncEvery w_sched 2 (3, 2, Val 30)).
  assert (nlev w_cfg >= 1)%nat as N by (cbn; lia). specialize (H N eq_refl).
  rewrite w_synced_3 in H. cbn [e_seq fst] in H. specialize (H ltac:(lia)).
  rewrite w_lost in H. discriminate.
Qed.

(* ------------------------------------------------------------------ *)
(** * Durability at rest (sequential workloads, SyncEveryWrite) *)

From HS Require Import C14.SeqProofs.

(** the segments of one write executed back to back; [nows] gives the clock
    reading of each resume (arbitrary) *)
Fixpoint d_finish (fuel : nat) (c : cfg) (p : policy) (bl : list Z -> Z -> bool) (nows : nat -> Z)
                  (d : dstate) (r : dres) : option dstate :=
  match r with
  | DDone => Some d
  | DYield _ kk =>
      match fuel with
      | O => None
      | S f => let '(d', r') := d_resume c p bl (nows f) d kk in d_finish f c p bl nows d' r'
      end
  end.

Lemma d_finish_done fuel c p bl nows d : d_finish fuel c p bl nows d DDone = Some d.
Proof. destruct fuel; reflexivity. Qed.

Definition d_write_alone fuel c p bl nows (d : dstate) (k : Z) (v : sval) : option dstate :=
  let '(d', r) := d_start d k v in d_finish fuel c p bl nows d' r.

Fixpoint d_seq_exec fuel c p bl nows (d : dstate) (ws : list (Z * sval)) : option dstate :=
  match ws with
  | [] => Some d
  | (k, v) :: r => match d_write_alone fuel c p bl nows d k v with
                   | None => None
                   | Some d' => d_seq_exec fuel c p bl nows d' r
                   end
  end.

Definition to_op (kv : Z * sval) : op := match snd kv with Val x => Put (fst kv) x | Tomb => Del (fst kv) end.

(** C14-style continuation of a segment result *)
Definition finish (fuel : nat) (c : cfg) (bl : list Z -> Z -> bool) (st : cstate) (res : result) : option (cstate * out) :=
  match res with RDone r => Some (st, r) | RYield _ k => run_alone fuel c bl st (AResume k) end.

Lemma run_alone_finish fuel c bl st a : run_alone (S fuel) c bl st a = let '(st', res) := seg c bl st a in finish fuel c bl st' res.
Proof. cbn [run_alone]. destruct (seg c bl st a) as [st' [ns k|r]]; reflexivity. Qed.

Definition dres_of (res : result) : dres := match res with RYield ns k => DYield ns (DBase k) | RDone _ => DDone end.

(** below the WAL, a write evolves the engine exactly as in C14 *)
Lemma d_finish_lift c p bl nows : forall fuel st w res d',
  d_finish fuel c p bl nows (mkD st w) (dres_of res) = Some d' ->
  exists r, finish fuel c bl st res = Some (d_lsm d', r).
Proof.
  induction fuel as [|f IH]; intros st w res d' H.
  - destruct res as [ns k|r]; cbn in H; [discriminate|]. inversion H; subst. exists r. reflexivity.
  - destruct res as [ns k|r]; cbn [dres_of d_finish] in H; [|inversion H; subst; exists r; reflexivity].
    cbn [finish]. rewrite run_alone_finish.
    destruct k as [mid|fid sst|s t a b m|k li n held|lo hi m li n held]; cbn [d_resume lift] in H;
      cbn [d_lsm d_wal] in H; destruct (seg c bl st _) as [st' res'] eqn:Es; cbn [d_lsm d_wal] in H;
      fold (dres_of res') in H; eapply IH; exact H.
Qed.

Lemma mem_maybe_compact c s : mem (maybe_compact c s) = mem s.
Proof. unfold maybe_compact. destruct (pick _ _); [|reflexivity]. destruct (selection_nonempty _ _); reflexivity. Qed.

(** strictly increasing sequence numbers, all below [bound] *)
Fixpoint seq_sorted (es : list wentry) (bound : Z) : Prop :=
  match es with
  | [] => True
  | e :: r => e_seq e < bound /\ (forall x, In x r -> e_seq e < e_seq x) /\ seq_sorted r bound
  end.

Lemma seq_sorted_app es e b : seq_sorted es b -> e_seq e = b -> seq_sorted (es ++ [e]) (b + 1).
Proof.
  induction es as [|x r IH]; cbn; intros H He.
  - repeat split; [lia|intros ? []].
  - destruct H as (A & B & C). repeat split.
    + lia.
    + intros y Hy. apply in_app_iff in Hy. destruct Hy as [Hy|[<-|[]]]; [auto|].
      lia.
    + apply IH; assumption.
Qed.

Lemma ins_seq_last e l : (forall x, In x l -> e_seq x < e_seq e) -> ins_seq e l = l ++ [e].
Proof.
  induction l as [|x r IH]; cbn; intros H; [reflexivity|].
  pose proof (H x (or_introl eq_refl)). assert (e_seq e <? e_seq x = false) as -> by lia.
  f_equal. apply IH. intros y Hy. apply H. right. assumption.
Qed.

Lemma sort_seq_sorted es b : seq_sorted es b -> sort_seq es = es.
Proof.
  unfold sort_seq. induction es as [|e r IH]; cbn; intros H; [reflexivity|].
  destruct H as (A & B & C). rewrite (IH C).
  (* e is below everything in r: it goes to the front *)
  destruct r as [|x r']; [reflexivity|]. cbn. pose proof (B x (or_introl eq_refl)).
  assert (e_seq e <? e_seq x = true) as -> by lia. reflexivity.
Qed.

Lemma truncate_all w : seq_sorted (w_entries w) (w_next w) ->
  w_entries (wal_truncate w (w_next w - 1)) = [].
Proof.
  unfold wal_truncate. cbn. generalize (w_next w). induction (w_entries w) as [|e r IH]; intros b H; cbn; [reflexivity|].
  destruct H as (A & B & C). assert (e_seq e >? b - 1 = false) as -> by lia. apply IH. assumption.
Qed.

Lemma filter_all_synced es s b : seq_sorted es b -> b - 1 <= s -> filter (fun e => e_seq e <=? s) es = es.
Proof.
  induction es as [|e r IH]; cbn; intros H Hs; [reflexivity|].
  destruct H as (A & B & C). assert (e_seq e <=? s = true) as -> by lia. f_equal. apply IH; assumption.
Qed.

Lemma compact_begin_shape c st st' r : compact_begin c st = (st', r) ->
  c_mem st' = c_mem st /\
  (r = RDone ONone \/ exists ns s t a b m, r = RYield ns (KCompactWait s t a b m)).
Proof.
  unfold compact_begin. destruct (pick (strat c) _) as [s|]; [|intros H; inversion H; subst; split; [reflexivity|left; reflexivity]].
  destruct (nth s (c_levels st) []) as [|t0 r0]; [intros H; inversion H; subst; split; [reflexivity|left; reflexivity]|].
  cbv zeta.
  match goal with |- context [match ?m with [] => _ | _ :: _ => _ end] => destruct m end;
    intros H; inversion H; subst; (split; [reflexivity|]); [left; reflexivity|right; eauto 10].
Qed.

(** the invariant of a quiet state under SyncEveryWrite: the memtable is the
    replay of the log, the log is in sequence order, everything is synced *)
Definition rest_inv (d : dstate) : Prop :=
  quiet (d_lsm d) /\
  c_mem (d_lsm d) = replay [] (w_entries (d_wal d)) /\
  seq_sorted (w_entries (d_wal d)) (w_next (d_wal d)) /\
  w_synced (d_wal d) = w_next (d_wal d) - 1.

Lemma replay_snoc m es e : replay m (es ++ [e]) = sset (e_key e) (e_val e) (replay m es).
Proof. unfold replay. rewrite fold_left_app. reflexivity. Qed.

Lemma write_alone_rest c bl nows fuel d k v d' : (forall ks x, In x ks -> bl ks x = true) ->
  rest_inv d -> d_write_alone fuel c SyncEvery bl nows d k v = Some d' ->
  rest_inv d' /\ abs (d_lsm d') = write c (abs (d_lsm d)) k v.
Proof.
  intros Hb (Q & Hm & Hs & Hy) H. unfold d_write_alone, d_start in H.
  destruct d as [st w]. cbn [d_lsm d_wal] in *.
  set (e := (w_next w, k, v)).
  set (w1 := mkWal (w_entries w ++ [e]) (w_next w + 1) (w_synced w) (w_since w + 1) (w_last_sync w)) in H.
  (* WAL write yield *)
  destruct fuel as [|fuel]; [discriminate|]. cbn [d_finish d_resume should_sync d_wal] in H.
  (* fsync yield *)
  destruct fuel as [|fuel]; [discriminate|]. cbn [d_finish d_resume d_wal d_lsm] in H.
  set (w2 := mkWal (w_entries w1) (w_next w1) (w_next w) 0 (nows fuel)) in H.
  unfold mem_put in H. cbn [d_lsm] in H.
  set (o := match v with Val x => Put k x | Tomb => Del k end) in H.
  set (st1 := mkC (sset k v (c_mem st)) (c_mid st) (c_imm st) (c_levels st) (c_ncomp st) (c_nflush st) (c_next st)).
  assert (seg c bl st (AStart o) = (st1, RYield MEM_NS (KPutWait (c_mid st)))) as E1 by (unfold o; destruct v; reflexivity).
  rewrite E1 in H. cbn [lift d_wal] in H.
  (* engine part: exactly the C14 chain *)
  assert (exists r, run_alone (S (S fuel)) c bl st (AStart o) = Some (d_lsm d', r)) as [r Hr].
  { destruct (d_finish_lift c SyncEvery bl nows fuel st1 w2 (RYield MEM_NS (KPutWait (c_mid st))) d' H) as [r Hr].
    exists r. rewrite run_alone_finish, E1. cbn [finish] in *.
    (* one more unit of fuel than needed is harmless: re-run with S fuel *)
    clear -Hr. revert Hr. generalize (AResume (KPutWait (c_mid st))). generalize st1.
    induction fuel as [|f IH]; intros s a Hr; [discriminate|].
    cbn [run_alone] in *. destruct (seg c bl s a) as [s' [ns kk|x]]; [apply IH; assumption|assumption]. }
  destruct (write_alone c bl st k v (S (S fuel)) (d_lsm d') r o E1 Q Hr) as (_ & A & Q').
  split; [|exact A]. split; [exact Q'|].
  (* WAL / memtable part: unroll the chain *)
  destruct fuel as [|fuel]; [discriminate|]. cbn [d_finish d_resume lift seg d_lsm d_wal] in H.
  cbn [c_mid st1] in H. rewrite Z.eqb_refl in H. change (c_mem st1) with (sset k v (c_mem st)) in H.
  assert (seq_sorted (w_entries w2) (w_next w2)) as Hs2 by (cbn; apply seq_sorted_app; [assumption|reflexivity]).
  destruct (zlen (sset k v (c_mem st)) >=? thr c) eqn:Ef.
  - unfold flush_begin in H. change (c_mem st1) with (sset k v (c_mem st)) in H.
    destruct (sset k v (c_mem st)) as [|pp mm] eqn:Em; [exfalso; eapply sset_nonempty; eauto|]. rewrite <- Em in *.
    cbn [lift d_lsm d_wal] in H.
    destruct fuel as [|fuel]; [discriminate|]. cbn [d_finish d_resume lift seg d_lsm d_wal] in H.
    set (st2 := mkC [] (c_next st1 + 1) (c_imm st1 ++ [(c_next st1, sset k v (c_mem st))]) (c_levels st1)
                    (c_ncomp st1) (c_nflush st1) (c_next st1 + 2)) in H.
    unfold flush_end in H.
    destruct (compact_begin c _) as [st4 r4] eqn:Ec. cbn [lift d_lsm d_wal] in H.
    destruct (compact_begin_shape _ _ _ _ Ec) as [M4 Shape]. cbn [c_mem] in M4.
    set (w3 := wal_truncate w2 (w_next w2 - 1)) in H.
    assert (w_entries w3 = []) as E3 by (apply truncate_all; assumption).
    assert (forall dd, (dd = mkD st4 w3 \/ exists s t a b m, dd = mkD (compact_end st4 s t a b m) w3) ->
            c_mem (d_lsm dd) = replay [] (w_entries (d_wal dd)) /\ seq_sorted (w_entries (d_wal dd)) (w_next (d_wal dd)) /\
            w_synced (d_wal dd) = w_next (d_wal dd) - 1) as Fin.
    { intros dd [->|(s & t & a & b & m & ->)]; cbn [d_lsm d_wal compact_end c_mem]; rewrite E3, ?M4;
        (split; [reflexivity|split; [exact I|unfold w3, w2, w1; cbn; lia]]). }
    destruct r4 as [ns kk|x]; cbn [d_finish] in H.
    + destruct fuel as [|fuel]; [discriminate|].
      destruct Shape as [Sh|(ns' & s & t & a & b & m & Sh)]; [discriminate|]. inversion Sh; subst ns' kk.
      cbn [d_resume lift seg d_lsm d_wal d_finish] in H. rewrite d_finish_done in H. inversion H; subst d'. apply Fin. right. exists s, t, a, b, m. reflexivity.
    + rewrite d_finish_done in H. inversion H; subst d'. apply Fin. left. reflexivity.
  - cbn [lift] in H. rewrite d_finish_done in H. inversion H; subst d'. cbn [d_lsm d_wal c_mem].
    split; [cbn [w_entries]; rewrite replay_snoc, <- Hm; reflexivity|].
    split; [exact Hs2|cbn; lia].
Qed.

Lemma init_rest c : (nlev c >= 1)%nat -> rest_inv (d_init c).
Proof. intros H. split; [apply init_quiet; assumption|]. cbn. repeat split. Qed.

Lemma apply_to_op c st kv : apply c st (to_op kv) = write c st (fst kv) (snd kv).
Proof. destruct kv as [k [x|]]; reflexivity. Qed.

Lemma d_seq_exec_ok c bl nows fuel : (forall ks x, In x ks -> bl ks x = true) ->
  forall ws d d', rest_inv d -> d_seq_exec fuel c SyncEvery bl nows d ws = Some d' ->
  rest_inv d' /\ abs (d_lsm d') = fold_left (apply c) (map to_op ws) (abs (d_lsm d)).
Proof.
  intros Hb. induction ws as [|[k v] r IH]; intros d d' R H; cbn [d_seq_exec] in H.
  - inversion H; subst. split; [assumption|reflexivity].
  - destruct (d_write_alone fuel c SyncEvery bl nows d k v) as [d1|] eqn:E; [|discriminate].
    destruct (write_alone_rest c bl nows fuel d k v d1 Hb R E) as [R1 A1].
    destruct (IH d1 d' R1 H) as [R' A']. split; [assumption|].
    cbn [map fold_left]. rewrite apply_to_op. cbn [fst snd]. rewrite <- A1. exact A'.
Qed.

(** Durability at rest: a sequential workload of puts and deletes through the
    generator API with SyncEveryWrite (every completed write is synced),
    crash between operations, recover: every key reads exactly the value of the
    reference map — every durable write is readable with its latest value,
    nothing deleted or overwritten is resurrected, nothing unwritten appears. *)
Theorem durable_at_rest : forall bl, (forall ks x, In x ks -> bl ks x = true) ->
  forall c fuel nows ws d', (nlev c >= 1)%nat ->
  d_seq_exec fuel c SyncEvery bl nows (d_init c) ws = Some d' ->
  forall k, d_get bl (d_recover (d_crash d')) k = spec_of (map to_op ws) k.
Proof.
  intros bl Hb c fuel nows ws d' Hn H k.
  destruct (d_seq_exec_ok c bl nows fuel Hb ws (d_init c) d' (init_rest c Hn) H) as [(Q & Hm & Hs & Hy) A].
  cbn [d_init d_lsm] in A. rewrite abs_init in A.
  rewrite <- (lsm_get_refines_map bl Hb c (map to_op ws) k Hn). unfold run. rewrite <- A.
  unfold d_get, d_recover, d_crash, lsm_get, raw_get. cbn [d_lsm d_wal c_mem c_imm c_levels imm_get abs mem levels].
  unfold wal_crash. cbn [w_entries].
  rewrite (filter_all_synced _ _ _ Hs) by lia.
  rewrite (sort_seq_sorted _ _ Hs). rewrite <- Hm. reflexivity.
Qed.

(** the hypothesis is satisfiable *)
Example durable_at_rest_example :
  match d_seq_exec 8 (mkCfg 2 2 (SizeTiered 2)) SyncEvery bl_exact (fun _ => 0) (d_init (mkCfg 2 2 (SizeTiered 2)))
          [(1, Val 10); (2, Val 20); (1, Tomb); (3, Val 30)] with
  | Some d => map (d_get bl_exact (d_recover (d_crash d))) [1; 2; 3] = [None; Some 20; Some 30]
  | None => False
  end.
Proof. vm_compute. reflexivity. Qed.
