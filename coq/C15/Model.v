(** C15 — executable model of the write path of the LSM tree WITH its
    write-ahead log, and of crash / recovery:
    happysimulator/components/storage/wal.py (append, truncate, crash, recover,
    three sync policies) and lsm_tree.py (put/delete through the generator API,
    _flush_memtable's WAL truncation, crash, recover_from_crash).

    Reuses the C14 step machine for everything below the WAL (memtable put,
    flush, compaction).  One segment = the code between two yields; the clock
    reading [now] (ns) of the segment is an explicit input (SyncPeriodic).
    No proofs here. *)
From HS Require Import Base.Prelude C14.Model.
Local Open Scope Z_scope.

Inductive policy := SyncEvery | SyncBatch (n : Z) | SyncPeriodic (interval_ns : Z).

(** SyncPolicy.should_sync *)
Definition should_sync (p : policy) (writes_since_sync time_since_sync_ns : Z) : bool :=
  match p with
  | SyncEvery => true
  | SyncBatch n => writes_since_sync >=? n
  | SyncPeriodic i => time_since_sync_ns >=? i
  end.

Definition wentry := (Z * Z * sval)%type.        (* sequence_number, key, value *)
Definition e_seq (e : wentry) : Z := fst (fst e).
Definition e_key (e : wentry) : Z := snd (fst e).
Definition e_val (e : wentry) : sval := snd e.

Record wal := mkWal {
  w_entries : list wentry; w_next : Z; w_synced : Z; w_since : Z; w_last_sync : Z }.

Definition wal_init : wal := mkWal [] 1 0 0 0.

(** WriteAheadLog.truncate(up_to) *)
Definition wal_truncate (w : wal) (up_to : Z) : wal :=
  mkWal (filter (fun e => e_seq e >? up_to) (w_entries w)) (w_next w) (w_synced w) (w_since w) (w_last_sync w).

(** WriteAheadLog.crash *)
Definition wal_crash (w : wal) : wal :=
  mkWal (filter (fun e => e_seq e <=? w_synced w) (w_entries w)) (w_next w) (w_synced w) 0 (w_last_sync w).

(** insertion sort by sequence number: [sorted(self._entries, key=seq)] *)
Fixpoint ins_seq (e : wentry) (l : list wentry) : list wentry :=
  match l with
  | [] => [e]
  | x :: r => if e_seq e <? e_seq x then e :: l else x :: ins_seq e r
  end.
Definition sort_seq (l : list wentry) : list wentry := fold_right ins_seq [] l.

Record dstate := mkD { d_lsm : cstate; d_wal : wal }.

Definition d_init (c : cfg) : dstate := mkD (c_init c) wal_init.

(** LSMTree.crash *)
Definition d_crash (d : dstate) : dstate :=
  let st := d_lsm d in
  mkD (mkC [] (c_next st) [] (c_levels st) (c_ncomp st) (c_nflush st) (c_next st + 1)) (wal_crash (d_wal d)).

(** LSMTree.recover_from_crash: replay the surviving entries in sequence order *)
Definition replay (m : table) (es : list wentry) : table :=
  fold_left (fun m e => sset (e_key e) (e_val e) m) es m.

Definition d_recover (d : dstate) : dstate :=
  let st := d_lsm d in
  mkD (mkC (replay (c_mem st) (sort_seq (w_entries (d_wal d)))) (c_mid st) (c_imm st) (c_levels st)
           (c_ncomp st) (c_nflush st) (c_next st)) (d_wal d).

(** get_sync of the recovered tree *)
Definition d_get (bl : list Z -> Z -> bool) (d : dstate) (k : Z) : option Z :=
  let st := d_lsm d in
  ext (match assoc k (c_mem st) with
       | Some v => Some v
       | None => match imm_get k (c_imm st) with
                 | Some v => Some v
                 | None => levels_get bl k (map (map tdata) (c_levels st))
                 end
       end).

(* ------------------------------------------------------------------ *)
(** * Segments of put / delete with a WAL *)

Inductive dkont :=
| DWalWrite (seq k : Z) (v : sval)     (* after the WAL write-latency yield *)
| DWalSync (seq k : Z) (v : sval)      (* after the fsync yield *)
| DBase (k : kont).                    (* memtable put / flush / compaction of C14 *)

Inductive dres := DYield (ns : Z) (k : dkont) | DDone.

Definition WAL_WRITE_NS := 100000.     (* write_latency 0.0001 s *)
Definition WAL_SYNC_NS := 1000000.     (* sync_latency 0.001 s *)

Definition lift (d : dstate) (r : cstate * result) : dstate * dres :=
  let '(st', res) := r in
  (mkD st' (d_wal d), match res with RYield ns k => DYield ns (DBase k) | RDone _ => DDone end).

(** the memtable part of put/delete (Memtable.put up to its yield) *)
Definition mem_put (c : cfg) (bl : list Z -> Z -> bool) (d : dstate) (k : Z) (v : sval) : dstate * dres :=
  lift d (seg c bl (d_lsm d) (AStart (match v with Val x => Put k x | Tomb => Del k end))).

Definition d_start (d : dstate) (k : Z) (v : sval) : dstate * dres :=
  let w := d_wal d in
  let seq := w_next w in
  (mkD (d_lsm d) (mkWal (w_entries w ++ [(seq, k, v)]) (seq + 1) (w_synced w) (w_since w + 1) (w_last_sync w)),
   DYield WAL_WRITE_NS (DWalWrite seq k v)).

Definition d_resume (c : cfg) (p : policy) (bl : list Z -> Z -> bool) (now : Z) (d : dstate) (kk : dkont) : dstate * dres :=
  match kk with
  | DWalWrite seq k v =>
      let w := d_wal d in
      if should_sync p (w_since w) (now - w_last_sync w) then (d, DYield WAL_SYNC_NS (DWalSync seq k v))
      else mem_put c bl d k v
  | DWalSync seq k v =>
      let w := d_wal d in
      mem_put c bl (mkD (d_lsm d) (mkWal (w_entries w) (w_next w) seq 0 now)) k v
  | DBase (KFlushWait fid sst) =>
      (* _flush_memtable after its yield: install, then truncate the WAL at next_sequence - 1, then maybe compact *)
      let '(d', r) := lift d (seg c bl (d_lsm d) (AResume (KFlushWait fid sst))) in
      (mkD (d_lsm d') (wal_truncate (d_wal d') (w_next (d_wal d') - 1)), r)
  | DBase k => lift d (seg c bl (d_lsm d) (AResume k))
  end.

(** schedule step: start of a write, or resume of a suspended one, at clock [now] *)
Inductive dstep := DStart (oid k : Z) (v : sval) | DResume (oid now : Z).

Fixpoint dkget (oid : Z) (ks : list (Z * dkont)) : option dkont :=
  match ks with [] => None | (i, k) :: r => if i =? oid then Some k else dkget oid r end.
Definition dkdel (oid : Z) (ks : list (Z * dkont)) := filter (fun p => negb (fst p =? oid)) ks.

Definition dworld := (dstate * list (Z * dkont))%type.

Definition dw_step (c : cfg) (p : policy) (bl : list Z -> Z -> bool) (w : dworld) (s : dstep) : dworld * option dres :=
  let '(d, ks) := w in
  match s with
  | DStart oid k v =>
      let '(d', r) := d_start d k v in
      ((d', match r with DYield _ kk => (oid, kk) :: ks | DDone => ks end), Some r)
  | DResume oid now =>
      match dkget oid ks with
      | None => (w, None)
      | Some kk =>
          let '(d', r) := d_resume c p bl now d kk in
          ((d', match r with DYield _ kk' => (oid, kk') :: dkdel oid ks | DDone => dkdel oid ks end), Some r)
      end
  end.

Definition dw_run (c : cfg) (p : policy) (bl : list Z -> Z -> bool) (sch : list dstep) : dworld :=
  fold_left (fun w s => fst (dw_step c p bl w s)) sch (d_init c, []).

(** crash after the schedule prefix, recover, read key [k] *)
Definition crash_read (c : cfg) (p : policy) (bl : list Z -> Z -> bool) (sch : list dstep) (k : Z) : option Z :=
  d_get bl (d_recover (d_crash (fst (dw_run c p bl sch)))) k.

(* ------------------------------------------------------------------ *)
(** * Correspondence *)

Definition wentry_eqb (a b : wentry) : bool :=
  (e_seq a =? e_seq b) && (e_key a =? e_key b) && sval_eqb (e_val a) (e_val b).

(** snapshot = (C14 snapshot, WAL entries, next_sequence, synced_up_to, writes_since_sync) *)
Definition dsnap := (csnap * list wentry * Z * Z * Z)%type.

Definition dsnap_eqb (d : dstate) (s : dsnap) : bool :=
  let '(cs, es, nx, sy, si) := s in
  csnap_eqb (d_lsm d) cs && list_eqb wentry_eqb (w_entries (d_wal d)) es &&
  (w_next (d_wal d) =? nx) && (w_synced (d_wal d) =? sy) && (w_since (d_wal d) =? si).

Inductive dobs := DObsYield (ns : Z) | DObsDone.

(** what the implementation showed after crash + recover (+ recover again) at this point:
    values of all keys, memtable after one and after two recoveries *)
Definition crash_obs := (list (option Z) * table * table)%type.

Definition crash_ok (bl : list Z -> Z -> bool) (keys : list Z) (d : dstate) (o : crash_obs) : bool :=
  let '(vals, m1, m2) := o in
  let r1 := d_recover (d_crash d) in
  let r2 := d_recover r1 in
  list_eqb (option_eqb Z.eqb) (map (d_get bl r1) keys) vals &&
  table_eqb (c_mem (d_lsm r1)) m1 && table_eqb (c_mem (d_lsm r2)) m2.

Fixpoint dur_ok (c : cfg) (p : policy) (bl : list Z -> Z -> bool) (keys : list Z) (w : dworld)
                (steps : list (dstep * dobs * dsnap * crash_obs)) : bool :=
  match steps with
  | [] => true
  | (s, o, sn, co) :: rest =>
      let '(w', r) := dw_step c p bl w s in
      (match r, o with
       | Some (DYield ns _), DObsYield ns' => ns =? ns'
       | Some DDone, DObsDone => true
       | _, _ => false
       end) && dsnap_eqb (fst w') sn && crash_ok bl keys (fst w') co && dur_ok c p bl keys w' rest
  end.

Definition ok_durable (case : cfg * policy * list (list Z * Z) * list Z * list (dstep * dobs * dsnap * crash_obs)) : bool :=
  let '(c, p, fps, keys, steps) := case in dur_ok c p (bl_of fps) keys (d_init c, []) steps.
