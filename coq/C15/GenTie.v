(** C15 — tie between components/storage/wal.py and the WAL model, through the
    REGENERATED translation [Gen/WalGen.v] (py2coq): WriteAheadLog.crash /
    truncate / recover / synced_up_to / size and the two integer sync policies.

    The WAL never looks at a stored value or timestamp: [venc] is ANY encoding of
    model values as the opaque integers of the translation, [ts] any timestamp
    assignment.  [wal_obj] builds the code object of a model WAL ([rec] = the
    unrelated [_entries_recovered] statistic). *)
From HS Require Import Base.Prelude Base.PyLib C14.Model C15.Model C15.Proofs Gen.WalGen.
Local Open Scope Z_scope.

Section Tie.
Variable venc : sval -> Z.
Variable ts : wentry -> Z.

Definition eenc (e : wentry) : WALEntry := mkWALEntry (e_seq e) (e_key e) (venc (e_val e)) (ts e).
Definition wal_obj (w : wal) (rec : Z) : WriteAheadLog :=
  mkWriteAheadLog (map eenc (w_entries w)) (w_synced w) (w_since w) rec.

Lemma filter_map_enc (p : Z -> bool) l :
  filter (fun e => p (WALEntry_sequence_number e)) (map eenc l) = map eenc (filter (fun e => p (e_seq e)) l).
Proof. induction l as [|e r IH]; cbn; [reflexivity|]. destruct (p (e_seq e)); cbn; now rewrite IH. Qed.

(** [crash()]: the object of the model's crashed WAL; returns the number of entries lost. *)
Lemma tie_wal_crash w rec :
  WriteAheadLog_crash (wal_obj w rec)
  = (wal_obj (wal_crash w) rec, zlen (w_entries w) - zlen (w_entries (wal_crash w))).
Proof.
  unfold WriteAheadLog_crash, wal_obj, wal_crash. cbn.
  rewrite (filter_map_enc (fun s => s <=? w_synced w)). rewrite !map_length. reflexivity.
Qed.

Lemma tie_wal_truncate w rec up :
  WriteAheadLog_truncate (wal_obj w rec) up = (wal_obj (wal_truncate w up) rec, tt).
Proof.
  unfold WriteAheadLog_truncate, wal_obj, wal_truncate. cbn.
  now rewrite (filter_map_enc (fun s => s >? up)).
Qed.

Lemma tie_wal_read w rec :
  WriteAheadLog_synced_up_to (wal_obj w rec) = w_synced w
  /\ WriteAheadLog_size (wal_obj w rec) = zlen (w_entries w).
Proof. unfold WriteAheadLog_synced_up_to, WriteAheadLog_size, wal_obj. cbn. now rewrite map_length. Qed.

(** [recover()]: Python's stable sort by sequence number is the model's
    insertion sort whenever sequence numbers are distinct (they are: [append]
    hands out [_next_sequence] and increments it). *)
Lemma ins_seq_keys e l : map e_seq (ins_seq e l) = map e_seq (ins_seq e l).
Proof. reflexivity. Qed.

Lemma in_ins_seq x e l : In x (ins_seq e l) <-> x = e \/ In x l.
Proof.
  induction l as [|y r IH]; cbn; [intuition|].
  destruct (e_seq e <? e_seq y); cbn; [intuition|]. rewrite IH. intuition.
Qed.

Lemma in_sort_seq x l : In x (sort_seq l) <-> In x l.
Proof.
  induction l as [|y r IH]; cbn; [tauto|]. rewrite in_ins_seq, IH. intuition.
Qed.

Lemma ins_by_enc e l :
  (forall y, In y l -> e_seq y <> e_seq e) ->
  py_ins_by (fun x => WALEntry_sequence_number x) (eenc e) (map eenc l) = map eenc (ins_seq e l).
Proof.
  induction l as [|y r IH]; intros Hn; cbn; [reflexivity|].
  assert (e_seq y <> e_seq e) by (apply Hn; left; reflexivity).
  destruct (e_seq e <=? e_seq y) eqn:E1, (e_seq e <? e_seq y) eqn:E2; try lia; cbn; [reflexivity|].
  rewrite IH; [reflexivity|]. intros z Hz. apply Hn. right; exact Hz.
Qed.

Lemma sorted_by_enc l :
  NoDup (map e_seq l) ->
  py_sorted_by (fun x => WALEntry_sequence_number x) (map eenc l) = map eenc (sort_seq l).
Proof.
  induction l as [|e r IH]; intros Hd; [reflexivity|].
  cbn [map] in Hd. inversion Hd as [|? ? Hn Hd']; subst. unfold py_sorted_by, sort_seq in *. cbn [fold_right map]. rewrite (IH Hd').
  apply ins_by_enc. intros y Hy Heq. apply Hn. apply (in_sort_seq y r) in Hy. rewrite <- Heq.
  apply in_map_iff. exists y. split; [reflexivity|exact Hy].
Qed.

Lemma ins_seq_length e l : length (ins_seq e l) = S (length l).
Proof. induction l as [|y q IH]; cbn; [reflexivity|]. destruct (e_seq e <? e_seq y); cbn; [reflexivity|]. now rewrite IH. Qed.

Lemma sort_seq_length l : length (sort_seq l) = length l.
Proof. induction l as [|e r IH]; [reflexivity|]. unfold sort_seq in *. cbn [fold_right]. now rewrite ins_seq_length, IH. Qed.

Lemma tie_wal_recover w rec :
  NoDup (map e_seq (w_entries w)) ->
  WriteAheadLog_recover (wal_obj w rec)
  = (wal_obj w (zlen (w_entries w)), map eenc (sort_seq (w_entries w))).
Proof.
  intros Hd. unfold WriteAheadLog_recover, wal_obj, set_WriteAheadLog__entries_recovered.
  cbn [WriteAheadLog__entries WriteAheadLog__synced_up_to_sequence WriteAheadLog__writes_since_sync].
  rewrite (sorted_by_enc _ Hd). rewrite map_length, sort_seq_length. reflexivity.
Qed.

(** The two integer sync policies are the model's [should_sync]. *)
Lemma tie_should_sync n w t :
  SyncEveryWrite_should_sync mkSyncEveryWrite w t = should_sync SyncEvery w t
  /\ SyncOnBatch_should_sync (mkSyncOnBatch n) w t = should_sync (SyncBatch n) w t.
Proof. split; reflexivity. Qed.

End Tie.

(* ------------------------------------------------------------------ *)
(** * Code-level theorems (about the translated class itself, any entries) *)

(** After [crash()] the log holds exactly the entries whose sequence number is
    at most [synced_up_to], in their old order; the synced mark is unchanged;
    the returned count is the number of entries lost; a second crash changes
    nothing more. *)
Theorem code_wal_crash : forall L : WriteAheadLog,
  let '(L', lost) := WriteAheadLog_crash L in
  WriteAheadLog__entries L' = filter (fun e => WALEntry_sequence_number e <=? WriteAheadLog_synced_up_to L) (WriteAheadLog__entries L)
  /\ (forall e, In e (WriteAheadLog__entries L') <->
        In e (WriteAheadLog__entries L) /\ WALEntry_sequence_number e <= WriteAheadLog_synced_up_to L)
  /\ WriteAheadLog_synced_up_to L' = WriteAheadLog_synced_up_to L
  /\ lost = WriteAheadLog_size L - WriteAheadLog_size L' /\ 0 <= lost
  /\ WriteAheadLog__entries (fst (WriteAheadLog_crash L')) = WriteAheadLog__entries L'.
Proof.
  intros L. unfold WriteAheadLog_crash, WriteAheadLog_synced_up_to, WriteAheadLog_size. cbn.
  set (p := fun e => WALEntry_sequence_number e <=? WriteAheadLog__synced_up_to_sequence L).
  repeat split.
  - apply filter_In in H. tauto.
  - apply filter_In in H. unfold p in H. lia.
  - intros [A B]. apply filter_In. split; [exact A|unfold p; lia].
  - assert (length (filter p (WriteAheadLog__entries L)) <= length (WriteAheadLog__entries L))%nat.
    { induction (WriteAheadLog__entries L) as [|e r IH]; cbn; [lia|]. destruct (p e); cbn; lia. }
    lia.
  - induction (WriteAheadLog__entries L) as [|e r IH]; cbn; [reflexivity|].
    destruct (p e) eqn:E; cbn; [rewrite E; f_equal; exact IH|exact IH].
Qed.

(** [truncate(n)] removes exactly the entries numbered up to [n]. *)
Theorem code_wal_truncate : forall (L : WriteAheadLog) n e,
  In e (WriteAheadLog__entries (fst (WriteAheadLog_truncate L n))) <->
  In e (WriteAheadLog__entries L) /\ n < WALEntry_sequence_number e.
Proof.
  intros L n e. unfold WriteAheadLog_truncate. cbn. rewrite filter_In. split; intros [A B]; (split; [exact A|lia]).
Qed.

Example wal_obj_example :
  WriteAheadLog_crash (wal_obj (fun _ => 0) (fun _ => 0) (mkWal [(1, 10, Val 5); (2, 11, Tomb); (3, 12, Val 7)] 4 2 1 0) 0)
  = (wal_obj (fun _ => 0) (fun _ => 0) (mkWal [(1, 10, Val 5); (2, 11, Tomb)] 4 2 0 0) 0, 1).
Proof. vm_compute. reflexivity. Qed.
