(** C15 — crash at rest for ANY sync policy: after a sequential workload
    through the generator API, crash + recovery yields exactly the state after
    a PREFIX of the workload, and that prefix contains every synced write. *)
From HS Require Import Base.Prelude C14.Model C14.LsmProofs C14.SeqProofs C15.Model C15.Proofs.
Local Open Scope Z_scope.

Definition ekv (e : wentry) : Z * sval := (e_key e, e_val e).

(** consecutive sequence numbers a+1, a+2, ... *)
Fixpoint consecutive (a : Z) (es : list wentry) : Prop :=
  match es with [] => True | e :: r => e_seq e = a + 1 /\ consecutive (a + 1) r end.

Lemma zlen_cons {A} (x : A) l : zlen (x :: l) = zlen l + 1.
Proof. unfold zlen. cbn [length]. lia. Qed.

Lemma zlen_nonneg {A} (l : list A) : 0 <= zlen l.
Proof. unfold zlen. lia. Qed.

Lemma consecutive_range es : forall a, consecutive a es -> forall x, In x es -> a < e_seq x <= a + zlen es.
Proof.
  induction es as [|e r IH]; intros a H x Hx; [destruct Hx|]. destruct H as [He Hr]. rewrite zlen_cons.
  pose proof (zlen_nonneg r). destruct Hx as [<-|Hx]; [lia|]. specialize (IH _ Hr x Hx). lia.
Qed.

Lemma consecutive_sorted es : forall a, consecutive a es -> seq_sorted es (a + zlen es + 1).
Proof.
  induction es as [|e r IH]; intros a H; cbn [seq_sorted]; [exact I|]. destruct H as [He Hr].
  rewrite zlen_cons. pose proof (zlen_nonneg r). split; [lia|]. split.
  - intros x Hx. pose proof (consecutive_range r _ Hr x Hx). lia.
  - replace (a + (zlen r + 1) + 1) with (a + 1 + zlen r + 1) by lia. apply IH. assumption.
Qed.

Lemma consecutive_app es e : forall a, consecutive a es -> e_seq e = a + zlen es + 1 -> consecutive a (es ++ [e]).
Proof.
  induction es as [|x r IH]; intros a H He; cbn [app consecutive] in *.
  - unfold zlen in He. cbn in He. split; [lia|exact I].
  - destruct H as [Hx Hr]. split; [assumption|]. apply IH; [assumption|]. rewrite zlen_cons in He. lia.
Qed.

Lemma filter_none_synced es : forall a s, consecutive a es -> s < a + 1 -> filter (fun e => e_seq e <=? s) es = [].
Proof.
  induction es as [|e r IH]; intros a s H Hs; cbn [filter]; [reflexivity|]. destruct H as [He Hr].
  assert (e_seq e <=? s = false) as -> by lia. apply (IH (a + 1)); [assumption|lia].
Qed.

(** the synced entries of a consecutive log form a prefix of known length *)
Lemma synced_prefix es : forall a s, consecutive a es ->
  filter (fun e => e_seq e <=? s) es = firstn (Z.to_nat (Z.min (Z.max (s - a) 0) (zlen es))) es.
Proof.
  induction es as [|e r IH]; intros a s H; [now rewrite firstn_nil|].
  destruct (Z_lt_le_dec s (a + 1)) as [L|L].
  - rewrite (filter_none_synced _ a s H L).
    replace (Z.to_nat (Z.min (Z.max (s - a) 0) (zlen (e :: r)))) with O by lia. reflexivity.
  - destruct H as [He Hr]. cbn [filter]. assert (e_seq e <=? s = true) as -> by lia.
    rewrite (IH (a + 1) s Hr). rewrite zlen_cons. pose proof (zlen_nonneg r).
    replace (Z.to_nat (Z.min (Z.max (s - a) 0) (zlen r + 1)))
      with (S (Z.to_nat (Z.min (Z.max (s - (a + 1)) 0) (zlen r)))) by lia.
    reflexivity.
Qed.

(* ------------------------------------------------------------------ *)
(** * One write that runs alone, any sync policy *)

(** the part of a write after the WAL: memtable put, maybe flush (+ WAL
    truncation), maybe compaction *)
Lemma tail_alone c p bl nows fuel st w2 k v d' :
  quiet st -> seq_sorted (w_entries w2) (w_next w2) ->
  (let '(d1, r1) := mem_put c bl (mkD st w2) k v in d_finish fuel c p bl nows d1 r1) = Some d' ->
  quiet (d_lsm d') /\ abs (d_lsm d') = write c (abs st) k v /\
  w_next (d_wal d') = w_next w2 /\ w_synced (d_wal d') = w_synced w2 /\
  ((zlen (sset k v (c_mem st)) >=? thr c) = false /\
     d_lsm d' = mkC (sset k v (c_mem st)) (c_mid st) (c_imm st) (c_levels st) (c_ncomp st) (c_nflush st) (c_next st) /\
     w_entries (d_wal d') = w_entries w2
   \/
   (zlen (sset k v (c_mem st)) >=? thr c) = true /\ c_mem (d_lsm d') = [] /\ w_entries (d_wal d') = []).
Proof.
  intros Q Hs2 H. unfold mem_put in H. cbn [d_lsm] in H.
  set (o := match v with Val x => Put k x | Tomb => Del k end) in H.
  set (st1 := mkC (sset k v (c_mem st)) (c_mid st) (c_imm st) (c_levels st) (c_ncomp st) (c_nflush st) (c_next st)).
  assert (seg c bl st (AStart o) = (st1, RYield MEM_NS (KPutWait (c_mid st)))) as E1 by (unfold o; destruct v; reflexivity).
  rewrite E1 in H. cbn [lift d_wal] in H.
  assert (exists r, run_alone (S fuel) c bl st (AStart o) = Some (d_lsm d', r)) as [r Hr].
  { destruct (d_finish_lift c p bl nows fuel st1 w2 (RYield MEM_NS (KPutWait (c_mid st))) d' H) as [r Hr].
    exists r. rewrite run_alone_finish, E1. exact Hr. }
  destruct (write_alone c bl st k v (S fuel) (d_lsm d') r o E1 Q Hr) as (_ & A & Q').
  split; [exact Q'|]. split; [exact A|].
  destruct fuel as [|fuel]; [discriminate|]. cbn [d_finish d_resume lift seg d_lsm d_wal] in H.
  cbn [c_mid st1] in H. rewrite Z.eqb_refl in H. change (c_mem st1) with (sset k v (c_mem st)) in H.
  destruct (zlen (sset k v (c_mem st)) >=? thr c) eqn:Ef.
  - unfold flush_begin in H. change (c_mem st1) with (sset k v (c_mem st)) in H.
    destruct (sset k v (c_mem st)) as [|pp mm] eqn:Em; [exfalso; eapply sset_nonempty; eauto|]. rewrite <- Em in *.
    cbn [lift d_lsm d_wal] in H.
    destruct fuel as [|fuel]; [discriminate|]. cbn [d_finish d_resume lift seg d_lsm d_wal] in H.
    unfold flush_end in H.
    destruct (compact_begin c _) as [st4 r4] eqn:Ec. cbn [lift d_lsm d_wal] in H.
    destruct (compact_begin_shape _ _ _ _ Ec) as [M4 Shape]. cbn [c_mem] in M4.
    set (w3 := wal_truncate w2 (w_next w2 - 1)) in H.
    assert (w_entries w3 = []) as E3 by (apply truncate_all; assumption).
    assert (forall dd, (dd = mkD st4 w3 \/ exists s t a b m, dd = mkD (compact_end st4 s t a b m) w3) ->
            w_next (d_wal dd) = w_next w2 /\ w_synced (d_wal dd) = w_synced w2 /\
            (false = false /\ False \/ true = true /\ c_mem (d_lsm dd) = [] /\ w_entries (d_wal dd) = [])) as Fin.
    { intros dd [->|(s & t & a & b & m & ->)]; cbn [d_lsm d_wal compact_end c_mem]; rewrite E3, ?M4;
        (split; [reflexivity|split; [reflexivity|right; auto]]). }
    assert (forall dd, (dd = mkD st4 w3 \/ exists s t a b m, dd = mkD (compact_end st4 s t a b m) w3) ->
            w_next (d_wal dd) = w_next w2 /\ w_synced (d_wal dd) = w_synced w2 /\
            (true = false /\ d_lsm dd = st1 /\ w_entries (d_wal dd) = w_entries w2 \/
             true = true /\ c_mem (d_lsm dd) = [] /\ w_entries (d_wal dd) = [])) as Fin'.
    { intros dd Hdd. destruct (Fin dd Hdd) as (A1 & A2 & [[_ []]|A3]). split; [assumption|split; [assumption|right; assumption]]. }
    destruct r4 as [ns kk|x]; cbn [d_finish] in H.
    + destruct fuel as [|fuel]; [discriminate|].
      destruct Shape as [Sh|(ns' & s & t & a & b & m & Sh)]; [discriminate|]. inversion Sh; subst ns' kk.
      cbn [d_resume lift seg d_lsm d_wal d_finish] in H. rewrite d_finish_done in H. inversion H; subst d'.
      apply Fin'. right. exists s, t, a, b, m. reflexivity.
    + rewrite d_finish_done in H. inversion H; subst d'. apply Fin'. left. reflexivity.
  - cbn [lift] in H. rewrite d_finish_done in H. inversion H; subst d'. cbn [d_lsm d_wal].
    split; [reflexivity|split; [reflexivity|left; auto]].
Qed.

Lemma write_alone_any c p bl nows fuel st w k v d' :
  quiet st -> seq_sorted (w_entries w) (w_next w) ->
  d_write_alone fuel c p bl nows (mkD st w) k v = Some d' ->
  quiet (d_lsm d') /\ abs (d_lsm d') = write c (abs st) k v /\
  w_next (d_wal d') = w_next w + 1 /\
  (w_synced (d_wal d') = w_synced w \/ w_synced (d_wal d') = w_next w) /\
  ((zlen (sset k v (c_mem st)) >=? thr c) = false /\
     d_lsm d' = mkC (sset k v (c_mem st)) (c_mid st) (c_imm st) (c_levels st) (c_ncomp st) (c_nflush st) (c_next st) /\
     w_entries (d_wal d') = w_entries w ++ [(w_next w, k, v)]
   \/
   (zlen (sset k v (c_mem st)) >=? thr c) = true /\ c_mem (d_lsm d') = [] /\ w_entries (d_wal d') = []).
Proof.
  intros Q Hs H. unfold d_write_alone, d_start in H. cbn [d_lsm d_wal] in H.
  set (w1 := mkWal (w_entries w ++ [(w_next w, k, v)]) (w_next w + 1) (w_synced w) (w_since w + 1) (w_last_sync w)) in H.
  assert (seq_sorted (w_entries w1) (w_next w1)) as Hs1 by (cbn; apply seq_sorted_app; [assumption|reflexivity]).
  destruct fuel as [|fuel]; [discriminate|]. cbn [d_finish d_resume d_wal] in H.
  destruct (should_sync p (w_since w1) (nows fuel - w_last_sync w1)).
  - destruct fuel as [|fuel]; [discriminate|]. cbn [d_finish d_resume d_wal d_lsm] in H.
    set (w2 := mkWal (w_entries w1) (w_next w1) (w_next w) 0 (nows fuel)) in H.
    destruct (tail_alone c p bl nows fuel st w2 k v d' Q Hs1 H) as (A & B & C & D & E).
    split; [exact A|split; [exact B|split; [exact C|split; [right; exact D|exact E]]]].
  - destruct (tail_alone c p bl nows fuel st w1 k v d' Q Hs1 H) as (A & B & C & D & E).
    split; [exact A|split; [exact B|split; [exact C|split; [left; exact D|exact E]]]].
Qed.

(* ------------------------------------------------------------------ *)
(** * The invariant of quiet states and the prefix theorem *)

(** writes that do not fill the memtable only touch the memtable *)
Lemma no_flush_run c : forall es st,
  (forall i, (1 <= i <= length es)%nat -> zlen (replay (mem st) (firstn i es)) < thr c) ->
  fold_left (apply c) (map to_op (map ekv es)) st =
    {| mem := replay (mem st) es; levels := levels st; ncomp := ncomp st; nflush := nflush st |}.
Proof.
  induction es as [|e r IH]; intros st H.
  - cbn. destruct st; reflexivity.
  - cbn [map fold_left]. rewrite apply_to_op. cbn [ekv fst snd].
    assert (zlen (sset (e_key e) (e_val e) (mem st)) < thr c) as H1 by (apply (H 1%nat); cbn; lia).
    unfold write. cbn [mem]. assert (zlen (sset (e_key e) (e_val e) (mem st)) >=? thr c = false) as -> by lia.
    rewrite IH.
    + cbn [mem levels ncomp nflush replay fold_left]. reflexivity.
    + intros i Hi. cbn [mem]. apply (H (S i)). cbn [length]. lia.
Qed.

Definition rinv (c : cfg) (d : dstate) (pre : list (Z * sval)) : Prop :=
  let es := w_entries (d_wal d) in
  quiet (d_lsm d) /\
  c_mem (d_lsm d) = replay [] es /\
  consecutive (zlen pre) es /\
  w_next (d_wal d) = zlen pre + zlen es + 1 /\
  w_synced (d_wal d) < w_next (d_wal d) /\
  (forall i, (1 <= i <= length es)%nat -> zlen (replay [] (firstn i es)) < thr c) /\
  abs (d_lsm d) = run c (map to_op (pre ++ map ekv es)) /\
  mem (run c (map to_op pre)) = [] /\
  levels (run c (map to_op pre)) = levels (abs (d_lsm d)).

Lemma zlen_app {A} (a b : list A) : zlen (a ++ b) = zlen a + zlen b.
Proof. unfold zlen. rewrite app_length. lia. Qed.

Lemma rinv_init c : (nlev c >= 1)%nat -> rinv c (d_init c) [].
Proof.
  intros H. unfold rinv. cbn [d_init d_lsm d_wal wal_init w_entries w_next w_synced].
  split; [apply init_quiet; assumption|]. split; [reflexivity|]. split; [exact I|].
  split; [reflexivity|]. split; [lia|]. split; [intros i Hi; cbn in Hi; lia|].
  cbn [app map]. split; [rewrite abs_init; reflexivity|]. split; [reflexivity|].
  rewrite abs_init. reflexivity.
Qed.

Lemma rinv_step c p bl nows fuel d pre k v d' :
  rinv c d pre -> d_write_alone fuel c p bl nows d k v = Some d' ->
  exists pre', rinv c d' pre' /\
    pre' ++ map ekv (w_entries (d_wal d')) = (pre ++ map ekv (w_entries (d_wal d))) ++ [(k, v)].
Proof.
  intros (Q & Hm & Hc & Hn & Hy & Hf & Ha & Bm & Bl) H. destruct d as [st w]. cbn [d_lsm d_wal] in *.
  pose proof (consecutive_sorted _ _ Hc) as Hs. rewrite <- Hn in Hs.
  destruct (write_alone_any c p bl nows fuel st w k v d' Q Hs H) as (Q' & A' & N' & Y' & [(Ef & Est & Ees)|(Ef & Em' & Ees)]).
  - (* no flush *)
    exists pre. set (e := (w_next w, k, v)) in *.
    assert (abs (d_lsm d') = run c (map to_op (pre ++ map ekv (w_entries w ++ [e])))) as Ha'.
    { rewrite A', Ha. unfold run. rewrite !map_app, !fold_left_app. cbn [map fold_left].
      rewrite apply_to_op. reflexivity. }
    split.
    + unfold rinv. rewrite Ees. split; [exact Q'|]. split.
      { rewrite Est. cbn [c_mem]. rewrite replay_snoc, <- Hm. reflexivity. }
      split; [apply consecutive_app; [assumption|cbn; lia]|].
      split; [rewrite N', zlen_app; unfold zlen at 3; cbn; lia|].
      split; [destruct Y' as [->| ->]; lia|].
      split.
      { intros i Hi. rewrite app_length in Hi. cbn [length] in Hi.
        destruct (Nat.eq_dec i (length (w_entries w) + 1)) as [->|Hne].
        - replace (length (w_entries w) + 1)%nat with (length (w_entries w ++ [e])) by (rewrite app_length; reflexivity).
          rewrite firstn_all, replay_snoc, <- Hm. cbn [e e_key e_val fst snd]. lia.
        - rewrite firstn_app. replace (i - length (w_entries w))%nat with O by lia. cbn [firstn]. rewrite app_nil_r.
          apply Hf. lia. }
      split; [exact Ha'|]. split; [exact Bm|].
      rewrite Bl, Est. reflexivity.
    + rewrite Ees, map_app, app_assoc. reflexivity.
  - (* flush: everything logged so far is now in SSTables *)
    set (e := (w_next w, k, v)) in *.
    exists (pre ++ map ekv (w_entries w ++ [e])).
    assert (abs (d_lsm d') = run c (map to_op (pre ++ map ekv (w_entries w ++ [e])))) as Ha'.
    { rewrite A', Ha. unfold run. rewrite !map_app, !fold_left_app. cbn [map fold_left].
      rewrite apply_to_op. reflexivity. }
    split.
    + unfold rinv. rewrite Ees. cbn [map]. rewrite app_nil_r.
      split; [exact Q'|]. split; [rewrite Em'; reflexivity|]. split; [exact I|].
      split; [rewrite N', !zlen_app, Hn; unfold zlen; rewrite !map_length, app_length; cbn; lia|].
      split; [destruct Y' as [->| ->]; lia|].
      split; [intros i Hi; cbn in Hi; lia|].
      split; [exact Ha'|]. rewrite <- Ha'. split; [cbn; exact Em'|reflexivity].
    + rewrite Ees. cbn [map]. rewrite app_nil_r, map_app, app_assoc. reflexivity.
Qed.

Lemma rinv_seq c p bl nows fuel : forall ws d pre d',
  rinv c d pre -> d_seq_exec fuel c p bl nows d ws = Some d' ->
  exists pre', rinv c d' pre' /\
    pre' ++ map ekv (w_entries (d_wal d')) = (pre ++ map ekv (w_entries (d_wal d))) ++ ws.
Proof.
  induction ws as [|[k v] r IH]; intros d pre d' R H; cbn [d_seq_exec] in H.
  - inversion H; subst. exists pre. split; [assumption|now rewrite app_nil_r].
  - destruct (d_write_alone fuel c p bl nows d k v) as [d1|] eqn:E; [|discriminate].
    destruct (rinv_step c p bl nows fuel d pre k v d1 R E) as (pre1 & R1 & E1).
    destruct (IH d1 pre1 d' R1 H) as (pre' & R' & E'). exists pre'. split; [assumption|].
    rewrite E', E1, <- app_assoc. reflexivity.
Qed.

Lemma in_firstn {A} (x : A) : forall l i, In x (firstn i l) -> In x l.
Proof.
  induction l as [|y r IH]; intros i H; [destruct i; destruct H|].
  destruct i; [destruct H|]. cbn [firstn] in H. destruct H as [<-|H]; [left; reflexivity|right; eapply IH; eassumption].
Qed.

Lemma seq_sorted_firstn b : forall es i, seq_sorted es b -> seq_sorted (firstn i es) b.
Proof.
  induction es as [|e r IH]; intros i H; [destruct i; exact I|]. destruct i; [exact I|].
  cbn [firstn seq_sorted] in *. destruct H as (A & B & C). split; [assumption|]. split; [|apply IH; assumption].
  intros x Hx. apply B. eapply in_firstn; eassumption.
Qed.

Lemma lsm_get_ext bl a b k : mem a = mem b -> levels a = levels b -> lsm_get bl a k = lsm_get bl b k.
Proof. intros H1 H2. unfold lsm_get, raw_get. now rewrite H1, H2. Qed.

(** Crash at rest, ANY sync policy, any clock: the recovered tree is exactly
    the tree after the first [j] writes of the workload, where [j] covers every
    write whose sequence number is <= synced_up_to.  Hence every synced write
    is readable with its latest durable value (later unsynced writes are either
    all present up to j or absent), nothing overwritten or deleted within the
    prefix is resurrected, nothing unwritten appears. *)
Theorem durable_at_rest_prefix : forall bl, (forall ks x, In x ks -> bl ks x = true) ->
  forall c p fuel nows ws d', (nlev c >= 1)%nat ->
  d_seq_exec fuel c p bl nows (d_init c) ws = Some d' ->
  exists j : nat, w_synced (d_wal d') <= Z.of_nat j /\ (j <= length ws)%nat /\
    forall k, d_get bl (d_recover (d_crash d')) k = spec_of (firstn j (map to_op ws)) k.
Proof.
  intros bl Hb c p fuel nows ws d' Hn H.
  destruct (rinv_seq c p bl nows fuel ws (d_init c) [] d' (rinv_init c Hn) H) as (pre & R & Ews).
  cbn [d_init d_wal wal_init w_entries map app] in Ews.
  destruct R as (Q & Hm & Hc & Hnx & Hy & Hf & Ha & Bm & Bl).
  set (es := w_entries (d_wal d')) in *.
  set (i := Z.to_nat (Z.min (Z.max (w_synced (d_wal d') - zlen pre) 0) (zlen es))).
  exists (length pre + i)%nat.
  pose proof (zlen_nonneg es) as Pes. pose proof (zlen_nonneg pre) as Ppre.
  assert (i <= length es)%nat as Hi by (unfold i, zlen in *; lia).
  split; [unfold i, zlen in *; lia|]. split.
  { rewrite <- Ews, app_length, map_length. lia. }
  intros k.
  (* the run of the prefix *)
  assert (run c (map to_op (pre ++ map ekv (firstn i es))) =
          {| mem := replay [] (firstn i es); levels := levels (abs (d_lsm d'));
             ncomp := ncomp (run c (map to_op pre)); nflush := nflush (run c (map to_op pre)) |}) as Hrun.
  { unfold run. rewrite map_app, fold_left_app. fold (run c (map to_op pre)).
    rewrite no_flush_run.
    - rewrite Bm, Bl. reflexivity.
    - intros i0 Hi0. rewrite Bm. rewrite firstn_length in Hi0. rewrite firstn_firstn.
      replace (Nat.min i0 i) with i0 by lia. apply Hf. lia. }
  assert (firstn (length pre + i) (map to_op ws) = map to_op (pre ++ map ekv (firstn i es))) as Hfn.
  { rewrite <- Ews, !map_app.
    rewrite <- (map_length to_op pre) at 1. rewrite firstn_app_2. f_equal. rewrite <- !firstn_map. reflexivity. }
  rewrite Hfn. rewrite <- (lsm_get_refines_map bl Hb c _ k Hn). rewrite Hrun.
  (* the recovered state *)
  unfold d_get, d_recover, d_crash, lsm_get, raw_get.
  cbn [d_lsm d_wal c_mem c_imm c_levels imm_get mem levels abs wal_crash w_entries].
  fold es. rewrite (synced_prefix es (zlen pre) (w_synced (d_wal d')) Hc). fold i.
  assert (seq_sorted (firstn i es) (w_next (d_wal d'))) as Hsf.
  { apply seq_sorted_firstn. pose proof (consecutive_sorted _ _ Hc) as S. rewrite <- Hnx in S. exact S. }
  rewrite (sort_seq_sorted _ _ Hsf). reflexivity.
Qed.
