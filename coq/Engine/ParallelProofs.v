(** ParallelProofs — the windowed coordinator never lets a cross-partition event
    fall into the past of its destination: partitions stay inside their window,
    everything exchanged at a barrier is stamped at or after the window end, so
    it is scheduled at or after the destination's clock; and only events that
    were scheduled into the past are ever discarded as "time travel".
    Generic in the handler semantics. *)
From HS Require Import Base.Prelude Engine.Engine Engine.Parallel.
From Coq Require Import Sorting.Sorted.
Local Open Scope Z_scope.

Section PP.
  Variables P U : Type.
  Variable invoke : U -> Z -> @ev P -> Z -> option (@inv_result P U).
  Variable part_of : @ev P -> Z.
  Variable link : Z -> Z -> option Z.
  Notation ev := (@ev P).
  Notation st := (@st P U).
  Notation pstate := (@pstate P U).
  Notation wout := (@wout P U).
  Notation wstep := (wstep invoke part_of link).
  Notation witerate := (witerate invoke part_of link).

  Definition tle (a b : ev) : Prop := ev_time a <= ev_time b.

  (** The weak engine invariant (sort indices may collide across partitions, so
      events are not identified): the heap is ordered by time; an event that is
      in the past while it waits has a record of having been scheduled into the
      past; likewise every event discarded as past. *)
  Record WInv (s : st) : Prop := {
    w_sorted : StronglySorted tle (heap s);
    w_pastheap : forall x, In x (heap s) -> ev_time x < clock s ->
                 exists at_, In (x, at_) (pushed s) /\ ev_time x < at_;
    w_past : forall e c, In (e, c, SkippedPast) (log s) -> exists at_, In (e, at_) (pushed s) /\ ev_time e < at_;
  }.

  Lemma ev_ltb_time (a b : ev) : ev_ltb a b = true -> ev_time a <= ev_time b.
  Proof. unfold ev_ltb. destruct (ev_time a =? ev_time b) eqn:E; lia. Qed.
  Lemma ev_ltb_false_time (a b : ev) : ev_ltb a b = false -> ev_time b <= ev_time a.
  Proof. unfold ev_ltb. destruct (ev_time a =? ev_time b) eqn:E; lia. Qed.

  Lemma insert_In' (e : ev) h x : In x (insert e h) <-> e = x \/ In x h.
  Proof.
    induction h as [|y r IH]; cbn; [tauto|]. destruct (ev_ltb e y); cbn; [tauto|]. rewrite IH. tauto.
  Qed.
  Lemma insert_all_In' (es : list ev) h x : In x (insert_all es h) <-> In x es \/ In x h.
  Proof.
    unfold insert_all. revert h; induction es as [|e r IH]; intros h; cbn; [tauto|]. rewrite IH, insert_In'. tauto.
  Qed.

  Lemma insert_tsorted (e : ev) h : StronglySorted tle h -> StronglySorted tle (insert e h).
  Proof.
    induction 1 as [|y r Hs IH Hall]; cbn; [constructor; constructor|].
    destruct (ev_ltb e y) eqn:E.
    - constructor; [constructor; assumption|]. constructor; [apply ev_ltb_time; exact E|].
      rewrite Forall_forall in *. intros x Hx. specialize (Hall x Hx). apply ev_ltb_time in E. unfold tle in *. lia.
    - constructor; [exact IH|]. rewrite Forall_forall in *. intros x Hx.
      apply insert_In' in Hx as [<-|Hx]; [apply ev_ltb_false_time; exact E|auto].
  Qed.
  Lemma insert_all_tsorted (es : list ev) h : StronglySorted tle h -> StronglySorted tle (insert_all es h).
  Proof.
    unfold insert_all. revert h; induction es as [|e r IH]; intros h Hs; cbn; [exact Hs|]. apply IH, insert_tsorted, Hs.
  Qed.

  Lemma in_pushed_push_all (s : st) es x a :
    In (x, a) (pushed (push_all s es)) <-> (In x es /\ a = clock s) \/ In (x, a) (pushed s).
  Proof.
    unfold push_all; cbn. rewrite in_app_iff, <- in_rev, in_map_iff. split.
    - intros [[y [E Hy]]|H]; [inversion E; subst; left; auto|right; exact H].
    - intros [[Hx ->]|H]; [left; exists x; auto|right; exact H].
  Qed.

  Lemma push_all_winv (s : st) es : WInv s -> WInv (push_all s es).
  Proof.
    intros W. constructor.
    - unfold push_all; cbn. apply insert_all_tsorted, (w_sorted _ W).
    - intros x Hx Hlt. change (clock (push_all s es)) with (clock s) in Hlt.
      unfold push_all in Hx; cbn in Hx. apply insert_all_In' in Hx as [Hx|Hx].
      + exists (clock s). split; [apply in_pushed_push_all; left; auto|exact Hlt].
      + destruct (w_pastheap _ W x Hx Hlt) as [a [Ha Hl]]. exists a. split; [apply in_pushed_push_all; right; exact Ha|exact Hl].
    - intros e c Hin. change (log (push_all s es)) with (log s) in Hin.
      destruct (w_past _ W e c Hin) as [a [Ha Hl]]. exists a. split; [apply in_pushed_push_all; right; exact Ha|exact Hl].
  Qed.

  Lemma head_time_min (s : st) e h : StronglySorted tle (heap s) -> heap s = e :: h ->
    forall x, In x h -> ev_time e <= ev_time x.
  Proof.
    intros Hs Hh x Hx. rewrite Hh in Hs. inversion Hs as [|? ? _ Hall]; subst.
    rewrite Forall_forall in Hall. apply Hall, Hx.
  Qed.

  Lemma tail_sorted (s : st) e h : StronglySorted tle (heap s) -> heap s = e :: h -> StronglySorted tle h.
  Proof. intros Hs Hh. rewrite Hh in Hs. inversion Hs; assumption. Qed.

  Definition wstate (o : wout) : pstate := match o with WRunning p | WStopped p | WRaised p => p end.

  (** The per-partition window invariant, between two consecutive window ends
      [wprev <= wend]: the clock stays inside the window; every waiting event is
      stamped at or after the previous window end, or is a past event; every
      outbox entry was sent at or after the previous window end. *)
  Record PInv (wprev wend : Z) (p : pstate) : Prop := {
    p_winv : WInv (ps_st p);
    p_clock : clock (ps_st p) <= wend;
    p_heap : forall x, In x (heap (ps_st p)) -> wprev <= ev_time x \/ ev_time x < clock (ps_st p);
    p_out : forall x sent, In (x, sent) (ps_out p) -> wprev <= sent;
    p_recv : forall x at_, In (x, at_) (ps_recv p) -> at_ <= ev_time x /\ In (x, at_) (pushed (ps_st p));
  }.

  Lemma wstep_pinv me wprev wend p : wprev <= wend -> PInv wprev wend p -> PInv wprev wend (wstate (wstep me wend p)).
  Proof.
    intros Hw I. destruct I as [W Hc Hh Ho Hr]. unfold Parallel.wstep.
    destruct (heap (ps_st p)) as [|e h] eqn:Hhp; [cbn [wstate]; constructor; auto; rewrite Hhp; exact Hh|].
    destruct (negb (clock (ps_st p) <=? wend)); [cbn [wstate]; constructor; auto; rewrite Hhp; exact Hh|].
    destruct (wend <? ev_time e) eqn:Eb; [cbn [wstate]; constructor; auto; rewrite Hhp; exact Hh|].
    assert (Hs' : StronglySorted tle h) by (eapply tail_sorted; [apply (w_sorted _ W)|exact Hhp]).
    assert (Hmin : forall x, In x h -> ev_time e <= ev_time x) by (eapply head_time_min; [apply (w_sorted _ W)|exact Hhp]).
    assert (Hsub : forall x, In x h -> In x (heap (ps_st p))) by (intros x Hx; rewrite Hhp; right; exact Hx).
    destruct (is_cancelled (ps_st p) e); [|destruct (ev_time e <? clock (ps_st p)) eqn:Ep].
    - (* skipped: cancelled *)
      cbn [wstate]. constructor; cbn [ps_st ps_out ps_recv clock heap pushed log].
      + constructor; cbn; [exact Hs'| |].
        * intros x Hx Hlt. apply (w_pastheap _ W x (Hsub x Hx) Hlt).
        * intros e0 c [E|Hin]; [inversion E|apply (w_past _ W e0 c Hin)].
      + exact Hc.
      + intros x Hx. apply Hh. right; exact Hx.
      + exact Ho.
      + exact Hr.
    - (* skipped: past *)
      cbn [wstate]. constructor; cbn [ps_st ps_out ps_recv clock heap pushed log].
      + constructor; cbn; [exact Hs'| |].
        * intros x Hx Hlt. apply (w_pastheap _ W x (Hsub x Hx) Hlt).
        * intros e0 c [E|Hin]; [|apply (w_past _ W e0 c Hin)].
          inversion E; subst. apply (w_pastheap _ W e0); [rewrite Hhp; left; reflexivity|lia].
      + exact Hc.
      + intros x Hx. apply Hh. right; exact Hx.
      + exact Ho.
      + exact Hr.
    - (* delivered *)
      assert (Hnow : wprev <= ev_time e).
      { destruct (Hh e) as [L|L]; [left; reflexivity|exact L|lia]. }
      destruct (invoke (user (ps_st p)) (ev_time e) e (ctr (ps_st p))) as [r|] eqn:Er.
      + set (s1 := mkSt (ev_time e) h _ (r_ctr r) _ (r_user r) _ _ _ (pushed (ps_st p))).
        assert (W1 : WInv s1).
        { constructor; cbn; [exact Hs'| |].
          - intros x Hx Hlt. specialize (Hmin x Hx). lia.
          - intros e0 c [E|Hin]; [inversion E|apply (w_past _ W e0 c Hin)]. }
        destruct (forallb _ (r_new r)); cbn [wstate].
        * constructor; cbn [ps_st ps_out ps_recv].
          -- apply push_all_winv. exact W1.
          -- cbn. lia.
          -- intros x Hx. change (clock (push_all s1 _)) with (ev_time e).
             unfold push_all in Hx; cbn in Hx. apply insert_all_In' in Hx as [Hx|Hx].
             ++ destruct (Z_lt_le_dec (ev_time x) (ev_time e)); [right; assumption|left; lia].
             ++ specialize (Hmin x Hx). left; lia.
          -- intros x sent Hin. apply in_app_or in Hin as [Hin|Hin]; [eapply Ho; eauto|].
             apply in_map_iff in Hin as [y [E _]]. inversion E; subst. exact Hnow.
          -- intros x a Hin. destruct (Hr x a Hin) as [H1 H2]. split; [exact H1|].
             apply in_pushed_push_all. right. exact H2.
        * constructor; cbn [ps_st ps_out ps_recv]; auto.
          -- cbn. lia.
          -- intros x Hx. cbn in Hx. specialize (Hmin x Hx). left. cbn. lia.
      + cbn [wstate]. constructor; cbn [ps_st ps_out ps_recv]; auto.
        * constructor; cbn; [exact Hs'| |].
          -- intros x Hx Hlt. specialize (Hmin x Hx). lia.
          -- intros e0 c [E|Hin]; [inversion E|apply (w_past _ W e0 c Hin)].
        * cbn. lia.
        * intros x Hx. cbn in Hx. specialize (Hmin x Hx). left. cbn. lia.
  Qed.

  Lemma witerate_pinv fuel me wprev wend : forall p, wprev <= wend -> PInv wprev wend p ->
    PInv wprev wend (wstate (witerate fuel me wend p)).
  Proof.
    induction fuel as [|f IH]; intros p Hw I; cbn; [exact I|].
    pose proof (wstep_pinv me wprev wend p Hw I) as H1.
    destruct (wstep me wend p) as [p1|p1|p1]; cbn in *; auto.
  Qed.

  (** When a window ends normally, nothing at or before the window end waits. *)
  Lemma wstep_stopped me wend p p' : wstep me wend p = WStopped p' ->
    p' = p /\ (heap (ps_st p) = [] \/ wend < clock (ps_st p) \/
               exists e h, heap (ps_st p) = e :: h /\ wend < ev_time e).
  Proof.
    unfold Parallel.wstep. destruct (heap (ps_st p)) as [|e h] eqn:Hh; [intros H; inversion H; auto|].
    destruct (negb (clock (ps_st p) <=? wend)) eqn:E1; [intros H; inversion H; subst; split; auto; right; left; lia|].
    destruct (wend <? ev_time e) eqn:E2.
    - intros H; inversion H; subst. split; auto. right; right. exists e, h. split; [reflexivity|lia].
    - destruct (is_cancelled _ _); [discriminate|]. destruct (ev_time e <? _); [discriminate|].
      destruct (invoke _ _ _ _); [|discriminate]. destruct (forallb _ _); discriminate.
  Qed.

  Lemma witerate_stopped fuel me wend : forall p p', witerate fuel me wend p = WStopped p' ->
    wstep me wend p' = WStopped p'.
  Proof.
    induction fuel as [|f IH]; intros p p'; cbn; [discriminate|].
    destruct (wstep me wend p) as [p1|p1|p1] eqn:E; [apply IH| |discriminate].
    intros H; inversion H; subst. destruct (wstep_stopped _ _ _ _ E) as [-> _]. exact E.
  Qed.

  Lemma reseed_pinv wprev wend p : PInv wprev wend p ->
    PInv wprev wend (mkPS (reseed (ps_st p)) (ps_out p) (ps_recv p)).
  Proof.
    intros [W Hc Hh Ho Hr]. unfold reseed. destruct (ctr (ps_st p) <=? _); [|constructor; auto].
    constructor; cbn; auto. destruct W as [W1 W2 W3]. constructor; cbn; auto.
  Qed.

  (** After its window, a partition is ready for the barrier: clock within the
      window, every waiting event strictly after the window end. *)
  Definition Ready (wend : Z) (p : pstate) : Prop :=
    WInv (ps_st p) /\ clock (ps_st p) <= wend /\
    (forall x, In x (heap (ps_st p)) -> wend <= ev_time x) /\
    (forall x at_, In (x, at_) (ps_recv p) -> at_ <= ev_time x /\ In (x, at_) (pushed (ps_st p))).

  Lemma run_window_ready fuel me wprev wend p p' : wprev <= wend -> PInv wprev wend p ->
    run_window invoke part_of link fuel me wend p = WStopped p' ->
    Ready wend p' /\ (forall x sent, In (x, sent) (ps_out p') -> wprev <= sent).
  Proof.
    intros Hw I Hrun. unfold run_window in Hrun.
    pose proof (witerate_pinv fuel me wprev wend _ Hw (reseed_pinv _ _ _ I)) as I'.
    rewrite Hrun in I'. cbn in I'. destruct I' as [W Hc Hh Ho Hr].
    apply witerate_stopped in Hrun. apply wstep_stopped in Hrun as [_ Hst].
    split; [|exact Ho]. split; [exact W|]. split; [exact Hc|]. split; [|exact Hr].
    intros x Hx. destruct Hst as [E|[L|[e [h [E L]]]]].
    - rewrite E in Hx. contradiction.
    - lia.
    - pose proof (w_sorted _ W) as Hs. rewrite E in Hs, Hx. inversion Hs as [|? ? _ Hall]; subst.
      rewrite Forall_forall in Hall. destruct Hx as [<-|Hx]; [lia|]. specialize (Hall x Hx). unfold tle in Hall. lia.
  Qed.

  (** Barrier: an event stamped at or after the window end may be scheduled
      into any ready partition. *)
  Lemma ready_receive wend d e : Ready wend d -> wend <= ev_time e ->
    Ready wend (mkPS (push_all (ps_st d) [e]) (ps_out d) ((e, clock (ps_st d)) :: ps_recv d)).
  Proof.
    intros (W & Hc & Hh & Hr) He. split; [apply push_all_winv; exact W|]. split; [exact Hc|]. split; cbn [ps_st ps_recv].
    - intros x Hx. unfold push_all in Hx; cbn in Hx. apply insert_In' in Hx as [<-|Hx]; auto.
    - intros x a [E|Hin].
      + inversion E; subst. split; [lia|]. apply in_pushed_push_all. left. split; [left; reflexivity|reflexivity].
      + destruct (Hr x a Hin) as [H1 H2]. split; [exact H1|]. apply in_pushed_push_all. right. exact H2.
  Qed.

  Lemma upd_nth_Forall {A} (Q : A -> Prop) f n (l : list A) :
    Forall Q l -> (forall x, Q x -> Q (f x)) -> Forall Q (upd_nth n f l).
  Proof.
    intros Hl Hf. revert n; induction Hl as [|x l Hx Hl' IH]; intros n; destruct n; cbn; constructor; auto.
  Qed.

  (** The hypothesis on the window sequence: the window is no longer than the
      minimum latency of any link ([window_size <= min_latency], in ns). *)
  Definition links_cover (gap : Z) : Prop := forall a b l, link a b = Some l -> gap <= l.

  Lemma deliver_one_ready wprev wend src ps ps' x :
    links_cover (wend - wprev) -> Forall (Ready wend) ps -> wprev <= snd x ->
    deliver_one part_of link src (Some ps) x = Some ps' -> Forall (Ready wend) ps'.
  Proof.
    intros Hl Hps Hsent. destruct x as [e sent]. cbn in *.
    destruct (link src (part_of e)) as [lmin|] eqn:El; [|discriminate].
    destruct (ev_time e - sent <? lmin) eqn:Ev; [discriminate|]. intros H; inversion H; subst.
    specialize (Hl _ _ _ El).
    apply upd_nth_Forall; [exact Hps|]. intros d Hd. apply ready_receive; [exact Hd|lia].
  Qed.

  Lemma fold_deliver_ready wprev wend src : forall out ps ps',
    links_cover (wend - wprev) -> Forall (Ready wend) ps ->
    (forall x sent, In (x, sent) out -> wprev <= sent) ->
    fold_left (deliver_one part_of link src) out (Some ps) = Some ps' -> Forall (Ready wend) ps'.
  Proof.
    induction out as [|x out IH]; intros ps ps' Hl Hps Hout H; cbn [fold_left] in H; [inversion H; subst; exact Hps|].
    destruct (deliver_one part_of link src (Some ps) x) as [ps1|] eqn:E.
    - eapply IH; [exact Hl| |intros y s Hy; apply (Hout y s); right; exact Hy|exact H].
      eapply deliver_one_ready; [exact Hl|exact Hps| |exact E]. destruct x as [y s]. apply (Hout y s). left; reflexivity.
    - exfalso. clear -H. induction out as [|y out IH]; cbn [fold_left] in H; [discriminate|]. cbn [deliver_one] in H. auto.
  Qed.

  Lemma exchange_from_ready wprev wend : forall todo i ps ps',
    links_cover (wend - wprev) -> Forall (Ready wend) ps ->
    Forall (fun p => forall x sent, In (x, sent) (ps_out p) -> wprev <= sent) todo ->
    exchange_from part_of link i todo (Some ps) = Some ps' -> Forall (Ready wend) ps'.
  Proof.
    induction todo as [|p todo IH]; intros i ps ps' Hl Hps Htodo H; cbn [exchange_from] in H; [inversion H; subst; exact Hps|].
    inversion Htodo as [|? ? Hp Hrest]; subst.
    destruct (fold_left (deliver_one part_of link i) (ps_out p) (Some ps)) as [ps1|] eqn:E.
    - eapply IH; [exact Hl| |exact Hrest|exact H]. eapply fold_deliver_ready; eauto.
    - exfalso. clear -H. revert i H. induction todo as [|q todo IH]; intros i H; cbn [exchange_from] in H; [discriminate|].
      assert (Hn : fold_left (@deliver_one P U part_of link (i + 1)) (ps_out q) None = None).
      { clear. induction (ps_out q) as [|y l IHl]; cbn; auto. }
      rewrite Hn in H. eauto.
  Qed.

  Lemma ready_next wend wnext p : wend <= wnext -> Ready wend p -> PInv wend wnext (clear_out p).
  Proof.
    intros Hw (W & Hc & Hh & Hr). constructor; cbn; auto; [lia|intros x s []].
  Qed.

  (** All partitions satisfy the window invariant. *)
  Lemma run_windows_ready fuel wprev wend : forall ps i ps', wprev <= wend ->
    Forall (PInv wprev wend) ps -> run_windows invoke part_of link fuel wend i ps = Some ps' ->
    Forall (Ready wend) ps' /\ Forall (fun p => forall x sent, In (x, sent) (ps_out p) -> wprev <= sent) ps'.
  Proof.
    induction ps as [|p ps IH]; intros i ps' Hw Hall H; cbn in H; [inversion H; subst; split; constructor|].
    inversion Hall as [|? ? Hp Hrest]; subst.
    destruct (run_window invoke part_of link fuel i wend p) as [p1|p1|p1] eqn:E; try discriminate.
    destruct (run_windows invoke part_of link fuel wend (i + 1) ps) as [r|] eqn:E2; [|discriminate].
    inversion H; subst. destruct (IH _ _ Hw Hrest E2) as [I1 I2].
    destruct (run_window_ready _ _ _ _ _ _ Hw Hp E) as [R1 R2]. split; constructor; auto.
  Qed.

  (** The window sequence is acceptable from [wprev]: non-decreasing, every gap
      covered by every link's minimum latency. *)
  Fixpoint windows_ok (wprev : Z) (wends : list Z) : Prop :=
    match wends with
    | [] => True
    | w :: r => wprev <= w /\ links_cover (w - wprev) /\ windows_ok w r
    end.

  Definition Safe (p : pstate) : Prop :=
    WInv (ps_st p) /\ (forall x at_, In (x, at_) (ps_recv p) -> at_ <= ev_time x /\ In (x, at_) (pushed (ps_st p))).

  Theorem par_loop_safe fuel : forall wends wprev ps ps',
    windows_ok wprev wends -> Forall (PInv wprev (match wends with [] => wprev | w :: _ => w end)) ps ->
    par_loop invoke part_of link fuel wends ps = PFinished ps' -> Forall Safe ps'.
  Proof.
    induction wends as [|w r IH]; intros wprev ps ps' Hok Hall H; cbn in H.
    - inversion H; subst. eapply Forall_impl; [|exact Hall]. intros p I. split; [apply (p_winv _ _ _ I)|apply (p_recv _ _ _ I)].
    - destruct Hok as (Hw & Hl & Hok).
      destruct (run_windows invoke part_of link fuel w 0 ps) as [ps1|] eqn:E1; [|discriminate].
      destruct (run_windows_ready _ _ _ _ _ _ Hw Hall E1) as [R1 R2].
      unfold exchange in H.
      destruct (exchange_from part_of link 0 ps1 (Some ps1)) as [ps2|] eqn:E2; [|discriminate].
      pose proof (exchange_from_ready _ _ _ _ _ _ Hl R1 R2 E2) as R3.
      destruct (forallb _ (map clear_out ps2)).
      + inversion H; subst. rewrite Forall_forall in *. intros p Hp. apply in_map_iff in Hp as [q [<- Hq]].
        destruct (R3 q Hq) as (W & _ & _ & Hr). split; assumption.
      + eapply IH; [exact Hok| |exact H].
        rewrite Forall_forall in *. intros p Hp. apply in_map_iff in Hp as [q [<- Hq]].
        destruct r as [|w2 r2].
        * apply ready_next; [lia|apply R3; exact Hq].
        * destruct Hok as (Hw2 & _). apply ready_next; [exact Hw2|apply R3; exact Hq].
  Qed.

  (** The initial state of a partition satisfies the weak invariant. *)
  Lemma init_winv start (u : U) (pre : list ev) ctr0 : WInv (init_state start u pre ctr0).
  Proof.
    unfold init_state. constructor.
    - unfold push_all; cbn. apply insert_all_tsorted. constructor.
    - intros x Hx Hlt. unfold push_all in *; cbn in *. apply insert_all_In' in Hx as [Hx|[]].
      exists start. split; [|exact Hlt]. rewrite app_nil_r, <- in_rev. apply in_map_iff. exists x. auto.
    - intros e c [].
  Qed.

  (** Conservation at the barrier: a successful exchange schedules every outbox
      entry into exactly one partition (nothing lost, nothing duplicated). *)
  Definition total_pushed (ps : list pstate) : Z :=
    fold_right (fun p n => Z.of_nat (length (pushed (ps_st p))) + n) 0 ps.

  Lemma total_pushed_upd n (ps : list pstate) e : (n < length ps)%nat ->
    total_pushed (upd_nth n (fun d => mkPS (push_all (ps_st d) [e]) (ps_out d) ((e, clock (ps_st d)) :: ps_recv d)) ps)
    = total_pushed ps + 1.
  Proof.
    revert n; induction ps as [|p ps IH]; intros n Hn; cbn in Hn; [lia|].
    unfold total_pushed in *. destruct n as [|n]; cbn [upd_nth fold_right ps_st].
    - unfold push_all; cbn [pushed]. rewrite app_length, rev_length, map_length. cbn [length]. lia.
    - rewrite IH; [lia|lia].
  Qed.

  Lemma upd_nth_length {A} n f (l : list A) : length (upd_nth n f l) = length l.
  Proof. revert n; induction l as [|x l IH]; intros [|n]; cbn; auto. Qed.

  Lemma deliver_one_count src ps ps' x :
    (Z.to_nat (part_of (fst x)) < length ps)%nat ->
    deliver_one part_of link src (Some ps) x = Some ps' ->
    total_pushed ps' = total_pushed ps + 1 /\ length ps' = length ps.
  Proof.
    destruct x as [e sent]; cbn. intros Hn.
    destruct (link src (part_of e)); [|discriminate]. destruct (_ <? _); [discriminate|].
    intros H; inversion H; subst. split; [apply total_pushed_upd; exact Hn|apply upd_nth_length].
  Qed.
End PP.
