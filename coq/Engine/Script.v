(** Script — the handler semantics plugged into Engine.v: an interpreter of
    scripted entities mirroring [Event.invoke], [Event._start_process],
    [ProcessContinuation.invoke], [Event._run_completion_hooks] and
    core/sim_future.py ([_park], [resolve], [_resume], [_add_settle_callback],
    [_fire_callbacks], [any_of], [all_of]).

    "For all programs" in the engine theorems is "for all scripts": an entity is
    a finite map event type -> behaviour; a behaviour either returns events
    immediately or is a generator built from the three yield forms.  The Python
    side (harness/props/engine_script.py) interprets the same scripts with real
    Entities, real generators, real Events and real SimFutures inside a real
    Simulation.  No proofs in this file. *)
From HS Require Import Base.Prelude Engine.Engine.
Local Open Scope Z_scope.

(* ------------------------------------------------------------------ *)
(** * Script syntax *)

Inductive val := VNone | VInt (z : Z) | VPair (i : Z) (v : val) | VList (l : list val).

Fixpoint val_eqb (a b : val) : bool :=
  match a, b with
  | VNone, VNone => true
  | VInt x, VInt y => x =? y
  | VPair i v, VPair j w => (i =? j) && val_eqb v w
  | VList l, VList m =>
      (fix go (l m : list val) : bool :=
         match l, m with
         | [], [] => true
         | x :: l', y :: m' => val_eqb x y && go l' m'
         | _, _ => false
         end) l m
  | _, _ => false
  end.

Record emit0 := mkEmit0 { e_dt : Z; e_target : Z; e_type : Z; e_daemon : bool }.
(** [e_label >= 0]: the created event is remembered under that label (for
    [ECancel]); [e_hooks]: completion hooks, each returning events at
    [finish time + dt] when it runs. *)
Record emit := mkEmit { em : emit0; e_label : Z; e_hooks : list (list emit0) }.

Inductive eff :=
| ECancel (label : Z)              (* events[label].cancel() *)
| EResolve (f v : Z)               (* futures[f].resolve(v) *)
| ESetCrashed (ent : Z) (b : bool) (* entities[ent]._crashed = b *).

Inductive action := AEmit (e : emit) | AEff (x : eff).

Inductive fexpr := FId (f : Z) | FAny (l : list fexpr) | FAll (l : list fexpr).

Inductive gstep :=
| GYield (dt : Z) (effs : list emit)   (* yield dt  /  yield dt, [events] ; dt in ns after float conversion *)
| GWait (fe : fexpr)                   (* v = yield <future expression> *)
| GEff (x : eff).

Inductive behav := BImm (acts : list action) | BGen (steps : list gstep) (ret : list emit).
Definition entity := list (Z * behav).
Definition program := list entity.

(* ------------------------------------------------------------------ *)
(** * World state *)

Inductive kind := KPlain | KCont (pid : Z) (send : val).
Record pay := mkPay { p_type : Z; p_target : Z; p_hid : Z; p_kind : kind }.
Definition sev := @ev pay.

Inductive cb := CbAny (comp idx : Z) | CbAll (comp idx : Z).
Record fut := mkFut { f_resolved : bool; f_value : val; f_parked : option Z; f_cbs : list cb }.
Definition fut0 := mkFut false VNone None [].

Record proc := mkProc { pr_steps : list gstep; pr_ret : list emit;
                        pr_type : Z; pr_target : Z; pr_daemon : bool; pr_hid : Z }.

Inductive uentry :=
| UResume (now pid : Z) (v : val)     (* a process step starts: time, process, value sent in *)
| UHook (now hid idx : Z)             (* a completion hook runs *)
| UFinish (now pid : Z)               (* a process finishes *)
| UHandle (now target type : Z).      (* handle_event is entered (clock as the entity sees it) *)

Section Assoc.
  Context {V : Type}.
  Fixpoint aget (d : V) (k : Z) (m : list (Z * V)) : V :=
    match m with [] => d | (k', v) :: r => if k =? k' then v else aget d k r end.
  Fixpoint aset (k : Z) (v : V) (m : list (Z * V)) : list (Z * V) :=
    match m with
    | [] => [(k, v)]
    | (k', v') :: r => if k =? k' then (k, v) :: r else (k', v') :: aset k v r
    end.
  Fixpoint alookup (k : Z) (m : list (Z * V)) : option V :=
    match m with [] => None | (k', v) :: r => if k =? k' then Some v else alookup k r end.
End Assoc.

Record ustate := mkU {
  prog : program;
  procs : list (Z * proc); next_pid : Z;
  futs : list (Z * fut); next_fid : Z;
  alls : list (Z * (list val * Z));         (* all_of composite -> (results, remaining) *)
  hooks : list (Z * list (list emit0)); next_hid : Z;
  labels : list (Z * Z);                    (* label -> event identity *)
  crashed : list Z;
  ulog : list uentry;                       (* newest first *)
}.

Definition u_init (p : program) : ustate :=
  mkU p [] 0 [] 1000000 [] [] 0 [] [] [].

(** Interpreter context while one event is being invoked. *)
Record ictx := mkI { ix_u : ustate; ix_ctr : Z; ix_new : list sev (* newest first *); ix_cancel : list Z }.

Definition set_u (c : ictx) (u : ustate) : ictx := mkI u (ix_ctr c) (ix_new c) (ix_cancel c).

Definition with_procs u x := mkU (prog u) x (next_pid u) (futs u) (next_fid u) (alls u) (hooks u) (next_hid u) (labels u) (crashed u) (ulog u).
Definition with_futs u x := mkU (prog u) (procs u) (next_pid u) x (next_fid u) (alls u) (hooks u) (next_hid u) (labels u) (crashed u) (ulog u).
Definition with_alls u x := mkU (prog u) (procs u) (next_pid u) (futs u) (next_fid u) x (hooks u) (next_hid u) (labels u) (crashed u) (ulog u).
Definition with_hooks u x := mkU (prog u) (procs u) (next_pid u) (futs u) (next_fid u) (alls u) x (next_hid u) (labels u) (crashed u) (ulog u).
Definition with_labels u x := mkU (prog u) (procs u) (next_pid u) (futs u) (next_fid u) (alls u) (hooks u) (next_hid u) x (crashed u) (ulog u).
Definition with_crashed u x := mkU (prog u) (procs u) (next_pid u) (futs u) (next_fid u) (alls u) (hooks u) (next_hid u) (labels u) x (ulog u).
Definition add_log u x := mkU (prog u) (procs u) (next_pid u) (futs u) (next_fid u) (alls u) (hooks u) (next_hid u) (labels u) (crashed u) (x :: ulog u).

(** Create one event object: consumes a sort index.  [push]: the event goes to
    the heap (returned by the handler or pushed by a future resume). *)
Definition new_ev (time : Z) (daemon : bool) (p : pay) (c : ictx) : ictx * sev :=
  let e := mkEv time (ix_ctr c) daemon p in
  (mkI (ix_u c) (ix_ctr c + 1) (ix_new c) (ix_cancel c), e).
Definition push_ev (e : sev) (c : ictx) : ictx := mkI (ix_u c) (ix_ctr c) (e :: ix_new c) (ix_cancel c).

(** [Event(time=now+dt, ...)] from an emit spec: allocates a hook list when
    the spec has hooks, records the label. *)
Definition create_emit (now : Z) (e : emit) (c : ictx) : ictx * sev :=
  let u := ix_u c in
  let '(u1, hid) :=
    match e_hooks e with
    | [] => (u, -1)
    | hs => (mkU (prog u) (procs u) (next_pid u) (futs u) (next_fid u) (alls u)
                 (aset (next_hid u) hs (hooks u)) (next_hid u + 1) (labels u) (crashed u) (ulog u),
             next_hid u)
    end in
  let p := mkPay (e_type (em e)) (e_target (em e)) hid KPlain in
  let '(c1, x) := new_ev (now + e_dt (em e)) (e_daemon (em e)) p (set_u c u1) in
  let u2 := ix_u c1 in
  let u3 := if e_label e <? 0 then u2 else with_labels u2 (aset (e_label e) (ev_sort x) (labels u2)) in
  (set_u c1 u3, x).

(** Create and push a list of emits, in order. *)
Fixpoint emit_all (now : Z) (es : list emit) (c : ictx) : ictx :=
  match es with
  | [] => c
  | e :: r => let '(c1, x) := create_emit now e c in emit_all now r (push_ev x c1)
  end.

Definition emit0_all (now : Z) (es : list emit0) (c : ictx) : ictx :=
  emit_all now (map (fun e => mkEmit e (-1) []) es) c.

(** [_run_completion_hooks(time)]: copy the list, clear it, run each hook. *)
Definition run_hooks (now hid : Z) (c : ictx) : ictx :=
  if hid <? 0 then c else
  let hs := aget [] hid (hooks (ix_u c)) in
  let c0 := set_u c (with_hooks (ix_u c) (aset hid [] (hooks (ix_u c)))) in
  snd (fold_left (fun (acc : Z * ictx) h =>
                    let '(i, c) := acc in
                    (i + 1, emit0_all now h (set_u c (add_log (ix_u c) (UHook now hid i)))))
                 hs (0, c0)).

(** [SimFuture._resume]: a continuation at the current clock carrying the value. *)
Definition resume (now f pid : Z) (v : val) (c : ictx) : ictx :=
  match alookup pid (procs (ix_u c)) with
  | None => c
  | Some p =>
      let '(c1, x) := new_ev now (pr_daemon p) (mkPay (pr_type p) (pr_target p) (pr_hid p) (KCont pid v)) c in
      let ft := aget fut0 f (futs (ix_u c1)) in
      let u := with_futs (ix_u c1) (aset f (mkFut (f_resolved ft) (f_value ft) None (f_cbs ft)) (futs (ix_u c1))) in
      push_ev x (set_u c1 u)
  end.

Fixpoint set_nth {A} (n : nat) (x : A) (l : list A) : list A :=
  match l, n with
  | [], _ => []
  | _ :: r, O => x :: r
  | y :: r, S n' => y :: set_nth n' x r
  end.

(** One settle callback of [any_of] / [all_of] firing with the settled value
    [v]; [rec] resolves the composite. *)
Definition fire_cb (rec : Z -> val -> ictx -> option ictx) (v : val) (acc : option ictx) (k : cb) : option ictx :=
  match acc with
  | None => None
  | Some c =>
      match k with
      | CbAny comp idx => rec comp (VPair idx v) c
      | CbAll comp idx =>
          if f_resolved (aget fut0 comp (futs (ix_u c))) then Some c else
          let '(res, rem) := aget ([], 0) comp (alls (ix_u c)) in
          let res' := set_nth (Z.to_nat idx) v res in
          let c' := set_u c (with_alls (ix_u c) (aset comp (res', rem - 1) (alls (ix_u c)))) in
          if rem - 1 =? 0 then rec comp (VList res') c' else Some c'
      end
  end.

(** [SimFuture.resolve] with its callback cascade (any_of / all_of).  The
    cascade follows the construction order of composites, so it terminates; the
    model uses explicit fuel and fails ([None]) when it runs out. *)
Fixpoint resolve (fuel : nat) (now f : Z) (v : val) (c : ictx) : option ictx :=
  match fuel with
  | O => None
  | S fuel' =>
      let ft := aget fut0 f (futs (ix_u c)) in
      if f_resolved ft then Some c else
      let c1 := set_u c (with_futs (ix_u c) (aset f (mkFut true v (f_parked ft) (f_cbs ft)) (futs (ix_u c)))) in
      let c2 := match f_parked ft with Some pid => resume now f pid v c1 | None => c1 end in
      let ft2 := aget fut0 f (futs (ix_u c2)) in
      let c3 := set_u c2 (with_futs (ix_u c2) (aset f (mkFut true v (f_parked ft2) []) (futs (ix_u c2)))) in
      fold_left (fire_cb (resolve fuel' now) v) (f_cbs ft) (Some c3)
  end.

(** [_add_settle_callback]: fire now if already resolved, else append. *)
Definition add_cb (fuel : nat) (now f : Z) (k : cb) (c : ictx) : option ictx :=
  let ft := aget fut0 f (futs (ix_u c)) in
  if f_resolved ft then fire_cb (resolve fuel now) (f_value ft) (Some c) k
  else Some (set_u c (with_futs (ix_u c) (aset f (mkFut false (f_value ft) (f_parked ft) (f_cbs ft ++ [k])) (futs (ix_u c))))).

Definition fresh_fut (c : ictx) : ictx * Z :=
  let u := ix_u c in
  (set_u c (mkU (prog u) (procs u) (next_pid u) (aset (next_fid u) fut0 (futs u)) (next_fid u + 1)
                (alls u) (hooks u) (next_hid u) (labels u) (crashed u) (ulog u)), next_fid u).

Fixpoint add_cbs (fuel : nat) (now : Z) (mk : Z -> cb) (i : Z) (ids : list Z) (c : ictx) : option ictx :=
  match ids with
  | [] => Some c
  | f :: r => match add_cb fuel now f (mk i) c with
              | None => None
              | Some c1 => add_cbs fuel now mk (i + 1) r c1
              end
  end.

(** Evaluate a future expression (arguments first, left to right), building
    [any_of] / [all_of] composites.  [None]: ValueError (< 2 inputs) or fuel. *)
Fixpoint eval_f (fuel : nat) (now : Z) (fe : fexpr) (c : ictx) : option (ictx * Z) :=
  let eval_list :=
    (fix go (l : list fexpr) (c : ictx) : option (ictx * list Z) :=
       match l with
       | [] => Some (c, [])
       | x :: r => match eval_f fuel now x c with
                   | None => None
                   | Some (c1, f) => match go r c1 with
                                     | None => None
                                     | Some (c2, fs) => Some (c2, f :: fs)
                                     end
                   end
       end) in
  match fe with
  | FId f => Some (c, f)
  | FAny l =>
      match eval_list l c with
      | None => None
      | Some (c1, ids) =>
          if (Z.of_nat (length ids) <? 2) then None else
          let '(c2, comp) := fresh_fut c1 in
          match add_cbs fuel now (CbAny comp) 0 ids c2 with
          | None => None
          | Some c3 => Some (c3, comp)
          end
      end
  | FAll l =>
      match eval_list l c with
      | None => None
      | Some (c1, ids) =>
          if (Z.of_nat (length ids) <? 2) then None else
          let '(c2, comp) := fresh_fut c1 in
          let c2' := set_u c2 (with_alls (ix_u c2)
                                 (aset comp (map (fun _ => VNone) ids, Z.of_nat (length ids)) (alls (ix_u c2)))) in
          match add_cbs fuel now (CbAll comp) 0 ids c2' with
          | None => None
          | Some c3 => Some (c3, comp)
          end
      end
  end.

(** [SimFuture._park]: RuntimeError when another process is already parked. *)
Definition park (now f pid : Z) (c : ictx) : option ictx :=
  let ft := aget fut0 f (futs (ix_u c)) in
  match f_parked ft with
  | Some _ => if f_resolved ft then None (* unreachable: resume clears it *) else None
  | None =>
      let c1 := set_u c (with_futs (ix_u c) (aset f (mkFut (f_resolved ft) (f_value ft) (Some pid) (f_cbs ft)) (futs (ix_u c)))) in
      if f_resolved ft then Some (resume now f pid (f_value ft) c1) else Some c1
  end.

Definition do_eff (fuel : nat) (now : Z) (x : eff) (c : ictx) : option ictx :=
  match x with
  | ECancel l =>
      match alookup l (labels (ix_u c)) with
      | None => Some c
      | Some id => Some (mkI (ix_u c) (ix_ctr c) (ix_new c) (id :: ix_cancel c))
      end
  | EResolve f v => resolve fuel now f (VInt v) c
  | ESetCrashed ent b =>
      let cr := filter (fun x => negb (x =? ent)) (crashed (ix_u c)) in
      Some (set_u c (with_crashed (ix_u c) (if b then ent :: cr else cr)))
  end.

(** Advance a generator from its current position to the next yield or to its
    end ([ProcessContinuation.invoke] after [process.send]). *)
Fixpoint advance (fuel : nat) (now : Z) (e : sev) (pid : Z) (p : proc) (steps : list gstep) (c : ictx) : option ictx :=
  match steps with
  | [] =>
      (* StopIteration: returned events, then completion hooks, at the continuation's time *)
      let c1 := emit_all now (pr_ret p) c in
      let c2 := set_u c1 (add_log (with_procs (ix_u c1) (filter (fun x => negb (fst x =? pid)) (procs (ix_u c1)))) (UFinish now pid)) in
      Some (run_hooks (ev_time e) (pr_hid p) c2)
  | GEff x :: r =>
      match do_eff fuel now x c with
      | None => None
      | Some c1 => advance fuel now e pid p r c1
      end
  | GYield dt effs :: r =>
      let c1 := emit_all now effs c in
      let '(c2, k) := new_ev (ev_time e + dt) (pr_daemon p)
                             (mkPay (pr_type p) (pr_target p) (pr_hid p) (KCont pid VNone)) c1 in
      let p' := mkProc r (pr_ret p) (pr_type p) (pr_target p) (pr_daemon p) (pr_hid p) in
      Some (push_ev k (set_u c2 (with_procs (ix_u c2) (aset pid p' (procs (ix_u c2))))))
  | GWait fe :: r =>
      match eval_f fuel now fe c with
      | None => None
      | Some (c1, f) =>
          let p' := mkProc r (pr_ret p) (pr_type p) (pr_target p) (pr_daemon p) (pr_hid p) in
          park now f pid (set_u c1 (with_procs (ix_u c1) (aset pid p' (procs (ix_u c1)))))
      end
  end.

Fixpoint do_actions (fuel : nat) (now : Z) (acts : list action) (c : ictx) : option ictx :=
  match acts with
  | [] => Some c
  | AEmit e :: r => let '(c1, x) := create_emit now e c in do_actions fuel now r (push_ev x c1)
  | AEff x :: r => match do_eff fuel now x c with
                   | None => None
                   | Some c1 => do_actions fuel now r c1
                   end
  end.

Definition behaviour_of (u : ustate) (target type : Z) : option behav :=
  alookup type (nth (Z.to_nat target) (prog u) []).

(** Fuel for the future-callback cascade inside one invocation. *)
Definition cascade_fuel : nat := 64.

(** [handle_event] returned a generator: the generator object exists (pid), then
    [_start_process] builds a ProcessContinuation (consuming a sort index) and
    invokes it at once. *)
Definition start_process (now : Z) (e : sev) (steps : list gstep) (ret : list emit) (c0 : ictx) : option ictx :=
  let u := ix_u c0 in
  let p := ev_pay e in
  let pid := next_pid u in
  let pr := mkProc steps ret (p_type p) (p_target p) (ev_daemon e) (p_hid p) in
  let u1 := mkU (prog u) (aset pid pr (procs u)) (pid + 1) (futs u) (next_fid u) (alls u)
                (hooks u) (next_hid u) (labels u) (crashed u) (ulog u) in
  let ck := new_ev (ev_time e) (ev_daemon e) (mkPay (p_type p) (p_target p) (p_hid p) (KCont pid VNone))
                   (set_u c0 u1) in
  let c2 := set_u (fst ck) (add_log (ix_u (fst ck)) (UResume now pid VNone)) in
  advance cascade_fuel now (snd ck) pid pr steps c2.

(** [Event.invoke] / [ProcessContinuation.invoke]. *)
Definition invoke_ctx (u : ustate) (now : Z) (e : sev) (ctr0 : Z) : option ictx :=
  let c0 := mkI u ctr0 [] [] in
  let p := ev_pay e in
  match p_kind p with
  | KCont pid v =>
      match alookup pid (procs u) with
      | None => Some c0
      | Some pr =>
          let c1 := set_u c0 (add_log u (UResume now pid v)) in
          advance cascade_fuel now e pid pr (pr_steps pr) c1
      end
  | KPlain =>
      if existsb (Z.eqb (p_target p)) (crashed u) then Some c0 else
      let u := add_log u (UHandle now (p_target p) (p_type p)) in
      let c0 := set_u c0 u in
      match behaviour_of u (p_target p) (p_type p) with
      | None => Some (run_hooks (ev_time e) (p_hid p) c0)
      | Some (BImm acts) =>
          match do_actions cascade_fuel now acts c0 with
          | None => None
          | Some c1 => Some (run_hooks (ev_time e) (p_hid p) c1)
          end
      | Some (BGen steps ret) => start_process now e steps ret c0
      end
  end.

Definition finish (oc : option ictx) : option (@inv_result pay ustate) :=
  match oc with
  | None => None
  | Some c => Some (mkRes (ix_u c) (rev (ix_new c)) (ix_cancel c) (ix_ctr c))
  end.

Definition invoke_script (u : ustate) (now : Z) (e : sev) (ctr0 : Z) : option (@inv_result pay ustate) :=
  finish (invoke_ctx u now e ctr0).

(* ------------------------------------------------------------------ *)
(** * Whole runs of a scripted simulation *)

(** A pre-run event spec: absolute time, the emit fields, cancelled before the run? *)
Record prespec := mkPre { ps_time : Z; ps_emit : emit; ps_cancel : bool }.

Definition sst := @st pay ustate.

(** Create the pre-run events in order (global counter from 0, i.e. right after
    [Simulation.__init__]), push them, apply pre-run cancellations.  The in-run
    counter continues above them ([_set_active_context] peeks at the per-heap
    counter and re-seeds it above the highest index already pushed). *)
Definition script_init (start : Z) (p : program) (pre : list prespec) : sst :=
  let c := fold_left (fun c ps =>
                        let '(c1, x) := create_emit 0 (mkEmit (mkEmit0 (ps_time ps) (e_target (em (ps_emit ps)))
                                                                  (e_type (em (ps_emit ps))) (e_daemon (em (ps_emit ps))))
                                                           (e_label (ps_emit ps)) (e_hooks (ps_emit ps))) c in
                        let c2 := push_ev x c1 in
                        if ps_cancel ps then mkI (ix_u c2) (ix_ctr c2) (ix_new c2) (ev_sort x :: ix_cancel c2) else c2)
                     pre (mkI (u_init p) 0 [] []) in
  let evs := rev (ix_new c) in
  let ctr0 := ix_ctr c in
  let s := init_state start (ix_u c) evs ctr0 in
  mkSt (clock s) (heap s) (primary s) (ctr s) (ix_cancel c) (user s) (processed s) (ncancelled s) (log s) (pushed s).

Definition script_run (fuel : nat) (start : Z) (end_ns : option Z) (p : program) (pre : list prespec) : @outcome pay ustate :=
  run invoke_script fuel end_ns (script_init start p pre).

(* ------------------------------------------------------------------ *)
(** * Comparison with the implementation (correspondence) *)

(** One observed delivery: time ns, event type, target, 0 = Event / 1 = ProcessContinuation. *)
Definition obs_delivery := (Z * Z * Z * Z)%type.

Definition deliveries_of (s : sst) : list obs_delivery :=
  map (fun e => (ev_time e, p_type (ev_pay e), p_target (ev_pay e),
                 match p_kind (ev_pay e) with KPlain => 0 | KCont _ _ => 1 end))
      (delivered s).

Definition uentry_eqb (a b : uentry) : bool :=
  match a, b with
  | UResume n p v, UResume n' p' v' => (n =? n') && (p =? p') && val_eqb v v'
  | UHook n h i, UHook n' h' i' => (n =? n') && (h =? h') && (i =? i')
  | UFinish n p, UFinish n' p' => (n =? n') && (p =? p')
  | UHandle n g y, UHandle n' g' y' => (n =? n') && (g =? g') && (y =? y')
  | _, _ => false
  end.

Definition del_eqb (a b : obs_delivery) : bool :=
  let '(t, y, g, k) := a in let '(t', y', g', k') := b in (t =? t') && (y =? y') && (g =? g') && (k =? k').

(** Observations of one implementation run: status (0 finished, 1 raised,
    2 watchdog), deliveries, user log, final clock, events processed, events
    cancelled, heap size at the end. *)
Record run_obs := mkObs {
  o_status : Z; o_deliveries : list obs_delivery; o_ulog : list uentry;
  o_clock : Z; o_processed : Z; o_ncancelled : Z; o_heap : Z }.

Definition ok_run (c : nat * (Z * option Z * program * list prespec * run_obs)) : bool :=
  let '(fuel, (start, end_ns, p, pre, o)) := c in
  let out := settle invoke_script end_ns (script_run fuel start end_ns p pre) in
  let s := out_state out in
  let status := match out with Stopped _ => 0 | Raised _ => 1 | Running _ => 2 end in
  (status =? o_status o)
  && list_eqb del_eqb (deliveries_of s) (o_deliveries o)
  && ((status =? 1) || list_eqb uentry_eqb (rev (ulog (user s))) (o_ulog o))
  && (negb (status =? 0) || ((clock s =? o_clock o) && (processed s =? o_processed o)
                        && (ncancelled s =? o_ncancelled o) && (Z.of_nat (length (heap s)) =? o_heap o))).
